package main

import (
	"bytes"
	"encoding/binary"
	"fmt"
	"io"
	"os"
	"path/filepath"
	"sort"
	"strings"

	"github.com/syndtr/goleveldb/leveldb"

	"github.com/zenon-network/go-zenon/common/db"
	"github.com/zenon-network/go-zenon/common/types"
)

// ---------------------------------------------------------------------------------------------------
// crash stream (C08): process death at every point between two successive writes of a commit / rollback.
//
// No call-site instrumentation is needed: goleveldb appends exactly one journal record per Write/Put/Delete
// call and hands it to the OS before the call returns, so the journal of the live database IS the sequence of
// writes the operation issued, and a copy of the directory whose journal is cut after record k is exactly what a
// process killed after its k-th write leaves behind. For every operation of a generated history the harness
//   * parses the journal before/after the operation (number of writes, content of each write batch) and prints
//     it for the Lean model of the write plan,
//   * builds the image for EVERY cut point, reopens it with goleveldb and with db.NewLevelDBManager, and checks
//     the property's sentence: raw key space equals the state before or the state after the operation; frontier
//     pointer, keys and stored undo/redo records agree,
//   * re-delivers the same and a competing transaction on each image and compares with crash-free runs.
// ---------------------------------------------------------------------------------------------------

const jBlock = 32768

// journalRecords returns the end offsets of the complete records of a goleveldb journal file and their payloads.
func journalRecords(path string) (ends []int64, payloads [][]byte, err error) {
	data, err := os.ReadFile(path)
	if err != nil {
		return nil, nil, err
	}
	return journalRecordsBytes(data)
}

// journalRecordsBytes: the parser itself (its reading of real journals is compared with goleveldb's own reader and with the
// Lean model of the format by the jr-* lines of s_crash_journal.go)
func journalRecordsBytes(data []byte) (ends []int64, payloads [][]byte, err error) {
	pos := 0
	var cur []byte
	inRec := false
	for pos+7 <= len(data) {
		left := jBlock - pos%jBlock
		if left < 7 {
			pos += left
			continue
		}
		length := int(binary.LittleEndian.Uint16(data[pos+4 : pos+6]))
		typ := data[pos+6]
		if typ == 0 && length == 0 { // preallocated / zero area
			break
		}
		if pos+7+length > len(data) {
			break
		}
		chunk := data[pos+7 : pos+7+length]
		switch typ {
		case 1: // full
			ends = append(ends, int64(pos+7+length))
			payloads = append(payloads, append([]byte{}, chunk...))
			inRec = false
		case 2: // first
			cur = append([]byte{}, chunk...)
			inRec = true
		case 3: // middle
			if inRec {
				cur = append(cur, chunk...)
			}
		case 4: // last
			if inRec {
				cur = append(cur, chunk...)
				ends = append(ends, int64(pos+7+length))
				payloads = append(payloads, cur)
			}
			inRec = false
		default:
			return ends, payloads, fmt.Errorf("journal: bad chunk type %d at %d", typ, pos)
		}
		pos += 7 + length
	}
	return ends, payloads, nil
}

type rawWrite struct {
	del  bool
	k, v []byte
}

// decodeBatch decodes a journal record payload: seq(8) count(4) then records (type, uvarint klen, key[, uvarint vlen, value])
func decodeBatch(p []byte) ([]rawWrite, error) {
	if len(p) < 12 {
		return nil, fmt.Errorf("short batch")
	}
	n := int(binary.LittleEndian.Uint32(p[8:12]))
	p = p[12:]
	var out []rawWrite
	for i := 0; i < n; i++ {
		if len(p) < 1 {
			return nil, fmt.Errorf("truncated batch")
		}
		t := p[0]
		p = p[1:]
		kl, m := binary.Uvarint(p)
		if m <= 0 || int(kl) > len(p)-m {
			return nil, fmt.Errorf("bad key len")
		}
		k := p[m : m+int(kl)]
		p = p[m+int(kl):]
		w := rawWrite{k: append([]byte{}, k...)}
		if t == 1 {
			vl, m := binary.Uvarint(p)
			if m <= 0 || int(vl) > len(p)-m {
				return nil, fmt.Errorf("bad value len")
			}
			w.v = append([]byte{}, p[m:m+int(vl)]...)
			p = p[m+int(vl):]
		} else {
			w.del = true
		}
		out = append(out, w)
	}
	return out, nil
}

func activeJournal(dir string) (string, error) {
	ents, err := os.ReadDir(dir)
	if err != nil {
		return "", err
	}
	var logs []string
	for _, e := range ents {
		if strings.HasSuffix(e.Name(), ".log") {
			logs = append(logs, e.Name())
		}
	}
	if len(logs) == 0 {
		return "", fmt.Errorf("no journal in %s", dir)
	}
	sort.Strings(logs)
	return filepath.Join(dir, logs[len(logs)-1]), nil
}

func copyDir(src, dst string) error {
	if err := os.MkdirAll(dst, 0o755); err != nil {
		return err
	}
	ents, err := os.ReadDir(src)
	if err != nil {
		return err
	}
	for _, e := range ents {
		if e.Name() == "LOCK" || e.IsDir() {
			continue
		}
		in, err := os.Open(filepath.Join(src, e.Name()))
		if err != nil {
			return err
		}
		out, err := os.Create(filepath.Join(dst, e.Name()))
		if err != nil {
			in.Close()
			return err
		}
		_, err = io.Copy(out, in)
		in.Close()
		out.Close()
		if err != nil {
			return err
		}
	}
	return nil
}

// imageBase: crash images live for milliseconds and are opened several times each (every open of a leveldb directory
// syncs a new table file and manifest): they are kept on a memory file system when there is one. The live database
// stays where TMPDIR points.
var imageBaseDir = func() string {
	const shm = "/dev/shm"
	if os.Getenv("ZVH_IMAGES_ON_DISK") == "" {
		if d, err := os.MkdirTemp(shm, "zvprobe"); err == nil {
			os.Remove(d)
			return shm
		}
	}
	return ""
}()

func imageBase() string { return imageBaseDir }

// crashImage copies the live directory and cuts the active journal at `cut` bytes.
func crashImage(live, journal string, cut int64) (string, error) {
	img, err := os.MkdirTemp(imageBase(), "zvimg")
	if err != nil {
		return "", err
	}
	if err := copyDir(live, img); err != nil {
		return img, err
	}
	if cut >= 0 {
		if err := os.Truncate(filepath.Join(img, filepath.Base(journal)), cut); err != nil {
			return img, err
		}
	}
	return img, nil
}

// rawDump opens an image with goleveldb and renders its whole key space canonically.
func rawDump(img string) (string, error) {
	ldb, err := leveldb.OpenFile(img, nil)
	if err != nil {
		return "", err
	}
	defer ldb.Close()
	it := ldb.NewIterator(nil, nil)
	defer it.Release()
	var sb strings.Builder
	for it.Next() {
		sb.WriteString(hx(it.Key()))
		sb.WriteByte('=')
		sb.WriteString(hx(it.Value()))
		sb.WriteByte('\n')
	}
	return sb.String(), it.Error()
}

// consistent: frontier pointer, keys and stored undo/redo information of a reopened image agree with each other
func imageConsistency(img string) string {
	var msg string
	p := safely(func() {
		m := db.NewLevelDBManager(img)
		defer m.Stop()
		f := m.Frontier()
		id := db.GetFrontierIdentifier(f)
		if !id.IsZero() {
			if m.GetPatch(id) == nil {
				msg = fmt.Sprintf("frontier is %s but no redo patch is stored for its height", idStr(id))
				return
			}
			// the frontier's own hash index entry must exist
			if x, err := db.GetIdentifierByHash(f, id.Hash); err != nil || *x != id {
				msg = fmt.Sprintf("frontier is %s but its hash index entry is missing", idStr(id))
				return
			}
		}
		above := types.HashHeight{Height: id.Height + 1}
		if m.GetPatch(above) != nil {
			msg = fmt.Sprintf("frontier is %s but a redo patch for height %d is stored", idStr(id), above.Height)
			return
		}
		// popping must be possible (undo record present and applicable) unless the store is empty
		if !id.IsZero() {
			if err := m.Pop(); err != nil {
				msg = fmt.Sprintf("frontier is %s but it cannot be rolled back: %v", idStr(id), err)
			}
		}
	})
	if p != "" {
		return "panic on reopen: " + p
	}
	return msg
}

// symbolic rendering of keys/values of the frontier key space: the three bookkeeping keys of store.go are printed
// structurally (M0 = frontier identifier, M1:<hash> = height by hash, M2:<height> = entry by height)
func symKey(k []byte) string {
	switch {
	case len(k) == 1 && k[0] == 0:
		return "M0"
	case len(k) == 33 && k[0] == 1:
		return "M1:" + hx(k[1:9])
	case len(k) == 9 && k[0] == 2:
		return fmt.Sprintf("M2:%d", binary.BigEndian.Uint64(k[1:]))
	}
	return hx(k)
}
func symVal(k, v []byte) string {
	switch {
	case len(k) == 1 && k[0] == 0:
		hh, err := types.DeserializeHashHeight(v)
		if err != nil {
			return "?" + hx(v)
		}
		return fmt.Sprintf("%d:%s", hh.Height, hx(hh.Hash[:8]))
	case len(k) == 33 && k[0] == 1 && len(v) == 8:
		return fmt.Sprint(binary.BigEndian.Uint64(v))
	case len(k) == 9 && k[0] == 2 && len(v) >= 5:
		return hx(v[5:])
	}
	return hx(v)
}
func symOps(dump []byte) string {
	p, err := db.NewPatchFromDump(dump)
	if err != nil {
		return "?" + hx(dump)
	}
	var parts []string
	for _, o := range patchOps(p) {
		if o.del {
			parts = append(parts, "d:"+symKey(o.k))
		} else {
			parts = append(parts, "p:"+symKey(o.k)+"="+symVal(o.k, o.v))
		}
	}
	return "[" + strings.Join(parts, ",") + "]"
}

func writesString(ws []rawWrite) string {
	var parts []string
	for _, w := range ws {
		switch {
		case len(w.k) == 9 && (w.k[0] == 0x66 || w.k[0] == 0x77):
			tag := "R"
			if w.k[0] == 0x77 {
				tag = "U"
			}
			h := binary.BigEndian.Uint64(w.k[1:])
			if w.del {
				parts = append(parts, fmt.Sprintf("%s%d=DEL", tag, h))
			} else {
				parts = append(parts, fmt.Sprintf("%s%d=%s", tag, h, symOps(w.v)))
			}
		case len(w.k) >= 1 && w.k[0] == 0x55 && !w.del:
			k := w.k[1:]
			val := "T"
			if len(w.v) > 0 {
				if userKey(k) {
					val = hx(w.v)
				} else {
					val = symVal(k, w.v[1:])
				}
			}
			parts = append(parts, "F"+symKey(k)+"="+val)
		default:
			if w.del {
				parts = append(parts, "RAWDEL:"+hx(w.k))
			} else {
				parts = append(parts, "RAWPUT:"+hx(w.k)+"="+hx(w.v))
			}
		}
	}
	if len(parts) == 0 {
		return "none"
	}
	return strings.Join(parts, ",")
}

func init() {
	register("crash", func(c *Ctx) {
		jrResetBudget(c)
		if c.Args["journal"] != "off" {
			for i := 0; i < 3+c.N/100; i++ {
				crashJournalSynthetic(c, i)
			}
		}
		for seq := 0; seq < c.N; seq++ {
			crashSequence(c, seq, nil)
		}
		// long histories: one chain per 25 sequences grown across every depth threshold of common/db/versioned_db.go
		if c.Args["deep"] != "off" {
			for i := 0; i < 1+c.N/100; i++ {
				crashSequence(c, c.N+i, crashDeepSchedule(c, i))
			}
		}
	})
}

// crashStep: one step of a scheduled history. full = the whole crash machinery (image per cut point, continuation, torn
// images); otherwise only the journal is watched (one operation = one journal record, images only if there are more).
type crashStep struct {
	kind string // "add", "pop", "readd" (re-deliver the momentum that was rolled back last)
	full bool
}

// crashDepthThresholds: every depth the code of the versioned store treats specially (cache window, sizes of the two cache
// levels), their sum and the double window - read from the package, not written down here.
func crashDepthThresholds() []int {
	l1, l2, md := db.CacheConstantsVerif()
	set := map[int]bool{}
	for _, t := range []int{l2, md, l1, l1 + l2, 2 * md} {
		if t >= 3 && t <= 1200 {
			set[t] = true
		}
	}
	var out []int
	for t := range set {
		out = append(out, t)
	}
	sort.Ints(out)
	return out
}

// crashDeepSchedule: small commits up to two past the largest threshold; around every threshold t the commits of height
// t-1 … t+2 get the whole crash machinery, the commit of height t+1 is also rolled back and delivered again; every
// variant > 0 shifts the windows by one so that successive deep sequences do not repeat the same heights only.
func crashDeepSchedule(c *Ctx, variant int) []crashStep {
	ts := crashDepthThresholds()
	if len(ts) == 0 {
		return nil
	}
	inWindow := func(h int) (bool, bool) {
		for _, t := range ts {
			t += variant % 3
			if h >= t-1 && h <= t+2 {
				return true, h == t+1
			}
		}
		return false, false
	}
	var sched []crashStep
	top := ts[len(ts)-1] + 2 + variant%3
	for h := 1; h <= top; h++ {
		full, cycle := inWindow(h)
		sched = append(sched, crashStep{kind: "add", full: full})
		if cycle {
			sched = append(sched, crashStep{kind: "pop", full: true}, crashStep{kind: "readd", full: true})
		} else if !full && c.R.Intn(40) == 0 {
			// a rollback and the same momentum again somewhere between the windows (journal watched only)
			sched = append(sched, crashStep{kind: "pop"}, crashStep{kind: "readd"})
		}
	}
	return sched
}

// logicalDump: a raw dump without the deletion markers of the frontier key space (a rolled back key stays in leveldb as
// the empty raw value; a node that never saw the rolled back momentum does not hold the key at all)
func logicalDump(raw string) string {
	var sb strings.Builder
	for _, line := range strings.Split(raw, "\n") {
		if strings.HasPrefix(line, "55") && strings.HasSuffix(line, "=-") {
			continue
		}
		if line != "" {
			sb.WriteString(line)
			sb.WriteByte('\n')
		}
	}
	return sb.String()
}

// firstDiffLine: the first line in which two dumps differ (for messages)
func firstDiffLine(a, b string) string {
	la, lb := strings.Split(a, "\n"), strings.Split(b, "\n")
	for i := 0; i < len(la) || i < len(lb); i++ {
		var x, y string
		if i < len(la) {
			x = la[i]
		}
		if i < len(lb) {
			y = lb[i]
		}
		if x != y {
			if len(x) > 120 {
				x = x[:120] + "…"
			}
			if len(y) > 120 {
				y = y[:120] + "…"
			}
			return fmt.Sprintf("entry %d: [%s] vs [%s]", i, x, y)
		}
	}
	return "equal"
}

func errText(err error) string {
	if err == nil {
		return "ok"
	}
	return err.Error()
}

type crashCommit struct {
	prev, id types.HashHeight
	ops      []kvOp
}

func crashMkTx(cm crashCommit) *vTx {
	p := db.NewPatch()
	for _, o := range cm.ops {
		if o.del {
			p.Delete(o.k)
		} else {
			p.Put(o.k, o.v)
		}
	}
	return &vTx{commits: []db.Commit{&vCommit{id: cm.id, prev: cm.prev}}, patch: p}
}

// crashDeliver hands a commit to a manager the way the chain layer does and states the acknowledgement clause: a delivery
// on top of the current frontier that is acknowledged (nil error) must have moved the frontier pointer to the commit.
func crashDeliver(mm db.Manager, cm crashCommit) error {
	was := db.GetFrontierIdentifier(mm.Frontier())
	if err := mm.Add(crashMkTx(cm)); err != nil {
		return err
	}
	now := db.GetFrontierIdentifier(mm.Frontier())
	if was == cm.prev && now != cm.id {
		return fmt.Errorf("delivery of %s on its parent %s was acknowledged without error but the frontier pointer is %s", idStr(cm.id), idStr(cm.prev), idStr(now))
	}
	return nil
}

func crashSequence(c *Ctx, seq int, sched []crashStep) {
	dir, err := os.MkdirTemp("", "zvcrash")
	if err != nil {
		panic(err)
	}
	defer os.RemoveAll(dir)
	m := db.NewLevelDBManager(dir)
	defer func() { safely(func() { m.Stop() }) }()
	c.Emit("vdb-reset")
	journal, err := activeJournal(dir)
	if err != nil {
		c.Fail("crash seq=%d: %v", seq, err)
		return
	}
	deep := sched != nil
	var chain []crashCommit
	counter := uint64(seq)<<32 | 1<<31
	newHash := func() types.Hash {
		counter++
		var h types.Hash
		binary.BigEndian.PutUint64(h[:8], counter)
		h[31] = 1
		return h
	}
	frontierID := func() types.HashHeight {
		if len(chain) == 0 {
			return types.ZeroHashHeight
		}
		return chain[len(chain)-1].id
	}
	verKey := func(id types.HashHeight) string {
		if id.IsZero() {
			return "0:"
		}
		return idStr(id)
	}
	genOps := func(min int) []kvOp {
		n := min + c.R.Intn(5)
		if deep {
			n = min + c.R.Intn(3)
		}
		ops := make([]kvOp, 0, n)
		for i := 0; i < n; i++ {
			if c.R.Intn(4) == 0 {
				ops = append(ops, kvOp{del: true, k: vdbKey(c)})
			} else {
				ops = append(ops, kvOp{k: vdbKey(c), v: vdbVal(c)})
			}
		}
		return ops
	}
	snapshotRaw := func() (string, bool) {
		img, err := crashImage(dir, journal, -1)
		defer os.RemoveAll(img)
		if err != nil {
			c.Fail("crash seq=%d: image: %v", seq, err)
			return "", false
		}
		raw, err := rawDump(img)
		if err != nil {
			c.Fail("crash seq=%d: dump: %v", seq, err)
			return "", false
		}
		return raw, true
	}
	// runOn: an image of the live directory with the journal cut at `cut` (-1: not cut = the node that did not crash) is
	// reopened by the real manager, the script runs on it, the manager is stopped and the whole raw key space returned.
	runOn := func(cut int64, script func(mm db.Manager) error) (raw string, serr error, ok bool) {
		img, err := crashImage(dir, journal, cut)
		defer os.RemoveAll(img)
		if err != nil {
			return "", nil, false
		}
		if p := safely(func() {
			mm := db.NewLevelDBManager(img)
			serr = script(mm)
			mm.Stop()
		}); p != "" {
			return "", fmt.Errorf("panic: %s", firstLine(p)), true
		}
		raw, err = rawDump(img)
		return raw, serr, err == nil
	}

	var lastPopped *crashCommit     // the momentum rolled back last, while its parent is still the frontier
	addedRaw := map[string]string{} // identifier -> raw key space right after its (first) commit, small states only
	addedStep := map[string]int{}   // identifier -> step of its latest commit
	poppedStep := map[string]int{}  // identifier -> step of its latest rollback
	nops := 8 + c.R.Intn(8)
	if deep {
		nops = len(sched)
	}
	bigAt := -1
	if seq%6 == 2 && !deep {
		bigAt = 2 + c.R.Intn(3) // one unusually large commit (megabytes) in this sequence, later rolled back
	}
	for step := 0; step < nops; step++ {
		kind, full := "add", true
		if deep {
			kind, full = sched[step].kind, sched[step].full
			if kind == "pop" && len(chain) == 0 || kind == "readd" && (lastPopped == nil || lastPopped.prev != frontierID()) {
				kind = "add"
			}
		} else {
			if len(chain) > 0 && c.R.Intn(3) == 0 {
				kind = "pop"
			}
			if step == bigAt {
				kind = "add"
			}
			if step == bigAt+1 && bigAt >= 0 {
				kind = "pop" // roll the large commit back: the rollback is as large as the commit
			}
			// the momentum that was rolled back last is delivered again - same identifier, same content (the network settled
			// on its branch after all); its descendants follow as ordinary commits of the later steps
			if kind == "add" && lastPopped != nil && lastPopped.prev == frontierID() && c.R.Intn(2) == 0 {
				kind = "readd"
			}
		}
		if j2, err := activeJournal(dir); err == nil && j2 != journal {
			journal = j2 // leveldb rotated its journal (memtable flushed)
			c.Hit("journal-rotated")
		}
		var before string
		if full {
			var ok bool
			if before, ok = snapshotRaw(); !ok {
				return
			}
		}
		endsBefore, _, err := journalRecords(journal)
		if err != nil {
			c.Fail("crash seq=%d: %v", seq, err)
			return
		}
		var opDesc string
		var redo func(mm db.Manager) error    // the same operation, for re-delivery on an image in the before-state
		var compete func(mm db.Manager) error // a competing operation from the before-state
		// cycle: on a node in the AFTER-state of the operation: roll the momentum back (if the operation was its commit),
		// deliver the very same momentum again, then a descendant. never: the descendant alone on a node that never rolled back.
		var cycle, never func(mm db.Manager) error
		var neverOnBefore bool       // `never` runs on the before-state (rollback) / on the after-state (commit)
		var reached types.HashHeight // the frontier the operation leaves
		prev := frontierID()
		var cur crashCommit
		if kind == "pop" {
			opDesc = "vdb-pop"
			if err := m.Pop(); err != nil {
				c.Fail("crash seq=%d: pop failed: %v", seq, err)
				return
			}
			popped := chain[len(chain)-1]
			chain = chain[:len(chain)-1]
			lastPopped = &popped
			poppedStep[idStr(popped.id)] = step
			reached = frontierID()
			redo = func(mm db.Manager) error { return mm.Pop() }
			comp := crashCommit{prev: prev, id: types.HashHeight{Height: prev.Height + 1, Hash: newHash()}, ops: genOps(1)}
			compete = func(mm db.Manager) error { return mm.Add(crashMkTx(comp)) }
			desc := crashCommit{prev: popped.id, id: types.HashHeight{Height: popped.id.Height + 1, Hash: newHash()}, ops: genOps(1)}
			cycle = func(mm db.Manager) error {
				if db.GetFrontierIdentifier(mm.Frontier()) == popped.id {
					if err := mm.Pop(); err != nil {
						return err
					}
				}
				if err := crashDeliver(mm, popped); err != nil {
					return err
				}
				return crashDeliver(mm, desc)
			}
			never = func(mm db.Manager) error { return crashDeliver(mm, desc) }
			neverOnBefore = true
			c.Hit("pop")
		} else {
			if kind == "readd" {
				cur = *lastPopped
				c.Hit("add-redelivered-after-rollback")
			} else {
				cur = crashCommit{prev: prev, id: types.HashHeight{Height: prev.Height + 1, Hash: newHash()}}
				ops := genOps(0)
				if !deep && c.R.Intn(3) == 0 {
					ops = append(ops, genOps(3)...)
				}
				if deep {
					// small
				} else if step == bigAt {
					// 1–1.5 MiB of values (a 2–3 MiB batch with the redo record: below goleveldb's 4 MiB write buffer, so it goes
					// through the journal); every third of these is three times larger and takes goleveldb's large-batch
					// transaction path, which bypasses the journal (only the end points can be examined then)
					nk := 256 + c.R.Intn(128)
					if seq%18 == 2 {
						nk *= 3
					}
					for i := 0; i < nk; i++ {
						v := make([]byte, 4096)
						c.R.Read(v)
						k := append([]byte{4, 9}, byte(i>>8), byte(i))
						ops = append(ops, kvOp{k: k, v: v})
					}
					c.Hit("add-megabytes")
				} else if c.R.Intn(4) == 0 {
					// the size of a momentum's batch on a busy ledger (redo + undo + keys: 40-250 KiB): the journal record spans
					// 2-8 blocks of the journal file, each handed to the file with its own write(2)
					total := 12000 + c.R.Intn(70000)
					for i := 0; total > 0; i++ {
						v := make([]byte, 300+c.R.Intn(6000))
						c.R.Read(v)
						ops = append(ops, kvOp{k: append([]byte{4, 7}, byte(i>>8), byte(i)), v: v})
						total -= len(v)
					}
					c.Hit("add-tens-of-kilobytes")
				} else if c.R.Intn(10) == 0 {
					// a few hundred kilobytes
					for i := 0; i < 40+c.R.Intn(60); i++ {
						v := make([]byte, 2048+c.R.Intn(4096))
						c.R.Read(v)
						ops = append(ops, kvOp{k: append([]byte{4, 8}, byte(i)), v: v})
					}
					c.Hit("add-hundreds-of-kilobytes")
				}
				cur.ops = ops
			}
			lastPopped = nil
			opDesc = fmt.Sprintf("vdb-add %s %s %s", verKey(cur.prev), idStr(cur.id), opsString(cur.ops, false))
			if err := crashDeliver(m, cur); err != nil {
				c.Fail("crash seq=%d step=%d height=%d op=[%.300s]: %v", seq, step, cur.id.Height, opDesc, err)
				return
			}
			chain = append(chain, cur)
			reached = cur.id
			this := cur
			redo = func(mm db.Manager) error { return mm.Add(crashMkTx(this)) }
			comp := crashCommit{prev: prev, id: types.HashHeight{Height: prev.Height + 1, Hash: newHash()}, ops: genOps(1)}
			compete = func(mm db.Manager) error { return mm.Add(crashMkTx(comp)) }
			desc := crashCommit{prev: this.id, id: types.HashHeight{Height: this.id.Height + 1, Hash: newHash()}, ops: genOps(1)}
			cycle = func(mm db.Manager) error {
				if db.GetFrontierIdentifier(mm.Frontier()) != this.id {
					return fmt.Errorf("not in the after-state")
				}
				if err := mm.Pop(); err != nil {
					return err
				}
				if err := crashDeliver(mm, this); err != nil {
					return err
				}
				return crashDeliver(mm, desc)
			}
			never = func(mm db.Manager) error { return crashDeliver(mm, desc) }
			c.Hit("add")
			if len(cur.ops) >= 2 {
				c.Hit("add-multi-key")
			}
		}
		if len(chain) > 0 {
			c.Stats["max-height"] = maxInt(c.Stats["max-height"], int(chain[len(chain)-1].id.Height))
		}
		if j2, jerr := activeJournal(dir); jerr == nil && j2 != journal {
			// leveldb froze its memtable and switched to a new journal during the operation
			// (goleveldb switches BEFORE it writes a batch that does not fit the memtable: the operation's writes are the
			// records of the new journal; everything older is in the frozen memtable / its table file)
			journal = j2
			endsBefore = nil
			c.Hit("journal-rotated-during-op")
		}
		var after string
		if full {
			var ok bool
			if after, ok = snapshotRaw(); !ok {
				return
			}
		}
		endsAfter, payloads, err := journalRecords(journal)
		if err != nil {
			c.Fail("crash seq=%d: %v", seq, err)
			return
		}
		nb, na := len(endsBefore), len(endsAfter)
		// the write plan as observed in the journal, for the model
		var plan []string
		for i := nb; i < na; i++ {
			ws, err := decodeBatch(payloads[i])
			if err != nil {
				c.Fail("crash seq=%d: journal record %d: %v", seq, i, err)
				return
			}
			plan = append(plan, writesString(ws))
		}
		c.Emit("%s | ok", opDesc)
		if full && na-nb == 0 && before != after {
			// goleveldb wrote the batch as a table-file transaction (batch larger than the write buffer): no journal record
			c.Emit("crash-plan-large | ok")
			c.Hit("large-batch-transaction")
			continue
		}
		c.Emit("crash-plan | %d %s", na-nb, strings.Join(plan, " ; "))
		c.HitN("journal-writes", na-nb)
		cutBefore := int64(0)
		if nb > 0 {
			cutBefore = endsBefore[nb-1]
		}
		where := fmt.Sprintf("crash seq=%d step=%d height=%d op=[%.300s]", seq, step, reached.Height, opDesc)

		if !full {
			// journal watched only: one operation = one journal record. When there are more, the images between the records are
			// materialised and compared with the state before / after, like in the full mode.
			c.Hit("journal-only-step")
			if na-nb != 1 {
				if na-nb > 1 {
					b0, _, ok0 := runOn(cutBefore, func(db.Manager) error { return nil })
					a0, _, ok1 := runOn(-1, func(db.Manager) error { return nil })
					for k := nb + 1; k < na && ok0 && ok1; k++ {
						r0, _, ok2 := runOn(endsAfter[k-1], func(db.Manager) error { return nil })
						if ok2 && r0 != b0 && r0 != a0 {
							c.Fail("%s: process death after write %d of %d leaves a store that is neither the state before nor the state after the operation (differs from the state after: %s)", where, k-nb, na-nb, firstDiffLine(r0, a0))
							return
						}
					}
				}
				c.Fail("%s: the operation reached leveldb as %d journal records (write calls) instead of one: [%.400s]", where, na-nb, strings.Join(plan, " ; "))
				return
			}
			continue
		}
		if kind != "pop" {
			key := idStr(cur.id)
			if first, seen := addedRaw[key]; seen && kind == "readd" {
				// the momentum is back: the store must again be what it was after its first delivery - the whole raw key space
				// when nothing but its own rollback happened in between, else everything but the deletion markers
				if addedStep[key]+1 == poppedStep[key] && poppedStep[key]+1 == step {
					if after != first {
						c.Fail("%s: the momentum was committed, rolled back and delivered again: the store differs from the store after its first delivery (%s)", where, firstDiffLine(after, first))
						return
					}
					c.Hit("redelivered-after-rollback-raw-equal")
				} else if logicalDump(after) != logicalDump(first) {
					c.Fail("%s: the momentum was committed, rolled back and delivered again later: the store differs from the store after its first delivery (%s)", where, firstDiffLine(logicalDump(after), logicalDump(first)))
					return
				} else {
					c.Hit("redelivered-after-rollback-logical-equal")
				}
			} else if len(after) < 1<<20 {
				addedRaw[key] = after
			}
			addedStep[key] = step
		}

		// crash-free reference results of re-delivery / competition
		competeRef, _, haveCompete := runOn(cutBefore, compete)                  // from the before-state
		competeRefAfter, competeErrAfter, haveCompeteAfter := runOn(-1, compete) // from the after-state (stale or unknown parent there)
		var redoRefAfter string
		var redoErrAfter error
		haveRedoAfter := false
		if kind != "pop" {
			redoRefAfter, redoErrAfter, haveRedoAfter = runOn(-1, redo) // the commit delivered twice to a node that did not crash
		}
		cycleRef, cerr, haveCycle := runOn(-1, cycle)
		if haveCycle && cerr != nil {
			c.Fail("%s: on a node that did not crash, rolling the momentum back and delivering the same momentum and a descendant again fails: %v", where, cerr)
			return
		}
		neverCut := int64(-1)
		if neverOnBefore {
			neverCut = cutBefore
		}
		neverRef, nerr, haveNever := runOn(neverCut, never)
		if haveCycle && haveNever && nerr == nil && cycleRef != neverRef {
			c.Fail("%s: a node that rolled the momentum back and was given the same momentum and a descendant again differs from a node that never rolled back (%s)", where, firstDiffLine(cycleRef, neverRef))
			return
		}
		if haveCycle && haveNever {
			c.Hit("rollback-redeliver-descendant-equals-never-rolled-back")
		}

		// every cut point: after k of the operation's writes, k = 0 … n
		for k := nb; k <= na; k++ {
			cut := int64(0)
			if k > 0 {
				cut = endsAfter[k-1]
			}
			img, err := crashImage(dir, journal, cut)
			if err != nil {
				os.RemoveAll(img)
				c.Fail("crash seq=%d: image: %v", seq, err)
				return
			}
			raw, err := rawDump(img)
			if err != nil {
				os.RemoveAll(img)
				c.Fail("%s cut after write %d/%d: image does not open: %v", where, k-nb, na-nb, err)
				return
			}
			c.Hit("crash-image")
			if k > nb && k < na {
				c.Hit("crash-image-intermediate")
			}
			isBefore, isAfter := raw == before, raw == after
			if !isBefore && !isAfter {
				os.RemoveAll(img)
				c.Fail("%s: process death after write %d of %d leaves a store that is neither the state before nor the state after the operation (differs from the state after: %s)", where, k-nb, na-nb, firstDiffLine(raw, after))
				return
			}
			if msg := imageConsistency(img); msg != "" {
				os.RemoveAll(img)
				c.Fail("%s: process death after write %d of %d: %s", where, k-nb, na-nb, msg)
				return
			}
			os.RemoveAll(img)
			at := fmt.Sprintf("process death at write %d of %d", k-nb, na-nb)
			// continue from the crash image: re-deliver the same operation / a competing one
			if isBefore && !isAfter {
				raw2, rerr, ok := runOn(cut, redo)
				if rerr != nil || !ok || raw2 != after {
					c.Fail("%s: re-delivery after %s does not reach the crash-free state (err=%v)", where, at, rerr)
					return
				}
				c.Hit("redelivered")
				if haveCompete {
					raw3, cerr, ok := runOn(cut, compete)
					if cerr != nil || !ok || raw3 != competeRef {
						c.Fail("%s: a competing commit after %s does not reach the crash-free state (err=%v)", where, at, cerr)
						return
					}
					c.Hit("competing-delivered")
				}
			}
			if isAfter && !isBefore {
				if haveRedoAfter {
					raw2, rerr, ok := runOn(cut, redo)
					if errText(rerr) != errText(redoErrAfter) || !ok || raw2 != redoRefAfter {
						c.Fail("%s: the commit delivered again after %s (store already in the after-state) does not reach the state of a node that did not crash (err=%v; %s)", where, at, rerr, firstDiffLine(raw2, redoRefAfter))
						return
					}
					c.Hit("redelivered-on-after-state")
				}
				if haveCompeteAfter {
					raw3, cerr, ok := runOn(cut, compete)
					if errText(cerr) != errText(competeErrAfter) || !ok || raw3 != competeRefAfter {
						c.Fail("%s: a competing commit after %s (store already in the after-state) does not reach the state of a node that did not crash (err=%v)", where, at, cerr)
						return
					}
					c.Hit("competing-on-after-state")
				}
			}
			// complete the operation if need be, then: roll back (commit) / - (rollback), the SAME momentum again, a descendant
			if haveCycle {
				raw4, yerr, ok := runOn(cut, func(mm db.Manager) error {
					if isBefore && !isAfter {
						if err := redo(mm); err != nil {
							return err
						}
					}
					return cycle(mm)
				})
				if yerr != nil || !ok || raw4 != cycleRef {
					c.Fail("%s: after %s the node is restarted, the operation completed, then the momentum is rolled back / delivered again with a descendant: this does not reach the state of a node that did not crash (err=%v; %s)", where, at, yerr, firstDiffLine(raw4, cycleRef))
					return
				}
				c.Hit("rollback-redeliver-descendant-on-image")
			}
		}
		// one operation = one journal record (write call); more than one is reported here if the images between them happened to be admissible
		if na-nb != 1 && before != after {
			c.Fail("%s: the operation reached leveldb as %d journal records (write calls) instead of one: [%.400s]", where, na-nb, strings.Join(plan, " ; "))
			return
		}
		// process death inside one of the operation's writes (between the write(2) calls of a journal record, short writes)
		if na > nb && c.Args["torn"] != "off" {
			if !crashTornImages(c, seq, dir, journal, opDesc, cutBefore, endsAfter[na-1], before, after, redo) {
				return
			}
		}
		// the journal layer itself: goleveldb's reader, the harness parser and the Lean model on the same bytes
		if na > nb && c.Args["journal"] != "off" && !deep {
			crashJournalLines(c, seq, step, journal, cutBefore, endsAfter[na-1])
		}
	}

	// a fresh node that is only ever given the final chain: same frontier pointer, same keys, same undo / redo records -
	// the deletion markers the rollbacks of this history left behind are the only admissible difference
	if len(chain) > 0 {
		live, ok := snapshotRaw()
		if !ok {
			return
		}
		fdir, err := os.MkdirTemp(imageBase(), "zvfresh")
		if err != nil {
			return
		}
		defer os.RemoveAll(fdir)
		var ferr error
		if p := safely(func() {
			fm := db.NewLevelDBManager(fdir)
			defer fm.Stop()
			for _, cm := range chain {
				if ferr = crashDeliver(fm, cm); ferr != nil {
					return
				}
			}
		}); p != "" {
			ferr = fmt.Errorf("panic: %s", firstLine(p))
		}
		if ferr != nil {
			c.Fail("crash seq=%d: a fresh node refuses the final chain of the history: %v", seq, ferr)
			return
		}
		fresh, err := rawDump(fdir)
		if err != nil {
			c.Fail("crash seq=%d: fresh node: %v", seq, err)
			return
		}
		if logicalDump(fresh) != logicalDump(live) {
			c.Fail("crash seq=%d: after the whole history (%d momentums kept, rollbacks and re-deliveries on the way) the store differs from a fresh node that was only given the final chain (%s)", seq, len(chain), firstDiffLine(logicalDump(live), logicalDump(fresh)))
			return
		}
		c.Hit("final-chain-equals-fresh-node")
	}
}

var _ = bytes.Equal
