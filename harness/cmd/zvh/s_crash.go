package main

import (
	"bytes"
	"encoding/binary"
	"fmt"
	"io"
	"os"
	"path/filepath"
	"sort"
	"strings"

	"github.com/syndtr/goleveldb/leveldb"

	"github.com/zenon-network/go-zenon/common/db"
	"github.com/zenon-network/go-zenon/common/types"
)

// ---------------------------------------------------------------------------------------------------
// crash stream (C08): process death at every point between two successive writes of a commit / rollback.
//
// No call-site instrumentation is needed: goleveldb appends exactly one journal record per Write/Put/Delete
// call and hands it to the OS before the call returns, so the journal of the live database IS the sequence of
// writes the operation issued, and a copy of the directory whose journal is cut after record k is exactly what a
// process killed after its k-th write leaves behind. For every operation of a generated history the harness
//   * parses the journal before/after the operation (number of writes, content of each write batch) and prints
//     it for the Lean model of the write plan,
//   * builds the image for EVERY cut point, reopens it with goleveldb and with db.NewLevelDBManager, and checks
//     the property's sentence: raw key space equals the state before or the state after the operation; frontier
//     pointer, keys and stored undo/redo records agree,
//   * re-delivers the same and a competing transaction on each image and compares with crash-free runs.
// ---------------------------------------------------------------------------------------------------

const jBlock = 32768

// journalRecords returns the end offsets of the complete records of a goleveldb journal file and their payloads.
func journalRecords(path string) (ends []int64, payloads [][]byte, err error) {
	data, err := os.ReadFile(path)
	if err != nil {
		return nil, nil, err
	}
	return journalRecordsBytes(data)
}

// journalRecordsBytes: the parser itself (its reading of real journals is compared with goleveldb's own reader and with the
// Lean model of the format by the jr-* lines of s_crash_journal.go)
func journalRecordsBytes(data []byte) (ends []int64, payloads [][]byte, err error) {
	pos := 0
	var cur []byte
	inRec := false
	for pos+7 <= len(data) {
		left := jBlock - pos%jBlock
		if left < 7 {
			pos += left
			continue
		}
		length := int(binary.LittleEndian.Uint16(data[pos+4 : pos+6]))
		typ := data[pos+6]
		if typ == 0 && length == 0 { // preallocated / zero area
			break
		}
		if pos+7+length > len(data) {
			break
		}
		chunk := data[pos+7 : pos+7+length]
		switch typ {
		case 1: // full
			ends = append(ends, int64(pos+7+length))
			payloads = append(payloads, append([]byte{}, chunk...))
			inRec = false
		case 2: // first
			cur = append([]byte{}, chunk...)
			inRec = true
		case 3: // middle
			if inRec {
				cur = append(cur, chunk...)
			}
		case 4: // last
			if inRec {
				cur = append(cur, chunk...)
				ends = append(ends, int64(pos+7+length))
				payloads = append(payloads, cur)
			}
			inRec = false
		default:
			return ends, payloads, fmt.Errorf("journal: bad chunk type %d at %d", typ, pos)
		}
		pos += 7 + length
	}
	return ends, payloads, nil
}

type rawWrite struct {
	del  bool
	k, v []byte
}

// decodeBatch decodes a journal record payload: seq(8) count(4) then records (type, uvarint klen, key[, uvarint vlen, value])
func decodeBatch(p []byte) ([]rawWrite, error) {
	if len(p) < 12 {
		return nil, fmt.Errorf("short batch")
	}
	n := int(binary.LittleEndian.Uint32(p[8:12]))
	p = p[12:]
	var out []rawWrite
	for i := 0; i < n; i++ {
		if len(p) < 1 {
			return nil, fmt.Errorf("truncated batch")
		}
		t := p[0]
		p = p[1:]
		kl, m := binary.Uvarint(p)
		if m <= 0 || int(kl) > len(p)-m {
			return nil, fmt.Errorf("bad key len")
		}
		k := p[m : m+int(kl)]
		p = p[m+int(kl):]
		w := rawWrite{k: append([]byte{}, k...)}
		if t == 1 {
			vl, m := binary.Uvarint(p)
			if m <= 0 || int(vl) > len(p)-m {
				return nil, fmt.Errorf("bad value len")
			}
			w.v = append([]byte{}, p[m:m+int(vl)]...)
			p = p[m+int(vl):]
		} else {
			w.del = true
		}
		out = append(out, w)
	}
	return out, nil
}

func activeJournal(dir string) (string, error) {
	ents, err := os.ReadDir(dir)
	if err != nil {
		return "", err
	}
	var logs []string
	for _, e := range ents {
		if strings.HasSuffix(e.Name(), ".log") {
			logs = append(logs, e.Name())
		}
	}
	if len(logs) == 0 {
		return "", fmt.Errorf("no journal in %s", dir)
	}
	sort.Strings(logs)
	return filepath.Join(dir, logs[len(logs)-1]), nil
}

func copyDir(src, dst string) error {
	if err := os.MkdirAll(dst, 0o755); err != nil {
		return err
	}
	ents, err := os.ReadDir(src)
	if err != nil {
		return err
	}
	for _, e := range ents {
		if e.Name() == "LOCK" || e.IsDir() {
			continue
		}
		in, err := os.Open(filepath.Join(src, e.Name()))
		if err != nil {
			return err
		}
		out, err := os.Create(filepath.Join(dst, e.Name()))
		if err != nil {
			in.Close()
			return err
		}
		_, err = io.Copy(out, in)
		in.Close()
		out.Close()
		if err != nil {
			return err
		}
	}
	return nil
}

// imageBase: crash images live for milliseconds and are opened several times each (every open of a leveldb directory
// syncs a new table file and manifest): they are kept on a memory file system when there is one. The live database
// stays where TMPDIR points.
var imageBaseDir = func() string {
	const shm = "/dev/shm"
	if os.Getenv("ZVH_IMAGES_ON_DISK") == "" {
		if d, err := os.MkdirTemp(shm, "zvprobe"); err == nil {
			os.Remove(d)
			return shm
		}
	}
	return ""
}()

func imageBase() string { return imageBaseDir }

// crashImage copies the live directory and cuts the active journal at `cut` bytes.
func crashImage(live, journal string, cut int64) (string, error) {
	img, err := os.MkdirTemp(imageBase(), "zvimg")
	if err != nil {
		return "", err
	}
	if err := copyDir(live, img); err != nil {
		return img, err
	}
	if cut >= 0 {
		if err := os.Truncate(filepath.Join(img, filepath.Base(journal)), cut); err != nil {
			return img, err
		}
	}
	return img, nil
}

// rawDump opens an image with goleveldb and renders its whole key space canonically.
func rawDump(img string) (string, error) {
	ldb, err := leveldb.OpenFile(img, nil)
	if err != nil {
		return "", err
	}
	defer ldb.Close()
	it := ldb.NewIterator(nil, nil)
	defer it.Release()
	var sb strings.Builder
	for it.Next() {
		sb.WriteString(hx(it.Key()))
		sb.WriteByte('=')
		sb.WriteString(hx(it.Value()))
		sb.WriteByte('\n')
	}
	return sb.String(), it.Error()
}

// consistent: frontier pointer, keys and stored undo/redo information of a reopened image agree with each other
func imageConsistency(img string) string {
	var msg string
	p := safely(func() {
		m := db.NewLevelDBManager(img)
		defer m.Stop()
		f := m.Frontier()
		id := db.GetFrontierIdentifier(f)
		if !id.IsZero() {
			if m.GetPatch(id) == nil {
				msg = fmt.Sprintf("frontier is %s but no redo patch is stored for its height", idStr(id))
				return
			}
			// the frontier's own hash index entry must exist
			if x, err := db.GetIdentifierByHash(f, id.Hash); err != nil || *x != id {
				msg = fmt.Sprintf("frontier is %s but its hash index entry is missing", idStr(id))
				return
			}
		}
		above := types.HashHeight{Height: id.Height + 1}
		if m.GetPatch(above) != nil {
			msg = fmt.Sprintf("frontier is %s but a redo patch for height %d is stored", idStr(id), above.Height)
			return
		}
		// popping must be possible (undo record present and applicable) unless the store is empty
		if !id.IsZero() {
			if err := m.Pop(); err != nil {
				msg = fmt.Sprintf("frontier is %s but it cannot be rolled back: %v", idStr(id), err)
			}
		}
	})
	if p != "" {
		return "panic on reopen: " + p
	}
	return msg
}

// symbolic rendering of keys/values of the frontier key space: the three bookkeeping keys of store.go are printed
// structurally (M0 = frontier identifier, M1:<hash> = height by hash, M2:<height> = entry by height)
func symKey(k []byte) string {
	switch {
	case len(k) == 1 && k[0] == 0:
		return "M0"
	case len(k) == 33 && k[0] == 1:
		return "M1:" + hx(k[1:9])
	case len(k) == 9 && k[0] == 2:
		return fmt.Sprintf("M2:%d", binary.BigEndian.Uint64(k[1:]))
	}
	return hx(k)
}
func symVal(k, v []byte) string {
	switch {
	case len(k) == 1 && k[0] == 0:
		hh, err := types.DeserializeHashHeight(v)
		if err != nil {
			return "?" + hx(v)
		}
		return fmt.Sprintf("%d:%s", hh.Height, hx(hh.Hash[:8]))
	case len(k) == 33 && k[0] == 1 && len(v) == 8:
		return fmt.Sprint(binary.BigEndian.Uint64(v))
	case len(k) == 9 && k[0] == 2 && len(v) >= 5:
		return hx(v[5:])
	}
	return hx(v)
}
func symOps(dump []byte) string {
	p, err := db.NewPatchFromDump(dump)
	if err != nil {
		return "?" + hx(dump)
	}
	var parts []string
	for _, o := range patchOps(p) {
		if o.del {
			parts = append(parts, "d:"+symKey(o.k))
		} else {
			parts = append(parts, "p:"+symKey(o.k)+"="+symVal(o.k, o.v))
		}
	}
	return "[" + strings.Join(parts, ",") + "]"
}

func writesString(ws []rawWrite) string {
	var parts []string
	for _, w := range ws {
		switch {
		case len(w.k) == 9 && (w.k[0] == 0x66 || w.k[0] == 0x77):
			tag := "R"
			if w.k[0] == 0x77 {
				tag = "U"
			}
			h := binary.BigEndian.Uint64(w.k[1:])
			if w.del {
				parts = append(parts, fmt.Sprintf("%s%d=DEL", tag, h))
			} else {
				parts = append(parts, fmt.Sprintf("%s%d=%s", tag, h, symOps(w.v)))
			}
		case len(w.k) >= 1 && w.k[0] == 0x55 && !w.del:
			k := w.k[1:]
			val := "T"
			if len(w.v) > 0 {
				if userKey(k) {
					val = hx(w.v)
				} else {
					val = symVal(k, w.v[1:])
				}
			}
			parts = append(parts, "F"+symKey(k)+"="+val)
		default:
			if w.del {
				parts = append(parts, "RAWDEL:"+hx(w.k))
			} else {
				parts = append(parts, "RAWPUT:"+hx(w.k)+"="+hx(w.v))
			}
		}
	}
	if len(parts) == 0 {
		return "none"
	}
	return strings.Join(parts, ",")
}

func init() {
	register("crash", func(c *Ctx) {
		jrResetBudget(c)
		if c.Args["journal"] != "off" {
			for i := 0; i < 3+c.N/100; i++ {
				crashJournalSynthetic(c, i)
			}
		}
		for seq := 0; seq < c.N; seq++ {
			crashSequence(c, seq)
		}
	})
}

func crashSequence(c *Ctx, seq int) {
	dir, err := os.MkdirTemp("", "zvcrash")
	if err != nil {
		panic(err)
	}
	defer os.RemoveAll(dir)
	m := db.NewLevelDBManager(dir)
	defer func() { safely(func() { m.Stop() }) }()
	c.Emit("vdb-reset")
	journal, err := activeJournal(dir)
	if err != nil {
		c.Fail("crash seq=%d: %v", seq, err)
		return
	}
	chain := []types.HashHeight{}
	counter := uint64(seq)<<32 | 1<<31
	newHash := func() types.Hash {
		counter++
		var h types.Hash
		binary.BigEndian.PutUint64(h[:8], counter)
		h[31] = 1
		return h
	}
	frontierID := func() types.HashHeight {
		if len(chain) == 0 {
			return types.ZeroHashHeight
		}
		return chain[len(chain)-1]
	}
	verKey := func(id types.HashHeight) string {
		if id.IsZero() {
			return "0:"
		}
		return idStr(id)
	}
	genOps := func(min int) []kvOp {
		n := min + c.R.Intn(5)
		ops := make([]kvOp, 0, n)
		for i := 0; i < n; i++ {
			if c.R.Intn(4) == 0 {
				ops = append(ops, kvOp{del: true, k: vdbKey(c)})
			} else {
				ops = append(ops, kvOp{k: vdbKey(c), v: vdbVal(c)})
			}
		}
		return ops
	}
	mkTx := func(prev, id types.HashHeight, ops []kvOp) *vTx {
		p := db.NewPatch()
		for _, o := range ops {
			if o.del {
				p.Delete(o.k)
			} else {
				p.Put(o.k, o.v)
			}
		}
		return &vTx{commits: []db.Commit{&vCommit{id: id, prev: prev}}, patch: p}
	}
	snapshotRaw := func() (string, bool) {
		img, err := crashImage(dir, journal, -1)
		defer os.RemoveAll(img)
		if err != nil {
			c.Fail("crash seq=%d: image: %v", seq, err)
			return "", false
		}
		raw, err := rawDump(img)
		if err != nil {
			c.Fail("crash seq=%d: dump: %v", seq, err)
			return "", false
		}
		return raw, true
	}

	nops := 8 + c.R.Intn(8)
	bigAt := -1
	if seq%6 == 2 {
		bigAt = 2 + c.R.Intn(3) // one unusually large commit (megabytes) in this sequence, later rolled back
	}
	for step := 0; step < nops; step++ {
		isPop := len(chain) > 0 && c.R.Intn(3) == 0
		if step == bigAt {
			isPop = false
		}
		if step == bigAt+1 && bigAt >= 0 {
			isPop = true // roll the large commit back: the rollback is as large as the commit
		}
		if j2, err := activeJournal(dir); err == nil && j2 != journal {
			journal = j2 // leveldb rotated its journal (memtable flushed)
			c.Hit("journal-rotated")
		}
		before, ok := snapshotRaw()
		if !ok {
			return
		}
		endsBefore, _, err := journalRecords(journal)
		if err != nil {
			c.Fail("crash seq=%d: %v", seq, err)
			return
		}
		var opDesc string
		var redo func(mm db.Manager) error     // the same operation, for re-delivery on an image in the before-state
		var compete func(mm db.Manager) error  // a competing operation from the before-state
		prev := frontierID()
		if isPop {
			opDesc = "vdb-pop"
			if err := m.Pop(); err != nil {
				c.Fail("crash seq=%d: pop failed: %v", seq, err)
				return
			}
			chain = chain[:len(chain)-1]
			redo = func(mm db.Manager) error { return mm.Pop() }
			cid := types.HashHeight{Height: prev.Height + 1, Hash: newHash()}
			cops := genOps(1)
			compete = func(mm db.Manager) error { return mm.Add(mkTx(prev, cid, cops)) }
			c.Hit("pop")
		} else {
			id := types.HashHeight{Height: prev.Height + 1, Hash: newHash()}
			ops := genOps(0)
			if c.R.Intn(3) == 0 {
				ops = append(ops, genOps(3)...)
			}
			if step == bigAt {
				// 1–1.5 MiB of values (a 2–3 MiB batch with the redo record: below goleveldb's 4 MiB write buffer, so it goes
				// through the journal); every third of these is three times larger and takes goleveldb's large-batch
				// transaction path, which bypasses the journal (only the end points can be examined then)
				nk := 256 + c.R.Intn(128)
				if seq%18 == 2 {
					nk *= 3
				}
				for i := 0; i < nk; i++ {
					v := make([]byte, 4096)
					c.R.Read(v)
					k := append([]byte{4, 9}, byte(i>>8), byte(i))
					ops = append(ops, kvOp{k: k, v: v})
				}
				c.Hit("add-megabytes")
			} else if c.R.Intn(4) == 0 {
				// the size of a momentum's batch on a busy ledger (redo + undo + keys: 40-250 KiB): the journal record spans
				// 2-8 blocks of the journal file, each handed to the file with its own write(2)
				total := 12000 + c.R.Intn(70000)
				for i := 0; total > 0; i++ {
					v := make([]byte, 300+c.R.Intn(6000))
					c.R.Read(v)
					ops = append(ops, kvOp{k: append([]byte{4, 7}, byte(i>>8), byte(i)), v: v})
					total -= len(v)
				}
				c.Hit("add-tens-of-kilobytes")
			} else if c.R.Intn(10) == 0 {
				// a few hundred kilobytes
				for i := 0; i < 40+c.R.Intn(60); i++ {
					v := make([]byte, 2048+c.R.Intn(4096))
					c.R.Read(v)
					ops = append(ops, kvOp{k: append([]byte{4, 8}, byte(i)), v: v})
				}
				c.Hit("add-hundreds-of-kilobytes")
			}
			opDesc = fmt.Sprintf("vdb-add %s %s %s", verKey(prev), idStr(id), opsString(ops, false))
			if err := m.Add(mkTx(prev, id, ops)); err != nil {
				c.Fail("crash seq=%d: add failed: %v", seq, err)
				return
			}
			chain = append(chain, id)
			redo = func(mm db.Manager) error { return mm.Add(mkTx(prev, id, ops)) }
			cid := types.HashHeight{Height: prev.Height + 1, Hash: newHash()}
			cops := genOps(1)
			compete = func(mm db.Manager) error { return mm.Add(mkTx(prev, cid, cops)) }
			c.Hit("add")
			if len(ops) >= 2 {
				c.Hit("add-multi-key")
			}
		}
		if j2, jerr := activeJournal(dir); jerr == nil && j2 != journal {
			// leveldb froze its memtable and switched to a new journal during the operation
			// (goleveldb switches BEFORE it writes a batch that does not fit the memtable: the operation's writes are the
			// records of the new journal; everything older is in the frozen memtable / its table file)
			journal = j2
			endsBefore = nil
			c.Hit("journal-rotated-during-op")
		}
		after, ok := snapshotRaw()
		if !ok {
			return
		}
		endsAfter, payloads, err := journalRecords(journal)
		if err != nil {
			c.Fail("crash seq=%d: %v", seq, err)
			return
		}
		nb, na := len(endsBefore), len(endsAfter)
		// the write plan as observed in the journal, for the model
		var plan []string
		for i := nb; i < na; i++ {
			ws, err := decodeBatch(payloads[i])
			if err != nil {
				c.Fail("crash seq=%d: journal record %d: %v", seq, i, err)
				return
			}
			plan = append(plan, writesString(ws))
		}
		c.Emit("%s | ok", opDesc)
		if na-nb == 0 && before != after {
			// goleveldb wrote the batch as a table-file transaction (batch larger than the write buffer): no journal record
			c.Emit("crash-plan-large | ok")
			c.Hit("large-batch-transaction")
			continue
		}
		c.Emit("crash-plan | %d %s", na-nb, strings.Join(plan, " ; "))
		c.HitN("journal-writes", na-nb)

		// crash-free reference results of re-delivery / competition from the before-state
		refImage := func(f func(mm db.Manager) error) (string, bool) {
			cut := int64(0)
			if nb > 0 {
				cut = endsBefore[nb-1]
			}
			img, err := crashImage(dir, journal, cut)
			defer os.RemoveAll(img)
			if err != nil {
				return "", false
			}
			mm := db.NewLevelDBManager(img)
			ferr := f(mm)
			mm.Stop()
			if ferr != nil {
				return "", false
			}
			raw, err := rawDump(img)
			return raw, err == nil
		}
		competeRef, haveCompete := refImage(compete)

		// every cut point: after k of the operation's writes, k = 0 … n
		for k := nb; k <= na; k++ {
			cut := int64(0)
			if k > 0 {
				cut = endsAfter[k-1]
			}
			img, err := crashImage(dir, journal, cut)
			if err != nil {
				os.RemoveAll(img)
				c.Fail("crash seq=%d: image: %v", seq, err)
				return
			}
			raw, err := rawDump(img)
			if err != nil {
				os.RemoveAll(img)
				c.Fail("crash seq=%d op=[%s] cut after write %d/%d: image does not open: %v", seq, opDesc, k-nb, na-nb, err)
				return
			}
			c.Hit("crash-image")
			if k > nb && k < na {
				c.Hit("crash-image-intermediate")
			}
			isBefore, isAfter := raw == before, raw == after
			if !isBefore && !isAfter {
				os.RemoveAll(img)
				c.Fail("crash seq=%d op=[%s]: process death after write %d of %d leaves a store that is neither the state before nor the state after the operation", seq, opDesc, k-nb, na-nb)
				return
			}
			if msg := imageConsistency(img); msg != "" {
				os.RemoveAll(img)
				c.Fail("crash seq=%d op=[%s]: process death after write %d of %d: %s", seq, opDesc, k-nb, na-nb, msg)
				return
			}
			os.RemoveAll(img)
			// continue from the crash image: re-deliver the same operation / a competing one
			if isBefore && !isAfter {
				img2, _ := crashImage(dir, journal, cut)
				mm := db.NewLevelDBManager(img2)
				rerr := redo(mm)
				mm.Stop()
				raw2, derr := rawDump(img2)
				os.RemoveAll(img2)
				if rerr != nil || derr != nil || raw2 != after {
					c.Fail("crash seq=%d op=[%s]: re-delivery after process death at write %d of %d does not reach the crash-free state (err=%v)", seq, opDesc, k-nb, na-nb, rerr)
					return
				}
				c.Hit("redelivered")
				if haveCompete {
					img3, _ := crashImage(dir, journal, cut)
					mm := db.NewLevelDBManager(img3)
					cerr := compete(mm)
					mm.Stop()
					raw3, derr := rawDump(img3)
					os.RemoveAll(img3)
					if cerr != nil || derr != nil || raw3 != competeRef {
						c.Fail("crash seq=%d op=[%s]: a competing commit after process death at write %d of %d does not reach the crash-free state (err=%v)", seq, opDesc, k-nb, na-nb, cerr)
						return
					}
					c.Hit("competing-delivered")
				}
			}
		}
		// process death inside one of the operation's writes (between the write(2) calls of a journal record, short writes)
		if na > nb && c.Args["torn"] != "off" {
			start := int64(0)
			if nb > 0 {
				start = endsBefore[nb-1]
			}
			if !crashTornImages(c, seq, dir, journal, opDesc, start, endsAfter[na-1], before, after, redo) {
				return
			}
		}
		// the journal layer itself: goleveldb's reader, the harness parser and the Lean model on the same bytes
		if na > nb && c.Args["journal"] != "off" {
			start := int64(0)
			if nb > 0 {
				start = endsBefore[nb-1]
			}
			crashJournalLines(c, seq, step, journal, start, endsAfter[na-1])
		}
	}
}

var _ = bytes.Equal
