package main

import (
	"fmt"
	"math/big"
	"sort"
	"strings"

	"github.com/zenon-network/go-zenon/common/db"
	"github.com/zenon-network/go-zenon/common/types"
	"github.com/zenon-network/go-zenon/consensus"
	"github.com/zenon-network/go-zenon/consensus/api"
)

// ---------------------------------------------------------------------------------------------------
// rewards-node stream, consensus-statistics audit (C11, last sentence: "the credited amounts are a function of the
// chain alone, so every node computes the same ones").
//
// The pillar contract splits an epoch's emission with the statistics of the node's consensus module (EpochStats,
// PillarDelegationsByEpoch), which are served from caches (an LRU of period / epoch points, an LRU of election results
// over the consensus database). For the credited amounts to be a function of the chain, every answer of that module
// has to be a function of the chain: it must not depend on what was asked before, how often, or in which order.
//
// The audit asks the node's PillarReader (what the RPC layer and the embedded contracts use) random questions at
// random moments — the statistics of the epoch in progress, of finished epochs, of a future epoch, the pillar weights
// at the frontier and at older momentums, the delegations of an epoch — each question twice in a row, and compares
//   warm/warm : both answers,
//   warm/cold : the answer with that of a consensus instance created at this moment over an empty consensus database
//               on the same chain (no cache, nothing asked before),
//   chain     : the number of momentums the statistics of a finished epoch count, with the momentums in the chain.
// A difference is a concrete question whose answer is not a function of the chain. The follower comparison at the end
// of the history then compares what the contracts credited on this node (caches exercised) with nodes that were never
// asked anything, and one follower is asked questions while it syncs.
// ---------------------------------------------------------------------------------------------------

func fmtEpochStats(s *api.EpochStats, err error) string {
	if err != nil {
		return "err " + err.Error()
	}
	if s == nil {
		return "nil"
	}
	names := make([]string, 0, len(s.Pillars))
	for n := range s.Pillars {
		names = append(names, n)
	}
	sort.Strings(names)
	var sb strings.Builder
	fmt.Fprintf(&sb, "epoch=%d totalWeight=%s totalBlocks=%d", s.Epoch, s.TotalWeight, s.TotalBlocks)
	for _, n := range names {
		p := s.Pillars[n]
		fmt.Fprintf(&sb, " %s:%d/%d/%s", n, p.BlockNum, p.ExceptedBlockNum, p.Weight)
	}
	return sb.String()
}

func fmtWeights(w map[string]*big.Int, err error) string {
	if err != nil {
		return "err " + err.Error()
	}
	names := make([]string, 0, len(w))
	for n := range w {
		names = append(names, n)
	}
	sort.Strings(names)
	var sb strings.Builder
	for _, n := range names {
		fmt.Fprintf(&sb, " %s:%s", n, w[n])
	}
	return "weights" + sb.String()
}

func fmtDelegations(d map[string]*types.PillarDelegationDetail, err error) string {
	if err != nil {
		return "err " + err.Error()
	}
	names := make([]string, 0, len(d))
	for n := range d {
		names = append(names, n)
	}
	sort.Strings(names)
	var sb strings.Builder
	for _, n := range names {
		fmt.Fprintf(&sb, " %s:%s[", n, d[n].Weight)
		bs := map[types.Address]bool{}
		for a := range d[n].Backers {
			bs[a] = true
		}
		for _, a := range rnSortedAddrs(bs) {
			fmt.Fprintf(&sb, "%s=%s,", addrName(a), d[n].Backers[a])
		}
		sb.WriteString("]")
	}
	return "delegations" + sb.String()
}

// one question to a consensus instance; `at` = zero hash-height for the frontier reader
type csQuestion struct {
	kind  string // epoch-stats | weights | delegations
	epoch uint64
	at    types.HashHeight
}

func (q csQuestion) String() string {
	switch q.kind {
	case "epoch-stats":
		return fmt.Sprintf("EpochStats(%d)", q.epoch)
	case "delegations":
		return fmt.Sprintf("GetPillarDelegationsByEpoch(%d)", q.epoch)
	}
	if q.at.Height != 0 {
		return fmt.Sprintf("FixedPillarReader(momentum %d).GetPillarWeights()", q.at.Height)
	}
	return "GetPillarWeights()"
}

func csAsk(cs consensus.Consensus, q csQuestion) (ans string) {
	if p := safely(func() {
		reader := cs.FrontierPillarReader()
		if q.at.Height != 0 {
			reader = cs.FixedPillarReader(q.at)
		}
		switch q.kind {
		case "epoch-stats":
			ans = fmtEpochStats(reader.EpochStats(q.epoch))
		case "delegations":
			ans = fmtDelegations(reader.GetPillarDelegationsByEpoch(q.epoch))
		default:
			ans = fmtWeights(reader.GetPillarWeights())
		}
	}); p != "" {
		ans = "panic " + p
	}
	return ans
}

type csAudit struct {
	asked []string // the questions the node has been asked so far (most recent last), for the failure message
}

func (a *csAudit) history() string {
	l := a.asked
	if len(l) > 12 {
		l = l[len(l)-12:]
	}
	return fmt.Sprintf("%d questions so far, the last ones: %s", len(a.asked), strings.Join(l, ", "))
}

// currentEpoch of the frontier momentum
func (r *rnRun) currentEpoch() int64 {
	m, err := r.n.Chain().GetFrontierMomentumStore().GetFrontierMomentum()
	if err != nil {
		return 0
	}
	return (m.Timestamp.Unix() - r.genesis) / r.cfg.epochSec
}

func (r *rnRun) randomQuestion() csQuestion {
	c := r.c
	cur := r.currentEpoch()
	pickEpoch := func() uint64 {
		switch x := c.R.Intn(10); {
		case x < 5 || cur == 0:
			return uint64(cur) // the epoch in progress
		case x < 8:
			return uint64(cur - 1)
		case x < 9:
			return uint64(c.R.Int63n(cur + 1))
		default:
			return uint64(cur + 1) // not started
		}
	}
	switch x := c.R.Intn(10); {
	case x < 6:
		return csQuestion{kind: "epoch-stats", epoch: pickEpoch()}
	case x < 7:
		return csQuestion{kind: "delegations", epoch: pickEpoch()}
	case x < 8:
		return csQuestion{kind: "weights"}
	default:
		// the weights as of an older momentum: the period point before that momentum's tick
		H := r.n.Height()
		h := uint64(1) + uint64(c.R.Int63n(int64(H)))
		m, err := r.n.Chain().GetFrontierMomentumStore().GetMomentumByHeight(h)
		if err != nil || m == nil {
			return csQuestion{kind: "weights"}
		}
		return csQuestion{kind: "weights", at: m.Identifier()}
	}
}

// consensusAudit: k random questions to the node, each asked twice; withCold = also compared with a fresh instance
func (r *rnRun) consensusAudit(k int, withCold bool) {
	if r.audit == nil {
		r.audit = &csAudit{}
	}
	var cold consensus.Consensus
	if withCold {
		if p := safely(func() { cold = consensus.NewConsensus(db.NewMemDB(), r.n.Chain(), true) }); p != "" {
			r.fail("C11 consensus-statistics: cannot create a fresh consensus instance over the chain: %s", p)
			return
		}
		silenceLoggers()
	}
	for i := 0; i < k && !r.failed; i++ {
		q := r.randomQuestion()
		r.askAndCompare(q, cold)
	}
}

func (r *rnRun) askAndCompare(q csQuestion, cold consensus.Consensus) {
	warm := r.n.Z.Consensus()
	a1 := csAsk(warm, q)
	r.audit.asked = append(r.audit.asked, q.String())
	if r.c.Args["audit"] == "ask-only" {
		// (for experiments) the node is asked, nothing is compared here: only the downstream monitors judge
		return
	}
	a2 := csAsk(warm, q)
	r.c.Hit("audit-" + q.kind)
	if a1 != a2 {
		r.fail("C11 consensus-statistics: the node answers the same question %s differently when asked twice in a row at height %d: first %q, then %q (%s)", q, r.n.Height(), a1, a2, r.audit.history())
		return
	}
	if strings.HasPrefix(a1, "panic") {
		r.fail("C11 consensus-statistics: %s at height %d: %s", q, r.n.Height(), a1)
		return
	}
	if cold != nil {
		b := csAsk(cold, q)
		r.c.Hit("audit-cold-" + q.kind)
		if a1 != b {
			r.fail("C11 consensus-statistics: %s at height %d is %q on the node and %q on a fresh consensus instance over the same chain — the answer depends on what the node was asked before (%s)", q, r.n.Height(), a1, b, r.audit.history())
		}
	}
}

// finalAudit: every epoch's statistics and delegations and the weights at one momentum per period, node vs fresh instance
func (r *rnRun) finalAudit() {
	if r.audit == nil {
		r.audit = &csAudit{}
	}
	var cold consensus.Consensus
	if p := safely(func() { cold = consensus.NewConsensus(db.NewMemDB(), r.n.Chain(), true) }); p != "" {
		r.fail("C11 consensus-statistics: cannot create a fresh consensus instance over the chain: %s", p)
		return
	}
	silenceLoggers()
	cur := r.currentEpoch()
	first := int64(0)
	if cur > 8 {
		first = cur - 8
	}
	for e := cur + 1; e >= first && !r.failed; e-- {
		r.askAndCompare(csQuestion{kind: "epoch-stats", epoch: uint64(e)}, cold)
		if e <= cur && !r.failed {
			r.askAndCompare(csQuestion{kind: "delegations", epoch: uint64(e)}, cold)
		}
	}
	st := r.n.Chain().GetFrontierMomentumStore()
	H := r.n.Height()
	step := uint64(30) // one election tick of momentums (without missed slots)
	for h := H; h >= 1 && !r.failed; {
		if m, err := st.GetMomentumByHeight(h); err == nil && m != nil {
			r.askAndCompare(csQuestion{kind: "weights", at: m.Identifier()}, cold)
		}
		if h <= step || H-h > 40*step {
			break
		}
		h -= step
	}
	r.c.Hit("audit-final")
}

// epochMomentumCount: ground truth from the chain — the momentums with a timestamp inside epoch e (genesis has no producer)
func (r *rnRun) epochMomentumCount(e int64, upto uint64) (n uint64) {
	st := r.n.Chain().GetFrontierMomentumStore()
	start, end := r.genesis+r.cfg.epochSec*e, r.genesis+r.cfg.epochSec*(e+1)
	for h := upto; h >= 2; h-- {
		m, err := st.GetMomentumByHeight(h)
		if err != nil || m == nil {
			break
		}
		ts := m.Timestamp.Unix()
		if ts < start {
			break
		}
		if ts < end {
			n++
		}
	}
	return n
}
