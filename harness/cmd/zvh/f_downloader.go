package main

// Facts for C15 (synchronisation state machine): the time-outs and channel capacities of protocol/downloader, and the SHAPE of the
// places the model ZenonVerif/Model/Downloader.lean depends on (AST of the working tree):
//
//	fetchHashes     the statements of the `case hashPack := <-d.hashCh` clause in order: the sender test comes before timeout.Stop()
//	synchronise     the loop that drains hashCh / blockCh / processCh, placed before syncWithPeer
//	queue.Deliver   the tests of the delivery loop in order: requested?, ComputeHash() != hash, window of block.Height
//	fetchBlocks     what each error of queue.Deliver leads to (errForgedBlock: d.dropPeer(blockPack.peerId); errInvalidChain: return)
//	Synchronise     the errors answered with d.dropPeer(id)
//	handler.go      a BlocksMsg is handed to the downloader only when it holds at least one block
//
// Pinned by theorems of ZenonVerif/Props/C15Sync.lean.

import (
	"fmt"
	"go/ast"
	"go/parser"
	"go/token"
	"path/filepath"
	"strconv"
	"strings"
)

// dlDurMs evaluates the initialiser of a time-out variable (`5 * time.Second`, `3 * blockSoftTTL`, `time.Second`) in milliseconds.
func dlDurMs(e ast.Expr, env map[string]int64) (int64, error) {
	switch x := e.(type) {
	case *ast.BasicLit:
		if x.Kind == token.INT {
			v, err := strconv.ParseInt(x.Value, 0, 64)
			return v, err
		}
	case *ast.ParenExpr:
		return dlDurMs(x.X, env)
	case *ast.Ident:
		if v, ok := env[x.Name]; ok {
			return v, nil
		}
	case *ast.SelectorExpr:
		if id, ok := x.X.(*ast.Ident); ok && id.Name == "time" {
			switch x.Sel.Name {
			case "Millisecond":
				return 1, nil
			case "Second":
				return 1000, nil
			case "Minute":
				return 60000, nil
			}
		}
	case *ast.BinaryExpr:
		a, err := dlDurMs(x.X, env)
		if err != nil {
			return 0, err
		}
		b, err := dlDurMs(x.Y, env)
		if err != nil {
			return 0, err
		}
		switch x.Op {
		case token.MUL:
			return a * b, nil
		case token.ADD:
			return a + b, nil
		}
	}
	return 0, fmt.Errorf("cannot evaluate duration expression %T", e)
}

// stmtShort renders one statement on one line: an `if` as "if <cond> { <last statement of the body> }" (what matters is the test and how the
// branch ends), a `select`/`for`/`switch` by its keyword and tag, everything else in full.
func stmtShort(fset *token.FileSet, st ast.Stmt) string {
	switch x := st.(type) {
	case *ast.IfStmt:
		c := exprStr(fset, x.Cond)
		if x.Init != nil {
			c = exprStr(fset, x.Init) + "; " + c
		}
		last := ""
		if n := len(x.Body.List); n > 0 {
			last = stmtShort(fset, x.Body.List[n-1])
		}
		return "if " + c + " { … " + last + " }"
	case *ast.SelectStmt:
		var cs []string
		for _, c := range x.Body.List {
			cc := c.(*ast.CommClause)
			if cc.Comm == nil {
				cs = append(cs, "default")
			} else {
				cs = append(cs, exprStr(fset, cc.Comm))
			}
		}
		return "select { " + strings.Join(cs, " | ") + " }"
	case *ast.ForStmt:
		return "for"
	case *ast.RangeStmt:
		return "for range " + exprStr(fset, x.X)
	case *ast.SwitchStmt:
		return "switch " + exprStr(fset, x.Tag)
	case *ast.BranchStmt:
		return x.Tok.String()
	case *ast.ReturnStmt:
		return exprStr(fset, x)
	default:
		return exprStr(fset, st)
	}
}

// firstCallPos: the position of the first call of `fn` (rendered) inside n, or NoPos.
func firstCallPos(fset *token.FileSet, n ast.Node, fn string) token.Pos {
	pos := token.NoPos
	ast.Inspect(n, func(m ast.Node) bool {
		if c, ok := m.(*ast.CallExpr); ok && pos == token.NoPos && exprStr(fset, c.Fun) == fn {
			pos = c.Pos()
		}
		return true
	})
	return pos
}

func init() {
	factGens = append(factGens, func(repo string) (*factFile, error) {
		f := newFactFile("Downloader")
		fset := token.NewFileSet()
		dir := filepath.Join(repo, "protocol", "downloader")
		df, err := parser.ParseFile(fset, filepath.Join(dir, "downloader.go"), nil, 0)
		if err != nil {
			return nil, err
		}
		qf, err := parser.ParseFile(fset, filepath.Join(dir, "queue.go"), nil, 0)
		if err != nil {
			return nil, err
		}

		// ---- the time-outs (package variables of downloader.go) and the block cache limit ---------------------------------
		env := map[string]int64{}
		ints := map[string]int64{}
		for _, file := range []*ast.File{df, qf} {
			for _, d := range file.Decls {
				gd, ok := d.(*ast.GenDecl)
				if !ok || gd.Tok != token.VAR {
					continue
				}
				for _, sp := range gd.Specs {
					vs := sp.(*ast.ValueSpec)
					for i, nm := range vs.Names {
						if i >= len(vs.Values) {
							continue
						}
						switch nm.Name {
						case "hashTTL", "blockSoftTTL", "blockHardTTL", "crossCheckCycle":
							v, err := dlDurMs(vs.Values[i], env)
							if err != nil {
								return nil, fmt.Errorf("downloader.go: %s: %v", nm.Name, err)
							}
							env[nm.Name] = v
						case "MinHashFetch", "MaxHashFetch", "MaxBlockFetch", "maxQueuedHashes", "maxBannedHashes", "maxBlockProcess", "blockCacheLimit":
							v, err := dlDurMs(vs.Values[i], ints)
							if err != nil {
								return nil, fmt.Errorf("downloader: %s: %v", nm.Name, err)
							}
							ints[nm.Name] = v
						}
					}
				}
			}
		}
		for _, k := range []string{"hashTTL", "blockSoftTTL", "blockHardTTL", "crossCheckCycle"} {
			if _, ok := env[k]; !ok {
				return nil, fmt.Errorf("downloader.go: variable %s not found", k)
			}
		}
		f.raw("-- protocol/downloader/downloader.go, queue.go: time-outs in milliseconds and limits (initialisers of the package variables)\n")
		f.nat("DlHashTTLms", env["hashTTL"])
		f.nat("DlBlockSoftTTLms", env["blockSoftTTL"])
		f.nat("DlBlockHardTTLms", env["blockHardTTL"])
		f.nat("DlCrossCheckCycleMs", env["crossCheckCycle"])
		f.nat("DlMaxQueuedHashes", ints["maxQueuedHashes"])
		f.nat("DlMaxBlockProcess", ints["maxBlockProcess"])
		f.nat("DlBlockCacheLimit", ints["blockCacheLimit"])

		// the period of fetchBlocks' ticker and the time-out handed to queue.Expire
		fb := findMethod(df, "Downloader", "fetchBlocks")
		if fb == nil {
			return nil, fmt.Errorf("downloader.go: func fetchBlocks not found")
		}
		tickerMs, expireArg := int64(0), ""
		ast.Inspect(fb.Body, func(n ast.Node) bool {
			if c, ok := n.(*ast.CallExpr); ok {
				switch exprStr(fset, c.Fun) {
				case "time.NewTicker":
					if len(c.Args) == 1 {
						if v, err := dlDurMs(c.Args[0], env); err == nil {
							tickerMs = v
						}
					}
				case "d.queue.Expire":
					if len(c.Args) == 1 {
						expireArg = exprStr(fset, c.Args[0])
					}
				}
			}
			return true
		})
		f.nat("DlTickerMs", tickerMs)
		f.raw("def DlExpireArg : String := %q   -- d.queue.Expire(<arg>) in fetchBlocks\n", expireArg)

		// capacities of the channels (New)
		caps := map[string]string{}
		if nw := findMethod(df, "", "New"); nw != nil {
			ast.Inspect(nw.Body, func(n ast.Node) bool {
				kv, ok := n.(*ast.KeyValueExpr)
				if !ok {
					return true
				}
				if c, ok := kv.Value.(*ast.CallExpr); ok && exprStr(fset, c.Fun) == "make" && len(c.Args) == 2 {
					caps[exprStr(fset, kv.Key)] = exprStr(fset, c.Args[1])
				}
				return true
			})
		}
		for _, ch := range []string{"hashCh", "blockCh", "processCh"} {
			v, err := strconv.Atoi(caps[ch])
			if err != nil {
				return nil, fmt.Errorf("downloader.go New: capacity of %s not found (%q)", ch, caps[ch])
			}
			f.nat("Dl"+strings.ToUpper(ch[:1])+ch[1:]+"Cap", v)
		}

		// forceSyncCycle (protocol/sync.go)
		sf, err := parser.ParseFile(fset, filepath.Join(repo, "protocol", "sync.go"), nil, 0)
		if err != nil {
			return nil, err
		}
		force := int64(0)
		ast.Inspect(sf, func(n ast.Node) bool {
			if vs, ok := n.(*ast.ValueSpec); ok {
				for i, nm := range vs.Names {
					if nm.Name == "forceSyncCycle" && i < len(vs.Values) {
						if v, err := dlDurMs(vs.Values[i], env); err == nil {
							force = v
						}
					}
				}
			}
			return true
		})
		f.nat("ForceSyncCycleMs", force)

		// ---- fetchHashes: the hashCh case ---------------------------------------------------------------------------------
		fh := findMethod(df, "Downloader", "fetchHashes")
		if fh == nil {
			return nil, fmt.Errorf("downloader.go: func fetchHashes not found")
		}
		var hashCase []string
		senderFirst := false
		var timerOps []string
		ast.Inspect(fh.Body, func(n ast.Node) bool {
			switch x := n.(type) {
			case *ast.CallExpr:
				fn := exprStr(fset, x.Fun)
				if fn == "time.NewTimer" || strings.HasPrefix(fn, "timeout.") {
					timerOps = append(timerOps, exprStr(fset, x))
				}
			case *ast.CommClause:
				if x.Comm == nil || !strings.Contains(exprStr(fset, x.Comm), "<-d.hashCh") {
					return true
				}
				senderEnd := token.NoPos
				for _, st := range x.Body {
					if es, ok := st.(*ast.ExprStmt); ok && strings.HasPrefix(exprStr(fset, es.X), "log.") {
						continue // (log records are not part of the shape)
					}
					hashCase = append(hashCase, stmtShort(fset, st))
					if is, ok := st.(*ast.IfStmt); ok && senderEnd == token.NoPos && exprStr(fset, is.Cond) == "hashPack.peerId != p.id" {
						if n := len(is.Body.List); n > 0 {
							if br, ok := is.Body.List[n-1].(*ast.BranchStmt); ok && (br.Tok == token.BREAK || br.Tok == token.CONTINUE) {
								senderEnd = is.End()
							}
						}
					}
				}
				cc := &ast.BlockStmt{List: x.Body}
				stop := firstCallPos(fset, cc, "timeout.Stop")
				senderFirst = senderEnd != token.NoPos && stop != token.NoPos && stop > senderEnd
			}
			return true
		})
		f.raw("-- protocol/downloader/downloader.go fetchHashes (AST of the working tree)\n")
		f.strList("FetchHashesHashCase", hashCase)
		f.raw("def FetchHashesSenderTestBeforeStop : Bool := %v   -- `if hashPack.peerId != p.id { … break }` ends before the first timeout.Stop() of the case\n", senderFirst)
		f.strList("FetchHashesTimerOps", timerOps)

		// findAncestor: the time-outs are time.After channels (cannot be stopped); every hashCh case starts with the sender test
		fa := findMethod(df, "Downloader", "findAncestor")
		if fa == nil {
			return nil, fmt.Errorf("downloader.go: func findAncestor not found")
		}
		var faTimeouts, faFirst []string
		ast.Inspect(fa.Body, func(n ast.Node) bool {
			switch x := n.(type) {
			case *ast.AssignStmt:
				if len(x.Lhs) == 1 && exprStr(fset, x.Lhs[0]) == "timeout" {
					faTimeouts = append(faTimeouts, exprStr(fset, x))
				}
			case *ast.CommClause:
				if x.Comm != nil && strings.Contains(exprStr(fset, x.Comm), "<-d.hashCh") && len(x.Body) > 0 {
					faFirst = append(faFirst, stmtShort(fset, x.Body[0]))
				}
			}
			return true
		})
		f.strList("FindAncestorTimeouts", faTimeouts)
		f.strList("FindAncestorHashCaseFirst", faFirst)

		// ---- synchronise: the draining loop -------------------------------------------------------------------------------
		sy := findMethod(df, "Downloader", "synchronise")
		if sy == nil {
			return nil, fmt.Errorf("downloader.go: func synchronise not found")
		}
		var drain []string
		drainPos, syncPos, busyPos := token.NoPos, token.NoPos, token.NoPos
		var syTop []string
		for _, st := range sy.Body.List {
			syTop = append(syTop, stmtShort(fset, st))
			switch x := st.(type) {
			case *ast.ForStmt:
				// `for … { select { case <-ch: … default: <leave> } }`: receives only, with a default
				if len(x.Body.List) == 1 {
					if sel, ok := x.Body.List[0].(*ast.SelectStmt); ok {
						var cs []string
						onlyRecv := true
						for _, c := range sel.Body.List {
							cc := c.(*ast.CommClause)
							if cc.Comm == nil {
								cs = append(cs, "default")
								continue
							}
							s := exprStr(fset, cc.Comm)
							if !strings.HasPrefix(s, "<-") {
								onlyRecv = false
							}
							cs = append(cs, s)
						}
						if onlyRecv && drainPos == token.NoPos {
							drain, drainPos = cs, x.Pos()
						}
					}
				}
			case *ast.ReturnStmt:
				if len(x.Results) == 1 && strings.HasPrefix(exprStr(fset, x.Results[0]), "d.syncWithPeer(") {
					syncPos = x.Pos()
				}
			case *ast.IfStmt:
				if strings.Contains(exprStr(fset, x.Cond), "CompareAndSwapInt32(&d.synchronising") {
					busyPos = x.Pos()
				}
			}
		}
		f.raw("-- protocol/downloader/downloader.go synchronise (AST of the working tree)\n")
		f.strList("SynchroniseTopLevel", syTop)
		f.strList("SynchroniseDrainCases", drain)
		f.raw("def SynchroniseDrainBeforeSyncWithPeer : Bool := %v   -- the draining loop lies after the busy test and before `return d.syncWithPeer(…)`\n",
			drainPos != token.NoPos && syncPos != token.NoPos && busyPos != token.NoPos && busyPos < drainPos && drainPos < syncPos)

		// Synchronise: the errors answered with d.dropPeer(id)
		sy2 := findMethod(df, "Downloader", "Synchronise")
		if sy2 == nil {
			return nil, fmt.Errorf("downloader.go: func Synchronise not found")
		}
		var dropErrs, dropArgs []string
		ast.Inspect(sy2.Body, func(n ast.Node) bool {
			cc, ok := n.(*ast.CaseClause)
			if !ok {
				return true
			}
			var args []string
			for _, st := range cc.Body {
				ast.Inspect(st, func(m ast.Node) bool {
					if c, ok := m.(*ast.CallExpr); ok && exprStr(fset, c.Fun) == "d.dropPeer" && len(c.Args) == 1 {
						args = append(args, exprStr(fset, c.Args[0]))
					}
					return true
				})
			}
			if len(args) > 0 {
				for _, l := range cc.List {
					dropErrs = append(dropErrs, exprStr(fset, l))
				}
				dropArgs = append(dropArgs, args...)
			}
			return true
		})
		f.strList("SynchroniseDropErrors", dropErrs)
		f.strList("SynchroniseDropArgs", dropArgs)

		// ---- queue.Deliver: the tests of the delivery loop --------------------------------------------------------------
		dv := findMethod(qf, "queue", "Deliver")
		if dv == nil {
			return nil, fmt.Errorf("queue.go: func Deliver not found")
		}
		var loopTests, afterLoop []string
		hashFirst := false
		seenLoop := false
		for _, st := range dv.Body.List {
			rs, ok := st.(*ast.RangeStmt)
			if ok && exprStr(fset, rs.X) == "blocks" {
				seenLoop = true
				hashEnd, heightPos := token.NoPos, token.NoPos
				for _, b := range rs.Body.List {
					if is, ok := b.(*ast.IfStmt); ok {
						loopTests = append(loopTests, stmtShort(fset, is))
						if exprStr(fset, is.Cond) == "block.ComputeHash() != hash" && hashEnd == token.NoPos {
							if n := len(is.Body.List); n > 0 {
								if br, ok := is.Body.List[n-1].(*ast.BranchStmt); ok && br.Tok == token.CONTINUE {
									hashEnd = is.End()
								}
							}
						}
					}
				}
				ast.Inspect(rs.Body, func(m ast.Node) bool {
					if se, ok := m.(*ast.SelectorExpr); ok && heightPos == token.NoPos && exprStr(fset, se) == "block.Height" {
						heightPos = se.Pos()
					}
					return true
				})
				hashFirst = hashEnd != token.NoPos && heightPos != token.NoPos && hashEnd < heightPos
				continue
			}
			if seenLoop {
				afterLoop = append(afterLoop, stmtShort(fset, st))
			}
		}
		f.raw("-- protocol/downloader/queue.go Deliver (AST of the working tree)\n")
		f.strList("DeliverLoopTests", loopTests)
		f.raw("def DeliverHashTestBeforeHeight : Bool := %v   -- `if block.ComputeHash() != hash { … continue }` ends before the first use of block.Height\n", hashFirst)
		f.strList("DeliverAfterLoop", afterLoop)

		// ---- fetchBlocks: what each outcome of queue.Deliver leads to ------------------------------------------------------
		var errCases []string
		ast.Inspect(fb.Body, func(n ast.Node) bool {
			sw, ok := n.(*ast.SwitchStmt)
			if !ok || exprStr(fset, sw.Tag) != "err" {
				return true
			}
			for _, c := range sw.Body.List {
				cc := c.(*ast.CaseClause)
				lab := "default"
				if len(cc.List) > 0 {
					ls := make([]string, len(cc.List))
					for i, l := range cc.List {
						ls[i] = exprStr(fset, l)
					}
					lab = strings.Join(ls, ",")
				}
				var acts []string
				for _, st := range cc.Body {
					ast.Inspect(st, func(m ast.Node) bool {
						switch y := m.(type) {
						case *ast.CallExpr:
							fn := exprStr(fset, y.Fun)
							if fn == "d.dropPeer" || fn == "peer.SetIdle" || fn == "d.process" {
								acts = append(acts, exprStr(fset, y))
							}
						case *ast.ReturnStmt:
							acts = append(acts, exprStr(fset, y))
						}
						return true
					})
				}
				// (the nil case holds two paths: an empty pack and a good one; both set the peer idle)
				errCases = append(errCases, lab+": "+strings.Join(dedupe(acts), "; "))
			}
			return false
		})
		f.raw("-- protocol/downloader/downloader.go fetchBlocks: `switch err` after d.queue.Deliver (AST of the working tree)\n")
		f.strList("FetchBlocksDeliverCases", errCases)

		// process(): what follows a failed import
		pf := findMethod(df, "Downloader", "process")
		if pf == nil {
			return nil, fmt.Errorf("downloader.go: func process not found")
		}
		var failStmts []string
		ast.Inspect(pf.Body, func(n ast.Node) bool {
			is, ok := n.(*ast.IfStmt)
			if !ok || exprStr(fset, is.Cond) != "err != nil" {
				return true
			}
			for _, st := range is.Body.List {
				if es, ok := st.(*ast.ExprStmt); ok {
					if c, ok := es.X.(*ast.CallExpr); ok && strings.HasPrefix(exprStr(fset, c.Fun), "log.") {
						continue
					}
				}
				failStmts = append(failStmts, stmtShort(fset, st))
			}
			return false
		})
		f.strList("ProcessImportFailure", failStmts)

		// ---- handler.go: BlocksMsg reaches the downloader only with at least one block -----------------------------------------
		hf, err := parser.ParseFile(fset, filepath.Join(repo, "protocol", "handler.go"), nil, 0)
		if err != nil {
			return nil, err
		}
		guard := ""
		ast.Inspect(hf, func(n ast.Node) bool {
			is, ok := n.(*ast.IfStmt)
			if !ok || guard != "" {
				return true
			}
			if firstCallPos(fset, is.Body, "pm.downloader.DeliverBlocks") != token.NoPos {
				guard = exprStr(fset, is.Cond)
				if is.Init != nil {
					guard = exprStr(fset, is.Init) + "; " + guard
				}
			}
			return true
		})
		f.raw("-- protocol/handler.go: the guard of pm.downloader.DeliverBlocks\n")
		f.raw("def HandlerDeliverBlocksGuard : String := %q\n", guard)
		return f, nil
	})
}

func dedupe(ss []string) []string {
	var out []string
	seen := map[string]bool{}
	for _, s := range ss {
		if !seen[s] {
			seen[s] = true
			out = append(out, s)
		}
	}
	return out
}
