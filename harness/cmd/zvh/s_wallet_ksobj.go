package main

import (
	"bytes"
	"crypto/ed25519"
	"fmt"
	"strings"

	"github.com/tyler-smith/go-bip39"

	"github.com/zenon-network/go-zenon/common/types"
	"github.com/zenon-network/go-zenon/wallet"
)

// ---------------------------------------------------------------------------------------------------
// wallet stream, part 10 (C19): operation SEQUENCES on ONE KeyStore object.
//
// "Derived key pairs and addresses are a deterministic function of the entropy and the derivation index" — for ALL
// indices, and therefore NOT a function of what was derived from the same KeyStore object before. One KeyStore object is
// kept for the lifetime of an unlocked wallet (wallet.Manager hands out the same object to every caller), the node derives
// the producer key from it by a configured index, FindAddress walks the indices 0..127 on it again and again.
//
// A sequence is a list of operations on one object (a fresh keyStoreFromEntropy, a key store returned by KeyFile.Decrypt,
// the key store a Manager unlocked):
//   I<i>   KeyStore.DeriveForIndexPath(i)
//   P<p>   KeyStore.DeriveForFullPath(p)             (the account path of an index spelled out, leading zeros, other depths)
//   F<j>   KeyStore.FindAddress(address of index j)  (j < 128: found at j; j >= 128: whatever is returned must be consistent)
//   J<i>   DeriveForIndexPath(i) on a SECOND KeyStore object of the same entropy (objects do not share state)
//   Z      the caller wipes the private key of the key pair it was handed last (good practice; must not reach later results)
// over index sets built around a residue: i, i+128, i+256, i+k·128, i+2^k, i xor 2^k, 2^31−1−k·128 … in both orders (low
// first then high, high first then low) and shuffled. Every result is compared with
//   (a) the stateless package-level derivation wallet.DeriveWithIndex / wallet.DeriveForPath on the seed,
//   (b) an independent SLIP-0010 reference (refDerive) on the seed computed from the entropy with go-bip39 directly,
//   (c) the Lean model: the results are emitted as `wl-derive-index` / `wl-derive` lines which the driver recomputes,
// a signature made with the returned key pair must verify under the REFERENCE public key of that index, and the object's
// fields (entropy, seed, mnemonic, base address) must be what they were.
// ---------------------------------------------------------------------------------------------------

type ksRefEntry struct {
	path string
	qs   []hq
	key  []byte // nil = the derivation must be refused
	pub  []byte
	h    []byte
	kind string // "" = ok
	addr types.Address
}

// ksRef: independent reference for one entropy (go-bip39 + refDerive), memoised per path
type ksRef struct {
	entropy  []byte
	mnemonic string
	seed     []byte
	memo     map[string]*ksRefEntry
}

func newKsRef(entropy []byte) *ksRef {
	mn, err := bip39.NewMnemonic(entropy)
	if err != nil {
		return nil
	}
	return &ksRef{entropy: append([]byte{}, entropy...), mnemonic: mn, seed: bip39.NewSeed(mn, ""), memo: map[string]*ksRefEntry{}}
}

func (r *ksRef) path(p string) *ksRefEntry {
	if e, ok := r.memo[p]; ok {
		return e
	}
	e := &ksRefEntry{path: p}
	e.qs, e.key, e.kind = refDerive(p, r.seed)
	e.pub, e.h = pubOracle(e.key)
	if e.key != nil {
		copy(e.addr[1:], e.h[:19])
	}
	r.memo[p] = e
	return e
}

func ksIndexPath(i uint32) string { return fmt.Sprintf("m/44'/73404'/%d'", i) }

func (r *ksRef) index(i uint32) *ksRefEntry { return r.path(ksIndexPath(i)) }

type ksOp struct {
	kind byte   // 'I', 'P', 'F', 'J', 'Z'
	idx  uint32 // I, F, J
	path string // P
}

func (o ksOp) String() string {
	switch o.kind {
	case 'P':
		return "P(" + o.path + ")"
	case 'Z':
		return "Z"
	}
	return fmt.Sprintf("%c%d", o.kind, o.idx)
}

type ksSeq struct {
	c      *Ctx
	label  string // where the object came from
	ref    *ksRef
	ks     *wallet.KeyStore
	ks2    *wallet.KeyStore // second object of the same entropy (created on first use)
	trace  []string
	lastKp *wallet.KeyPair
	used   []uint32 // the indices used so far on the object (for the explanation in a failure message)
}

func (s *ksSeq) fail(format string, a ...interface{}) {
	s.c.Fail("C19 key store sequence [%s] on ONE KeyStore object (%s, entropy %x): %s", strings.Join(s.trace, " "), s.label, s.ref.entropy, fmt.Sprintf(format, a...))
}

// whose: "the key pair of index j" if addr is the address of an index used before in this sequence (or of 0..127)
func (s *ksSeq) whose(addr types.Address) string {
	for _, j := range s.used {
		if s.ref.index(j).key != nil && s.ref.index(j).addr == addr {
			return fmt.Sprintf(" — that is the key pair of index %d", j)
		}
	}
	for j := uint32(0); j < 128; j++ {
		if s.ref.index(j).addr == addr {
			return fmt.Sprintf(" — that is the key pair of index %d", j)
		}
	}
	return ""
}

// judge one derivation result of the object against the reference entry; what = the call as text
func (s *ksSeq) judge(what string, e *ksRefEntry, kp *wallet.KeyPair, err error, stateless func() (*wallet.KeyPair, error)) {
	c := s.c
	want := e.kind
	if want == "" {
		want = "ok"
	}
	if walletErrKind(err) != want {
		s.fail("%s: outcome %s, the hardened-only SLIP-0010 reference for path %s says %s", what, walletErrKind(err), e.path, want)
		return
	}
	if err != nil {
		return
	}
	if kp == nil || len(kp.Private) != 64 {
		s.fail("%s returned no / a malformed key pair", what)
		return
	}
	if !bytes.Equal(kp.Private[:32], e.key) || !bytes.Equal(kp.Public, e.pub) || !bytes.Equal(kp.Private[32:], e.pub) || kp.Address != e.addr {
		s.fail("%s returned the key pair with address %v (public key %x)%s; derivation is a function of (entropy, index): path %s gives address %v (public key %x)",
			what, kp.Address, []byte(kp.Public), s.whose(kp.Address), e.path, e.addr, e.pub)
	}
	// the stateless package-level derivation on the object's seed
	if stateless != nil {
		kp2, err2 := stateless()
		if err2 != nil || kp2 == nil || kp2.Address != kp.Address || !bytes.Equal(kp2.Private, kp.Private) {
			a2 := "error"
			if err2 == nil && kp2 != nil {
				a2 = kp2.Address.String()
			}
			s.fail("%s (address %v) disagrees with the stateless package-level derivation of the same path %s on the same seed (address %s)", what, kp.Address, e.path, a2)
		}
	}
	// a signature made with the returned key pair verifies under the public key OF THAT INDEX (reference) and its address
	msg := make([]byte, c.R.Intn(48))
	c.R.Read(msg)
	var sig []byte
	if p := safely(func() { sig = kp.Sign(msg) }); p != "" {
		s.fail("signing with the key pair returned by %s panicked: %s", what, p)
		return
	}
	ok, verr := wallet.VerifySignature(ed25519.PublicKey(e.pub), msg, sig)
	if !ok || verr != nil || !ed25519.Verify(ed25519.PublicKey(e.pub), msg, sig) {
		s.fail("a signature made with the key pair returned by %s does not verify under the public key %x of path %s", what, e.pub, e.path)
	}
	if types.PubKeyToAddress(kp.Public) != kp.Address {
		s.fail("%s: the public key of the returned key pair does not map to its address", what)
	}
	c.Hit("ksobj-sign-verify")
}

func obsKp(kp *wallet.KeyPair, err error) string {
	if err != nil || kp == nil || len(kp.Private) < 32 {
		if err == nil {
			return "err nil-keypair"
		}
		return "err " + walletErrKind(err)
	}
	return fmt.Sprintf("ok %s %s %s", hx(kp.Private[:32]), hx(kp.Public), hx(kp.Address.Bytes()))
}

func (s *ksSeq) deriveIndex(ks *wallet.KeyStore, opName string, i uint32) {
	c := s.c
	e := s.ref.index(i)
	var kp *wallet.KeyPair
	var err error
	if p := safely(func() { _, kp, err = ks.DeriveForIndexPath(i) }); p != "" {
		c.Emit("wl-derive-index %s %d 0 - - | panic", hx(s.ref.seed), i)
		s.fail("%s(%d) panicked: %s", opName, i, p)
		return
	}
	// same line format as the stateless DeriveWithIndex cases: the Lean driver recomputes it with the model
	c.Emit("wl-derive-index %s %d %s %s %s | %s", hx(s.ref.seed), i, fmtQueries(e.qs), hx(e.pub), hx(e.h), obsKp(kp, err))
	s.judge(fmt.Sprintf("%s(%d)", opName, i), e, kp, err, func() (*wallet.KeyPair, error) { return wallet.DeriveWithIndex(i, ks.Seed) })
	if err == nil {
		s.lastKp = kp
	}
	switch {
	case i < 128:
		c.Hit("ksobj-index:below-128")
	case i < 1<<31:
		c.Hit("ksobj-index:128-and-above")
	default:
		c.Hit("ksobj-index:refused")
	}
}

func (s *ksSeq) step(op ksOp) {
	c := s.c
	s.trace = append(s.trace, op.String())
	c.Hit("ksobj-op:" + string(op.kind))
	switch op.kind {
	case 'I':
		s.deriveIndex(s.ks, "KeyStore.DeriveForIndexPath", op.idx)
		s.used = append(s.used, op.idx)
	case 'J':
		if s.ks2 == nil {
			ks2, err := wallet.KeyStoreFromEntropyVerif(append([]byte{}, s.ref.entropy...))
			if err != nil {
				s.fail("a second keyStoreFromEntropy of the same entropy failed: %v", err)
				return
			}
			s.ks2 = ks2
		}
		s.deriveIndex(s.ks2, "DeriveForIndexPath on a second KeyStore object of the same entropy", op.idx)
	case 'P':
		e := s.ref.path(op.path)
		var kp *wallet.KeyPair
		var err error
		if p := safely(func() { _, kp, err = s.ks.DeriveForFullPath(op.path) }); p != "" {
			c.Emit("wl-derive %s %s 0 - - | panic", hx(s.ref.seed), hx([]byte(op.path)))
			s.fail("KeyStore.DeriveForFullPath(%q) panicked: %s", op.path, p)
			return
		}
		c.Emit("wl-derive %s %s %s %s %s | %s", hx(s.ref.seed), hx([]byte(op.path)), fmtQueries(e.qs), hx(e.pub), hx(e.h), obsKp(kp, err))
		s.judge(fmt.Sprintf("KeyStore.DeriveForFullPath(%q)", op.path), e, kp, err, func() (*wallet.KeyPair, error) { return wallet.DeriveForPath(op.path, s.ks.Seed) })
		if err == nil {
			s.lastKp = kp
		}
	case 'F':
		e := s.ref.index(op.idx)
		if e.key == nil {
			return
		}
		var kp *wallet.KeyPair
		var idx uint32
		var err error
		if p := safely(func() { kp, idx, err = s.ks.FindAddress(e.addr) }); p != "" {
			s.fail("KeyStore.FindAddress(address of index %d) panicked: %s", op.idx, p)
			return
		}
		if err == nil {
			// whatever is found: it is the key pair of the reported index, and it has the address that was asked for
			if kp == nil || kp.Address != e.addr {
				s.fail("KeyStore.FindAddress(%v) returned a key pair with another address", e.addr)
			} else if r := s.ref.index(idx); r.key == nil || r.addr != kp.Address || !bytes.Equal(kp.Private[:32], r.key) {
				s.fail("KeyStore.FindAddress(%v = the address of index %d) reports index %d, whose address is %v", e.addr, op.idx, idx, r.addr)
			}
			s.lastKp = kp
			c.Hit("ksobj-find:found")
		} else {
			c.Hit("ksobj-find:not-found")
		}
		if op.idx < 128 && (err != nil || idx != op.idx) {
			s.fail("KeyStore.FindAddress(%v = the address of index %d, which is among the searched indices 0..127) = index %d, err %v", e.addr, op.idx, idx, err)
		}
	case 'Z':
		if s.lastKp != nil {
			for k := range s.lastKp.Private {
				s.lastKp.Private[k] = 0
			}
			for k := range s.lastKp.Public {
				s.lastKp.Public[k] = 0
			}
			s.lastKp.Address = types.ZeroAddress
			s.lastKp = nil
		}
	}
	// the object is what it was
	want0 := s.ref.index(0).addr
	if s.ks.BaseAddress != want0 || !bytes.Equal(s.ks.Entropy, s.ref.entropy) || !bytes.Equal(s.ks.Seed, s.ref.seed) || s.ks.Mnemonic != s.ref.mnemonic {
		s.fail("after the operation the KeyStore object has base address %v / entropy %x; the index-0 address of its entropy %x is %v", s.ks.BaseAddress, s.ks.Entropy, s.ref.entropy, want0)
	}
}

// ksRunSequence runs ops on the object ks (whose entropy must be `entropy`)
func ksRunSequence(c *Ctx, label string, entropy []byte, ks *wallet.KeyStore, ops []ksOp) {
	defer func() {
		if r := recover(); r != nil {
			c.Emit("wl-keyfile-panic %s | panic", hx(entropy))
			c.Fail("C19 key store sequence panicked (entropy %x): %v", entropy, r)
		}
	}()
	ref := newKsRef(entropy)
	if ref == nil || ks == nil {
		return
	}
	s := &ksSeq{c: c, label: label, ref: ref, ks: ks}
	for _, op := range ops {
		s.step(op)
	}
	c.Hit("ksobj-sequence")
	c.HitN("ksobj-sequence-ops", len(ops))
}

// ksAliases: indices that a memo / table keyed by less than the whole index would confuse with i (all below 2^31 = legal)
func ksAliases(c *Ctx, i uint32) []uint32 {
	var out []uint32
	add := func(v uint64) {
		if v < 1<<31 && uint32(v) != i {
			out = append(out, uint32(v))
		}
	}
	r := uint64(i)
	add(r + 128)
	add(r + 256)
	add(r + 128*uint64(2+c.R.Intn(2000)))
	add(r + 128*uint64(c.R.Intn(1<<24)))
	for n := 0; n < 3; n++ {
		k := uint(5 + c.R.Intn(26)) // 2^5 .. 2^30
		add(r + 1<<k)
		add(r ^ 1<<k)
		add(r + uint64(1+c.R.Intn(7))<<k)
	}
	add(r%128 + (1<<31 - 128))                    // the last index of the residue class
	add((1<<31 - 1) - (127 - r%128))              // the same, written from the top
	add(r % 128)                                  // the first one
	add(r&0xffff + uint64(1+c.R.Intn(1<<14))<<16) // same low 16 bits
	add(r&0xff + uint64(1+c.R.Intn(1<<22))<<8)    // same low byte
	return out
}

func ksFullPathOf(c *Ctx, i uint32) string {
	switch c.R.Intn(4) {
	case 0:
		return fmt.Sprintf("m/44'/73404'/%s%d'", strings.Repeat("0", 1+c.R.Intn(3)), i) // leading zeros: the same index
	case 1:
		return fmt.Sprintf("m/44'/73404'/%d'/%d'", i, c.R.Intn(300)) // one level deeper
	case 2:
		return fmt.Sprintf("m/%d'", i) // depth 1
	}
	return ksIndexPath(i)
}

// ksRandomOps: a sequence around the residue class of a base index
func ksRandomOps(c *Ctx) []ksOp {
	var base uint32
	switch c.R.Intn(4) {
	case 0:
		base = []uint32{0, 1, 2, 5, 64, 126, 127}[c.R.Intn(7)]
	case 1:
		base = uint32(c.R.Intn(128))
	case 2:
		base = uint32(128 + c.R.Intn(1024))
	default:
		base = c.R.Uint32() >> 1
	}
	al := ksAliases(c, base)
	c.R.Shuffle(len(al), func(a, b int) { al[a], al[b] = al[b], al[a] })
	if k := 2 + c.R.Intn(5); len(al) > k {
		al = al[:k]
	}
	idx := append([]uint32{base}, al...)
	switch c.R.Intn(3) {
	case 0: // low first, then high
		sortU32(idx, false)
	case 1: // high first, then low
		sortU32(idx, true)
	}
	var ops []ksOp
	for _, i := range idx {
		switch c.R.Intn(10) {
		case 0:
			ops = append(ops, ksOp{kind: 'P', path: ksFullPathOf(c, i)})
		case 1:
			ops = append(ops, ksOp{kind: 'J', idx: i})
		default:
			ops = append(ops, ksOp{kind: 'I', idx: i})
		}
		switch c.R.Intn(8) {
		case 0:
			ops = append(ops, ksOp{kind: 'F', idx: i % 128})
		case 1:
			ops = append(ops, ksOp{kind: 'F', idx: i})
		case 2:
			ops = append(ops, ksOp{kind: 'Z'})
		case 3:
			ops = append(ops, ksOp{kind: 'I', idx: []uint32{1 << 31, 1<<31 + i%128, 1<<32 - 1}[c.R.Intn(3)]}) // refused; must not disturb
		}
	}
	// every index again, in the opposite order: the answers are the same whatever came before
	for k := len(idx) - 1; k >= 0; k-- {
		ops = append(ops, ksOp{kind: 'I', idx: idx[k]})
	}
	ops = append(ops, ksOp{kind: 'F', idx: base % 128})
	return ops
}

func sortU32(a []uint32, desc bool) {
	for i := 1; i < len(a); i++ {
		for j := i; j > 0 && ((!desc && a[j] < a[j-1]) || (desc && a[j] > a[j-1])); j-- {
			a[j], a[j-1] = a[j-1], a[j]
		}
	}
}

func ksI(is ...uint32) []ksOp {
	var ops []ksOp
	for _, i := range is {
		ops = append(ops, ksOp{kind: 'I', idx: i})
	}
	return ops
}

// directed sequences, run on every seed (the random ones follow)
func ksDirected() [][]ksOp {
	top := uint32(1<<31 - 1)
	return [][]ksOp{
		// the boundary of the searched range and its multiples, on a fresh object (index 0 was derived for the base address)
		ksI(127, 128, 129, 255, 256, 257, 384, 1<<20, 1<<30, top-127, top, 0, 1),
		// low first, then the same residue high; FindAddress is what uses the low indices
		append(append([]ksOp{{kind: 'F', idx: 5}}, ksI(5, 133, 1029, 5+1<<16, 5)...), ksOp{kind: 'F', idx: 5}),
		// high first, then low; the low address must still be found at its index
		append(ksI(130, 2, 130+128, 2), ksOp{kind: 'F', idx: 2}, ksOp{kind: 'F', idx: 130}),
		// the largest legal indices first, then everything below
		append(ksI(top, top-128, top-256, 127, 255, top), ksOp{kind: 'F', idx: 127}),
		// a not-found search walks 0..127, then the high indices of several residues, a second object in between
		{{kind: 'F', idx: 4000}, {kind: 'I', idx: 128 + 77}, {kind: 'J', idx: 77}, {kind: 'I', idx: 77}, {kind: 'J', idx: 128 + 77}, {kind: 'I', idx: 77 + 1<<24}, {kind: 'F', idx: 77}},
		// the caller wipes a key pair it was handed; later derivations of the same and of aliasing indices are unaffected
		{{kind: 'I', idx: 3}, {kind: 'Z'}, {kind: 'I', idx: 3}, {kind: 'I', idx: 131}, {kind: 'Z'}, {kind: 'I', idx: 131}, {kind: 'I', idx: 3}, {kind: 'F', idx: 3}},
		// refused indices in between do not disturb
		{{kind: 'I', idx: 1 << 31}, {kind: 'I', idx: 0}, {kind: 'I', idx: 1<<32 - 1}, {kind: 'I', idx: 127}, {kind: 'I', idx: 1<<31 + 128}, {kind: 'I', idx: 128}, {kind: 'I', idx: 0}},
		// full paths and index paths of aliasing indices mixed
		{{kind: 'P', path: ksIndexPath(9)}, {kind: 'I', idx: 137}, {kind: 'P', path: ksIndexPath(137)}, {kind: 'P', path: "m/44'/73404'/0137'"}, {kind: 'I', idx: 9}, {kind: 'P', path: "m/44'/73404'/137'/0'"}, {kind: 'I', idx: 137}},
	}
}

func walletKeyStoreSequences(c *Ctx) {
	n := c.N/25 + len(ksDirected())
	if v, ok := c.Args["kssequences"]; ok {
		fmt.Sscan(v, &n)
	}
	sizes := []int{32, 16, 24, 20, 28}
	dir := ksDirected()
	for i := 0; i < n; i++ {
		e := make([]byte, sizes[i%len(sizes)])
		c.R.Read(e)
		ks, err := wallet.KeyStoreFromEntropyVerif(append([]byte{}, e...))
		if err != nil {
			c.Fail("keyStoreFromEntropy(len %d) failed: %v", len(e), err)
			return
		}
		if i < len(dir) {
			c.Hit("ksobj-directed")
			ksRunSequence(c, "a fresh keyStoreFromEntropy", e, ks, dir[i])
		} else {
			ksRunSequence(c, "a fresh keyStoreFromEntropy", e, ks, ksRandomOps(c))
		}
	}
}
