package main

import (
	"bytes"
	"encoding/hex"
	"errors"
	"fmt"
	"sort"
	"strings"
	"sync"

	"github.com/inconshreveable/log15"
	"github.com/zenon-network/go-zenon/chain"
	"github.com/zenon-network/go-zenon/chain/nom"
	"github.com/zenon-network/go-zenon/common"
	"github.com/zenon-network/go-zenon/common/db"
	"github.com/zenon-network/go-zenon/common/types"
)

// C14 stream `pool`: operation sequences on a real chain.NewAccountPool for one address. The stable side (the
// chain's confirmed account database) is an in-memory database per confirmed prefix, exactly what
// Stable.GetStableAccountDB hands to the pool.
//
//	pool-new                                            fresh pool, empty confirmed chain
//	pool-add <force> <height> <hash> <prev> <total> <base> | <result> <frontier> <uncommitted>
//	pool-insert <n> {<height> <hash> <prev>}*           | <frontier> <uncommitted>     momentum confirming n blocks
//	pool-delete <keep>                                  | <frontier> <uncommitted>     momentum rollback to <keep> confirmed blocks
//
// hashes are 4 bytes (8 hex digits) padded with zeros to 32 bytes; frontier = <height>:<hash>; uncommitted = hashes joined by ','.

type poolStable struct {
	dbs map[types.Address]db.DB
}

func (s *poolStable) GetStableAccountDB(address types.Address) db.DB {
	d, ok := s.dbs[address]
	if !ok {
		d = db.NewMemDB()
		s.dbs[address] = d
	}
	return d
}

type poolMomentumListener interface {
	InsertMomentum(*nom.DetailedMomentum)
	DeleteMomentum(*nom.DetailedMomentum)
}

func h4(c *Ctx) types.Hash {
	var h types.Hash
	for {
		c.R.Read(h[:4])
		if c.R.Intn(4) == 0 {
			h[0], h[1] = 0, 0 // shared prefixes for the tie-break
		}
		if h != types.ZeroHash {
			return h
		}
	}
}

func s8(h types.Hash) string { return hex.EncodeToString(h[:4]) }

func poolErr(err error) string {
	switch {
	case err == nil:
		return "ok"
	case errors.Is(err, chain.ErrPlasmaRatioIsWorse):
		return "ratio"
	case errors.Is(err, chain.ErrHashTieBreak):
		return "tie"
	case strings.Contains(err.Error(), "older than stable identifier"):
		return "older"
	case strings.Contains(err.Error(), "can't pop manager"):
		return "cantpop"
	case strings.Contains(err.Error(), "missing previous"):
		return "noprev"
	case strings.Contains(err.Error(), "can't insert identifier"):
		return "addfailed"
	default:
		return "other"
	}
}

type poolSeq struct {
	c         *Ctx
	addr      types.Address
	stable    *poolStable
	pool      chain.AccountPool
	confirmed []*nom.AccountBlock // the confirmed chain of the address
	history   []db.DB             // stable database after each confirmed block (history[i] holds confirmed[:i])
	lock      sync.Mutex
	seen      map[types.HashHeight]bool // every block identifier the sequence ever offered to the pool or confirmed
}

func newPoolSeq(c *Ctx) *poolSeq {
	s := &poolSeq{c: c, stable: &poolStable{dbs: map[types.Address]db.DB{}}, seen: map[types.HashHeight]bool{}}
	s.addr = idxAddress(7, 1)
	s.pool = chain.NewAccountPool(s.stable)
	s.history = []db.DB{db.NewMemDB()}
	s.stable.dbs[s.addr] = s.history[0]
	c.Emit("pool-new")
	return s
}

func (s *poolSeq) stableId() types.HashHeight {
	if len(s.confirmed) == 0 {
		return types.ZeroHashHeight
	}
	return s.confirmed[len(s.confirmed)-1].Identifier()
}

// observe returns "<frontier> <uncommitted>" and runs the model-free monitors of the single-chain clause
func (s *poolSeq) observe(op string) (string, []*nom.AccountBlock) {
	var unc []*nom.AccountBlock
	out := guard(func() string {
		unc = s.pool.GetUncommittedAccountBlocksByAddress(s.addr)
		fr := s.pool.GetFrontierAccountStore(s.addr)
		id := fr.Identifier()
		hs := make([]string, len(unc))
		for i, b := range unc {
			if b == nil {
				hs[i] = "nil"
			} else {
				hs[i] = s8(b.Hash)
			}
		}
		u := "-"
		if len(hs) > 0 {
			u = strings.Join(hs, ",")
		}
		// monitor: confirmed blocks are what the frontier store shows at confirmed heights
		for _, cb := range s.confirmed {
			got, err := fr.ByHeight(cb.Height)
			if err != nil || got == nil || got.Hash != cb.Hash {
				s.c.Fail("pool after %s: frontier store shows %v at confirmed height %d, confirmed block is %s", op, got, cb.Height, s8(cb.Hash))
				break
			}
		}
		return fmt.Sprintf("%d:%s %s", id.Height, s8(id.Hash), u)
	})
	if out == "panic" {
		s.c.Fail("pool after %s: reading the pool panics", op)
		return out, nil
	}
	// monitor: the uncommitted blocks form one chain extending the last confirmed block
	prev := s.stableId()
	for i, b := range unc {
		if b == nil || b.Previous() != prev {
			s.c.Fail("pool after %s: uncommitted block %d does not extend its predecessor %d:%s (confirmed height %d)", op, i, prev.Height, s8(prev.Hash), len(s.confirmed))
			break
		}
		prev = b.Identifier()
	}
	// monitor: the pool holds (answers GetPatch for) exactly the blocks of its uncommitted chain - a block that lost its
	// place to a competitor, was rolled back, is confirmed, or was refused is not "in the pool" (sync and gossip skip a
	// delivered block for which GetPatch answers)
	pooled := map[types.HashHeight]bool{}
	for _, b := range unc {
		if b != nil {
			pooled[b.Identifier()] = true
		}
	}
	for _, id := range sortedIds(s.seen) {
		var p db.Patch
		if pn := safely(func() { p = s.pool.GetPatch(s.addr, id) }); pn != "" {
			s.c.Fail("pool after %s: GetPatch(%d:%s) panics", op, id.Height, s8(id.Hash))
			break
		}
		if (p != nil) != pooled[id] {
			f := strings.SplitN(strings.TrimSpace(out), " ", 2)
			s.c.Fail("pool after %s: GetPatch(%d:%s) answers %v but the block is %s the account's uncommitted chain [%s] (pool frontier %s, %d confirmed blocks): only the blocks of that chain are in the pool - a displaced, rolled back, refused or confirmed block is not", op, id.Height, s8(id.Hash),
				map[bool]string{true: "a patch", false: "nil"}[p != nil], map[bool]string{true: "on", false: "not on"}[pooled[id]], f[len(f)-1], f[0], len(s.confirmed))
			break
		}
	}
	return out, unc
}

func (s *poolSeq) add(b *nom.AccountBlock, force bool) {
	// the pooled block this one competes with, if it is a well-formed competitor (same previous, other hash)
	var rival *nom.AccountBlock
	if _, unc := s.observe("pre-add"); !force && int(b.Height) > len(s.confirmed) && int(b.Height) <= len(s.confirmed)+len(unc) {
		old := unc[int(b.Height)-len(s.confirmed)-1]
		if old != nil && old.Hash != b.Hash && old.Previous() == b.Previous() {
			rival = old
		}
	}
	tx := &nom.AccountBlockTransaction{Block: b, Changes: db.NewPatch()}
	s.seen[b.Identifier()] = true
	res := guard(func() string {
		if force {
			return poolErr(s.pool.ForceAddAccountBlockTransaction(&s.lock, tx))
		}
		return poolErr(s.pool.AddAccountBlockTransaction(&s.lock, tx))
	})
	op := fmt.Sprintf("add(force=%v height=%d hash=%s prev=%s plasma=%d/%d)", force, b.Height, s8(b.Hash), s8(b.PreviousHash), b.TotalPlasma, b.BasePlasma)
	obs, _ := s.observe(op)
	f := 0
	if force {
		f = 1
	}
	s.c.Emit("pool-add %d %d %s %s %d %d | %s %s", f, b.Height, s8(b.Hash), s8(b.PreviousHash), b.TotalPlasma, b.BasePlasma, res, obs)
	s.c.Hit("add-" + res)
	if res == "panic" {
		s.c.Fail("pool %s panics", op)
	}
	// monitor: the winner between two candidates for one height is chosen by the rule (higher plasma ratio, then
	// smaller hash), whatever the arrival order
	if rival != nil {
		want := prioStatement(b, rival)
		s.c.Hit("rival-" + want)
		if (res == "ok") != (want == "ok") {
			s.c.Fail("pool: competitor for height %d refused/accepted against the rule: %s vs pooled hash=%s plasma=%d/%d gives %s, the rule (higher plasma ratio, then smaller hash) gives %s",
				b.Height, op, s8(rival.Hash), rival.TotalPlasma, rival.BasePlasma, res, want)
		}
	}
	// monitor: a confirmed block is never displaced — an accepted block at a confirmed height is the confirmed block
	if res == "ok" && int(b.Height) <= len(s.confirmed) && b.Height >= 1 && s.confirmed[b.Height-1].Hash != b.Hash {
		s.c.Fail("pool %s accepted at confirmed height %d where %s is confirmed", op, b.Height, s8(s.confirmed[b.Height-1].Hash))
	}
}

func (s *poolSeq) insert(nb []*nom.AccountBlock) {
	_, before := s.observe("pre-insert")
	cur := s.history[len(s.history)-1]
	args := []string{}
	for _, b := range nb {
		next := cur.Snapshot()
		data, err := b.Serialize()
		common.DealWithErr(err)
		common.DealWithErr(db.SetFrontier(next, b.Identifier(), data))
		s.confirmed = append(s.confirmed, b)
		s.seen[b.Identifier()] = true
		s.history = append(s.history, next)
		cur = next
		args = append(args, fmt.Sprint(b.Height), s8(b.Hash), s8(b.PreviousHash))
	}
	s.stable.dbs[s.addr] = cur
	res := guard(func() string {
		s.pool.(poolMomentumListener).InsertMomentum(&nom.DetailedMomentum{Momentum: &nom.Momentum{}})
		return "ok"
	})
	op := fmt.Sprintf("insert-momentum(confirming %d blocks up to height %d)", len(nb), len(s.confirmed))
	if res == "panic" {
		s.c.Fail("pool %s panics", op)
	}
	obs, after := s.observe(op)
	s.c.Emit("pool-insert %d %s | %s", len(nb), strings.Join(args, " "), obs)
	// monitor: the pool holds exactly the previously pooled blocks that were not confirmed and still link
	want := []*nom.AccountBlock{}
	for _, b := range before {
		if b != nil && int(b.Height) > len(s.confirmed) {
			want = append(want, b)
		}
	}
	if len(want) > 0 && want[0].Previous() != s.stableId() {
		want = nil
		s.c.Hit("insert-unlinks-pool")
	} else if len(want) > 0 {
		s.c.Hit("insert-keeps-pool")
	}
	same := len(want) == len(after)
	for i := 0; same && i < len(want); i++ {
		same = after[i] != nil && want[i].Hash == after[i].Hash
	}
	if !same {
		s.c.Fail("pool after %s holds %d blocks, the previously pooled unconfirmed blocks that still link are %d", op, len(after), len(want))
	}
}

func (s *poolSeq) delete(keep int) {
	s.confirmed = s.confirmed[:keep]
	s.history = s.history[:keep+1]
	s.stable.dbs[s.addr] = s.history[keep]
	s.pool.(poolMomentumListener).DeleteMomentum(nil)
	obs, _ := s.observe("delete-momentum")
	s.c.Emit("pool-delete %d | %s", keep, obs)
	s.c.Hit("delete")
}

func (s *poolSeq) mk(height uint64, prev types.Hash) *nom.AccountBlock {
	c := s.c
	b := &nom.AccountBlock{Address: s.addr, Height: height, PreviousHash: prev, Hash: h4(c), BlockType: nom.BlockTypeUserSend}
	switch c.R.Intn(4) {
	case 0:
		b.TotalPlasma, b.BasePlasma = 21000, 21000
	case 1:
		b.TotalPlasma, b.BasePlasma = 42000, 21000
	case 2:
		b.TotalPlasma, b.BasePlasma = uint64(21000*(1+c.R.Intn(4))), 21000+68*uint64(c.R.Intn(3))
	default:
		b.TotalPlasma, b.BasePlasma = randPlasmaIn(c, 10500000), 21000
	}
	return b
}

func init() {
	register("pool", func(c *Ctx) {
		log15.Root().SetHandler(log15.DiscardHandler())
		for q := 0; q < c.N; q++ {
			s := newPoolSeq(c)
			steps := 5 + c.R.Intn(30)
			for i := 0; i < steps; i++ {
				_, unc := s.observe("generator")
				// chain = confirmed ++ uncommitted as the generator's view of the account
				chainBlocks := append(append([]*nom.AccountBlock{}, s.confirmed...), unc...)
				hashAt := func(h int) types.Hash { // hash of the block at height h (0 = zero hash)
					if h <= 0 || h > len(chainBlocks) || chainBlocks[h-1] == nil {
						return types.ZeroHash
					}
					return chainBlocks[h-1].Hash
				}
				top := len(chainBlocks)
				switch r := c.R.Intn(100); {
				case r < 40 || top == 0: // on top
					s.add(s.mk(uint64(top+1), hashAt(top)), c.R.Intn(10) == 0)
				case r < 65 && len(unc) > 0: // competitor for a pooled height
					h := len(s.confirmed) + 1 + c.R.Intn(len(unc))
					b := s.mk(uint64(h), hashAt(h-1))
					if old := chainBlocks[h-1]; old != nil {
						switch c.R.Intn(4) {
						case 0: // equal ratio: hash decides
							b.TotalPlasma, b.BasePlasma = old.TotalPlasma, old.BasePlasma
						case 1: // better
							b.TotalPlasma, b.BasePlasma = old.TotalPlasma+21000, old.BasePlasma
						}
					}
					s.add(b, c.R.Intn(6) == 0)
				case r < 70: // a block that is already there (pooled or confirmed)
					b := *chainBlocks[c.R.Intn(top)]
					s.add(&b, c.R.Intn(4) == 0)
				case r < 77 && len(s.confirmed) > 0: // competitor of a confirmed block
					h := 1 + c.R.Intn(len(s.confirmed))
					b := s.mk(uint64(h), hashAt(h-1))
					b.TotalPlasma = 10500000
					s.add(b, c.R.Intn(2) == 0)
				case r < 82: // does not link: gap, wrong previous hash, height 0
					switch c.R.Intn(3) {
					case 0:
						s.add(s.mk(uint64(top+2+c.R.Intn(3)), hashAt(top)), c.R.Intn(3) == 0)
					case 1:
						h := 1 + c.R.Intn(top+1)
						s.add(s.mk(uint64(h), h4(c)), c.R.Intn(3) == 0)
					default:
						s.add(s.mk(0, hashAt(top)), c.R.Intn(3) == 0)
					}
				case r < 92: // momentum confirming a prefix of the pool (possibly nothing)
					k := 0
					if len(unc) > 0 {
						k = c.R.Intn(len(unc) + 1)
					}
					nb := make([]*nom.AccountBlock, 0, k)
					for _, b := range unc[:k] {
						if b != nil {
							nb = append(nb, b)
						}
					}
					s.insert(nb)
					c.Hit("insert-prefix")
				case r < 96: // momentum confirming a competitor of the first pooled block (plus maybe one more on top)
					h := len(s.confirmed) + 1
					b := s.mk(uint64(h), hashAt(h-1))
					nb := []*nom.AccountBlock{b}
					if c.R.Intn(3) == 0 {
						nb = append(nb, s.mk(uint64(h+1), b.Hash))
					}
					s.insert(nb)
					c.Hit("insert-competitor")
				default: // momentum rollback
					if len(s.confirmed) > 0 {
						s.delete(len(s.confirmed) - 1 - c.R.Intn(minInt(len(s.confirmed), 3)))
					}
				}
			}
		}
	})
}

// sortedIds: by height, then hash (deterministic reports)
func sortedIds(m map[types.HashHeight]bool) []types.HashHeight {
	out := make([]types.HashHeight, 0, len(m))
	for id := range m {
		out = append(out, id)
	}
	sort.Slice(out, func(i, j int) bool {
		if out[i].Height != out[j].Height {
			return out[i].Height < out[j].Height
		}
		return bytes.Compare(out[i].Hash[:], out[j].Hash[:]) < 0
	})
	return out
}

func minInt(a, b int) int {
	if a < b {
		return a
	}
	return b
}
