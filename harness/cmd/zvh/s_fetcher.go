package main

// Stream `fetcher` (C15 bloat / stall / blame, C16 at fetcher level): the REAL protocol/fetcher.Fetcher, built by fetcher.New with
// scripted callbacks, driven through its exported entry points Notify / Enqueue / Filter by 1-6 peers; after every event the
// bookkeeping is read through the read-only hook protocol/fetcher/export_gd_verif.go and printed; Driver/Fetcher.lean replays
// the same events on Model/Fetcher.lean (`step code`) and compares.
//
// Determinism (a fetcher is a goroutine with a timer and one goroutine per import):
//   * the snapshot is taken INSIDE the chainHeight callback, i.e. on the goroutine of loop() at the head of an iteration;
//   * after every event the stream settles: it wakes the loop with empty Filter calls until two snapshots from different
//     iterations are equal and show nothing pending that would still move by itself (no announcement that is due, no expired
//     fetch, no import goroutine in flight: len(queued) == queue.Size()), and all expected broadcasts have arrived;
//   * times are classes, not clock readings: the time handed to Notify is T0-10s (stale: due at once and expired once
//     fetching), T0-1s (due at once, pending for the rest of the episode) or T0+1h (fresh: never due). Announcements are made
//     in that order (the real handler passes time.Now(): non-decreasing), so every due group is a singleton when the timer takes
//     it (rand.Intn(1)). An episode that took more than 2 s of wall-clock is run again from the start;
//   * blocks name as parent only blocks of the scripted canonical chain below their own height or an unknown hash, and
//     chainHeight() is the height of the canonical prefix: two imports in flight never depend on each other.
//
//   fe new <H0>                                              | ok
//   fe notify <peer> <hash> <s|d|f>                          | <state>
//   fe enqueue <peer> <hash> <height> <parent> <v><i><c>     | <state>      (v: validateBlock ok, i: insertChain ok, c: canonical)
//   fe deliver <hash> <height> <parent> <v><i><c>            | <state>      (Filter with that one block)
//   fe leave <peer>                                          | <state>      (the fetcher has no entry point for it: nothing is called)
//   <state> = a=<hashes>/<entries> f=<fetching> q=<queued>/<prque> ca=<peer:count,…|-> cq=<…> h=<height> drop=<…|-> imp=<…|-> bc=<…|->
//
// Monitors (model-free): per peer pending announcements ≤ hashLimit and queued blocks ≤ blockLimit, total queued ≤ peers × blockLimit,
// queued heights within [H0 - maxUncleDist, height + maxQueueDist], counters equal the counted entries, dropPeer only for a peer
// that handed in (or was fetched from for) a block failing validation, insertChain only for submitted blocks that pass validation with
// a known parent and height ≤ chain height + 1, propagate-broadcast only after validation, announce-broadcast only after import.

import (
	"encoding/binary"
	"errors"
	"fmt"
	"sort"
	"strings"
	"sync"
	"time"

	"github.com/zenon-network/go-zenon/chain/nom"
	"github.com/zenon-network/go-zenon/common/types"
	"github.com/zenon-network/go-zenon/protocol/fetcher"
)

const (
	feHashLimit  = 256
	feBlockLimit = 64
	feUncle      = 7
	feQueueDist  = 32
	feCanonBase  = 1000000
)

type feBlk struct {
	id, height, parent uint64
	vOk, iOk, canon    bool
}

func (b *feBlk) flags() string {
	s := ""
	for _, x := range []bool{b.vOk, b.iOk, b.canon} {
		if x {
			s += "1"
		} else {
			s += "0"
		}
	}
	return s
}

func feHash(id uint64) types.Hash {
	var h types.Hash
	binary.BigEndian.PutUint64(h[24:], id)
	return h
}
func feID(h types.Hash) uint64 { return binary.BigEndian.Uint64(h[24:]) }

type feEnv struct {
	mu      sync.Mutex
	known   map[uint64]bool
	height  uint64
	h0      uint64
	blocks  map[uint64]*feBlk
	origin  map[uint64]map[string]bool // who handed in / was fetched from for a block
	f       *fetcher.Fetcher
	snap    fetcher.VerifSnap
	seq     int
	dropped []string
	imp     []string
	bc      []string
	wantBc  int
	fails   []string
}

func (e *feEnv) fail(format string, a ...interface{}) {
	e.fails = append(e.fails, fmt.Sprintf(format, a...))
}

func (e *feEnv) detailed(b *feBlk) *nom.DetailedMomentum {
	return &nom.DetailedMomentum{Momentum: &nom.Momentum{Hash: feHash(b.id), PreviousHash: feHash(b.parent), Height: b.height}}
}

func newFeEnv(h0 uint64) *feEnv {
	e := &feEnv{known: map[uint64]bool{}, height: h0, h0: h0, blocks: map[uint64]*feBlk{}, origin: map[uint64]map[string]bool{}}
	for n := uint64(0); n <= h0; n++ {
		e.known[feCanonBase+n] = true
	}
	e.f = fetcher.New(
		func(h types.Hash) *nom.DetailedMomentum { // getBlock
			e.mu.Lock()
			defer e.mu.Unlock()
			if e.known[feID(h)] {
				return &nom.DetailedMomentum{Momentum: &nom.Momentum{Hash: h}}
			}
			return nil
		},
		func(block *nom.Momentum, parent *nom.Momentum) error { // validateBlock
			e.mu.Lock()
			defer e.mu.Unlock()
			b := e.blocks[feID(block.Hash)]
			if b == nil {
				e.fail("fetcher-validates-unsubmitted hash=%d", feID(block.Hash))
				return errors.New("unknown")
			}
			if !e.known[b.parent] {
				e.fail("fetcher-validates-without-parent hash=%d", b.id)
			}
			if !b.vOk {
				return errors.New("invalid")
			}
			e.wantBc++
			return nil
		},
		func(block *nom.DetailedMomentum, propagate bool) { // broadcastBlock
			e.mu.Lock()
			defer e.mu.Unlock()
			id := feID(block.Momentum.Hash)
			b := e.blocks[id]
			if b == nil || !b.vOk {
				e.fail("fetcher-broadcasts-unvalidated hash=%d", id)
			} else if !propagate && !(b.iOk && e.known[id]) {
				e.fail("fetcher-announces-unimported hash=%d", id)
			}
			e.bc = append(e.bc, fmt.Sprintf("%d:%v", id, map[bool]string{true: "t", false: "f"}[propagate]))
		},
		func() uint64 { // chainHeight: on the goroutine of loop()
			s := e.f.VerifSnapshot()
			e.mu.Lock()
			defer e.mu.Unlock()
			e.snap = s
			e.seq++
			return e.height
		},
		func(blocks []*nom.DetailedMomentum) (int, error) { // insertChain
			e.mu.Lock()
			defer e.mu.Unlock()
			for _, d := range blocks {
				id := feID(d.Momentum.Hash)
				b := e.blocks[id]
				if b == nil {
					e.fail("fetcher-imports-unsubmitted hash=%d", id)
					return 0, errors.New("unknown")
				}
				if !b.vOk || !e.known[b.parent] {
					e.fail("fetcher-imports-unverified hash=%d vOk=%v parentKnown=%v", id, b.vOk, e.known[b.parent])
				}
				if b.height > e.height+1 {
					e.fail("fetcher-imports-out-of-order hash=%d height=%d chain=%d", id, b.height, e.height)
				}
				e.imp = append(e.imp, fmt.Sprint(id))
				if !b.iOk {
					return 0, errors.New("refused")
				}
				e.known[id] = true
				if b.canon && b.height == e.height+1 {
					e.height++
				}
				e.wantBc++
			}
			return len(blocks), nil
		},
		func(id string) { // dropPeer
			e.mu.Lock()
			defer e.mu.Unlock()
			e.dropped = append(e.dropped, id)
		})
	e.f.Start()
	return e
}

func (e *feEnv) read() (fetcher.VerifSnap, int, int, int) {
	e.mu.Lock()
	defer e.mu.Unlock()
	return e.snap, e.seq, len(e.bc), e.wantBc
}

func feSnapKey(s fetcher.VerifSnap) string {
	return fmt.Sprintf("%d/%d/%d/%d/%d/%d/%d %s %s", s.AnnouncedHashes, s.AnnouncedEntries, s.AnnouncedDue, s.Fetching, s.FetchingExpired,
		s.Queued, s.QueueSize, feCounts(s.Announces), feCounts(s.Queues))
}

func feCounts(m map[string]int) string {
	var ks []string
	for k := range m {
		ks = append(ks, k)
	}
	sort.Strings(ks)
	var out []string
	for _, k := range ks {
		if m[k] == 0 { // (a key holding 0 reads like a missing key)
			continue
		}
		out = append(out, fmt.Sprintf("%s:%d", strings.TrimPrefix(k, "p"), m[k]))
	}
	if len(out) == 0 {
		return "-"
	}
	return strings.Join(out, ",")
}

// settle: wake the loop until nothing moves by itself any more; false = did not settle (harness error, never a verdict)
func (e *feEnv) settle() (fetcher.VerifSnap, bool) {
	prevKey, prevSeq := "", -1
	for i := 0; i < 20000; i++ {
		e.f.Filter(nil)
		e.f.Filter(nil)
		s, seq, bc, want := e.read()
		key := feSnapKey(s)
		quiet := s.AnnouncedDue == 0 && s.FetchingExpired == 0 && s.Queued == s.QueueSize && bc == want
		if quiet && key == prevKey && seq > prevSeq && prevSeq >= 0 {
			return s, true
		}
		if quiet && key == prevKey {
			// same iteration seen twice: go round again
		} else if quiet {
			prevKey, prevSeq = key, seq
			continue
		} else {
			prevKey, prevSeq = "", -1
			time.Sleep(50 * time.Microsecond)
		}
	}
	var s fetcher.VerifSnap
	return s, false
}

func feList(xs []string) string {
	if len(xs) == 0 {
		return "-"
	}
	ys := append([]string{}, xs...)
	sort.Strings(ys)
	return strings.Join(ys, ",")
}

type feOp struct {
	kind string // notify enqueue deliver leave
	peer int
	hash uint64
	cls  string
	blk  *feBlk
}

// feScript: one episode. Phase 1: stale / due announcements (each is taken by the timer at once); phase 2: fresh announcements.
func feScript(c *Ctx, h0 uint64) []feOp {
	var ops []feOp
	nPeers := 1 + c.R.Intn(6)
	peer := func() int { return 1 + c.R.Intn(nPeers) }
	height := h0 // the script's idea of the chain height (canonical blocks it has sent with all flags good)
	nextID := uint64(1)
	var sent []*feBlk
	var announcedHashes []uint64
	mk := func(kind int) *feBlk {
		b := &feBlk{vOk: true, iOk: true}
		switch kind {
		case 0: // next canonical block
			b.height = height + 1
			b.id, b.parent, b.canon = feCanonBase+b.height, feCanonBase+b.height-1, true
			height++
		case 1: // canonical block ahead (gap)
			b.height = height + 2 + uint64(c.R.Intn(4))
			b.id, b.parent, b.canon = feCanonBase+b.height, feCanonBase+b.height-1, true
		case 2: // fork / uncle near the head, good or bad
			d := c.R.Intn(10)
			if uint64(d) > height {
				d = 0
			}
			b.height = height + 1 - uint64(d)
			if b.height == 0 {
				b.height = 1
			}
			b.id, b.parent = nextID, feCanonBase+b.height-1
			nextID++
			switch c.R.Intn(4) {
			case 0:
				b.vOk = false
			case 1:
				b.iOk = false
			case 2:
				b.parent = 900000 + uint64(c.R.Intn(50)) // unknown parent
			}
		case 3: // boundary distances
			ds := []int64{-9, -8, -7, -6, 31, 32, 33, 34, 1000, -1000}
			d := ds[c.R.Intn(len(ds))]
			hh := int64(height) + d
			if hh < 1 {
				hh = 1
			}
			b.height = uint64(hh)
			b.id, b.parent = nextID, feCanonBase+b.height-1
			nextID++
			if c.R.Intn(3) == 0 {
				b.vOk = false
			}
		case 4: // a waiting block (does not fit yet): distinct hash, height+2 … height+30
			b.height = height + 2 + uint64(c.R.Intn(29))
			b.id, b.parent = nextID, feCanonBase+b.height-1
			nextID++
		}
		sent = append(sent, b)
		return b
	}
	blockOp := func() {
		k := c.R.Intn(100)
		var b *feBlk
		switch {
		case k < 30:
			b = mk(0)
		case k < 40:
			b = mk(1)
		case k < 60:
			b = mk(2)
		case k < 75:
			b = mk(3)
		case k < 85:
			b = mk(4)
		default:
			if len(sent) > 0 {
				b = sent[c.R.Intn(len(sent))] // duplicate
			} else {
				b = mk(0)
			}
		}
		if c.R.Intn(8) == 0 && len(announcedHashes) > 0 {
			// a block under an announced hash handed in directly by some peer (not necessarily the announcer), often invalid
			id := announcedHashes[c.R.Intn(len(announcedHashes))]
			if id < feCanonBase {
				nb := &feBlk{id: id, height: height + 1, parent: feCanonBase + height, vOk: c.R.Intn(2) == 0, iOk: true}
				ops = append(ops, feOp{kind: "enqueue", peer: peer(), blk: nb})
				return
			}
		}
		if c.R.Intn(5) == 0 && len(announcedHashes) > 0 {
			// delivery through Filter of a block under an announced hash
			id := announcedHashes[c.R.Intn(len(announcedHashes))]
			nb := &feBlk{id: id, height: height + uint64(c.R.Intn(3)), parent: feCanonBase + height, vOk: c.R.Intn(3) != 0, iOk: true}
			if nb.height > 0 {
				nb.parent = feCanonBase + nb.height - 1
			}
			if id >= feCanonBase { // the hash of a canonical block names that block
				nb = &feBlk{id: id, height: id - feCanonBase, parent: id - 1, vOk: true, iOk: true, canon: true}
			}
			ops = append(ops, feOp{kind: "deliver", blk: nb})
			return
		}
		ops = append(ops, feOp{kind: "enqueue", peer: peer(), blk: b})
	}
	hashFor := func() uint64 {
		switch c.R.Intn(4) {
		case 0:
			if len(announcedHashes) > 0 {
				return announcedHashes[c.R.Intn(len(announcedHashes))]
			}
		case 1:
			return feCanonBase + height + 1 + uint64(c.R.Intn(3))
		}
		h := 500000 + uint64(c.R.Intn(100000))
		return h
	}
	n1 := c.R.Intn(16)
	for i := 0; i < n1; i++ {
		switch k := c.R.Intn(10); {
		case k < 5:
			cls := "s"
			if c.R.Intn(2) == 0 {
				cls = "d"
			}
			h := hashFor()
			announcedHashes = append(announcedHashes, h)
			ops = append(ops, feOp{kind: "notify", peer: peer(), hash: h, cls: cls})
		case k < 9:
			blockOp()
		default:
			ops = append(ops, feOp{kind: "leave", peer: peer()})
		}
	}
	// a burst of stale announcements by one peer: its counter sinks
	if c.R.Intn(3) == 0 {
		p, m := peer(), 1+c.R.Intn(12)
		for i := 0; i < m; i++ {
			ops = append(ops, feOp{kind: "notify", peer: p, hash: 700000 + uint64(i), cls: "s"})
		}
	}
	n2 := c.R.Intn(16)
	for i := 0; i < n2; i++ {
		switch k := c.R.Intn(10); {
		case k < 5:
			h := hashFor()
			announcedHashes = append(announcedHashes, h)
			ops = append(ops, feOp{kind: "notify", peer: peer(), hash: h, cls: "f"})
		case k < 9:
			blockOp()
		default:
			ops = append(ops, feOp{kind: "leave", peer: peer()})
		}
	}
	switch c.R.Intn(6) {
	case 0: // flood of distinct fresh hashes by one peer
		p := peer()
		for i := 0; i < feHashLimit+8; i++ {
			ops = append(ops, feOp{kind: "notify", peer: p, hash: 800000 + uint64(i), cls: "f"})
		}
		c.Hit("fe:flood-hashes")
	case 1: // flood of one hash by one peer
		p := peer()
		for i := 0; i < feHashLimit+8; i++ {
			ops = append(ops, feOp{kind: "notify", peer: p, hash: 800000, cls: "f"})
		}
		c.Hit("fe:flood-one-hash")
	case 2: // flood of waiting blocks by one peer, then by all
		p := peer()
		for i := 0; i < feBlockLimit+6; i++ {
			ops = append(ops, feOp{kind: "enqueue", peer: p, blk: mk(4)})
		}
		c.Hit("fe:flood-blocks")
	}
	// a tail: the chain moves on
	n3 := c.R.Intn(8)
	for i := 0; i < n3; i++ {
		ops = append(ops, feOp{kind: "enqueue", peer: peer(), blk: mk(0)})
	}
	return ops
}

func feEpisode(c *Ctx, h0 uint64, ops []feOp) (lines []string, fails []string, ok bool, slow bool) {
	e := newFeEnv(h0)
	defer e.f.Stop()
	t0 := time.Now()
	nDrop, nImp, nBc := 0, 0, 0
	peersSeen := map[string]bool{}
	announcers := map[uint64]map[string]bool{}
	if _, ok := e.settle(); !ok {
		return nil, nil, false, false
	}
	lines = append(lines, fmt.Sprintf("fe new %d | ok", h0))
	for _, op := range ops {
		var line string
		pid := fmt.Sprintf("p%d", op.peer)
		switch op.kind {
		case "notify":
			peersSeen[pid] = true
			if announcers[op.hash] == nil {
				announcers[op.hash] = map[string]bool{}
			}
			announcers[op.hash][pid] = true
			var t time.Time
			switch op.cls {
			case "s":
				t = t0.Add(-10 * time.Second)
			case "d":
				t = t0.Add(-1 * time.Second)
			default:
				t = t0.Add(time.Hour)
			}
			e.f.Notify(pid, feHash(op.hash), t, func([]types.Hash) error { return nil })
			line = fmt.Sprintf("fe notify %d %d %s", op.peer, op.hash, op.cls)
		case "enqueue":
			peersSeen[pid] = true
			e.mu.Lock()
			if old := e.blocks[op.blk.id]; old == nil {
				e.blocks[op.blk.id] = op.blk
			} else {
				op.blk = old // a hash names one block
			}
			if e.origin[op.blk.id] == nil {
				e.origin[op.blk.id] = map[string]bool{}
			}
			e.origin[op.blk.id][pid] = true
			e.mu.Unlock()
			e.f.Enqueue(pid, e.detailed(op.blk))
			line = fmt.Sprintf("fe enqueue %d %d %d %d %s", op.peer, op.blk.id, op.blk.height, op.blk.parent, op.blk.flags())
		case "deliver":
			e.mu.Lock()
			if old := e.blocks[op.blk.id]; old != nil {
				op.blk = old // a hash names one block
			} else {
				e.blocks[op.blk.id] = op.blk
			}
			if e.origin[op.blk.id] == nil {
				e.origin[op.blk.id] = map[string]bool{}
			}
			for p := range announcers[op.blk.id] { // whoever announced it may be blamed: the fetcher's choice (the announcer it asked)
				e.origin[op.blk.id][p] = true
			}
			e.mu.Unlock()
			e.f.Filter([]*nom.DetailedMomentum{e.detailed(op.blk)})
			line = fmt.Sprintf("fe deliver %d %d %d %s", op.blk.id, op.blk.height, op.blk.parent, op.blk.flags())
		case "leave":
			line = fmt.Sprintf("fe leave %d", op.peer)
		}
		s, ok := e.settle()
		if !ok {
			return nil, nil, false, false
		}
		e.mu.Lock()
		drops, imps, bcs := e.dropped[nDrop:], e.imp[nImp:], e.bc[nBc:]
		dropsShown := []string{}
		for _, d := range drops {
			dropsShown = append(dropsShown, strings.TrimPrefix(d, "p"))
		}
		nDrop, nImp, nBc = len(e.dropped), len(e.imp), len(e.bc)
		height := e.height
		// ---- monitors -------------------------------------------------------------------------------------------------
		for p, n := range s.PendingByPeer {
			if n > feHashLimit {
				e.fail("fetcher-announce-bound peer=%s pending=%d limit=%d", p, n, feHashLimit)
			}
		}
		total := 0
		for p, n := range s.QueuedByPeer {
			total += n
			if n > feBlockLimit {
				e.fail("fetcher-queue-bound peer=%s queued=%d limit=%d", p, n, feBlockLimit)
			}
		}
		if total > len(peersSeen)*feBlockLimit {
			e.fail("fetcher-total-bound queued=%d peers=%d", total, len(peersSeen))
		}
		for _, qh := range s.QueuedHeights {
			if qh+feUncle < h0 || qh > height+feQueueDist {
				e.fail("fetcher-queued-distance height=%d chain=%d..%d", qh, h0, height)
			}
		}
		for p := range peersSeen {
			if s.Announces[p] != s.PendingByPeer[p] {
				e.fail("fetcher-announce-counter peer-counter=%d pending=%d", s.Announces[p], s.PendingByPeer[p])
			}
			if s.Queues[p] != s.QueuedByPeer[p] {
				e.fail("fetcher-queue-counter peer=%s counter=%d queued=%d", p, s.Queues[p], s.QueuedByPeer[p])
			}
		}
		for _, d := range drops {
			blamed := false
			for id, ps := range e.origin {
				if b := e.blocks[id]; b != nil && !b.vOk && ps[d] {
					blamed = true
				}
			}
			if !blamed {
				e.fail("fetcher-drops-innocent peer=%s", d)
			}
		}
		e.mu.Unlock()
		line += fmt.Sprintf(" | a=%d/%d f=%d q=%d/%d ca=%s cq=%s h=%d drop=%s imp=%s bc=%s", s.AnnouncedHashes, s.AnnouncedEntries, s.Fetching,
			s.Queued, s.QueueSize, feCounts(s.Announces), feCounts(s.Queues), height, feList(dropsShown), feList(imps), feList(bcs))
		lines = append(lines, line)
		if time.Since(t0) > 2*time.Second {
			return nil, nil, true, true
		}
	}
	e.mu.Lock()
	fails = append(fails, e.fails...)
	e.mu.Unlock()
	return lines, fails, true, false
}

func init() {
	register("fetcher", func(c *Ctx) {
		silence()
		for ep := 0; ep < c.N; ep++ {
			h0 := uint64(8 + c.R.Intn(40))
			if c.R.Intn(8) == 0 {
				h0 = uint64(c.R.Intn(8)) // a chain shorter than maxUncleDist
			}
			ops := feScript(c, h0)
			done := false
			for try := 0; try < 4 && !done; try++ {
				lines, fails, ok, slow := feEpisode(c, h0, ops)
				if !ok {
					c.Hit("fe:unsettled")
					panic("fetcher stream: the loop did not settle")
				}
				if slow {
					c.Hit("fe:episode-too-slow-retried")
					continue
				}
				done = true
				for _, l := range lines {
					c.Emit("%s", l)
					c.Hit("fe:" + strings.Fields(l)[1])
					if !strings.Contains(l, "drop=-") && strings.Contains(l, "drop=") {
						c.Hit("fe:drop")
					}
					if !strings.Contains(l, "imp=-") && strings.Contains(l, "imp=") {
						c.Hit("fe:import")
					}
					if strings.Contains(l, ":-") {
						c.Hit("fe:negative-counter")
					}
				}
				seen := map[string]bool{}
				for _, f := range fails {
					k := strings.Fields(f)[0]
					if !seen[k] { // one report per kind and episode
						seen[k] = true
						c.Fail("%s episode=%d", f, ep)
					}
				}
			}
			if !done {
				c.Hit("fe:episode-skipped-slow")
			}
		}
	})
}
