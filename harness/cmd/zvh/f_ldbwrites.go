package main

// Facts for C08 (atomicity of a commit / rollback across a process death), read from the AST of the working tree of
// common/db (test files and verif-tagged export files left out):
//
//   - every access to a struct field named `ldb` (the *leveldb.DB handle of ldbManager) anywhere in the package:
//     (function, kind, what) with kind = "call" (a method called on the handle, with its arguments), "pass" (the handle
//     handed to another function: the call it is an argument of), "assign" / "init" / "read";
//   - so "ldbManager.Add and ldbManager.Pop each contain exactly one mutating call on the handle, the Write of one batch,
//     and no other function of the package writes to it" is a `decide` statement about a generated table
//     (Props/C08Gen.lean): a second write site breaks the build before the crash stream finds the image.

import (
	"go/ast"
	"go/parser"
	"go/token"
	"os"
	"path/filepath"
	"sort"
	"strings"
)

func init() {
	factGens = append(factGens, func(repo string) (*factFile, error) {
		f := newFactFile("LdbWrites")
		dir := filepath.Join(repo, "common/db")
		ents, err := os.ReadDir(dir)
		if err != nil {
			return nil, err
		}
		var names []string
		for _, e := range ents {
			n := e.Name()
			if e.IsDir() || !strings.HasSuffix(n, ".go") || strings.HasSuffix(n, "_test.go") || strings.HasSuffix(n, "_verif.go") {
				continue
			}
			names = append(names, n)
		}
		sort.Strings(names)
		var rows, calls [][3]string
		for _, n := range names {
			fset := token.NewFileSet()
			pf, err := parser.ParseFile(fset, filepath.Join(dir, n), nil, 0)
			if err != nil {
				return nil, err
			}
			for _, d := range pf.Decls {
				fd, ok := d.(*ast.FuncDecl)
				if !ok || fd.Body == nil {
					continue
				}
				fname := fd.Name.Name
				if fd.Recv != nil && len(fd.Recv.List) == 1 {
					t := fd.Recv.List[0].Type
					if s, ok := t.(*ast.StarExpr); ok {
						t = s.X
					}
					if id, ok := t.(*ast.Ident); ok {
						fname = id.Name + "." + fname
					}
				}
				var stack []ast.Node
				ast.Inspect(fd, func(nd ast.Node) bool {
					if nd == nil {
						stack = stack[:len(stack)-1]
						return true
					}
					stack = append(stack, nd)
					switch x := nd.(type) {
					case *ast.KeyValueExpr:
						if id, ok := x.Key.(*ast.Ident); ok && id.Name == "ldb" {
							rows = append(rows, [3]string{fname, "init", exprStr(fset, x.Value)})
						}
						return true
					case *ast.SelectorExpr:
						if x.Sel.Name != "ldb" {
							return true
						}
					default:
						return true
					}
					kind, what := "read", ""
					if len(stack) >= 2 {
						switch p := stack[len(stack)-2].(type) {
						case *ast.SelectorExpr: // m.ldb.Method
							what = p.Sel.Name
							if len(stack) >= 3 {
								if ce, ok := stack[len(stack)-3].(*ast.CallExpr); ok && ce.Fun == p {
									args := make([]string, len(ce.Args))
									for i, a := range ce.Args {
										args[i] = exprStr(fset, a)
									}
									kind, what = "call", p.Sel.Name+"("+strings.Join(args, ", ")+")"
									calls = append(calls, [3]string{fname, p.Sel.Name, strings.Join(args, ", ")})
								}
							}
						case *ast.CallExpr: // f(m.ldb, …)
							for _, a := range p.Args {
								if a == nd {
									kind, what = "pass", exprStr(fset, p)
								}
							}
						case *ast.AssignStmt:
							for i, l := range p.Lhs {
								if l == nd && len(p.Rhs) == len(p.Lhs) {
									kind, what = "assign", p.Tok.String()+" "+exprStr(fset, p.Rhs[i])
								}
							}
							for _, r := range p.Rhs {
								if r == nd {
									kind, what = "alias", exprStr(fset, p)
								}
							}
						}
					}
					rows = append(rows, [3]string{fname, kind, what})
					return true
				})
			}
		}
		f.raw("-- common/db (AST of the working tree): every access to a field named ldb: (function, kind, what)\n")
		f.raw("%s", leanTriples("LdbAccesses", rows))
		f.raw("-- the rows of kind call once more, method name and arguments apart: (function, method, arguments)\n")
		f.raw("%s", leanTriples("LdbCalls", calls))
		return f, nil
	})
}
