package main

import (
	"crypto/sha256"
	"fmt"
	"math/big"
	"sort"
	"strings"

	g "github.com/zenon-network/go-zenon/chain/genesis/mock"
	"github.com/zenon-network/go-zenon/chain/nom"
	"github.com/zenon-network/go-zenon/chain/store"
	"github.com/zenon-network/go-zenon/common"
	"github.com/zenon-network/go-zenon/common/types"
	"github.com/zenon-network/go-zenon/verifier"
	"github.com/zenon-network/go-zenon/vm"
	"github.com/zenon-network/go-zenon/vm/constants"
	"github.com/zenon-network/go-zenon/vm/embedded"
	"github.com/zenon-network/go-zenon/vm/embedded/definition"
)

// ---------------------------------------------------------------------------------------------------
// spork stream (C17), family "THE GATE TABLE": every (contract, method) a spork introduces - the methods of a new contract
// as well as the methods a spork ADDS TO A CONTRACT THAT ALREADY EXISTS - just below / at / above the enforcement height of
// every spork, under ALL SIX activation orders of the three implemented sporks (and with the last one of the order only
// created, or never created), at send time AND at receive time.
//
// The reference is a REVIEWED table written down here (sporkGateTable: method -> the spork that introduces it; the same
// table is Model/Spork.lean introducedBy, and Props/C17Table.lean proves the two equal and the regenerated tables of all 8
// regimes to be exactly "methods whose spork is at or below the regime's level"). It is NOT read off the method tables of
// the code under test: a table derived from the code cannot notice a method that leaked into an earlier table.
//
// Monitors (model-free; the activity flags are read off the spork contract's storage as of the momentum concerned and
// cross-checked with acknowledged height + minimum delay of the activation):
//   table    GetEmbeddedMethod under each of the 8 regimes resolves exactly the methods whose spork is at or below the level
//   send     a call acknowledging momentum a is refused by the gate iff the spork that introduces its method is not enforced
//            at a (real Submit of every introduced method with generated arguments + designed valid calls; and the same for
//            blocks acknowledging OLDER momentums around every enforcement height, whatever the frontier)
//   receive  a contract receive acknowledging momentum r whose method's spork is NOT enforced at r changes nothing: the
//            contract's storage is what it was and the only block it emits is the refund of the amount sent; a designed call
//            (Fund / BurnZnn with sufficient funds, htlc.Create, accelerator.CreateProject) whose spork IS enforced at r
//            takes effect
// Finding F17 (table selection by priority htlc > bridge&liquidity > accelerator): with a LATER spork of that order enforced
// and its own not, a method is accepted at send time, and - unless its receive body tests its own spork again (reviewed list
// sporkReceiveGated: liquidity.Fund, liquidity.BurnZnn) - executed at receive time. Exactly that is reported with the
// signature of F17; an effect of a receive-gated method below its spork's height, or any availability that the level rule
// does not explain, is a plain C17 violation.
// ---------------------------------------------------------------------------------------------------

// sporkGateTable: REVIEWED. 0 = part of the protocol from genesis, 1 = accelerator, 2 = bridge&liquidity, 3 = htlc.
var sporkGateTable = map[string]int{
	"accelerator.AddPhase": 1, "accelerator.CreateProject": 1, "accelerator.Donate": 0, "accelerator.Update": 1,
	"accelerator.UpdatePhase": 1, "accelerator.VoteByName": 1, "accelerator.VoteByProdAddress": 1,
	"bridge.ChangeAdministrator": 2, "bridge.ChangeTssECDSAPubKey": 2, "bridge.Emergency": 2, "bridge.Halt": 2,
	"bridge.NominateGuardians": 2, "bridge.ProposeAdministrator": 2, "bridge.Redeem": 2, "bridge.RemoveNetwork": 2,
	"bridge.RemoveTokenPair": 2, "bridge.RevokeUnwrapRequest": 2, "bridge.SetAllowKeyGen": 2, "bridge.SetBridgeMetadata": 2,
	"bridge.SetNetwork": 2, "bridge.SetNetworkMetadata": 2, "bridge.SetOrchestratorInfo": 2, "bridge.SetTokenPair": 2,
	"bridge.Unhalt": 2, "bridge.UnwrapToken": 2, "bridge.UpdateWrapRequest": 2, "bridge.WrapToken": 2,
	"htlc.AllowProxyUnlock": 3, "htlc.Create": 3, "htlc.DenyProxyUnlock": 3, "htlc.Reclaim": 3, "htlc.Unlock": 3,
	"liquidity.BurnZnn": 1, "liquidity.CancelLiquidityStake": 2, "liquidity.ChangeAdministrator": 2, "liquidity.CollectReward": 2,
	"liquidity.Donate": 0, "liquidity.Emergency": 2, "liquidity.Fund": 1, "liquidity.LiquidityStake": 2,
	"liquidity.NominateGuardians": 2, "liquidity.ProposeAdministrator": 2, "liquidity.SetAdditionalReward": 2,
	"liquidity.SetIsHalted": 2, "liquidity.SetTokenTuple": 2, "liquidity.UnlockLiquidityStakeEntries": 2, "liquidity.Update": 0,
	"pillar.CollectReward": 0, "pillar.Delegate": 0, "pillar.DepositQsr": 0, "pillar.Register": 0, "pillar.RegisterLegacy": 0,
	"pillar.Revoke": 0, "pillar.Undelegate": 0, "pillar.Update": 0, "pillar.UpdatePillar": 0, "pillar.WithdrawQsr": 0,
	"plasma.CancelFuse": 0, "plasma.Fuse": 0,
	"sentinel.CollectReward": 0, "sentinel.DepositQsr": 0, "sentinel.Register": 0, "sentinel.Revoke": 0, "sentinel.Update": 0,
	"sentinel.WithdrawQsr": 0, "spork.ActivateSpork": 0, "spork.CreateSpork": 0,
	"stake.Cancel": 0, "stake.CollectReward": 0, "stake.Stake": 0, "stake.Update": 0, "swap.RetrieveAssets": 0,
	"token.Burn": 0, "token.IssueToken": 0, "token.Mint": 0, "token.UpdateToken": 0,
}

// sporkReceiveGated: REVIEWED. Spork-introduced methods whose ReceiveBlock tests its own spork again (F17 exposes them to
// send-time acceptance only).
var sporkReceiveGated = map[string]bool{"liquidity.BurnZnn": true, "liquidity.Fund": true}

var sporkTagNames = []string{"accelerator", "bridge-liquidity", "htlc"}

// sporkLevel: GetEmbeddedMethod's table selection - the last enforced spork in the order accelerator < bridge&liquidity < htlc
func sporkLevel(flags [3]bool) int {
	switch {
	case flags[2]:
		return 3
	case flags[1]:
		return 2
	case flags[0]:
		return 1
	}
	return 0
}

// sporkGateTag: "C17 spork-order" (the signature of finding F17) exactly when the level rule explains what was seen: the
// method's own spork is not enforced, a LATER one is; at receive time additionally only for methods without their own test
func sporkGateTag(own int, flags [3]bool, key string, receiveTime bool) string {
	if own >= 1 && !flags[own-1] && sporkLevel(flags) > own && !(receiveTime && sporkReceiveGated[key]) {
		return "C17 spork-order"
	}
	return "C17"
}

// sporkTableMonitor: the real GetEmbeddedMethod under each of the 8 regimes against the reviewed table (no chain needed)
func sporkTableMonitor(c *Ctx) {
	resolved := map[string]bool{}
	for regime := 0; regime < 8; regime++ {
		flags := [3]bool{regime&1 != 0, regime&2 != 0, regime&4 != 0}
		ctx := &regimeCtx{acc: flags[0], bridge: flags[1], htlc: flags[2]}
		for _, ca := range allContractABIs {
			for _, name := range sortedMethodNames(ca.abi) {
				key := embeddedNames[ca.addr][2:] + "." + name
				_, err := embedded.GetEmbeddedMethod(ctx, ca.addr, ca.abi.Methods[name].Id())
				got := err == nil
				own, reviewed := sporkGateTable[key]
				if got {
					resolved[key] = true
				}
				c.Hit(fmt.Sprintf("gate-table-resolved-%v", got))
				if !reviewed {
					if got {
						c.Fail("C17: GetEmbeddedMethod(context with spork flags [acc=%v bridge=%v htlc=%v], %s, selector of %s) resolves a method that the reviewed gate table does not list: a method was added without saying which spork introduces it", flags[0], flags[1], flags[2], embeddedNames[ca.addr][2:], name)
					}
					continue
				}
				if want := own <= sporkLevel(flags); got != want {
					tagOwn := "no spork (part of the protocol from genesis)"
					if own >= 1 {
						tagOwn = "the " + sporkTagNames[own-1] + " spork"
					}
					c.Fail("C17: GetEmbeddedMethod(context with spork flags [acc=%v bridge=%v htlc=%v], %s, selector of %s) resolved=%v (%v); the method is introduced by %s, so in this regime it must be resolved=%v", flags[0], flags[1], flags[2], embeddedNames[ca.addr][2:], name, got, err, tagOwn, want)
				}
			}
		}
	}
	var missing []string
	for key := range sporkGateTable {
		if !resolved[key] {
			missing = append(missing, key)
		}
	}
	sort.Strings(missing)
	if len(missing) > 0 {
		c.Fail("C17: methods of the reviewed gate table that GetEmbeddedMethod resolves under NO combination of enforced sporks: %s", strings.Join(missing, ", "))
	}
}

// gateData: the call data in a failure text (selector + the first words; the run is reproduced from seed and run number)
func gateData(b []byte) string {
	if len(b) > 68 {
		return fmt.Sprintf("%s...(%d bytes)", hx(b[:68]), len(b))
	}
	return hx(b)
}

var sporkGateOrders = [6][3]int{{0, 1, 2}, {1, 0, 2}, {2, 1, 0}, {1, 2, 0}, {0, 2, 1}, {2, 0, 1}}

type gateCall struct {
	key      string
	own      int // 1..3
	designed bool
	tpl      *nom.AccountBlock
}

func sporkGateScenario(c *Ctx, id int) {
	origGate := verifier.ReceiverMismatchEnforcementHeight
	origMap := map[types.Hash]bool{}
	for k, v := range types.ImplementedSporksMap {
		origMap[k] = v
	}
	defer func() {
		verifier.ReceiverMismatchEnforcementHeight = origGate
		for k := range types.ImplementedSporksMap {
			delete(types.ImplementedSporksMap, k)
		}
		for k, v := range origMap {
			types.ImplementedSporksMap[k] = v
		}
	}()
	verifier.ReceiverMismatchEnforcementHeight = 0

	order := sporkGateOrders[(id+int(c.Seed%6))%6]
	// how much of the order happens: everything / the last spork of the order is only created / it is never created
	last := "activated" // the first six scenarios of a run: the six orders in full
	if id >= 6 {
		last = []string{"created-only", "never-created"}[(id+int(c.Seed))%2]
	}
	orderText := fmt.Sprintf("%s, %s, %s (the last one %s)", sporkTagNames[order[0]], sporkTagNames[order[1]], sporkTagNames[order[2]], last)
	c.Hit("gate-scenario")
	c.Hit(fmt.Sprintf("gate-order-%d%d%d-last-%s", order[0], order[1], order[2], last))

	n := NewNode()
	defer n.Stop()
	c.Emit("S-reset")
	fail := func(format string, a ...interface{}) {
		c.Fail("spork-gate run=%d h=%d [activation order %s]: %s", id, n.Height(), orderText, fmt.Sprintf(format, a...))
	}
	sporks := []*sporkRec{
		{name: "gate-accelerator", bound: types.AcceleratorSpork, tag: "acc"},
		{name: "gate-bridge-liq", bound: types.BridgeAndLiquiditySpork, tag: "bridge"},
		{name: "gate-htlc", bound: types.HtlcSpork, tag: "htlc"},
	}
	abort := false
	// what finding F17 explains is reported once per scenario, method and phase (and counted); everything else every time
	reportedF17 := map[string]bool{}
	failTagged := func(tag, phase, key, format string, a ...interface{}) {
		if tag != "C17" {
			c.Hit("gate-F17-" + phase)
			if reportedF17[phase+key] {
				return
			}
			reportedF17[phase+key] = true
		}
		fail(tag+": "+format, a...)
	}
	storeAt := func(h uint64) store.Momentum {
		m, err := n.Chain().GetFrontierMomentumStore().GetMomentumByHeight(h)
		if err != nil || m == nil {
			return nil
		}
		return n.Chain().GetMomentumStore(m.Identifier())
	}
	// activity flags as of the momentum of height h: read off the spork contract's storage of that momentum, cross-checked
	// with what the calls this scenario made imply (acknowledged height of the activation + minimum delay)
	flagsAt := func(h uint64) (flags [3]bool, ok bool) {
		st := storeAt(h)
		if st == nil {
			fail("no store for momentum %d", h)
			return flags, false
		}
		recs := map[types.Hash]*definition.Spork{}
		for _, sp := range definition.GetAllSporks(st.GetAccountStore(types.SporkContract).Storage()) {
			recs[sp.Id] = sp
		}
		for i, s := range sporks {
			if !s.created {
				continue
			}
			if sp := recs[s.id]; sp != nil {
				flags[i] = sp.Activated && sp.EnforcementHeight <= h && h != 1
			}
			byCalls := s.enf != 0 && h >= s.enf && h >= s.recorded
			if flags[i] != byCalls {
				fail("C17: the spork contract as of height %d says the %s spork is enforced=%v, the activation call (enforcement height %d, recorded at %d) implies %v", h, sporkTagNames[i], flags[i], s.enf, s.recorded, byCalls)
				abort = true
				return flags, false
			}
		}
		return flags, true
	}
	observe := func(h uint64) {
		st := storeAt(h)
		if st == nil {
			return
		}
		for _, s := range sporks {
			if !s.created {
				continue
			}
			act, err := st.IsSporkActive(s.bound)
			if err != nil {
				fail("IsSporkActive: %v", err)
				continue
			}
			c.Emit("S-active %d %s | %v", h, h8(s.id), act)
			if want := s.enf != 0 && h >= s.enf && h >= s.recorded && h != 1; act != want {
				fail("C17: IsSporkActive(%s spork) on the store of height %d answers %v, by height alone (enforcement height %d) it must be %v", s.tag, h, act, s.enf, want)
				abort = true
			}
		}
	}
	n.OnMomentum = func(dm *nom.DetailedMomentum) {
		for _, b := range dm.AccountBlocks {
			if b.BlockType != nom.BlockTypeContractReceive || b.Address != types.SporkContract {
				continue
			}
			send, _ := n.Chain().GetFrontierMomentumStore().GetAccountBlockByHash(b.FromBlockHash)
			if send == nil {
				continue
			}
			res := "fail"
			if common.BytesToUint64(b.Data) == 1 {
				res = "ok"
			}
			m, err := definition.ABISpork.MethodById(send.Data)
			if err != nil {
				continue
			}
			fh := b.MomentumAcknowledged.Height
			switch m.Name {
			case definition.SporkCreateMethodName:
				c.Emit("S-create sporkKey %d %s | %s", fh, h8(send.Hash), res)
				for _, s := range sporks {
					if s.id == send.Hash && res == "ok" {
						s.createdAt = dm.Momentum.Height
					}
				}
			case definition.SporkActivateMethodName:
				sid := new(types.Hash)
				definition.ABISpork.UnpackMethod(sid, m.Name, send.Data)
				c.Emit("S-activate sporkKey %d %s | %s", fh, h8(*sid), res)
				for _, s := range sporks {
					if s.created && s.id == *sid && res == "ok" {
						s.enf = fh + constants.SporkMinHeightDelay
						s.recorded = dm.Momentum.Height
					}
				}
			}
		}
		observe(dm.Momentum.Height)
	}

	methodKey := func(to types.Address, data []byte) string {
		for _, ca := range allContractABIs {
			if ca.addr == to {
				if m, err := ca.abi.MethodById(data); err == nil {
					return embeddedNames[ca.addr][2:] + "." + m.Name
				}
			}
		}
		return ""
	}
	designedSends := map[types.Hash]bool{}
	execSeen := map[string]bool{}
	// judge one contract receive: `r` = height of the momentum it acknowledges
	judge := func(send *nom.AccountBlock, res *vm.ContractExecution, before, after []string, r uint64) {
		key := methodKey(send.ToAddress, send.Data)
		own, reviewed := sporkGateTable[key]
		if key == "" || !reviewed || own == 0 {
			return
		}
		blk := res.Transaction.Block
		if blk.MomentumAcknowledged.Height != r {
			fail("harness: the receive block acknowledges height %d, expected %d", blk.MomentumAcknowledged.Height, r)
			return
		}
		flags, ok := flagsAt(r)
		if !ok {
			return
		}
		diff := arStorageDiff(before, after)
		var moved []string
		refunded := false
		for _, d := range blk.DescendantBlocks {
			if send.Amount != nil && send.Amount.Sign() > 0 && d.ToAddress == send.Address && d.TokenStandard == send.TokenStandard && d.Amount.Cmp(send.Amount) == 0 && len(d.Data) == 0 && !refunded {
				refunded = true
				continue
			}
			moved = append(moved, fmt.Sprintf("%s %s to %s", amt(d.Amount), tokName(d.TokenStandard), addrName(d.ToAddress)))
		}
		kept := send.Amount != nil && send.Amount.Sign() > 0 && !refunded
		effect := diff != "" || len(moved) > 0 || kept
		designed := designedSends[send.Hash]
		c.Emit("S-exec %d %s %v %v | ok", r, key, effect, designed)
		c.Hit(fmt.Sprintf("gate-receive-own-spork-enforced=%v-effect=%v", flags[own-1], effect))
		execSeen[key] = true
		status := "failed"
		if len(blk.Data) == 8 && common.BytesToUint64(blk.Data) == 1 {
			status = "succeeded"
		}
		what := fmt.Sprintf("the call of %s (send block %s by %s, amount %s %s, data %s) was answered by a receive block acknowledging height %d, on which the %s spork that introduces the method is enforced=%v [acc=%v bridge=%v htlc=%v]; the receive %s",
			key, h8(send.Hash), addrName(send.Address), amt(send.Amount), tokName(send.TokenStandard), gateData(send.Data), r, sporkTagNames[own-1], flags[own-1], flags[0], flags[1], flags[2], status)
		if !flags[own-1] && effect {
			var parts []string
			if len(moved) > 0 {
				parts = append(parts, "the contract emitted "+strings.Join(moved, ", "))
			}
			if diff != "" {
				parts = append(parts, "contract storage changed: "+diff)
			}
			if kept {
				parts = append(parts, "the amount sent was kept")
			}
			tag := sporkGateTag(own, flags, key, true)
			c.Hit("gate-receive-effect-below-height-" + strings.ReplaceAll(tag, " ", "-"))
			failTagged(tag, "receive", key, "a spork-gated feature EXECUTED below its enforcement height: %s and %s", what, strings.Join(parts, "; "))
		}
		if flags[own-1] && designed && !effect {
			fail("C17: a spork-gated feature is not available from its enforcement height on: %s and changed nothing, although the call was built to take effect", what)
		}
		if designed {
			c.Hit(fmt.Sprintf("gate-designed-receive-%s-enforced=%v-effect=%v", key, flags[own-1], effect))
		}
	}
	// the contract phase of the momentum producer (pillar/worker.go: generateNext for every contract until nothing is left),
	// with the storage of the contract dumped before and after every receive
	receiveAll := func() bool {
		ch := n.Chain()
		ms := ch.GetFrontierMomentumStore()
		r := ms.Identifier().Height
		for round := 0; round < 400; round++ {
			one := false
			for _, ca := range types.EmbeddedContracts {
				var send *nom.AccountBlock
				var res *vm.ContractExecution
				var err error
				var before []string
				nothing := false
				p := safely(func() {
					ins := ch.AcquireInsert("zvh gate contract-generator")
					defer ins.Unlock()
					toReceive := ch.GetFrontierAccountStore(ca).SequencerFront(ms.GetAccountMailbox(ca))
					if toReceive == nil {
						nothing = true
						return
					}
					send, err = ms.GetAccountBlock(*toReceive)
					if err != nil || send == nil {
						err = fmt.Errorf("can't get block but it exists in sequencer: %v", err)
						return
					}
					before = arDumpStorage(n, ca)
					res, err = n.Sup.GenerateAutoReceive(send)
				})
				if nothing {
					continue
				}
				if p != "" || err != nil || res == nil || res.Transaction == nil {
					key := ""
					if send != nil {
						key = methodKey(send.ToAddress, send.Data)
					}
					fail("C09/C17: the contract receive for a call of %s cannot be generated against height %d: %v %s", key, r, err, firstLine300(p))
					abort = true
					return false
				}
				var ierr error
				if p := safely(func() {
					ins := ch.AcquireInsert("zvh gate create-account-block")
					defer ins.Unlock()
					ierr = ch.AddAccountBlockTransaction(ins, res.Transaction)
				}); p != "" || ierr != nil {
					fail("the chain refuses its own contract receive: %v %s", ierr, firstLine300(p))
					abort = true
					return false
				}
				judge(send, res, before, arDumpStorage(n, ca), r)
				one = true
			}
			if !one {
				break
			}
		}
		return !abort
	}
	mom := func() bool {
		if abort {
			return false
		}
		if _, err := n.MomentumWithoutContractPhase(); err != nil {
			fail("momentum: %v", err)
			abort = true
			return false
		}
		return receiveAll()
	}

	pool := &argPool{addrs: []types.Address{g.User1.Address, g.User2.Address, types.TokenContract}, tokens: []types.ZenonTokenStandard{types.ZnnTokenStandard, types.QsrTokenStandard},
		names: []string{g.Pillar1Name}}
	var gatedKeys []string
	for key, own := range sporkGateTable {
		if own >= 1 {
			gatedKeys = append(gatedKeys, key)
		}
	}
	sort.Strings(gatedKeys)
	abiOf := func(key string) (contractABI, string) {
		parts := strings.SplitN(key, ".", 2)
		for _, ca := range allContractABIs {
			if embeddedNames[ca.addr][2:] == parts[0] {
				return ca, parts[1]
			}
		}
		return contractABI{}, ""
	}
	frontierTime := func() int64 {
		m, err := n.Chain().GetFrontierMomentumStore().GetFrontierMomentum()
		if err != nil {
			return 1000000000
		}
		return m.Timestamp.Unix()
	}
	projectN := 0
	// the calls of one round: every spork-introduced method with generated arguments, plus calls built to be valid and to
	// take effect when the feature is on
	roundCalls := func() []gateCall {
		var calls []gateCall
		for _, key := range gatedKeys {
			ca, name := abiOf(key)
			if name == "" {
				continue
			}
			data, err := c.genCall(ca.abi, name, pool)
			if err != nil {
				continue
			}
			from := g.User1.Address
			if sporkReceiveGated[key] || c.R.Intn(4) == 0 {
				from = g.Spork.Address // some methods are reserved to the spork key
			}
			calls = append(calls, gateCall{key: key, own: sporkGateTable[key], tpl: &nom.AccountBlock{BlockType: nom.BlockTypeUserSend, Address: from, ToAddress: ca.addr, Data: data}})
		}
		z, q, b := int64(1+c.R.Intn(50)), int64(1+c.R.Intn(50)), int64(1+c.R.Intn(50))
		projectN++
		lock := sha256.Sum256([]byte(fmt.Sprintf("gate preimage %d %d", id, projectN)))
		calls = append(calls,
			gateCall{key: "liquidity.Fund", own: 1, designed: true, tpl: &nom.AccountBlock{BlockType: nom.BlockTypeUserSend, Address: g.Spork.Address, ToAddress: types.LiquidityContract,
				Data: definition.ABILiquidity.PackMethodPanic(definition.FundMethodName, big.NewInt(z), big.NewInt(q))}},
			gateCall{key: "liquidity.BurnZnn", own: 1, designed: true, tpl: &nom.AccountBlock{BlockType: nom.BlockTypeUserSend, Address: g.Spork.Address, ToAddress: types.LiquidityContract,
				Data: definition.ABILiquidity.PackMethodPanic(definition.BurnZnnMethodName, big.NewInt(b))}},
			gateCall{key: "accelerator.CreateProject", own: 1, designed: true, tpl: &nom.AccountBlock{BlockType: nom.BlockTypeUserSend, Address: g.User2.Address, ToAddress: types.AcceleratorContract,
				TokenStandard: types.ZnnTokenStandard, Amount: new(big.Int).Set(constants.ProjectCreationAmount),
				Data: definition.ABIAccelerator.PackMethodPanic(definition.CreateProjectMethodName, fmt.Sprintf("gate-%d-%d", id, projectN), "d", "www.zenon.network", big.NewInt(100000000), big.NewInt(1000000000))}},
			gateCall{key: "htlc.Create", own: 3, designed: true, tpl: &nom.AccountBlock{BlockType: nom.BlockTypeUserSend, Address: g.User2.Address, ToAddress: types.HtlcContract,
				TokenStandard: types.ZnnTokenStandard, Amount: big.NewInt(100000000),
				Data: definition.ABIHtlc.PackMethodPanic(definition.CreateHtlcMethodName, g.User3.Address, frontierTime()+3600, definition.HashTypeSHA256, uint8(32), lock[:])}},
			// valid calls of methods the bridge&liquidity spork adds to the liquidity contract (they pass the static checks and
			// are really inserted; whether the receive succeeds depends on the contract's state)
			gateCall{key: "liquidity.LiquidityStake", own: 2, tpl: &nom.AccountBlock{BlockType: nom.BlockTypeUserSend, Address: g.User2.Address, ToAddress: types.LiquidityContract,
				TokenStandard: types.ZnnTokenStandard, Amount: big.NewInt(100000000),
				Data: definition.ABILiquidity.PackMethodPanic(definition.LiquidityStakeMethodName, int64(constants.StakeTimeMinSec))}},
			gateCall{key: "liquidity.SetTokenTuple", own: 2, tpl: &nom.AccountBlock{BlockType: nom.BlockTypeUserSend, Address: g.Spork.Address, ToAddress: types.LiquidityContract,
				Data: definition.ABILiquidity.PackMethodPanic(definition.SetTokenTupleMethodName, []string{}, []uint32{}, []uint32{}, []*big.Int{})}},
		)
		return calls
	}
	// one round of real calls acknowledging the frontier
	sentKeys := map[string]bool{}
	callRound := func(why string) {
		a := n.Height()
		flags, ok := flagsAt(a)
		if !ok {
			return
		}
		c.Hit("gate-call-round-" + why)
		for _, gc := range roundCalls() {
			var blk *nom.AccountBlock
			var err error
			blk, err = n.Submit(gc.tpl)
			gate := err == constants.ErrContractMethodNotFound || err == constants.ErrContractDoesntExist
			avail := !gate
			c.Emit("S-avail %d %s | %v", a, gc.key, avail)
			enforced := flags[gc.own-1]
			c.Hit(fmt.Sprintf("gate-send-own-spork-enforced=%v-available=%v-inserted=%v", enforced, avail, err == nil))
			if err == nil {
				sentKeys[gc.key] = true
				if gc.designed {
					designedSends[blk.Hash] = true
				}
			}
			if avail != enforced {
				tag := sporkGateTag(gc.own, flags, gc.key, false)
				if !avail {
					tag = "C17"
				}
				failTagged(tag, "send", gc.key, "a call of %s by %s acknowledging the frontier momentum %d is available=%v (%v; inserted=%v) while the %s spork that introduces the method is enforced=%v on that momentum [acc=%v bridge=%v htlc=%v] (data %s)",
					gc.key, addrName(gc.tpl.Address), a, avail, err, err == nil, sporkTagNames[gc.own-1], enforced, flags[0], flags[1], flags[2], gateData(gc.tpl.Data))
			}
			if gc.designed && enforced && err != nil {
				fail("C17: a valid call of %s acknowledging momentum %d, on which the %s spork is enforced, is refused: %v", gc.key, a, sporkTagNames[gc.own-1], err)
			}
		}
	}
	// send-time validation of every introduced method for a block acknowledging the OLDER momentum h (nothing is inserted)
	probeOld := func(h uint64) {
		m, _ := n.Chain().GetFrontierMomentumStore().GetMomentumByHeight(h)
		if m == nil || h >= n.Height() {
			return
		}
		flags, ok := flagsAt(h)
		if !ok {
			return
		}
		from := g.User5.Address // no block of this account is ever inserted: it may acknowledge any momentum
		for _, key := range gatedKeys {
			ca, name := abiOf(key)
			data, err := c.genCall(ca.abi, name, pool)
			if err != nil {
				continue
			}
			tpl := &nom.AccountBlock{BlockType: nom.BlockTypeUserSend, Address: from, ToAddress: ca.addr, Data: data, MomentumAcknowledged: m.Identifier()}
			var gerr error
			if p := safely(func() { _, gerr = n.Sup.GenerateFromTemplate(tpl, keyOf(from).Signer) }); p != "" {
				fail("C09/C17: send-time validation of %s acknowledged at %d panicked: %s", key, h, p)
				continue
			}
			avail := gerr != constants.ErrContractMethodNotFound && gerr != constants.ErrContractDoesntExist
			c.Emit("S-avail %d %s | %v", h, key, avail)
			own := sporkGateTable[key]
			c.Hit(fmt.Sprintf("gate-older-momentum-own-spork-enforced=%v-available=%v", flags[own-1], avail))
			if avail != flags[own-1] {
				tag := sporkGateTag(own, flags, key, false)
				if !avail {
					tag = "C17"
				}
				failTagged(tag, "older", key, "a call of %s acknowledging the OLDER momentum %d (frontier %d) is available=%v (%v) while the %s spork that introduces the method is enforced=%v on the acknowledged momentum [acc=%v bridge=%v htlc=%v]",
					key, h, n.Height(), avail, gerr, sporkTagNames[own-1], flags[own-1], flags[0], flags[1], flags[2])
			}
		}
	}

	// the liquidity contract gets funds (Donate is part of the protocol from genesis) - Fund and BurnZnn have something to move
	for _, zts := range []types.ZenonTokenStandard{types.ZnnTokenStandard, types.QsrTokenStandard} {
		if _, err := n.Submit(&nom.AccountBlock{BlockType: nom.BlockTypeUserSend, Address: g.User1.Address, ToAddress: types.LiquidityContract,
			Data: definition.ABICommon.PackMethodPanic(definition.DonateMethodName), TokenStandard: zts, Amount: big.NewInt(1000000)}); err != nil {
			fail("setup: donation to the liquidity contract refused: %v", err)
			return
		}
	}
	for i := 0; i < 2; i++ {
		if !mom() {
			return
		}
	}
	observe(1)
	callRound("before-any-spork")
	if !mom() {
		return
	}
	for pos, oi := range order {
		s := sporks[oi]
		if pos == 2 && last == "never-created" {
			break
		}
		b, err := n.Submit(&nom.AccountBlock{BlockType: nom.BlockTypeUserSend, Address: g.Spork.Address, ToAddress: types.SporkContract,
			Data: definition.ABISpork.PackMethodPanic(definition.SporkCreateMethodName, s.name, "verif")})
		if err != nil {
			fail("spork creation refused: %v", err)
			return
		}
		s.id, s.created = b.Hash, true
		s.bound.SporkId = s.id
		types.ImplementedSporksMap[s.id] = true
		c.Emit("S-bind %s %s", s.tag, h8(s.id))
		for k := 0; k < 2; k++ {
			if !mom() {
				return
			}
		}
		if pos == 2 && last == "created-only" {
			break
		}
		if _, err := n.Submit(&nom.AccountBlock{BlockType: nom.BlockTypeUserSend, Address: g.Spork.Address, ToAddress: types.SporkContract,
			Data: definition.ABISpork.PackMethodPanic(definition.SporkActivateMethodName, s.id)}); err != nil {
			fail("spork activation refused: %v", err)
			return
		}
		for k := 0; k < 14 && (s.enf == 0 || n.Height() <= s.enf+1); k++ {
			// calls acknowledging the frontier E-2, E-1, E, E+1: answered by receives acknowledging E-1, E, E+1, E+2
			if s.enf != 0 && n.Height()+2 >= s.enf && n.Height() <= s.enf+1 {
				callRound(fmt.Sprintf("frontier=enforcement%+d", int64(n.Height())-int64(s.enf)))
			}
			if !mom() {
				return
			}
		}
		if s.enf == 0 {
			fail("C17: the activation of the %s spork was never recorded", s.tag)
			return
		}
	}
	// the end state of the order (with the last spork of the order activated, only created, or absent)
	callRound("end-of-order")
	for k := 0; k < 3; k++ {
		if !mom() {
			return
		}
	}
	// blocks acknowledging older momentums around every enforcement height
	for _, s := range sporks {
		if s.enf == 0 {
			continue
		}
		for _, h := range []uint64{s.enf - 2, s.enf - 1, s.enf, s.enf + 1} {
			probeOld(h)
		}
	}
	probeOld(2)
	for _, key := range gatedKeys {
		c.Hit(fmt.Sprintf("gate-method-really-inserted=%v", sentKeys[key]))
		if !sentKeys[key] {
			c.Hit("gate-method-never-inserted-" + key)
		}
		c.Hit(fmt.Sprintf("gate-method-receive-judged=%v", execSeen[key]))
	}
}
