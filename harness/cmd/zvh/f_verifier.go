package main

import (
	"fmt"
	"go/ast"
	"go/parser"
	"go/token"
	"path/filepath"
	"strconv"

	"github.com/zenon-network/go-zenon/verifier"
)

// Verifier facts (C03): the order in which accountBlockVerifier.all / accountBlockTransactionVerifier.all call
// their checks, the order of the stages of Supervisor.applyBlock, the literal of the amount bit-length bound, the
// block type constants and the receiver-mismatch enforcement height — all read from the working tree.

func recvTypeName(fd *ast.FuncDecl) string {
	if fd.Recv == nil || len(fd.Recv.List) == 0 {
		return ""
	}
	t := fd.Recv.List[0].Type
	if s, ok := t.(*ast.StarExpr); ok {
		t = s.X
	}
	if id, ok := t.(*ast.Ident); ok {
		return id.Name
	}
	return ""
}

func findMethod(f *ast.File, recv, name string) *ast.FuncDecl {
	for _, d := range f.Decls {
		if fd, ok := d.(*ast.FuncDecl); ok && fd.Name.Name == name && recvTypeName(fd) == recv {
			return fd
		}
	}
	return nil
}

// checkOrder: the statements of all() must be exactly `if err := recv.X(); err != nil { return err }` ... `return nil`
func checkOrder(fd *ast.FuncDecl) ([]string, error) {
	var out []string
	for i, st := range fd.Body.List {
		switch s := st.(type) {
		case *ast.IfStmt:
			as, ok := s.Init.(*ast.AssignStmt)
			if !ok || len(as.Rhs) != 1 {
				return nil, fmt.Errorf("%s: statement %d is not `if err := x.check(); ...`", fd.Name.Name, i)
			}
			call, ok := as.Rhs[0].(*ast.CallExpr)
			if !ok {
				return nil, fmt.Errorf("%s: statement %d does not call a check", fd.Name.Name, i)
			}
			sel, ok := call.Fun.(*ast.SelectorExpr)
			if !ok {
				return nil, fmt.Errorf("%s: statement %d does not call a method", fd.Name.Name, i)
			}
			// body must return the error
			if len(s.Body.List) != 1 {
				return nil, fmt.Errorf("%s: statement %d: unexpected body", fd.Name.Name, i)
			}
			if _, ok := s.Body.List[0].(*ast.ReturnStmt); !ok {
				return nil, fmt.Errorf("%s: statement %d: body does not return", fd.Name.Name, i)
			}
			out = append(out, sel.Sel.Name)
		case *ast.ReturnStmt:
			if i != len(fd.Body.List)-1 {
				return nil, fmt.Errorf("%s: early return at statement %d", fd.Name.Name, i)
			}
		default:
			return nil, fmt.Errorf("%s: unexpected statement %d (%T)", fd.Name.Name, i, st)
		}
	}
	return out, nil
}

// callsInOrder lists, in source order, the calls inside fd whose selector/ident name is in `want` (deferred
// closures are skipped)
func callsInOrder(fd *ast.FuncDecl, want map[string]bool) []string {
	var out []string
	ast.Inspect(fd.Body, func(n ast.Node) bool {
		switch x := n.(type) {
		case *ast.DeferStmt:
			return false
		case *ast.CallExpr:
			name := ""
			switch f := x.Fun.(type) {
			case *ast.SelectorExpr:
				name = f.Sel.Name
			case *ast.Ident:
				name = f.Name
			}
			if want[name] {
				out = append(out, name)
			}
		}
		return true
	})
	return out
}

func init() {
	factGens = append(factGens, func(repo string) (*factFile, error) {
		f := newFactFile("Verifier")
		fset := token.NewFileSet()
		src, err := parser.ParseFile(fset, filepath.Join(repo, "verifier", "account_block.go"), nil, 0)
		if err != nil {
			return nil, err
		}
		f.raw("-- verifier/account_block.go (AST)\n")
		for _, recv := range []struct{ typ, lean string }{{"accountBlockVerifier", "abVerifierOrder"}, {"accountBlockTransactionVerifier", "abTxVerifierOrder"}} {
			fd := findMethod(src, recv.typ, "all")
			if fd == nil {
				return nil, fmt.Errorf("verifier: %s.all not found", recv.typ)
			}
			order, err := checkOrder(fd)
			if err != nil {
				return nil, err
			}
			f.strList(recv.lean, order)
		}
		// stages of accountVerifier.AccountBlock / AccountBlockTransaction
		for _, m := range []struct{ name, lean string }{{"AccountBlock", "accountBlockStages"}, {"AccountBlockTransaction", "accountBlockTransactionStages"}} {
			fd := findMethod(src, "accountVerifier", m.name)
			if fd == nil {
				return nil, fmt.Errorf("verifier: accountVerifier.%s not found", m.name)
			}
			f.strList(m.lean, callsInOrder(fd, map[string]bool{"getContext": true, "all": true}))
		}
		// literal of `Amount.BitLen() > N`
		bitLen := -1
		if fd := findMethod(src, "accountBlockVerifier", "amounts"); fd != nil {
			ast.Inspect(fd.Body, func(n ast.Node) bool {
				be, ok := n.(*ast.BinaryExpr)
				if !ok || be.Op != token.GTR {
					return true
				}
				call, ok := be.X.(*ast.CallExpr)
				if !ok {
					return true
				}
				if sel, ok := call.Fun.(*ast.SelectorExpr); ok && sel.Sel.Name == "BitLen" {
					if lit, ok := be.Y.(*ast.BasicLit); ok {
						bitLen, _ = strconv.Atoi(lit.Value)
					}
				}
				return true
			})
		}
		if bitLen < 0 {
			return nil, fmt.Errorf("verifier: `Amount.BitLen() > N` not found in accountBlockVerifier.amounts")
		}
		f.nat("AmountMaxBitLen", bitLen)
		f.raw("-- verifier.ReceiverMismatchEnforcementHeight\n")
		f.nat("ReceiverMismatchEnforcementHeight", verifier.ReceiverMismatchEnforcementHeight)

		// vm/supervisor.go: stages of Supervisor.applyBlock and packBlock
		sup, err := parser.ParseFile(fset, filepath.Join(repo, "vm", "supervisor.go"), nil, 0)
		if err != nil {
			return nil, err
		}
		f.raw("-- vm/supervisor.go (AST)\n")
		fd := findMethod(sup, "Supervisor", "applyBlock")
		if fd == nil {
			return nil, fmt.Errorf("supervisor: applyBlock not found")
		}
		f.strList("supervisorApplyStages", callsInOrder(fd, map[string]bool{"AccountBlock": true, "newBlockContext": true, "applyBlock": true, "packBlock": true, "AccountBlockTransaction": true}))
		fd = findMethod(sup, "Supervisor", "packBlock")
		if fd == nil {
			return nil, fmt.Errorf("supervisor: packBlock not found")
		}
		f.strList("supervisorPackStages", callsInOrder(fd, map[string]bool{"AccountBlock": true, "AccountBlockTransaction": true}))
		// vm/vm.go: stages of VM.applyBlock and applySend
		vmf, err := parser.ParseFile(fset, filepath.Join(repo, "vm", "vm.go"), nil, 0)
		if err != nil {
			return nil, err
		}
		f.raw("-- vm/vm.go (AST)\n")
		fd = findMethod(vmf, "VM", "applyBlock")
		if fd == nil {
			return nil, fmt.Errorf("vm: applyBlock not found")
		}
		f.strList("vmApplyStages", callsInOrder(fd, map[string]bool{"enoughPlasma": true, "applySend": true, "applyReceive": true, "generateEmbeddedReceive": true}))
		// does the contract-receive case keep the regenerated descendant blocks (fix 48b97c9)?
		adopts := false
		ast.Inspect(fd.Body, func(n ast.Node) bool {
			as, ok := n.(*ast.AssignStmt)
			if !ok || len(as.Lhs) != 1 || len(as.Rhs) != 1 {
				return true
			}
			l, ok1 := as.Lhs[0].(*ast.SelectorExpr)
			r, ok2 := as.Rhs[0].(*ast.SelectorExpr)
			if ok1 && ok2 && l.Sel.Name == "DescendantBlocks" && r.Sel.Name == "DescendantBlocks" {
				li, _ := l.X.(*ast.Ident)
				ri, _ := r.X.(*ast.Ident)
				if li != nil && ri != nil && li.Name == "block" && ri.Name == "generated" {
					adopts = true
				}
			}
			return true
		})
		f.raw("def vmAdoptsRegeneratedDescendants : Bool := %v\n", adopts)
		fd = findMethod(vmf, "VM", "applySend")
		if fd == nil {
			return nil, fmt.Errorf("vm: applySend not found")
		}
		f.strList("vmApplySendStages", callsInOrder(fd, map[string]bool{"GetEmbeddedMethod": true, "ValidateSendBlock": true, "enoughFunds": true, "SubBalance": true}))

		// the block type constants are generated into Gen/Pool.lean (f_pool.go)
		return f, nil
	})
}
