package main

import (
	"fmt"
	"math/big"
	"sort"
	"strings"
	"time"

	"github.com/zenon-network/go-zenon/chain/account"
	g "github.com/zenon-network/go-zenon/chain/genesis/mock"
	"github.com/zenon-network/go-zenon/chain/nom"
	"github.com/zenon-network/go-zenon/common"
	"github.com/zenon-network/go-zenon/common/types"
	"github.com/zenon-network/go-zenon/verifier"
	"github.com/zenon-network/go-zenon/vm"
	"github.com/zenon-network/go-zenon/vm/embedded/definition"
)

// ---------------------------------------------------------------------------------------------------
// ledger-node stream (C01, C04 at node level): ONE real node (chain over a leveldb directory, consensus, supervisor; no
// pillar worker: the harness produces every block and every momentum itself, signed by the elected pillar) is driven
// through generated sequences of exactly the operations of Model/LedgerNode.lean:
//   put k      a block into the pool at pool height k of its account: k = number of pooled blocks is the fast-forward
//              insert (own block / gossip), k smaller is a competitor built and signed by hand for the height of an
//              already pooled block (normal priority rule or forced as InsertChain does)
//   mom        a momentum whose content is a chosen prefix of the pooled blocks of chosen accounts
//   rollback   chain.RollbackTo 1-3 momentums below the frontier (or to the frontier itself)
//   restart    close + reopen on the same directory
//   reorg      a reorganisation delivered by a peer: protocol.ChainBridge.InsertChain of a strictly longer side chain built on
//              a second real node from a fork point 1-3 momentums down (re-used and fresh blocks; the same sends in the same /
//              another order / left out), with unconfirmed blocks in the pool of the node under test; for the model:
//              rollback to the fork point + the side chain's blocks (put) and momentums (mom)
// After EVERY operation the stream prints, read from the REAL stores: confirmed and pool-frontier balances, received
// markers and pending sets per account, the stored inbox counters (mailbox size, account front index, live entries) of the
// contracts and the pool-level front index, and the pool contents per account. The Lean driver replays the operations
// through LedgerNode and compares every answer.
// Model-free monitors (a scan of the real chain + pool after every operation, no bookkeeping carried across rollbacks):
//   C04  no send has two live receiving blocks (current chain + pool, all accounts), a receive is on the addressee's chain
//   C04  received marker of (account, send) is set  <=>  the account's CONFIRMED chain holds a receive of that send
//   C04  stored inbox: size = number of confirmed sends to the contract, entries = their hashes in confirmation order,
//        front index = number of confirmed receives of the contract, which answer the entries in order
//        and the unconfirmed (pooled) receives of the contract continue that order on the CURRENT chain
//   C01  at the confirmed state and at the pool state: ZNN / QSR supply = sum of all balances + amounts in flight
// ---------------------------------------------------------------------------------------------------

type lnRun struct {
	c      *Ctx
	f      *zFollower
	id     int
	users  []types.Address
	cons   []types.Address // embedded contracts taking part
	all    []types.Address // every account that can hold a balance here
	sends  map[types.Hash]*nom.AccountBlock
	slist  []types.Hash
	failed bool
	note   string
}

func (r *lnRun) fail(format string, a ...interface{}) {
	if r.failed {
		return
	}
	r.failed = true
	r.c.Fail("ledger-node run=%d h=%d after %s: %s", r.id, r.f.Height(), r.note, fmt.Sprintf(format, a...))
}

func lnEvent(b *nom.AccountBlock) string {
	switch b.BlockType {
	case nom.BlockTypeUserSend:
		return fmt.Sprintf("usend %s %s %s %s %s", addrName(b.Address), h8(b.Hash), addrName(b.ToAddress), tokName(b.TokenStandard), amt(b.Amount))
	case nom.BlockTypeUserReceive:
		return fmt.Sprintf("urecv %s %s", addrName(b.Address), h8(b.FromBlockHash))
	case nom.BlockTypeContractReceive:
		status := "0"
		if len(b.Data) == 8 {
			status = fmt.Sprint(common.BytesToUint64(b.Data))
		}
		var sb strings.Builder
		for _, d := range b.DescendantBlocks {
			fmt.Fprintf(&sb, " %s %s %s %s", addrName(d.ToAddress), tokName(d.TokenStandard), amt(d.Amount), h8(d.Hash))
		}
		return fmt.Sprintf("crecv %s %s %s %d%s", addrName(b.Address), h8(b.FromBlockHash), status, len(b.DescendantBlocks), sb.String())
	}
	return "other"
}

func lnShape(b *nom.AccountBlock) string {
	switch b.BlockType {
	case nom.BlockTypeUserSend:
		return "s:" + h8(b.Hash)
	case nom.BlockTypeUserReceive:
		return "r:" + h8(b.FromBlockHash)
	case nom.BlockTypeContractReceive:
		return "c:" + h8(b.FromBlockHash)
	}
	return "?"
}

// pooled blocks of an account as the model counts them: a contract receive with its descendant sends is one block
func (r *lnRun) pooled(a types.Address) []*nom.AccountBlock {
	var out []*nom.AccountBlock
	for _, b := range r.f.ch.GetUncommittedAccountBlocksByAddress(a) {
		if b.BlockType != nom.BlockTypeContractSend {
			out = append(out, b)
		}
	}
	return out
}

func lnClass(err error) string {
	if err == nil {
		return "ok"
	}
	s := err.Error()
	switch {
	case strings.Contains(s, "VM panic"): // recovered inside the supervisor and returned as an error (seen for templates of an account without plasma)
		return "refused-other"
	case strings.Contains(s, "panic"):
		return "panic"
	case strings.Contains(s, "plasma"): // outside the ledger model (C12)
		return "refused-other"
	case strings.Contains(s, "already received"), strings.Contains(s, "already-received"):
		return "refused"
	case strings.Contains(s, "from-block"), strings.Contains(s, "from block"), strings.Contains(s, "sequencer"), strings.Contains(s, "receiver"),
		strings.Contains(s, "insufficient"), strings.Contains(s, "not enough"):
		return "refused"
	}
	return "refused-other"
}

func (r *lnRun) learn(b *nom.AccountBlock) {
	add := func(x *nom.AccountBlock) {
		if x.IsSendBlock() && r.sends[x.Hash] == nil {
			r.sends[x.Hash] = x
			r.slist = append(r.slist, x.Hash)
		}
	}
	add(b)
	for _, d := range b.DescendantBlocks {
		add(d)
	}
}

// addTx inserts a block transaction into the pool (normal priority rule, or forced as InsertChain does)
func (r *lnRun) addTx(tx *nom.AccountBlockTransaction, force bool) (err error) {
	if p := safely(func() {
		ins := r.f.ch.AcquireInsert("zvh ledger-node")
		defer ins.Unlock()
		if force {
			err = r.f.ch.ForceAddAccountBlockTransaction(ins, tx)
		} else {
			err = r.f.ch.AddAccountBlockTransaction(ins, tx)
		}
	}); p != "" {
		err = fmt.Errorf("panic: %s", firstLine(p))
	}
	return err
}

// put: prints the operation with its outcome. `k` is the pool height, `b` the block (nil: nothing could be built)
func (r *lnRun) emitPut(k int, b *nom.AccountBlock, err error) {
	cl := lnClass(err)
	switch cl {
	case "ok", "refused":
		r.c.Emit("LN-put %d %s | %s", k, lnEvent(b), cl)
	case "panic":
		r.fail("the node panics on a block (%s at pool height %d): %v", lnEvent(b), k, err)
		return
	default: // refused for a reason outside the ledger model (priority rule between competitors: C14)
		r.c.Emit("LN-other %d %s | %s", k, lnEvent(b), cl)
	}
	r.c.Hit("put-" + cl)
	if err != nil {
		r.c.Hit("dbg put refused: " + firstLine(err.Error()))
	}
}

func (r *lnRun) submit(tpl *nom.AccountBlock, what string) {
	kp := keyOf(tpl.Address)
	k := len(r.pooled(tpl.Address))
	var tx *nom.AccountBlockTransaction
	var err error
	if p := safely(func() { tx, err = r.f.sup.GenerateFromTemplate(tpl, kp.Signer) }); p != "" {
		err = fmt.Errorf("panic: %s", firstLine(p))
	}
	r.note = what
	if err != nil || tx == nil {
		// the supervisor refuses to build it: print what was asked for (the model must refuse it too when the reason is the ledger's)
		if tpl.Amount == nil {
			tpl.Amount = new(big.Int)
		}
		r.emitPut(k, tpl, err)
		r.c.Hit(what + "-refused")
		return
	}
	err = r.addTx(tx, false)
	r.emitPut(k, tx.Block, err)
	if err == nil {
		r.learn(tx.Block)
		r.c.Hit(what + "-accepted")
	}
}

// lnProduce makes the node `f` produce and insert a momentum with the given content (signed by the elected pillar)
func lnProduce(f *zFollower, blocks []*nom.AccountBlock) (err error) {
	if p := safely(func() {
		ch := f.ch
		prev, e := ch.GetFrontierMomentumStore().GetFrontierMomentum()
		if e != nil {
			err = e
			return
		}
		tsec := int64(prev.TimestampUnix) + 10
		exp, e := f.cons.GetMomentumProducer(time.Unix(tsec, 0))
		if e != nil || exp == nil {
			err = fmt.Errorf("no producer: %v", e)
			return
		}
		ins := ch.AcquireInsert("zvh ledger-node momentum")
		defer ins.Unlock()
		m := &nom.Momentum{ChainIdentifier: ch.ChainIdentifier(), PreviousHash: prev.Hash, Height: prev.Height + 1,
			TimestampUnix: uint64(tsec), Content: nom.NewMomentumContent(blocks), Version: 1}
		m.EnsureCache()
		tx, e := f.sup.GenerateMomentum(&nom.DetailedMomentum{Momentum: m, AccountBlocks: blocks}, keyOf(*exp).Signer)
		if e != nil {
			err = e
			return
		}
		err = ch.AddMomentumTransaction(ins, tx)
	}); p != "" {
		err = fmt.Errorf("panic: %s", firstLine(p))
	}
	return err
}

func (r *lnRun) momentum(blocks []*nom.AccountBlock, desc string) bool {
	err := lnProduce(r.f, blocks)
	r.note = "momentum " + desc
	r.c.Emit("LN-mom %s | %s", desc, lnClass(err))
	if err != nil {
		r.fail("a momentum over a gap-free prefix of pooled blocks (%s) was refused: %v", desc, err)
		return false
	}
	r.c.Hit("momentum")
	return true
}

func sortedHashes(hs []string) string {
	sort.Strings(hs)
	if len(hs) == 0 {
		return "-"
	}
	return strings.Join(hs, ",")
}

// observe: prints the real stores for the driver and runs the model-free monitors
func (r *lnRun) observe() {
	c, ch := r.c, r.f.ch
	st := ch.GetFrontierMomentumStore()
	toks := []types.ZenonTokenStandard{types.ZnnTokenStandard, types.QsrTokenStandard}
	// ---- scan of the real chain: confirmed sends / receives in confirmation order
	type rcv struct {
		by  types.Address
		hdr types.AccountHeader
	}
	confSends := map[types.Hash]*nom.AccountBlock{}
	receives := map[types.Hash][]rcv{}
	confRecvBy := map[types.Address]map[types.Hash]bool{}
	inbox := map[types.Address][]types.Hash{}
	crecvOrder := map[types.Address][]types.Hash{}
	top := st.Identifier().Height
	for h := uint64(2); h <= top; h++ {
		m, err := st.GetMomentumByHeight(h)
		if err != nil || m == nil {
			r.fail("momentum %d unreadable: %v", h, err)
			return
		}
		dm, err := st.PrefetchMomentum(m)
		if err != nil {
			r.fail("momentum %d: %v", h, err)
			return
		}
		byHash := map[types.Hash]*nom.AccountBlock{}
		for _, b := range dm.AccountBlocks {
			byHash[b.Hash] = b
		}
		for _, hd := range m.Content {
			b := byHash[hd.Hash]
			if b == nil {
				continue
			}
			if b.IsSendBlock() {
				confSends[b.Hash] = b
				r.learn(b)
				if types.IsEmbeddedAddress(b.ToAddress) {
					inbox[b.ToAddress] = append(inbox[b.ToAddress], b.Hash)
				}
			} else {
				receives[b.FromBlockHash] = append(receives[b.FromBlockHash], rcv{b.Address, b.Header()})
				if confRecvBy[b.Address] == nil {
					confRecvBy[b.Address] = map[types.Hash]bool{}
				}
				confRecvBy[b.Address][b.FromBlockHash] = true
				if b.BlockType == nom.BlockTypeContractReceive {
					crecvOrder[b.Address] = append(crecvOrder[b.Address], b.FromBlockHash)
				}
			}
		}
	}
	poolRecv := map[types.Hash]bool{}
	var poolSends []*nom.AccountBlock
	for _, a := range r.all {
		for _, b := range ch.GetUncommittedAccountBlocksByAddress(a) {
			if b.IsSendBlock() {
				poolSends = append(poolSends, b)
			} else {
				receives[b.FromBlockHash] = append(receives[b.FromBlockHash], rcv{b.Address, b.Header()})
				poolRecv[b.FromBlockHash] = true
			}
		}
	}
	// ---- C04 receive-once over current chain + pool, addressee only
	for h, l := range receives {
		if len(l) > 1 {
			r.fail("C04: send %s has %d live receiving blocks (current chain + pool): %s/%d and %s/%d", h8(h), len(l), addrName(l[0].by), l[0].hdr.Height, addrName(l[1].by), l[1].hdr.Height)
			return
		}
		if s := r.sends[h]; s != nil && s.ToAddress != l[0].by {
			r.fail("C04: send %s addressed to %s is received by %s", h8(h), addrName(s.ToAddress), addrName(l[0].by))
			return
		}
		if confSends[h] == nil {
			r.fail("C04: block %s/%d receives %s, which is not a confirmed send of the current chain", addrName(l[0].by), l[0].hdr.Height, h8(h))
			return
		}
	}
	// ---- C04 marker <=> confirmed receive, for every send the history ever saw (abandoned branches included)
	for _, a := range r.all {
		as := st.GetAccountStore(a)
		var marked []string
		for _, h := range r.slist {
			is := as.IsReceived(h)
			if types.IsEmbeddedAddress(a) {
				// a contract keeps no marker per send (vm.generateEmbeddedReceive pops the inbox instead): "received by the
				// contract" is stored as "inbox entry below the front index" - read that (judged by the inbox monitor below)
				if is {
					r.fail("C04: contract %s has a received marker for %s (contracts answer through the inbox only)", addrName(a), h8(h))
					return
				}
				continue
			}
			if is != confRecvBy[a][h] {
				r.fail("C04: received marker of (%s, %s) is %v but the confirmed chain of %s holds a receive of it: %v", addrName(a), h8(h), is, addrName(a), confRecvBy[a][h])
				return
			}
			if is {
				marked = append(marked, h8(h))
			}
		}
		if types.IsEmbeddedAddress(a) {
			mb := st.GetAccountMailbox(a)
			front := account.SequencerFrontIndexVerif(as)
			for i := uint64(1); i <= front && i <= mb.SequencerSize(); i++ {
				if hd := mb.SequencerByHeight(i); hd != nil {
					marked = append(marked, h8(hd.Hash))
				}
			}
		}
		c.Emit("LN-recv %s | %s", addrName(a), sortedHashes(marked))
		pend, err := st.GetAccountMailbox(a).GetUnreceivedAccountBlockHashes(1000)
		if err != nil {
			r.fail("pending of %s: %v", addrName(a), err)
			return
		}
		var ps []string
		want := 0
		for h, s := range confSends {
			if s.ToAddress == a && len(receives[h]) == 0 || (s.ToAddress == a && poolRecv[h]) {
				want++
			}
		}
		for _, h := range pend {
			ps = append(ps, h8(h))
			if s := confSends[h]; s == nil || s.ToAddress != a || (len(receives[h]) > 0 && !poolRecv[h]) {
				r.fail("C04: pending set of %s lists %s, which is not a confirmed unreceived send to it", addrName(a), h8(h))
				return
			}
		}
		if want != len(pend) {
			r.fail("C04: pending set of %s has %d entries, the chain has %d confirmed unreceived sends to it", addrName(a), len(pend), want)
			return
		}
		c.Emit("LN-pend %s | %s", addrName(a), sortedHashes(ps))
	}
	// ---- stored inbox counters
	for _, ca := range r.cons {
		mb := st.GetAccountMailbox(ca)
		size := mb.SequencerSize()
		front := account.SequencerFrontIndexVerif(st.GetAccountStore(ca))
		pfront := account.SequencerFrontIndexVerif(ch.GetFrontierAccountStore(ca))
		var live []string
		for i := uint64(1); i <= size; i++ {
			hd := mb.SequencerByHeight(i)
			if hd == nil {
				r.fail("C04: inbox of %s has size %d but no entry at %d", addrName(ca), size, i)
				return
			}
			if int(i) > len(inbox[ca]) || inbox[ca][i-1] != hd.Hash {
				r.fail("C04: inbox entry %d of %s is %s; the %d-th confirmed send to it on the current chain is another one", i, addrName(ca), h8(hd.Hash), i)
				return
			}
			if i > front {
				live = append(live, h8(hd.Hash))
			}
		}
		if int(size) != len(inbox[ca]) {
			r.fail("C04: inbox of %s has size %d, the current chain confirms %d sends to it", addrName(ca), size, len(inbox[ca]))
			return
		}
		if int(front) != len(crecvOrder[ca]) {
			r.fail("C04: stored front index of %s is %d, its confirmed chain holds %d receives (a rollback must move it back)", addrName(ca), front, len(crecvOrder[ca]))
			return
		}
		for i, h := range crecvOrder[ca] {
			if inbox[ca][i] != h {
				r.fail("C04: %s answered %s as its %d-th call; the inbox lists %s there (FIFO)", addrName(ca), h8(h), i+1, h8(inbox[ca][i]))
				return
			}
		}
		// the unconfirmed receives of the contract continue the same order: pooled receive j answers entry front + j
		for j, b := range r.pooled(ca) {
			i := len(crecvOrder[ca]) + j
			if b.BlockType != nom.BlockTypeContractReceive {
				continue
			}
			if i >= len(inbox[ca]) {
				r.fail("C04: unconfirmed receive %d of %s answers %s, the inbox of the current chain has only %d entries", i+1, addrName(ca), h8(b.FromBlockHash), len(inbox[ca]))
				return
			}
			if inbox[ca][i] != b.FromBlockHash {
				r.fail("C04: the unconfirmed block of %s answers %s as its %d-th call; the inbox of the current chain lists %s there (FIFO: one send would be received twice, one never)",
					addrName(ca), h8(b.FromBlockHash), i+1, h8(inbox[ca][i]))
				return
			}
			c.Hit("pooled-contract-receive-fifo-checked")
		}
		l := "-"
		if len(live) > 0 {
			l = strings.Join(live, ",")
		}
		c.Emit("LN-seq %s | %d %d %s", addrName(ca), size, front, l)
		c.Emit("LN-pseq %s | %d", addrName(ca), pfront)
		if front > 0 {
			c.Hit("seq-front-positive")
		}
	}
	// ---- balances (confirmed, pool) + C01 at both states
	inflightC := map[types.ZenonTokenStandard]*big.Int{}
	inflightP := map[types.ZenonTokenStandard]*big.Int{}
	addTo := func(m map[types.ZenonTokenStandard]*big.Int, t types.ZenonTokenStandard, v *big.Int) {
		if m[t] == nil {
			m[t] = new(big.Int)
		}
		m[t].Add(m[t], v)
	}
	for h, s := range confSends {
		confReceived := false
		for _, x := range receives[h] {
			if confRecvBy[x.by][h] {
				confReceived = true
			}
		}
		if !confReceived {
			addTo(inflightC, s.TokenStandard, s.Amount)
			if !poolRecv[h] {
				addTo(inflightP, s.TokenStandard, s.Amount)
			}
		}
	}
	for _, s := range poolSends {
		addTo(inflightP, s.TokenStandard, s.Amount)
	}
	for _, t := range toks {
		sumC, sumP := new(big.Int), new(big.Int)
		for _, a := range r.all {
			vc, _ := st.GetAccountStore(a).GetBalance(t)
			vp, _ := ch.GetFrontierAccountStore(a).GetBalance(t)
			sumC.Add(sumC, vc)
			sumP.Add(sumP, vp)
		}
		info, err := st.GetTokenInfoByTs(t)
		if err != nil || info == nil {
			r.fail("token info of %s: %v", tokName(t), err)
			return
		}
		for _, x := range []struct {
			name string
			sum  *big.Int
			fl   *big.Int
		}{{"confirmed state", sumC, inflightC[t]}, {"pool state", sumP, inflightP[t]}} {
			fl := x.fl
			if fl == nil {
				fl = new(big.Int)
			}
			if new(big.Int).Add(x.sum, fl).Cmp(info.TotalSupply) != 0 {
				r.fail("C01 at the %s: %s balances %s + in flight %s != recorded supply %s", x.name, tokName(t), x.sum, fl, info.TotalSupply)
				return
			}
		}
		if info.TotalSupply.Cmp(info.MaxSupply) > 0 {
			r.fail("C01: supply of %s above its maximum", tokName(t))
			return
		}
	}
	c.Hit("monitors-evaluated")
	for _, a := range append(append([]types.Address{}, r.users...), r.cons...) {
		for _, t := range toks {
			vc, _ := st.GetAccountStore(a).GetBalance(t)
			vp, _ := ch.GetFrontierAccountStore(a).GetBalance(t)
			c.Emit("LN-bal %s %s | %s", addrName(a), tokName(t), amt(vc))
			c.Emit("LN-pbal %s %s | %s", addrName(a), tokName(t), amt(vp))
		}
		var sh []string
		for _, b := range r.pooled(a) {
			sh = append(sh, lnShape(b))
		}
		l := "-"
		if len(sh) > 0 {
			l = strings.Join(sh, ",")
			c.Hit("pool-nonempty-observed")
		}
		c.Emit("LN-pool %s | %s", addrName(a), l)
	}
	c.Emit("LN-height | %d", top-1)
}

// contractReceive: the contract's own receive of `send`, built by the supervisor as the pillar worker does
func (r *lnRun) contractReceive(ca types.Address, send *nom.AccountBlock) {
	k := len(r.pooled(ca))
	var ce *vm.ContractExecution
	var gerr error
	if p := safely(func() { ce, gerr = r.f.sup.GenerateAutoReceive(send) }); p != "" {
		gerr = fmt.Errorf("panic: %s", firstLine(p))
	}
	r.note = "contract-receive"
	if gerr != nil || ce == nil || ce.Transaction == nil {
		if strings.Contains(fmt.Sprint(gerr), "panic") {
			r.fail("GenerateAutoReceive of %s by %s panics: %v", h8(send.Hash), addrName(ca), gerr)
			return
		}
		r.c.Emit("LN-put %d crecv %s %s 1 0 | refused", k, addrName(ca), h8(send.Hash))
		if gerr != nil {
			r.c.Hit("dbg crecv refused: " + firstLine(gerr.Error()))
		}
		r.c.Hit("contract-receive-refused")
	} else {
		ierr := r.addTx(ce.Transaction, false)
		r.emitPut(k, ce.Transaction.Block, ierr)
		if ierr == nil {
			r.learn(ce.Transaction.Block)
			r.c.Hit("contract-receive-accepted")
			r.c.Hit(fmt.Sprintf("contract-receive-descendants-%d", len(ce.Transaction.Block.DescendantBlocks)))
		}
	}
}

func lnServe(f *zFollower, from, to uint64) []*nom.DetailedMomentum {
	st := f.ch.GetFrontierMomentumStore()
	var out []*nom.DetailedMomentum
	for h := from; h <= to; h++ {
		m, err := st.GetMomentumByHeight(h)
		if err != nil || m == nil {
			return nil
		}
		dm, err := st.PrefetchMomentum(m)
		if err != nil {
			return nil
		}
		out = append(out, dm)
	}
	return out
}

func lnPooledOf(f *zFollower, a types.Address) []*nom.AccountBlock {
	var out []*nom.AccountBlock
	for _, b := range f.ch.GetUncommittedAccountBlocksByAddress(a) {
		if b.BlockType != nom.BlockTypeContractSend {
			out = append(out, b)
		}
	}
	return out
}

func lnAdd(f *zFollower, tx *nom.AccountBlockTransaction) (err error) {
	if p := safely(func() {
		ins := f.ch.AcquireInsert("zvh ledger-node producer")
		defer ins.Unlock()
		err = f.ch.AddAccountBlockTransaction(ins, tx)
	}); p != "" {
		err = fmt.Errorf("panic: %s", firstLine(p))
	}
	return err
}

func (r *lnRun) fuseTemplate(u types.Address) *nom.AccountBlock {
	return &nom.AccountBlock{BlockType: nom.BlockTypeUserSend, Address: u, ToAddress: types.PlasmaContract, TokenStandard: types.QsrTokenStandard,
		Amount: big.NewInt(int64(10+r.c.R.Intn(5)) * g.Zexp), Data: definition.ABIPlasma.PackMethodPanic(definition.FuseMethodName, r.users[r.c.R.Intn(len(r.users))])}
}

// prime: unconfirmed blocks in the pool of the node under test before a reorganisation: contract receives of the inbox
// fronts, a user receive, a user send. `deep`: first two calls of two different users to the same contract, confirmed by ONE
// momentum (their content order is the inbox order of this branch; a side chain may confirm them in the other order).
func (r *lnRun) prime(deep bool) {
	c, f := r.c, r.f
	if deep {
		i := c.R.Intn(len(r.users))
		j := (i + 1 + c.R.Intn(len(r.users)-1)) % len(r.users)
		for _, u := range []types.Address{r.users[i], r.users[j]} {
			r.submit(r.fuseTemplate(u), "contract-call")
			if r.failed {
				return
			}
			r.observe()
		}
		var blocks []*nom.AccountBlock
		var parts []string
		accs := append(append([]types.Address{}, r.users...), r.cons...)
		sort.Slice(accs, func(i, j int) bool { return string(accs[i][:]) < string(accs[j][:]) })
		for _, a := range accs {
			pl := r.pooled(a)
			if len(pl) == 0 {
				continue
			}
			for _, b := range pl {
				blocks = append(blocks, b)
				blocks = append(blocks, b.DescendantBlocks...)
			}
			parts = append(parts, fmt.Sprintf("%s %d", addrName(a), len(pl)))
		}
		if !r.momentum(blocks, strings.TrimSpace(fmt.Sprintf("%d %s", len(parts), strings.Join(parts, " ")))) {
			return
		}
		r.observe()
	}
	for _, ca := range r.cons {
		if r.failed {
			return
		}
		mb := f.ch.GetFrontierMomentumStore().GetAccountMailbox(ca)
		if hd := f.ch.GetFrontierAccountStore(ca).SequencerFront(mb); hd != nil && r.sends[hd.Hash] != nil {
			r.contractReceive(ca, r.sends[hd.Hash])
			if !r.failed {
				r.observe()
				c.Hit("reorg-primed-contract-receive")
			}
		}
	}
	for _, u := range r.users {
		if r.failed {
			return
		}
		if pend, _ := f.ch.GetFrontierMomentumStore().GetAccountMailbox(u).GetUnreceivedAccountBlockHashes(100); len(pend) > 0 && len(r.pooled(u)) == 0 {
			r.submit(&nom.AccountBlock{BlockType: nom.BlockTypeUserReceive, Address: u, FromBlockHash: pend[c.R.Intn(len(pend))]}, "user-receive")
			if !r.failed {
				r.observe()
				c.Hit("reorg-primed-user-receive")
			}
			break
		}
	}
	if r.failed {
		return
	}
	r.submit(&nom.AccountBlock{BlockType: nom.BlockTypeUserSend, Address: r.users[c.R.Intn(len(r.users))], ToAddress: r.users[c.R.Intn(len(r.users))],
		TokenStandard: types.ZnnTokenStandard, Amount: big.NewInt(int64(1 + c.R.Intn(900)))}, "user-send")
	if !r.failed {
		r.observe()
	}
}

// bridgeReorg: a reorganisation of the node under test through the REAL sync entry point protocol.ChainBridge.InsertChain.
// A second real node (producer) receives the trunk up to the fork point from the node under test and builds a strictly
// longer side chain there: user blocks of the abandoned momentums / of the pool of the node under test that acknowledge
// the trunk are re-used (account after account in a shuffled order, a random prefix each, spread over the momentums: the
// same sends are confirmed in the same or in another order, or left out), plus fresh sends, user receives and contract
// receives of the producer. For the model the operation is `rollbackTo fork` followed by the momentums of the side chain
// (every block a `put`, every momentum a `mom` over the whole pool); nothing of the old pool may survive.
func (r *lnRun) bridgeReorg(k uint64) {
	c, f := r.c, r.f
	top := f.Height()
	if k > top-1 {
		k = top - 1
	}
	if k == 0 {
		return
	}
	fork := top - k
	p, err := newZFollower("")
	if err != nil {
		r.fail("cannot start the producer node: %v", err)
		return
	}
	defer p.Destroy()
	r.note = fmt.Sprintf("reorganisation through ChainBridge.InsertChain (fork at momentum %d, %d abandoned)", fork, k)
	if fork >= 2 {
		if _, err := p.InsertChain(lnServe(f, 2, fork)); err != nil || p.Height() != fork {
			r.fail("a fresh node refuses the trunk 2..%d of the node under test: %v", fork, err)
			return
		}
	}
	accs := append(append([]types.Address{}, r.users...), r.cons...)
	sort.Slice(accs, func(i, j int) bool { return string(accs[i][:]) < string(accs[j][:]) })
	cand := map[types.Address][]*nom.AccountBlock{}
	isUser := map[types.Address]bool{}
	for _, u := range r.users {
		isUser[u] = true
	}
	take := func(b *nom.AccountBlock) {
		if isUser[b.Address] && (b.BlockType == nom.BlockTypeUserSend || b.BlockType == nom.BlockTypeUserReceive) && b.MomentumAcknowledged.Height <= fork {
			cand[b.Address] = append(cand[b.Address], b.Copy())
		}
	}
	for _, dm := range lnServe(f, fork+1, top) {
		byHash := map[types.Hash]*nom.AccountBlock{}
		for _, b := range dm.AccountBlocks {
			byHash[b.Hash] = b
		}
		for _, hd := range dm.Momentum.Content {
			if b := byHash[hd.Hash]; b != nil {
				take(b)
			}
		}
	}
	hadPool := false
	for _, a := range accs {
		pl := r.pooled(a)
		for _, b := range pl {
			take(b)
		}
		if len(pl) > 0 {
			hadPool = true
		}
	}
	var units []types.Address
	for _, u := range r.users {
		if n := len(cand[u]); n > 0 {
			if c.R.Intn(3) == 0 {
				cand[u] = cand[u][:c.R.Intn(n+1)]
			}
			units = append(units, u)
		}
	}
	c.R.Shuffle(len(units), func(i, j int) { units[i], units[j] = units[j], units[i] })
	L := int(k) + 1 + c.R.Intn(2)
	mlines := make([][]string, L) // the lines of the side chain's momentums (emitted once the real fork point is known)
	for i := 0; i < L && !r.failed; i++ {
		put := func(kk int, b *nom.AccountBlock) {
			mlines[i] = append(mlines[i], fmt.Sprintf("LN-put %d %s | ok", kk, lnEvent(b)))
			r.learn(b)
		}
		n := []int{1, 1, 0, 2}[c.R.Intn(4)]
		for ; n > 0 && len(units) > 0; n-- {
			u := units[0]
			units = units[1:]
			for _, b := range cand[u] {
				kk := len(lnPooledOf(p, u))
				var tx *nom.AccountBlockTransaction
				var aerr error
				if pn := safely(func() { tx, aerr = p.sup.ApplyBlock(b) }); pn != "" {
					aerr = fmt.Errorf("panic: %s", firstLine(pn))
				}
				if aerr == nil {
					aerr = lnAdd(p, tx)
				}
				if aerr != nil {
					c.Hit("reorg-reused-block-refused-on-side-chain")
					break
				}
				put(kk, b)
				c.Hit("reorg-reused-block")
			}
		}
		if c.R.Intn(2) == 0 { // a fresh block of the side chain
			u := r.users[c.R.Intn(len(r.users))]
			var tpl *nom.AccountBlock
			switch c.R.Intn(3) {
			case 0:
				tpl = r.fuseTemplate(u)
			case 1:
				tpl = &nom.AccountBlock{BlockType: nom.BlockTypeUserSend, Address: u, ToAddress: r.users[c.R.Intn(len(r.users))],
					TokenStandard: types.ZnnTokenStandard, Amount: big.NewInt(int64(1 + c.R.Intn(900)))}
			default:
				if pend, _ := p.ch.GetFrontierMomentumStore().GetAccountMailbox(u).GetUnreceivedAccountBlockHashes(100); len(pend) > 0 {
					tpl = &nom.AccountBlock{BlockType: nom.BlockTypeUserReceive, Address: u, FromBlockHash: pend[c.R.Intn(len(pend))]}
				}
			}
			if tpl != nil {
				kk := len(lnPooledOf(p, u))
				var tx *nom.AccountBlockTransaction
				var gerr error
				if pn := safely(func() { tx, gerr = p.sup.GenerateFromTemplate(tpl, keyOf(u).Signer) }); pn != "" {
					gerr = fmt.Errorf("panic: %s", firstLine(pn))
				}
				if gerr == nil && tx != nil {
					if gerr = lnAdd(p, tx); gerr == nil {
						put(kk, tx.Block)
						c.Hit("reorg-fresh-block")
					}
				}
			}
		}
		for _, ca := range r.cons { // the contracts of the side chain answer their inbox fronts
			if c.R.Intn(2) != 0 {
				continue
			}
			mb := p.ch.GetFrontierMomentumStore().GetAccountMailbox(ca)
			hd := p.ch.GetFrontierAccountStore(ca).SequencerFront(mb)
			if hd == nil {
				continue
			}
			send, _ := p.ch.GetFrontierMomentumStore().GetAccountBlockByHash(hd.Hash)
			if send == nil {
				continue
			}
			kk := len(lnPooledOf(p, ca))
			var ce *vm.ContractExecution
			var gerr error
			if pn := safely(func() { ce, gerr = p.sup.GenerateAutoReceive(send) }); pn != "" {
				gerr = fmt.Errorf("panic: %s", firstLine(pn))
			}
			if gerr == nil && ce != nil && ce.Transaction != nil {
				if gerr = lnAdd(p, ce.Transaction); gerr == nil {
					put(kk, ce.Transaction.Block)
					c.Hit("reorg-side-chain-contract-receive")
				}
			}
		}
		var blocks []*nom.AccountBlock
		var parts []string
		for _, a := range accs {
			pl := lnPooledOf(p, a)
			if len(pl) == 0 {
				continue
			}
			for _, b := range pl {
				blocks = append(blocks, b)
				blocks = append(blocks, b.DescendantBlocks...)
			}
			parts = append(parts, fmt.Sprintf("%s %d", addrName(a), len(pl)))
		}
		merr := lnProduce(p, blocks)
		mlines[i] = append(mlines[i], fmt.Sprintf("LN-mom %s | ok", strings.TrimSpace(fmt.Sprintf("%d %s", len(parts), strings.Join(parts, " ")))))
		if merr != nil {
			r.fail("the producer node refuses a momentum over its own pool: %v", merr)
			return
		}
	}
	if r.failed {
		return
	}
	batch := lnServe(p, fork+1, p.Height())
	// the first momentums of the side chain may coincide with the node's own ones (same content, same producer, same time):
	// the reorganisation then starts above them
	same := 0
	for same < len(batch) && fork+uint64(same)+1 <= top {
		own, _ := f.ch.GetFrontierMomentumStore().GetMomentumByHeight(fork + uint64(same) + 1)
		if own == nil || own.Hash != batch[same].Momentum.Hash {
			break
		}
		same++
	}
	if fork+uint64(same) == top { // a pure extension of the node's chain: no reorganisation (the sync streams deliver those)
		c.Hit("reorg-side-chain-coincides-with-own-branch")
		return
	}
	if same > 0 {
		c.Hit("reorg-side-chain-shares-momentums-with-own-branch")
	}
	r.note = fmt.Sprintf("reorganisation through ChainBridge.InsertChain (fork at momentum %d, %d abandoned, side chain of %d momentums delivered from %d)", fork+uint64(same), top-fork-uint64(same), len(batch)-same, fork+1)
	c.Emit("LN-rollback %d | ok", fork+uint64(same)-1)
	for _, ls := range mlines[same:] {
		for _, l := range ls {
			c.Emit("%s", l)
		}
	}
	_, ierr := f.InsertChain(batch)
	if ierr != nil || f.Height() != p.Height() || f.ch.GetFrontierMomentumStore().Identifier() != p.ch.GetFrontierMomentumStore().Identifier() {
		r.fail("a valid, strictly longer side chain (%d momentums on momentum %d; own branch had %d) was not adopted through ChainBridge.InsertChain: %v (height %d, producer %d)",
			len(batch), fork, k, ierr, f.Height(), p.Height())
		return
	}
	c.Hit("reorg-through-bridge")
	c.Hit(fmt.Sprintf("reorg-through-bridge-abandons-%d", k))
	if hadPool {
		c.Hit("reorg-through-bridge-with-pooled-blocks")
	}
}

func ledgerNodeHistory(c *Ctx, id int) {
	origGate := verifier.ReceiverMismatchEnforcementHeight
	defer func() { verifier.ReceiverMismatchEnforcementHeight = origGate }()
	verifier.ReceiverMismatchEnforcementHeight = 0
	silenceLoggers()
	f, err := newZFollower("")
	if err != nil {
		c.Fail("ledger-node: cannot start a node: %v", err)
		return
	}
	defer f.Destroy()
	r := &lnRun{c: c, f: f, id: id, sends: map[types.Hash]*nom.AccountBlock{},
		users: []types.Address{g.User1.Address, g.User2.Address, g.User3.Address, g.User4.Address, g.User5.Address},
		cons:  []types.Address{types.PlasmaContract, types.StakeContract}}
	seen := map[types.Address]bool{}
	for _, kp := range g.AllKeyPairs {
		if !seen[kp.Address] {
			seen[kp.Address] = true
			r.all = append(r.all, kp.Address)
		}
	}
	for a := range embeddedNames {
		if !seen[a] {
			seen[a] = true
			r.all = append(r.all, a)
		}
	}
	sort.Slice(r.all, func(i, j int) bool { return string(r.all[i][:]) < string(r.all[j][:]) })
	c.Emit("LN-reset")
	st := f.ch.GetFrontierMomentumStore()
	for _, a := range r.all {
		for _, t := range []types.ZenonTokenStandard{types.ZnnTokenStandard, types.QsrTokenStandard} {
			if v, _ := st.GetAccountStore(a).GetBalance(t); v != nil && v.Sign() != 0 {
				c.Emit("LN-init-bal %s %s %s", addrName(a), tokName(t), amt(v))
			}
		}
	}
	for _, t := range []types.ZenonTokenStandard{types.ZnnTokenStandard, types.QsrTokenStandard} {
		info, _ := st.GetTokenInfoByTs(t)
		c.Emit("LN-init-tok %s %s %s %v %v %s", tokName(t), amt(info.TotalSupply), amt(info.MaxSupply), info.IsMintable, info.IsBurnable, addrName(info.Owner))
	}
	r.note = "start"
	r.observe()
	nops := 50 + c.R.Intn(30)
	for op := 0; op < nops && !r.failed; op++ {
		x := c.R.Intn(100)
		u := r.users[c.R.Intn(len(r.users))]
		switch {
		case x < 18: // user send to a user
			to := r.users[c.R.Intn(len(r.users))]
			tok := types.ZnnTokenStandard
			if c.R.Intn(3) == 0 {
				tok = types.QsrTokenStandard
			}
			r.submit(&nom.AccountBlock{BlockType: nom.BlockTypeUserSend, Address: u, ToAddress: to, TokenStandard: tok,
				Amount: big.NewInt(int64(1 + c.R.Intn(900)))}, "user-send")
		case x < 28: // call to a contract: fuse (applied), cancel of an unknown entry (fails), stake cancel of an unknown id (fails)
			var tpl *nom.AccountBlock
			switch c.R.Intn(4) {
			case 3: // U2 cancels the fusion the mock genesis gives it (no expiration): applied, the QSR come back as a descendant send
				u = g.User2.Address
				tpl = &nom.AccountBlock{BlockType: nom.BlockTypeUserSend, Address: u, ToAddress: types.PlasmaContract,
					Data: definition.ABIPlasma.PackMethodPanic(definition.CancelFuseMethodName, types.HexToHashPanic("3d3179e499f839b47c60216b57f79e41264d408e2f21aa6f5462f25d5e094924"))}
			case 0:
				tpl = &nom.AccountBlock{BlockType: nom.BlockTypeUserSend, Address: u, ToAddress: types.PlasmaContract, TokenStandard: types.QsrTokenStandard,
					Amount: big.NewInt(int64(10+c.R.Intn(5)) * g.Zexp), Data: definition.ABIPlasma.PackMethodPanic(definition.FuseMethodName, r.users[c.R.Intn(len(r.users))])}
			case 1:
				var h types.Hash
				c.R.Read(h[:])
				tpl = &nom.AccountBlock{BlockType: nom.BlockTypeUserSend, Address: u, ToAddress: types.PlasmaContract,
					Data: definition.ABIPlasma.PackMethodPanic(definition.CancelFuseMethodName, h)}
			default:
				var h types.Hash
				c.R.Read(h[:])
				tpl = &nom.AccountBlock{BlockType: nom.BlockTypeUserSend, Address: u, ToAddress: types.StakeContract,
					Data: definition.ABIStake.PackMethodPanic(definition.CancelStakeMethodName, h)}
			}
			r.submit(tpl, "contract-call")
		case x < 48: // user receive: mostly a send addressed to the account, sometimes any known send (received, pooled, foreign, abandoned)
			var cand []types.Hash
			anySend := c.R.Intn(5) == 0
			if c.R.Intn(3) != 0 { // a confirmed send waiting for the account
				if pend, _ := f.ch.GetFrontierMomentumStore().GetAccountMailbox(u).GetUnreceivedAccountBlockHashes(100); len(pend) > 0 {
					cand = append(cand, pend[c.R.Intn(len(pend))])
				}
			}
			for _, h := range r.slist {
				s := r.sends[h]
				if len(cand) == 0 && (anySend || s.ToAddress == u) {
					cand = append(cand, h)
				} else if len(cand) > 0 && cand[0] != h && anySend && c.R.Intn(8) == 0 {
					cand = append(cand, h)
				}
			}
			if len(cand) == 0 {
				continue
			}
			h := cand[len(cand)-1-c.R.Intn(min(len(cand), 6))]
			r.submit(&nom.AccountBlock{BlockType: nom.BlockTypeUserReceive, Address: u, FromBlockHash: h}, "user-receive")
		case x < 62: // contract receive: the front of an inbox, or (one in four) any known send to the contract
			ca := r.cons[c.R.Intn(len(r.cons))]
			var cand []*nom.AccountBlock
			for _, h := range r.slist {
				if s := r.sends[h]; s.ToAddress == ca {
					cand = append(cand, s)
				}
			}
			if len(cand) == 0 {
				continue
			}
			send := cand[c.R.Intn(len(cand))]
			if c.R.Intn(4) != 0 {
				mb := f.ch.GetFrontierMomentumStore().GetAccountMailbox(ca)
				if hd := f.ch.GetFrontierAccountStore(ca).SequencerFront(mb); hd != nil && r.sends[hd.Hash] != nil {
					send = r.sends[hd.Hash]
				}
			}
			r.contractReceive(ca, send)
		case x < 72: // competitor for the height of a pooled user block (everything built on it is displaced)
			var accs []types.Address
			for _, a := range r.users {
				if len(r.pooled(a)) > 0 {
					accs = append(accs, a)
				}
			}
			if len(accs) == 0 {
				continue
			}
			a := accs[c.R.Intn(len(accs))]
			pl := r.pooled(a)
			k := c.R.Intn(len(pl))
			old := pl[k]
			// the competitor acknowledges the frontier momentum, as every block of this stream does: the verifier reads the
			// confirmed state AS OF the acknowledged momentum (a block acknowledging an older one sees fewer confirmed sends)
			nb := &nom.AccountBlock{Version: 1, ChainIdentifier: old.ChainIdentifier, BlockType: nom.BlockTypeUserSend, Address: a, Height: old.Height,
				PreviousHash: old.PreviousHash, MomentumAcknowledged: f.ch.GetFrontierMomentumStore().Identifier(), ToAddress: r.users[c.R.Intn(len(r.users))],
				TokenStandard: types.ZnnTokenStandard, Amount: big.NewInt(int64(1 + c.R.Intn(900))), FusedPlasma: 21000}
			what := "competitor-send"
			if c.R.Intn(3) == 0 { // a competing receive
				var cand []types.Hash
				for _, h := range r.slist {
					if r.sends[h].ToAddress == a {
						cand = append(cand, h)
					}
				}
				if len(cand) > 0 {
					nb.BlockType, nb.ToAddress, nb.TokenStandard, nb.Amount = nom.BlockTypeUserReceive, types.ZeroAddress, types.ZeroTokenStandard, new(big.Int)
					nb.FromBlockHash = cand[c.R.Intn(len(cand))]
					what = "competitor-receive"
				}
			}
			if !signBlock(nb) {
				continue
			}
			var tx *nom.AccountBlockTransaction
			var aerr error
			if p := safely(func() { tx, aerr = f.sup.ApplyBlock(nb) }); p != "" {
				aerr = fmt.Errorf("panic: %s", firstLine(p))
			}
			r.note = what
			if nb.Hash == old.Hash && aerr == nil {
				// the "competitor" is the pooled block itself (a receive of the same send on the same predecessor): re-delivery
				// of a known block is answered with success and changes nothing ("account-block is already inserted")
				aerr = r.addTx(tx, c.R.Intn(2) == 0)
				after := r.pooled(a)
				if aerr != nil || len(after) != len(pl) {
					r.fail("re-delivery of the pooled block %s/%d: error %v, pool of the account %d -> %d blocks", addrName(a), old.Height, aerr, len(pl), len(after))
					break
				}
				c.Emit("LN-same %d %s | ok", k, lnEvent(nb))
				c.Hit("competitor-identical-redelivered")
				break
			}
			if aerr == nil {
				force := c.R.Intn(2) == 0
				aerr = r.addTx(tx, force)
				if aerr == nil {
					r.learn(tx.Block)
					c.Hit(what + "-accepted")
					c.HitN("displaced-blocks", len(pl)-k)
					for _, d := range pl[k:] {
						if !d.IsSendBlock() {
							c.Hit("displaced-receive")
						}
					}
				}
			}
			r.emitPut(k, nb, aerr)
		case x < 92: // momentum over chosen prefixes
			var blocks []*nom.AccountBlock
			var parts []string
			accs := append(append([]types.Address{}, r.users...), r.cons...)
			sort.Slice(accs, func(i, j int) bool { return string(accs[i][:]) < string(accs[j][:]) })
			all := c.R.Intn(3) != 0
			for _, a := range accs {
				pl := r.pooled(a)
				if len(pl) == 0 {
					continue
				}
				k := len(pl)
				if !all {
					k = c.R.Intn(len(pl) + 1)
				}
				if k == 0 {
					continue
				}
				for _, b := range pl[:k] {
					blocks = append(blocks, b)
					blocks = append(blocks, b.DescendantBlocks...)
				}
				parts = append(parts, fmt.Sprintf("%s %d", addrName(a), k))
			}
			if !all {
				c.Hit("momentum-partial-content")
			}
			r.momentum(blocks, strings.TrimSpace(fmt.Sprintf("%d %s", len(parts), strings.Join(parts, " "))))
		case x < 98 && f.Height() > 2 && c.R.Intn(2) == 0: // reorganisation delivered by a peer (ChainBridge.InsertChain)
			k := uint64(1 + c.R.Intn(3))
			switch c.R.Intn(3) {
			case 0:
				r.prime(true)
				k = 1
			case 1:
				r.prime(false)
			}
			if r.failed {
				break
			}
			r.bridgeReorg(k)
		case x < 98 && f.Height() > 2: // rollback
			k := uint64(c.R.Intn(4))
			if k >= f.Height()-1 {
				k = f.Height() - 2
			}
			target, _ := f.ch.GetFrontierMomentumStore().GetMomentumByHeight(f.Height() - k)
			var rerr error
			if p := safely(func() {
				ins := f.ch.AcquireInsert("zvh ledger-node rollback")
				defer ins.Unlock()
				rerr = f.ch.RollbackTo(ins, target.Identifier())
			}); p != "" {
				rerr = fmt.Errorf("panic: %s", firstLine(p))
			}
			r.note = fmt.Sprintf("rollback by %d", k)
			c.Emit("LN-rollback %d | %s", target.Height-1, lnClass(rerr))
			if rerr != nil {
				r.fail("RollbackTo %d: %v", target.Height, rerr)
			}
			c.Hit(fmt.Sprintf("rollback-by-%d", k))
		case x >= 98: // restart
			r.note = "restart"
			if err := f.Restart(); err != nil {
				r.fail("restart: %v", err)
				break
			}
			c.Emit("LN-restart | ok")
			c.Hit("restart")
		default:
			continue
		}
		if !r.failed {
			r.observe()
		}
	}
	c.Hit("history-complete")
}

func init() {
	register("ledger-node", func(c *Ctx) {
		for i := 0; i < c.N; i++ {
			ledgerNodeHistory(c, i)
		}
	})
}
