package main

import (
	"fmt"
	"go/ast"
	"go/parser"
	"go/token"
	"path/filepath"
	"strings"

	"github.com/zenon-network/go-zenon/vm/constants"
)

// Facts for C05: consensus constants (live package values) and, from the AST of /repo, the ordered lists of
// checks the momentum verifier runs, the errors each check returns (in source order), the allowed clock
// drift, and the comparison used by GetMomentumProducer. The Lean model uses / asserts these.

func parseFile(repo, rel string) (*token.FileSet, *ast.File, error) {
	fs := token.NewFileSet()
	f, err := parser.ParseFile(fs, filepath.Join(repo, rel), nil, 0)
	return fs, f, err
}

// findFunc returns the declaration `func (x *recv) name(...)` (recv == "" for plain functions).
func findFunc(f *ast.File, recv, name string) *ast.FuncDecl {
	for _, d := range f.Decls {
		fd, ok := d.(*ast.FuncDecl)
		if !ok || fd.Name.Name != name {
			continue
		}
		r := ""
		if fd.Recv != nil && len(fd.Recv.List) == 1 {
			t := fd.Recv.List[0].Type
			if s, ok := t.(*ast.StarExpr); ok {
				t = s.X
			}
			if id, ok := t.(*ast.Ident); ok {
				r = id.Name
			}
		}
		if r == recv {
			return fd
		}
	}
	return nil
}

// callNames lists, in source order, the selector/ident names of every call expression in the body.
func callNames(fd *ast.FuncDecl) []string {
	var out []string
	ast.Inspect(fd.Body, func(n ast.Node) bool {
		if _, ok := n.(*ast.FuncLit); ok {
			return false // deferred recover closures etc.
		}
		if c, ok := n.(*ast.CallExpr); ok {
			switch fn := c.Fun.(type) {
			case *ast.SelectorExpr:
				out = append(out, fn.Sel.Name)
			case *ast.Ident:
				out = append(out, fn.Name)
			}
		}
		return true
	})
	return out
}

// returnedErrs lists, in source order, the identifiers `ErrXxx` / `InternalError` / `Errorf` / `nil`
// that appear as the LAST result of each return statement of the function.
func returnedErrs(fd *ast.FuncDecl) []string {
	var out []string
	ast.Inspect(fd.Body, func(n ast.Node) bool {
		r, ok := n.(*ast.ReturnStmt)
		if !ok || len(r.Results) == 0 {
			return true
		}
		out = append(out, exprTag(r.Results[len(r.Results)-1]))
		return true
	})
	return out
}

func exprTag(e ast.Expr) string {
	switch x := e.(type) {
	case *ast.Ident:
		return x.Name
	case *ast.CallExpr:
		switch fn := x.Fun.(type) {
		case *ast.Ident:
			return fn.Name
		case *ast.SelectorExpr:
			// fmt.Errorf("%w ...", ErrX, ...) -> ErrX ; errors.Errorf -> Errorf
			if fn.Sel.Name == "Errorf" && len(x.Args) >= 2 {
				if id, ok := x.Args[1].(*ast.Ident); ok && strings.HasPrefix(id.Name, "Err") {
					return id.Name
				}
			}
			return fn.Sel.Name
		}
	case *ast.UnaryExpr:
		return exprTag(x.X)
	case *ast.SelectorExpr:
		return x.Sel.Name
	case *ast.BasicLit:
		return x.Value
	}
	return "expr"
}

// condStrings lists, in source order, the conditions of all `if` statements of a function, printed compactly.
func condStrings(fs *token.FileSet, fd *ast.FuncDecl) []string {
	var out []string
	ast.Inspect(fd.Body, func(n ast.Node) bool {
		if i, ok := n.(*ast.IfStmt); ok {
			out = append(out, exprString(i.Cond))
		}
		return true
	})
	return out
}

func exprString(e ast.Expr) string {
	switch x := e.(type) {
	case *ast.Ident:
		return x.Name
	case *ast.BasicLit:
		return x.Value
	case *ast.SelectorExpr:
		return exprString(x.X) + "." + x.Sel.Name
	case *ast.StarExpr:
		return "*" + exprString(x.X)
	case *ast.UnaryExpr:
		return x.Op.String() + exprString(x.X)
	case *ast.ParenExpr:
		return "(" + exprString(x.X) + ")"
	case *ast.BinaryExpr:
		return exprString(x.X) + " " + x.Op.String() + " " + exprString(x.Y)
	case *ast.CallExpr:
		as := make([]string, len(x.Args))
		for i, a := range x.Args {
			as[i] = exprString(a)
		}
		return exprString(x.Fun) + "(" + strings.Join(as, ", ") + ")"
	case *ast.IndexExpr:
		return exprString(x.X) + "[" + exprString(x.Index) + "]"
	case *ast.SliceExpr:
		lo, hi := "", ""
		if x.Low != nil {
			lo = exprString(x.Low)
		}
		if x.High != nil {
			hi = exprString(x.High)
		}
		return exprString(x.X) + "[" + lo + ":" + hi + "]"
	}
	return fmt.Sprintf("<%T>", e)
}

func init() {
	factGens = append(factGens, func(repo string) (*factFile, error) {
		f := newFactFile("Consensus")
		f.raw("-- vm/constants/consensus.go (live values)\n")
		f.nat("BlockTime", constants.ConsensusConfig.BlockTime)
		f.nat("NodeCount", uint64(constants.ConsensusConfig.NodeCount))
		f.nat("RandCount", uint64(constants.ConsensusConfig.RandCount))

		fs, mv, err := parseFile(repo, "verifier/momentum.go")
		if err != nil {
			return nil, err
		}
		need := func(recv, name string) (*ast.FuncDecl, error) {
			fd := findFunc(mv, recv, name)
			if fd == nil {
				return nil, fmt.Errorf("verifier/momentum.go: func (%s) %s not found", recv, name)
			}
			return fd, nil
		}
		f.raw("-- verifier/momentum.go (AST): ordered checks\n")
		for _, it := range []struct{ recv, name, lean string }{
			{"momentumVerifier", "Momentum", "MV_Momentum_calls"},
			{"momentumVerifier", "MomentumTransaction", "MV_MomentumTransaction_calls"},
			{"rawMomentumVerifier", "all", "MV_raw_all"},
			{"momentumTransactionVerifier", "all", "MV_tx_all"},
		} {
			fd, err := need(it.recv, it.name)
			if err != nil {
				return nil, err
			}
			f.strList(it.lean, callNames(fd))
		}
		f.raw("-- verifier/momentum.go (AST): last result of each return statement, per check, in source order\n")
		for _, it := range []struct{ recv, name string }{
			{"momentumVerifier", "getContext"},
			{"rawMomentumVerifier", "chainIdentifier"}, {"rawMomentumVerifier", "version"},
			{"rawMomentumVerifier", "timestamp"}, {"rawMomentumVerifier", "previous"},
			{"rawMomentumVerifier", "data"}, {"rawMomentumVerifier", "content"},
			{"momentumTransactionVerifier", "changesHash"}, {"momentumTransactionVerifier", "hash"},
			{"momentumTransactionVerifier", "signature"}, {"momentumTransactionVerifier", "producer"},
		} {
			fd, err := need(it.recv, it.name)
			if err != nil {
				return nil, err
			}
			f.strList("MV_ret_"+it.name, returnedErrs(fd))
			f.strList("MV_if_"+it.name, condStrings(fs, fd))
		}
		// allowed clock drift: the integer literal multiplied with time.Second in rawMomentumVerifier.timestamp
		ts, _ := need("rawMomentumVerifier", "timestamp")
		drift := []string{}
		ast.Inspect(ts.Body, func(n ast.Node) bool {
			if b, ok := n.(*ast.BinaryExpr); ok && b.Op == token.MUL {
				x, y := exprString(b.X), exprString(b.Y)
				if x == "time.Second" {
					drift = append(drift, y)
				} else if y == "time.Second" {
					drift = append(drift, x)
				}
			}
			return true
		})
		if len(drift) != 1 {
			return nil, fmt.Errorf("verifier/momentum.go: expected exactly one `time.Second * k` in timestamp(), found %v", drift)
		}
		f.raw("def MomentumFutureSeconds : Nat := %s\n", drift[0])

		f.raw("-- vm/supervisor.go (AST): ApplyMomentum call order; packMomentum\n")
		_, sv, err := parseFile(repo, "vm/supervisor.go")
		if err != nil {
			return nil, err
		}
		for _, n := range []string{"ApplyMomentum", "packMomentum"} {
			fd := findFunc(sv, "Supervisor", n)
			if fd == nil {
				return nil, fmt.Errorf("vm/supervisor.go: %s not found", n)
			}
			f.strList("SV_"+n+"_calls", callNames(fd))
		}

		f.raw("-- consensus/consensus.go (AST): GetMomentumProducer / VerifyMomentumProducer conditions\n")
		fs2, cs, err := parseFile(repo, "consensus/consensus.go")
		if err != nil {
			return nil, err
		}
		for _, n := range []string{"GetMomentumProducer", "VerifyMomentumProducer"} {
			fd := findFunc(cs, "consensus", n)
			if fd == nil {
				return nil, fmt.Errorf("consensus/consensus.go: %s not found", n)
			}
			f.strList("CS_if_"+n, condStrings(fs2, fd))
			f.strList("CS_calls_"+n, callNames(fd))
		}
		f.raw("-- consensus/election_algorithm.go, common/types/pillar_delegation.go (AST)\n")
		fs3, ea, err := parseFile(repo, "consensus/election_algorithm.go")
		if err != nil {
			return nil, err
		}
		for _, n := range []string{"findSeed", "SelectProducers", "shuffleOrder", "filterByWeight", "filterRandom"} {
			fd := findFunc(ea, "electionAlgorithm", n)
			if fd == nil {
				return nil, fmt.Errorf("election_algorithm.go: %s not found", n)
			}
			f.strList("EA_calls_"+n, callNames(fd))
			f.strList("EA_if_"+n, condStrings(fs3, fd))
			f.strList("EA_ret_"+n, returnExprs(fd))
		}
		fs4, pd, err := parseFile(repo, "common/types/pillar_delegation.go")
		if err != nil {
			return nil, err
		}
		less := findFunc(pd, "SortPDByWeight", "Less")
		if less == nil {
			return nil, fmt.Errorf("pillar_delegation.go: SortPDByWeight.Less not found")
		}
		f.strList("PD_Less_if", condStrings(fs4, less))
		f.strList("PD_Less_ret", returnExprs(less))
		f.strList("PD_Less_calls", callNames(less))
		_, el, err := parseFile(repo, "consensus/election.go")
		if err != nil {
			return nil, err
		}
		for _, it := range []struct{ recv, name string }{{"", "generateProducers"}, {"electionManager", "genProofTime"},
			{"electionManager", "ElectionByTime"}, {"electionManager", "ElectionByTick"}} {
			fd := findFunc(el, it.recv, it.name)
			if fd == nil {
				return nil, fmt.Errorf("election.go: %s not found", it.name)
			}
			f.strList("EL_if_"+it.name, condStrings(fs4, fd))
			f.strList("EL_calls_"+it.name, callNames(fd))
		}
		return f, nil
	})
}

// returnExprs prints every returned expression list compactly.
func returnExprs(fd *ast.FuncDecl) []string {
	var out []string
	ast.Inspect(fd.Body, func(n ast.Node) bool {
		if r, ok := n.(*ast.ReturnStmt); ok {
			as := make([]string, len(r.Results))
			for i, a := range r.Results {
				as[i] = exprString(a)
			}
			out = append(out, strings.Join(as, ", "))
		}
		return true
	})
	return out
}
