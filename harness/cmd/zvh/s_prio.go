package main

import (
	"bytes"
	"encoding/hex"
	"errors"
	"fmt"
	"math/big"
	"strings"

	"github.com/zenon-network/go-zenon/chain"
	"github.com/zenon-network/go-zenon/chain/nom"
	"github.com/zenon-network/go-zenon/common/types"
	"github.com/zenon-network/go-zenon/vm/constants"
)

// C14 pure streams: `prio` (chain.higherPriority) and `filter` (accountPool.filterBlocksToCommit).

const prioMaxBase = constants.AccountBlockBasePlasma + constants.ABByteDataPlasma*constants.MaxDataLength

func plasmaBoundary() []uint64 {
	return []uint64{0, 1, 2, 3, 20999, 21000, 21001, 42000, 52500, 73500, 94500, 94501, prioMaxBase - 1, prioMaxBase, prioMaxBase + 1,
		constants.MaxPlasmaForAccountBlock - 1, constants.MaxPlasmaForAccountBlock, constants.MaxPlasmaForAccountBlock + 1}
}

// in-range plasma value (what an accepted user block can carry)
func randPlasmaIn(c *Ctx, max uint64) uint64 {
	switch c.R.Intn(4) {
	case 0:
		b := plasmaBoundary()
		v := b[c.R.Intn(len(b))]
		if v > max {
			v = max
		}
		return v
	case 1:
		return uint64(c.R.Intn(8))
	case 2:
		return uint64(21000 * c.R.Intn(int(max/21000)+1))
	default:
		return uint64(c.R.Int63n(int64(max) + 1))
	}
}

func randHash(c *Ctx) types.Hash {
	var h types.Hash
	switch c.R.Intn(5) {
	case 0: // few distinct bytes: long common prefixes
		for i := range h {
			h[i] = byte(c.R.Intn(2))
		}
	case 1:
		for i := range h {
			h[i] = 0xff
		}
		h[c.R.Intn(32)] = byte(c.R.Intn(256))
	case 2: // zero hash
	default:
		c.R.Read(h[:])
	}
	return h
}

func prioErr(err error) string {
	switch {
	case err == nil:
		return "ok"
	case errors.Is(err, chain.ErrPlasmaRatioIsWorse):
		return "ratio"
	case errors.Is(err, chain.ErrHashTieBreak):
		return "tie"
	default:
		return "other"
	}
}

func hpCall(a, b *nom.AccountBlock) (res string) {
	defer func() {
		if r := recover(); r != nil {
			res = "panic"
		}
	}()
	return prioErr(chain.HigherPriorityVerif(a, b))
}

// statement: "higher plasma ratio, then smaller hash" — ratios compared by cross-multiplication over unbounded integers
func prioStatement(a, b *nom.AccountBlock) string {
	l := new(big.Int).Mul(new(big.Int).SetUint64(a.TotalPlasma), new(big.Int).SetUint64(b.BasePlasma))
	r := new(big.Int).Mul(new(big.Int).SetUint64(b.TotalPlasma), new(big.Int).SetUint64(a.BasePlasma))
	switch l.Cmp(r) {
	case -1:
		return "ratio"
	case 0:
		if bytes.Compare(a.Hash[:], b.Hash[:]) >= 0 {
			return "tie"
		}
	}
	return "ok"
}

func prioInBounds(x *nom.AccountBlock) bool {
	return x.TotalPlasma <= constants.MaxPlasmaForAccountBlock && x.BasePlasma <= prioMaxBase
}

func prioCase(c *Ctx, a, b *nom.AccountBlock) {
	ab := hpCall(a, b)
	ba := hpCall(b, a)
	c.Emit("hp %d %d %s %d %d %s | %s", a.TotalPlasma, a.BasePlasma, hex.EncodeToString(a.Hash[:]),
		b.TotalPlasma, b.BasePlasma, hex.EncodeToString(b.Hash[:]), ab)
	c.Emit("hp %d %d %s %d %d %s | %s", b.TotalPlasma, b.BasePlasma, hex.EncodeToString(b.Hash[:]),
		a.TotalPlasma, a.BasePlasma, hex.EncodeToString(a.Hash[:]), ba)
	c.Hit("hp-" + ab)
	desc := fmt.Sprintf("a=(total %d, base %d, hash %x) b=(total %d, base %d, hash %x)", a.TotalPlasma, a.BasePlasma, a.Hash[:],
		b.TotalPlasma, b.BasePlasma, b.Hash[:])
	// monitor 1 (model-free): the rule is antisymmetric and total — with distinct hashes exactly one direction wins;
	// never both; a block with the same hash and the same plasma never wins
	nOk := 0
	if ab == "ok" {
		nOk++
	}
	if ba == "ok" {
		nOk++
	}
	if a.Hash != b.Hash && nOk != 1 {
		c.Fail("higherPriority not antisymmetric/total: %s gives a>b:%s b>a:%s", desc, ab, ba)
	}
	if nOk == 2 {
		c.Fail("higherPriority not antisymmetric: %s gives a>b:%s b>a:%s", desc, ab, ba)
	}
	if a.Hash == b.Hash && a.TotalPlasma == b.TotalPlasma && a.BasePlasma == b.BasePlasma && nOk != 0 {
		c.Fail("higherPriority lets a block displace itself: %s gives a>b:%s b>a:%s", desc, ab, ba)
	}
	// monitor 2 (model-free): for plasma values an accepted block can carry, the winner is the statement's
	// (higher ratio, then smaller hash)
	if prioInBounds(a) && prioInBounds(b) {
		c.Hit("in-bounds")
		if w := prioStatement(a, b); w != ab {
			c.Fail("higherPriority disagrees with (higher plasma ratio, then smaller hash): %s gives %s, statement %s", desc, ab, w)
		}
		if a.BasePlasma == 0 || b.BasePlasma == 0 {
			c.Hit("zero-base")
		}
	} else {
		c.Hit("out-of-bounds")
		if prioStatement(a, b) != ab {
			c.Hit("wrap-changes-result")
		}
	}
}

func init() {
	register("prio", func(c *Ctx) {
		// all ordered pairs of boundary (total, base) combinations, two hash orders
		bv := plasmaBoundary()
		for _, ta := range bv {
			for _, ba := range []uint64{0, 1, 21000, 94500, prioMaxBase} {
				for _, tb := range []uint64{0, 1, 21000, 94500, constants.MaxPlasmaForAccountBlock} {
					for _, bb := range []uint64{0, 1, 21000, prioMaxBase} {
						a := &nom.AccountBlock{TotalPlasma: ta, BasePlasma: ba, Hash: randHash(c)}
						b := &nom.AccountBlock{TotalPlasma: tb, BasePlasma: bb, Hash: randHash(c)}
						prioCase(c, a, b)
					}
				}
			}
		}
		for i := 0; i < c.N; i++ {
			a := &nom.AccountBlock{Hash: randHash(c)}
			b := &nom.AccountBlock{Hash: randHash(c)}
			switch c.R.Intn(8) {
			case 0: // equal ratios: multiples of one (t, b) pair
				t, bs := randPlasmaIn(c, 100000), randPlasmaIn(c, 10000)
				k, m := uint64(c.R.Intn(100)), uint64(c.R.Intn(100))
				a.TotalPlasma, a.BasePlasma = k*t, k*bs
				b.TotalPlasma, b.BasePlasma = m*t, m*bs
				c.Hit("gen-equal-ratio")
			case 1: // same plasma, hash decides
				a.TotalPlasma, a.BasePlasma = randPlasmaIn(c, constants.MaxPlasmaForAccountBlock), randPlasmaIn(c, prioMaxBase)
				b.TotalPlasma, b.BasePlasma = a.TotalPlasma, a.BasePlasma
				c.Hit("gen-same-plasma")
			case 2: // same hash
				a.TotalPlasma, a.BasePlasma = randPlasmaIn(c, constants.MaxPlasmaForAccountBlock), randPlasmaIn(c, prioMaxBase)
				b.TotalPlasma, b.BasePlasma = randPlasmaIn(c, constants.MaxPlasmaForAccountBlock), randPlasmaIn(c, prioMaxBase)
				if c.R.Intn(2) == 0 {
					b.TotalPlasma, b.BasePlasma = a.TotalPlasma, a.BasePlasma
				}
				b.Hash = a.Hash
				c.Hit("gen-same-hash")
			case 3: // hashes one bit apart, ratios one unit apart
				a.TotalPlasma, a.BasePlasma = randPlasmaIn(c, constants.MaxPlasmaForAccountBlock-1), randPlasmaIn(c, prioMaxBase)
				b.TotalPlasma, b.BasePlasma = a.TotalPlasma+uint64(c.R.Intn(2)), a.BasePlasma
				b.Hash = a.Hash
				b.Hash[c.R.Intn(32)] ^= byte(1 << uint(c.R.Intn(8)))
				c.Hit("gen-near")
			case 4: // embedded-address blocks: no plasma at all
				c.Hit("gen-zero-plasma")
			case 5: // anything a uint64 field can hold (the products wrap)
				a.TotalPlasma, a.BasePlasma = randU64(c), randU64(c)
				b.TotalPlasma, b.BasePlasma = randU64(c), randU64(c)
				c.Hit("gen-u64")
			default:
				a.TotalPlasma, a.BasePlasma = randPlasmaIn(c, constants.MaxPlasmaForAccountBlock), randPlasmaIn(c, prioMaxBase)
				b.TotalPlasma, b.BasePlasma = randPlasmaIn(c, constants.MaxPlasmaForAccountBlock), randPlasmaIn(c, prioMaxBase)
				c.Hit("gen-in-range")
			}
			prioCase(c, a, b)
		}
		// order independence on the real function: fold a set of competitors in two random orders
		for i := 0; i < c.N/20+1; i++ {
			n := 2 + c.R.Intn(6)
			set := make([]*nom.AccountBlock, n)
			zero := c.R.Intn(6) == 0
			for j := range set {
				set[j] = &nom.AccountBlock{Hash: randHash(c)}
				set[j].Hash[31] = byte(j) // distinct hashes
				if !zero {
					set[j].TotalPlasma = randPlasmaIn(c, constants.MaxPlasmaForAccountBlock)
					set[j].BasePlasma = 21000 + 68*uint64(c.R.Intn(3))
					if c.R.Intn(3) == 0 {
						set[j].TotalPlasma, set[j].BasePlasma = 3*set[0].TotalPlasma, 3*set[0].BasePlasma
					}
				}
			}
			fold := func(order []int) *nom.AccountBlock {
				cur := set[order[0]]
				for _, k := range order[1:] {
					if hpCall(set[k], cur) == "ok" {
						cur = set[k]
					}
				}
				return cur
			}
			w1, w2 := fold(c.R.Perm(n)), fold(c.R.Perm(n))
			c.Hit("fold")
			if w1 != w2 {
				c.Fail("winner depends on arrival order: %d competitors, winners %x and %x", n, w1.Hash[:], w2.Hash[:])
			}
		}
	})

	register("filter", func(c *Ctx) {
		max := chain.MaxAccountBlocksInMomentum
		one := func(ts []uint64) {
			blocks := make([]*nom.AccountBlock, len(ts))
			for i, t := range ts {
				blocks[i] = &nom.AccountBlock{BlockType: t, Height: uint64(i + 1)}
			}
			var out []*nom.AccountBlock
			panicked := false
			func() {
				defer func() {
					if r := recover(); r != nil {
						panicked = true
					}
				}()
				out = chain.FilterBlocksToCommitVerif(blocks)
			}()
			if panicked {
				c.Emit("filter %s | panic", typeString(ts))
				c.Fail("filterBlocksToCommit panics on %s", typeString(ts))
				return
			}
			rs := make([]uint64, len(out))
			for i := range out {
				rs[i] = out[i].BlockType
			}
			c.Emit("filter %s | %d %s", typeString(ts), len(out), typeString(rs))
			// model-free monitor: the four clauses of the statement
			in := typeString(ts)
			if len(in) > 60 {
				in = in[:60] + "..."
			}
			if len(out) > len(blocks) {
				c.Fail("filterBlocksToCommit returns more blocks than given: %d of %d (%s)", len(out), len(blocks), in)
				return
			}
			for i := range out {
				if out[i] != blocks[i] {
					c.Fail("filterBlocksToCommit result is not a prefix of the input at index %d (%s)", i, in)
					return
				}
			}
			if len(out) > max {
				c.Fail("filterBlocksToCommit returns %d blocks, limit %d (%s)", len(out), max, in)
			}
			if len(out) > 0 && out[len(out)-1].BlockType == nom.BlockTypeContractSend {
				c.Fail("filterBlocksToCommit splits a contract batch: result of length %d ends in a ContractSend (%s)", len(out), in)
			}
			// maximal: the next complete batch would not fit
			next := -1
			for j := len(out); j < len(blocks); j++ {
				if blocks[j].BlockType != nom.BlockTypeContractSend {
					next = j
					break
				}
			}
			switch {
			case next >= 0 && next+1 <= max:
				c.Fail("filterBlocksToCommit not maximal: returns %d blocks although the next batch ends at %d <= %d (%s)", len(out), next+1, max, in)
			case next >= 0:
				c.Hit("stop-limit")
			case len(out) == len(blocks):
				c.Hit("stop-exhausted")
			default:
				c.Hit("stop-incomplete-batch")
			}
		}
		one(nil)
		one([]uint64{4})
		one([]uint64{5})
		for _, n := range []int{99, 100, 101} {
			for _, t := range []uint64{2, 4} {
				ts := make([]uint64, n)
				for i := range ts {
					ts[i] = t
				}
				one(ts)
				ts2 := append(append([]uint64{}, ts...), 5)
				one(ts2)
				ts3 := append([]uint64{3}, ts2...)
				one(ts3)
			}
		}
		for i := 0; i < c.N; i++ {
			var n int
			switch c.R.Intn(4) {
			case 0:
				n = c.R.Intn(12)
			case 1:
				n = 95 + c.R.Intn(12)
			default:
				n = c.R.Intn(301)
			}
			ts := make([]uint64, 0, n)
			mode := c.R.Intn(4)
			for len(ts) < n {
				switch mode {
				case 0: // uniform types incl. an unknown one
					ts = append(ts, uint64(c.R.Intn(7)))
				case 1: // contract batches: run of sends then a receive
					k := c.R.Intn(8)
					if c.R.Intn(10) == 0 {
						k = 90 + c.R.Intn(30)
					}
					for j := 0; j < k && len(ts) < n; j++ {
						ts = append(ts, nom.BlockTypeContractSend)
					}
					if len(ts) < n {
						ts = append(ts, nom.BlockTypeContractReceive)
					}
				case 2: // user blocks with occasional batches
					if c.R.Intn(5) == 0 {
						k := 1 + c.R.Intn(20)
						for j := 0; j < k && len(ts) < n; j++ {
							ts = append(ts, nom.BlockTypeContractSend)
						}
					} else {
						ts = append(ts, uint64(2+c.R.Intn(2)))
					}
				default: // mostly sends
					if c.R.Intn(40) == 0 {
						ts = append(ts, uint64(1+c.R.Intn(5)))
					} else {
						ts = append(ts, nom.BlockTypeContractSend)
					}
				}
			}
			one(ts)
		}
	})
}

func typeString(ts []uint64) string {
	if len(ts) == 0 {
		return "-"
	}
	var sb strings.Builder
	for _, t := range ts {
		sb.WriteByte(byte('0' + t%10))
	}
	return sb.String()
}
