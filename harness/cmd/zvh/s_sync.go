package main

import (
	"fmt"
	"math/big"
	"os"
	"strings"

	g "github.com/zenon-network/go-zenon/chain/genesis/mock"
	"github.com/zenon-network/go-zenon/chain/nom"
	"github.com/zenon-network/go-zenon/common/db"
	"github.com/zenon-network/go-zenon/common/types"
	"github.com/zenon-network/go-zenon/verifier"
	"github.com/zenon-network/go-zenon/vm/constants"
	"github.com/zenon-network/go-zenon/vm/embedded/definition"
)

// ---------------------------------------------------------------------------------------------------
// sync stream (C02): one producing node builds a valid history; several follower nodes receive the same
// momentums under generated delivery schedules (batch boundaries, account-block gossip ahead of the momentum or
// not at all, restarts on the same directory, blocks acknowledging momentums far below the frontier). Compared:
//   * every follower accepts every momentum of the producer (second sentence of the property),
//   * byte-exact frontier key space of all followers (digest over every key/value),
//   * ledger queries (balances, pending sets, token infos) on all nodes,
//   * the Lean manager model fed with the momentums' redo patches: its frontier digest (FNV-1a over all
//     key/value pairs) must equal every follower's — the code's state is the fold of the patches (C02-T1).
// ---------------------------------------------------------------------------------------------------

func fnv64(d db.DB) (int, uint64) {
	const prime = 1099511628211
	h := uint64(14695981039346656037)
	feed := func(b byte) { h = (h ^ uint64(b)) * prime }
	it := d.NewIterator(nil)
	defer it.Release()
	n := 0
	for it.Next() {
		// every entry the iterator delivers counts (deleted entries are skipped by the store's own iterator, 522bff7)
		k, v := it.Key(), it.Value()
		if !userKey(k) {
			continue
		}
		for _, l := range []int{len(k), len(v)} {
			feed(byte(l >> 24))
			feed(byte(l >> 16))
			feed(byte(l >> 8))
			feed(byte(l))
		}
		for _, b := range k {
			feed(b)
		}
		for _, b := range v {
			feed(b)
		}
		n++
	}
	return n, h
}

type schedule struct {
	name      string
	maxBatch  int  // momentums per InsertChain call: 1..maxBatch
	gossip    int  // -1 never; k ≥ 0: blocks of the next k+1 momentums are gossiped before each batch when possible
	restart   int  // restart every `restart` batches (0 = never)
	overlap   bool // re-deliver the last momentum(s) of the previous batch at the start of the next
	rival     bool // before a batch, gossip a competing block (same account, same height, other content) for accounts whose next block the batch confirms
	arrival   bool // every user block is gossiped when the follower's frontier is the frontier the producer had when the block reached it
}

func init() {
	register("sync", func(c *Ctx) {
		for i := 0; i < c.N; i++ {
			if i%6 == 1 {
				syncDeepWarm(c, i)
				continue
			}
			syncHistory(c, i)
		}
	})
}

// produceTraffic drives node A through `steps` generated actions and returns nothing: the history is the chain itself.
func produceTraffic(c *Ctx, n *Node, steps int) { produceTrafficRC(c, n, steps, nil) }

// produceTrafficRC: with rc != nil the traffic also deletes and re-creates ledger keys (cancelled fusions, undelegations,
// new fusions / delegations for the same key), runs the directed delete / re-create / delayed-confirmation scenario of
// s_sync_recreate.go once, and notes at which producer frontier every block arrived. With rc == nil it is the generator the
// other streams have always used (same draws).
func produceTrafficRC(c *Ctx, n *Node, steps int, rc *syncRecreate) {
	users := []types.Address{g.User1.Address, g.User2.Address, g.User3.Address, g.User4.Address, g.User5.Address, g.Pillar1.Address, g.Pillar2.Address}
	everyone := append([]types.Address{g.User6.Address, g.User7.Address}, users...)
	type pend struct {
		hash types.Hash
		to   types.Address
	}
	var pending []pend
	var issued []types.ZenonTokenStandard
	submit := func(tpl *nom.AccountBlock) *nom.AccountBlock {
		// sometimes acknowledge an older momentum (not older than the account's previous block allows)
		if c.R.Intn(4) == 0 {
			h := n.Height()
			back := uint64(c.R.Intn(40))
			if back < h {
				st := n.Chain().GetFrontierMomentumStore()
				fr, _ := n.Chain().GetFrontierAccountStore(tpl.Address).Frontier()
				min := uint64(1)
				if fr != nil {
					min = fr.MomentumAcknowledged.Height
				}
				target := h - back
				if target < min {
					target = min
				}
				if m, _ := st.GetMomentumByHeight(target); m != nil {
					tpl.MomentumAcknowledged = m.Identifier()
					c.Hit("ack-old-momentum")
				}
			}
		}
		at := n.Height()
		b, err := n.Submit(tpl)
		if err != nil {
			c.Hit("traffic-rejected")
			return nil
		}
		c.Hit("traffic-accepted")
		if rc != nil {
			rc.noteAccepted(b, at)
		}
		if b.IsSendBlock() && keyOf(b.ToAddress) != nil {
			pending = append(pending, pend{b.Hash, b.ToAddress})
		}
		return b
	}
	momentum := func() error {
		if rc != nil {
			return rc.momentum()
		}
		_, err := n.Momentum()
		return err
	}
	s, sub := 0, 0
	// one generated action; false: the producer cannot go on
	step := func(allowMomentum bool) bool {
		x := c.R.Intn(100)
		if !allowMomentum {
			sub++ // a step inside the directed scenario: s stands still
			if x >= 72 {
				x = c.R.Intn(72)
			}
		}
		switch {
		case x < 30:
			from := users[c.R.Intn(len(users))]
			tok := types.ZnnTokenStandard
			if c.R.Intn(3) == 0 {
				tok = types.QsrTokenStandard
			} else if len(issued) > 0 && c.R.Intn(3) == 0 {
				tok = issued[c.R.Intn(len(issued))]
			}
			bal, _ := n.Chain().GetFrontierAccountStore(from).GetBalance(tok)
			am := big.NewInt(int64(c.R.Intn(5)))
			if bal != nil && bal.Sign() > 0 {
				am = new(big.Int).Rand(c.R, bal)
				am.Div(am, big.NewInt(int64(2+c.R.Intn(20))))
			}
			data := []byte{}
			if c.R.Intn(5) == 0 {
				data = make([]byte, c.R.Intn(60))
				c.R.Read(data)
			}
			submit(&nom.AccountBlock{BlockType: nom.BlockTypeUserSend, Address: from, ToAddress: everyone[c.R.Intn(len(everyone))], TokenStandard: tok, Amount: am, Data: data})
		case x < 50:
			if len(pending) == 0 {
				return true
			}
			i := c.R.Intn(len(pending))
			p := pending[i]
			if b, _ := n.Chain().GetFrontierMomentumStore().GetAccountBlockByHash(p.hash); b == nil {
				return true // not confirmed yet
			}
			if keyOf(p.to) == nil || (rc != nil && rc.reserved[p.to]) {
				return true
			}
			// users 6,7 have no fused plasma: skip (would need PoW)
			if p.to == g.User6.Address || p.to == g.User7.Address {
				pending = append(pending[:i], pending[i+1:]...)
				return true
			}
			if submit(&nom.AccountBlock{BlockType: nom.BlockTypeUserReceive, Address: p.to, FromBlockHash: p.hash}) != nil {
				pending = append(pending[:i], pending[i+1:]...)
			}
		case x < 62:
			from := users[c.R.Intn(len(users))]
			switch c.R.Intn(4) {
			case 0:
				total := big.NewInt(int64(c.R.Intn(100000)))
				max := new(big.Int).Add(total, big.NewInt(int64(c.R.Intn(100000))))
				data, _ := definition.ABIToken.PackMethod(definition.IssueMethodName, fmt.Sprintf("tok%d", s+1000*sub), fmt.Sprintf("TK%d", s+1000*sub), "", total, max, uint8(c.R.Intn(10)), true, true, false)
				submit(&nom.AccountBlock{BlockType: nom.BlockTypeUserSend, Address: from, ToAddress: types.TokenContract, TokenStandard: types.ZnnTokenStandard, Amount: constants.TokenIssueAmount, Data: data})
			case 1:
				if len(issued) == 0 {
					return true
				}
				data, _ := definition.ABIToken.PackMethod(definition.MintMethodName, issued[c.R.Intn(len(issued))], big.NewInt(int64(1+c.R.Intn(1000))), everyone[c.R.Intn(len(everyone))])
				submit(&nom.AccountBlock{BlockType: nom.BlockTypeUserSend, Address: from, ToAddress: types.TokenContract, Data: data})
			case 2:
				submit(&nom.AccountBlock{BlockType: nom.BlockTypeUserSend, Address: from, ToAddress: types.TokenContract, TokenStandard: types.ZnnTokenStandard, Amount: big.NewInt(int64(1 + c.R.Intn(1000))),
					Data: definition.ABIToken.PackMethodPanic(definition.BurnMethodName)})
			default:
				data, _ := definition.ABIToken.PackMethod(definition.MintMethodName, types.ZnnTokenStandard, big.NewInt(5), from) // refused at receive: refund path
				submit(&nom.AccountBlock{BlockType: nom.BlockTypeUserSend, Address: from, ToAddress: types.TokenContract, Data: data})
			}
		case x < 72: // plasma fuse / stake / delegate: contract storage traffic
			if rc != nil && c.R.Intn(3) == 0 {
				rc.randomStep(users, everyone) // cancel fuse / fuse again / undelegate
				return true
			}
			from := users[c.R.Intn(len(users))]
			if rc != nil && rc.reserved[from] {
				return true
			}
			switch c.R.Intn(3) {
			case 0:
				qsr := int64(10 + c.R.Intn(50)) // (drawn before the beneficiary, as always)
				ben := everyone[c.R.Intn(len(everyone))]
				if rc != nil && rc.reserved[ben] {
					return true
				}
				submit(&nom.AccountBlock{BlockType: nom.BlockTypeUserSend, Address: from, ToAddress: types.PlasmaContract, TokenStandard: types.QsrTokenStandard,
					Amount: big.NewInt(qsr * g.Zexp), Data: definition.ABIPlasma.PackMethodPanic(definition.FuseMethodName, ben)})
			case 1:
				submit(&nom.AccountBlock{BlockType: nom.BlockTypeUserSend, Address: from, ToAddress: types.StakeContract, TokenStandard: types.ZnnTokenStandard,
					Amount: big.NewInt(int64(1+c.R.Intn(20)) * g.Zexp), Data: definition.ABIStake.PackMethodPanic(definition.StakeMethodName, int64(constants.StakeTimeMinSec))})
			default:
				name := []string{g.Pillar1Name, g.Pillar2Name, g.Pillar3Name}[c.R.Intn(3)]
				submit(&nom.AccountBlock{BlockType: nom.BlockTypeUserSend, Address: from, ToAddress: types.PillarContract, Data: definition.ABIPillars.PackMethodPanic(definition.DelegateMethodName, name)})
			}
		default:
			if err := momentum(); err != nil {
				return false
			}
			// pick up newly issued tokens deterministically: look at User balances
			for _, u := range users {
				bm, _ := n.Chain().GetFrontierMomentumStore().GetAccountStore(u).GetBalanceMap()
				var ts []string
				for t := range bm {
					ts = append(ts, string(t[:]))
				}
				sortStrings(ts)
				for _, t := range ts {
					var zts types.ZenonTokenStandard
					copy(zts[:], t)
					if zts == types.ZnnTokenStandard || zts == types.QsrTokenStandard {
						continue
					}
					known := false
					for _, it := range issued {
						if it == zts {
							known = true
						}
					}
					if !known {
						issued = append(issued, zts)
					}
				}
			}
		}
		return true
	}
	if rc != nil {
		rc.submit, rc.step = submit, step
	}
	for ; s < steps; s++ {
		if rc != nil && rc.at[s] {
			rc.directed()
		}
		if !step(true) {
			return
		}
	}
	for i := 0; i < 3; i++ {
		n.Momentum()
	}
}

func sortStrings(s []string) {
	for i := 1; i < len(s); i++ {
		for j := i; j > 0 && s[j] < s[j-1]; j-- {
			s[j], s[j-1] = s[j-1], s[j]
		}
	}
}

func syncHistory(c *Ctx, id int) {
	origGate := verifier.ReceiverMismatchEnforcementHeight
	defer func() { verifier.ReceiverMismatchEnforcementHeight = origGate }()
	verifier.ReceiverMismatchEnforcementHeight = 0
	// the fusion time lock is a package variable of the real code (10 hours of momentums): a few momentums for this history,
	// for the producer and for the followers alike, so that fusions can be cancelled and made again within it
	origFuseExpiration := constants.FuseExpiration
	defer func() { constants.FuseExpiration = origFuseExpiration }()
	constants.FuseExpiration = uint64(1 + c.R.Intn(4))
	a := NewNode()
	defer a.Stop()
	steps := 70 + c.R.Intn(50)
	if c.Tier == "thorough" {
		steps = 200 + c.R.Intn(150)
	}
	rc := newSyncRecreate(c, a, steps)
	produceTrafficRC(c, a, steps, rc)
	H := a.Height()
	// the producer's chain as a peer serves it
	aStore := a.Chain().GetFrontierMomentumStore()
	var chainA []*nom.DetailedMomentum
	for h := uint64(2); h <= H; h++ {
		m, err := aStore.GetMomentumByHeight(h)
		if err != nil || m == nil {
			c.Fail("sync run=%d: producer has no momentum %d", id, h)
			return
		}
		dm, err := aStore.PrefetchMomentum(m)
		if err != nil {
			c.Fail("sync run=%d: prefetch %d: %v", id, h, err)
			return
		}
		chainA = append(chainA, dm)
	}
	nblocks := 0
	for _, dm := range chainA {
		nblocks += len(dm.AccountBlocks)
	}
	c.HitN("momentums", len(chainA))
	c.HitN("account-blocks", nblocks)

	schedules := []schedule{
		{name: "one-by-one", maxBatch: 1, gossip: -1},
		{name: "batches", maxBatch: 1 + c.R.Intn(40), gossip: -1},
		{name: "gossip-lead0", maxBatch: 1 + c.R.Intn(4), gossip: 0},
		{name: "gossip-lead-k+restart", maxBatch: 1 + c.R.Intn(8), gossip: 1 + c.R.Intn(3), restart: 2 + c.R.Intn(4)},
		{name: "big-batch+restart+overlap", maxBatch: 20 + c.R.Intn(100), gossip: -1, restart: 1, overlap: true},
		{name: "gossiped-rival-blocks", maxBatch: 1 + c.R.Intn(3), gossip: -1, rival: true},
		{name: "gossip-at-arrival", maxBatch: 1, gossip: -1, arrival: true},
	}
	// heights whose ledger is recorded while the one-by-one follower has them as frontier: every directed V, a sample of the others
	recordAt := map[uint64]bool{}
	for _, p := range rc.probes {
		recordAt[p.v.Height] = true
	}
	for i := 0; i < 8 && H > 2; i++ {
		recordAt[2+uint64(c.R.Intn(int(H-2)))] = true
	}
	var views []viewRecord
	type result struct {
		name       string
		digest     string
		n          int
		fnv        uint64
		f          *zFollower
	}
	var results []result
	ns := nsBegin(c, aStore, chainA) // abstract node trace of every follower (s_sync_ns.go)
	defer func() {
		for _, r := range results {
			if r.f != nil {
				r.f.Destroy()
			}
		}
	}()
	for si, sc := range schedules {
		f, err := newZFollower("")
		if err != nil {
			c.Fail("sync run=%d: follower: %v", id, err)
			return
		}
		results = append(results, result{name: sc.name, f: f})
		nsAttach(ns, si, f)
		pos := 0
		batches := 0
		offered := map[types.Hash]bool{}
		for pos < len(chainA) {
			size := 1 + c.R.Intn(sc.maxBatch)
			if pos+size > len(chainA) {
				size = len(chainA) - pos
			}
			if sc.arrival {
				// the blocks that reached the producer while its frontier was this follower's frontier (in the order of the chain)
				for k := pos; k < len(chainA) && k < pos+12; k++ {
					for _, b := range chainA[k].AccountBlocks {
						at, ok := rc.arrival[b.Hash]
						if !ok || offered[b.Hash] || at > f.Height() || types.IsEmbeddedAddress(b.Address) {
							continue
						}
						offered[b.Hash] = true
						c.Hit("arrival-gossip-offered")
						if f.Gossip([]*nom.AccountBlock{b}) == nil {
							c.Hit("arrival-gossip-accepted")
							if k > pos {
								c.Hit("arrival-gossip-ahead-of-confirmation")
							}
						}
					}
				}
			}
			if sc.gossip >= 0 {
				// gossip the user blocks of the coming momentums whose acknowledged momentum the follower already has
				var blocks []*nom.AccountBlock
				for k := pos; k < len(chainA) && k <= pos+sc.gossip; k++ {
					for _, b := range chainA[k].AccountBlocks {
						if b.MomentumAcknowledged.Height <= f.Height() && !types.IsEmbeddedAddress(b.Address) {
							blocks = append(blocks, b)
						}
					}
				}
				accepted := 0
				for _, b := range blocks {
					if err := f.Gossip([]*nom.AccountBlock{b}); err == nil {
						accepted++
					}
				}
				c.HitN("gossiped-accepted", accepted)
				c.HitN("gossiped-offered", len(blocks))
			}
			if sc.rival {
				// a competing block for the next block of an account, built and signed on the follower itself (same previous,
				// same height as the block the coming momentum confirms) and delivered as gossip
				seen := map[types.Address]bool{}
				for k := pos; k < pos+size; k++ {
					for _, b := range chainA[k].AccountBlocks {
						if seen[b.Address] || types.IsEmbeddedAddress(b.Address) {
							seen[b.Address] = true
							continue
						}
						seen[b.Address] = true
						kp := keyOf(b.Address)
						if kp == nil || c.R.Intn(3) == 0 {
							continue
						}
						var tx *nom.AccountBlockTransaction
						var gerr error
						if p := safely(func() {
							tx, gerr = f.sup.GenerateFromTemplate(&nom.AccountBlock{BlockType: nom.BlockTypeUserSend, Address: b.Address,
								ToAddress: g.User1.Address, TokenStandard: types.ZnnTokenStandard, Amount: big.NewInt(int64(1 + c.R.Intn(5000)))}, kp.Signer)
						}); p != "" || gerr != nil || tx == nil {
							c.Hit("rival-not-built")
							continue
						}
						if tx.Block.Height != b.Height || tx.Block.Hash == b.Hash {
							c.Hit("rival-not-competing")
							continue
						}
						if err := gossipContest(c, ns, f, b, tx.Block); err == nil {
							c.Hit("rival-gossiped")
						} else {
							c.Hit("rival-refused")
						}
					}
				}
			}
			from := pos
			if sc.overlap && pos > 0 && c.R.Intn(2) == 0 {
				from = pos - 1 - c.R.Intn(minInt(pos, 3))
				if from < 0 {
					from = 0
				}
				c.Hit("overlapping-batch")
			}
			idx, err := f.InsertChain(chainA[from : pos+size])
			if err != nil {
				bad := chainA[from:pos+size][maxInt(idx, 0)].Momentum
				c.Fail("sync run=%d schedule=%s: a momentum produced and accepted by the producer (height %d, %d account blocks) is refused by a follower that has its predecessor: index=%d err=%v; follower frontier %d; blocks of that momentum: %s; keys deleted and re-created in this history: %s", id, sc.name, bad.Height, len(bad.Content), idx, err,
					f.Height(), describeBlocks(chainA[from:pos+size][maxInt(idx, 0)].AccountBlocks, rc), describeProbes(rc.probes))
				return
			}
			pos += size
			batches++
			c.Hit("batch-delivered")
			if si == 0 && recordAt[f.Height()] {
				views = append(views, viewRecord{f.ch.GetFrontierMomentumStore().Identifier(), digestDB(f.mgr.Frontier())})
				// the directed keys as the follower reads them now must be what the producer read when this was its frontier
				for _, p := range rc.probes {
					if p.v.Height == f.Height() {
						if got := rcRead(f.ch, p); got != p.value {
							c.Fail("sync run=%d schedule=%s: %s entry of %s at frontier %d: follower reads %s, the producer read %s", id, sc.name, p.family, addrName(p.x), p.v.Height, got, p.value)
							return
						}
					}
				}
			}
			if sc.restart > 0 && batches%sc.restart == 0 {
				if err := f.Restart(); err != nil {
					c.Fail("sync run=%d schedule=%s: restart failed: %v", id, sc.name, err)
					return
				}
				c.Hit("restart")
			}
		}
		if f.Height() != H {
			c.Fail("sync run=%d schedule=%s: follower ended at height %d, producer at %d", id, sc.name, f.Height(), H)
			return
		}
		results[si].digest = f.StateDigest()
		nsLedger(ns, si, results[si].digest, results[0].digest)
		results[si].n, results[si].fnv = fnv64(f.mgr.Frontier())
	}
	// the ledger as of an old momentum does not change while the frontier advances (every follower; the directed keys also on the producer)
	if !checkProbes(c, id, "producer", a.Chain(), rc.probes) {
		return
	}
	for _, r := range results {
		if !checkProbes(c, id, "schedule="+r.name, r.f.ch, rc.probes) || !checkViews(c, id, r.name, r.f, views) {
			return
		}
	}
	// all followers byte-identical
	for _, r := range results[1:] {
		if r.digest != results[0].digest {
			c.Fail("sync run=%d: ledger state after the same %d momentums differs between delivery schedules: %s -> %s, %s -> %s", id, H, results[0].name, results[0].digest, r.name, r.digest)
			return
		}
	}
	// ledger queries answered identically by producer and followers
	fs := results[len(results)-1].f.ch.GetFrontierMomentumStore()
	for _, kp := range g.AllKeyPairs {
		for _, t := range []types.ZenonTokenStandard{types.ZnnTokenStandard, types.QsrTokenStandard} {
			x, _ := aStore.GetAccountStore(kp.Address).GetBalance(t)
			y, _ := fs.GetAccountStore(kp.Address).GetBalance(t)
			if amt(x) != amt(y) {
				c.Fail("sync run=%d: balance query %s/%s: producer %s follower %s", id, addrName(kp.Address), tokName(t), amt(x), amt(y))
				return
			}
		}
		px, _ := aStore.GetAccountMailbox(kp.Address).GetUnreceivedAccountBlockHashes(1000)
		py, _ := fs.GetAccountMailbox(kp.Address).GetUnreceivedAccountBlockHashes(1000)
		if fmt.Sprint(px) != fmt.Sprint(py) {
			c.Fail("sync run=%d: pending query %s differs between producer and follower", id, addrName(kp.Address))
			return
		}
	}
	// producer's own database, byte for byte (opened after the producer is stopped)
	aDir := a.T.dirs[0]
	a.Stop()
	func() {
		img, err := os.MkdirTemp("", "zvprod")
		if err != nil {
			return
		}
		defer os.RemoveAll(img)
		if copyDir(aDir, img) != nil {
			return
		}
		var dg string
		if p := safely(func() {
			m := db.NewLevelDBManager(img)
			dg = digestDB(m.Frontier())
			m.Stop()
		}); p != "" {
			return
		}
		c.Hit("producer-db-compared")
		if dg != results[0].digest {
			c.Fail("sync run=%d: producer's ledger state %s differs from the followers' %s after the same %d momentums", id, dg, results[0].digest, H)
		}
	}()

	// the Lean manager model: fold of the redo patches of the accepted momentums
	ref := results[0].f
	c.Emit("vdb-reset")
	prev := types.ZeroHashHeight
	for h := uint64(1); h <= H; h++ {
		m, _ := ref.ch.GetFrontierMomentumStore().GetMomentumByHeight(h)
		if m == nil {
			c.Fail("sync run=%d: follower misses momentum %d", id, h)
			return
		}
		p := ref.mgr.GetPatch(m.Identifier())
		if p == nil {
			c.Fail("sync run=%d: no redo patch stored for momentum %d", id, h)
			return
		}
		var ops []kvOp
		for _, o := range patchOps(p) {
			if userKey(o.k) {
				ops = append(ops, o)
			}
		}
		pk := "0:"
		if !prev.IsZero() {
			pk = idStr(prev)
		}
		c.Emit("vdb-add %s %s %s | ok", pk, idStr(m.Identifier()), opsString(ops, false))
		prev = m.Identifier()
	}
	for _, r := range results {
		c.Emit("sync-digest %s | %d %d", strings.ReplaceAll(r.name, " ", "_"), r.n, r.fnv)
	}
	c.Hit("history")
}

func maxInt(a, b int) int {
	if a > b {
		return a
	}
	return b
}
