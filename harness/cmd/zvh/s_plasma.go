package main

import (
	"fmt"
	"math/big"

	"github.com/zenon-network/go-zenon/chain"
	g "github.com/zenon-network/go-zenon/chain/genesis/mock"
	"github.com/zenon-network/go-zenon/chain/nom"
	"github.com/zenon-network/go-zenon/common/types"
	"github.com/zenon-network/go-zenon/verifier"
	"github.com/zenon-network/go-zenon/vm"
	"github.com/zenon-network/go-zenon/vm/constants"
	"github.com/zenon-network/go-zenon/vm/embedded"
	"github.com/zenon-network/go-zenon/vm/embedded/definition"
)

// ---------------------------------------------------------------------------------------------------
// plasma stream (C12): accounts without genesis plasma get QSR fused for them in generated amounts (around the unit and
// base-cost boundaries), fusions are cancelled again (short expiration), and the accounts publish sequences of 1–6
// unconfirmed blocks of every kind (receive, plain send with data of boundary lengths, embedded calls), some
// acknowledging older momentums, with chosen fused plasma (0, base−1, base, available, available+1, cap, cap+1, huge) and
// — delivered as raw external blocks — with sender-chosen BasePlasma / TotalPlasma fields (not covered by the hash).
// For every candidate the verdict of the real node is printed together with the facts the decision rests on, read
// INDEPENDENTLY from the stores (fused QSR of the beneficiary, committed and uncommitted chain plasma, base cost), for the
// Lean model of enoughPlasma; the model-free monitor states the property on every ACCEPTED block: fused ≤ available,
// total = fused + PoW plasma ≥ base cost, total ≤ cap, and the stored BasePlasma/TotalPlasma are the computed ones.
// ---------------------------------------------------------------------------------------------------

func init() {
	register("plasma", func(c *Ctx) {
		for i := 0; i < c.N; i++ {
			plasmaHistory(c, i)
		}
	})
}

// ownBaseCost: the statement's base cost, computed without vm.GetBasePlasmaForAccountBlock
func ownBaseCost(n *Node, b *nom.AccountBlock, ma types.HashHeight) (uint64, string) {
	return ownBaseCostOn(n.Chain(), b, ma)
}

// ownBaseCostOn: the same on any chain (producer or follower)
func ownBaseCostOn(ch chain.Chain, b *nom.AccountBlock, ma types.HashHeight) (uint64, string) {
	if b.IsReceiveBlock() {
		return constants.AccountBlockBasePlasma, "receive"
	}
	if types.IsEmbeddedAddress(b.ToAddress) {
		st := ch.GetMomentumStore(ma)
		ctx := &regimeCtx{}
		if st != nil {
			ctx.acc, _ = st.IsSporkActive(types.AcceleratorSpork)
			ctx.bridge, _ = st.IsSporkActive(types.BridgeAndLiquiditySpork)
			ctx.htlc, _ = st.IsSporkActive(types.HtlcSpork)
		}
		m, err := embedded.GetEmbeddedMethod(ctx, b.ToAddress, b.Data)
		if err != nil {
			return 0, "embedded-unknown"
		}
		// the cost of the method's REVIEWED kind (s_plasma_methods.go), not what the method itself asks for
		if p, ok := reviewedPlasmaCost(regimeOf(ctx), embeddedMethodName(b.ToAddress, b.Data)); ok {
			return p, "embedded"
		}
		p, _ := m.GetPlasma(&constants.AlphanetPlasmaTable) // an unreviewed method: reported by methodTableSweep
		return p, "embedded"
	}
	return uint64(len(b.Data))*constants.ABByteDataPlasma + constants.AccountBlockBasePlasma, "send"
}

func plasmaHistory(c *Ctx, id int) {
	origGate, origExp := verifier.ReceiverMismatchEnforcementHeight, constants.FuseExpiration
	defer func() { verifier.ReceiverMismatchEnforcementHeight, constants.FuseExpiration = origGate, origExp }()
	verifier.ReceiverMismatchEnforcementHeight = 0
	constants.FuseExpiration = uint64(2 + c.R.Intn(3))
	n := NewNode()
	defer n.Stop()
	fail := func(format string, a ...interface{}) { c.Fail("plasma run=%d h=%d: %s", id, n.Height(), fmt.Sprintf(format, a...)) }
	poor := []types.Address{g.User6.Address, g.User7.Address, g.User8.Address}
	rich := g.User1.Address
	type fusion struct {
		id   types.Hash
		made uint64
	}
	var fusions []fusion
	mom := func() bool {
		if _, err := n.Momentum(); err != nil {
			fail("momentum: %v", err)
			return false
		}
		return true
	}
	// the poor accounts need something to send and to receive: the rich one transfers a little ZNN to each (unreceived sends)
	var inbox = map[types.Address][]types.Hash{}
	for _, p := range poor {
		for k := 0; k < 4; k++ {
			if b, err := n.Submit(&nom.AccountBlock{BlockType: nom.BlockTypeUserSend, Address: rich, ToAddress: p, TokenStandard: types.ZnnTokenStandard, Amount: big.NewInt(int64(100 + k))}); err == nil {
				inbox[p] = append(inbox[p], b.Hash)
			}
		}
	}
	if !mom() {
		return
	}
	pr := &plasmaRun{c: c, n: n, id: id, inbox: inbox, fail: fail, fakeNonce: map[string][8]byte{}, mined: map[string][]minedNonce{}}
	methodTableSweep(c)
	pr.ledgerInit(append(append([]types.Address{rich}, poor...), g.User9.Address, g.User10.Address))
	n.OnMomentum = pr.onMomentum
	pr.directedCalls(rich, 0)
	// account states for the hand-built first blocks (s_plasma_hand.go): per poor account nothing fused / about one block's
	// worth / many units / the per-account maximum (and one unit beyond), in rotation over the histories
	firstBlockAccounts := append(append([]types.Address{}, poor...), g.User9.Address, g.User10.Address)
	for k, p := range firstBlockAccounts {
		var units int64
		switch (id + k) % 4 {
		case 1:
			units = []int64{10, 11, 20, 25}[c.R.Intn(4)]
		case 2:
			units = []int64{100, 540}[c.R.Intn(2)]
		case 3:
			units = []int64{5000, 5001}[c.R.Intn(2)]
		}
		if units == 0 {
			// nothing is fused for this account: a Fuse call for it that carries another token / too little (must give it nothing)
			if c.R.Intn(2) == 0 {
				pr.fuseVariant(rich, p)
			}
			continue
		}
		if b, err := n.Submit(&nom.AccountBlock{BlockType: nom.BlockTypeUserSend, Address: rich, ToAddress: types.PlasmaContract, TokenStandard: types.QsrTokenStandard,
			Amount: new(big.Int).Mul(big.NewInt(units), big.NewInt(g.Zexp)), Data: definition.ABIPlasma.PackMethodPanic(definition.FuseMethodName, p)}); err == nil {
			fusions = append(fusions, fusion{b.Hash, n.Height()})
			c.Hit("fuse-initial")
		}
	}
	if !mom() || !mom() {
		return
	}
	pr.directedCalls(rich, 1)
	pr.methodCallMatrix(rich)
	for k, p := range firstBlockAccounts {
		pr.handMatrix(p, id+k, 14)
	}
	// base cost by destination x data length x block type: the function itself (plasma-base lines) and hand-built sends of the
	// account with the most plasma (s_plasma_hand.go)
	pr.baseMatrix(rich)
	pr.baseMatrix(poor[id%len(poor)])
	pr.handDestMatrix(rich, id, mom)

	candidate := func(acc types.Address) {
		frontier := n.Chain().GetFrontierMomentumStore()
		fm, _ := frontier.GetFrontierMomentum()
		ma := fm.Identifier()
		accFrontier, _ := n.Chain().GetFrontierAccountStore(acc).Frontier()
		if c.R.Intn(4) == 0 && fm.Height > 2 {
			// acknowledge an older momentum (not older than the predecessor's)
			min := uint64(1)
			if accFrontier != nil {
				min = accFrontier.MomentumAcknowledged.Height
			}
			h := fm.Height - uint64(1+c.R.Intn(4))
			if h < min {
				h = min
			}
			if m, _ := frontier.GetMomentumByHeight(h); m != nil {
				ma = m.Identifier()
				c.Hit("ack-older-momentum")
			}
		}
		// the block
		tpl := &nom.AccountBlock{Address: acc, MomentumAcknowledged: ma}
		kind := c.R.Intn(6)
		switch {
		case kind == 0 && len(inbox[acc]) > 0:
			tpl.BlockType = nom.BlockTypeUserReceive
			tpl.FromBlockHash = inbox[acc][0]
		case kind <= 3:
			tpl.BlockType = nom.BlockTypeUserSend
			tpl.ToAddress = handDest(acc, []int{0, 0, 0, 1, 2}[c.R.Intn(5)]) // an ordinary account, the zero address, the sender itself
			tpl.TokenStandard = types.ZnnTokenStandard
			tpl.Amount = big.NewInt(0)
			dl := []int{0, 1, 2, 100, 1000, constants.MaxDataLength - 1, constants.MaxDataLength, constants.MaxDataLength + 1}[c.R.Intn(8)]
			tpl.Data = make([]byte, dl)
			c.R.Read(tpl.Data)
		default:
			tpl.BlockType = nom.BlockTypeUserSend
			tpl.ToAddress = types.PillarContract
			tpl.Data = definition.ABIPillars.PackMethodPanic(definition.DelegateMethodName, g.Pillar1Name)
			if c.R.Intn(2) == 0 {
				tpl.ToAddress = types.PlasmaContract
				var h types.Hash
				c.R.Read(h[:])
				tpl.Data = definition.ABIPlasma.PackMethodPanic(definition.CancelFuseMethodName, h)
			}
		}
		// facts, read independently of vm.enoughPlasma
		maStore := n.Chain().GetMomentumStore(ma)
		prev := types.ZeroHashHeight
		if accFrontier != nil {
			prev = accFrontier.Identifier()
		}
		accStore := n.Chain().GetAccountStore(acc, prev)
		if maStore == nil || accStore == nil {
			return
		}
		fusedQsr, _ := maStore.GetStakeBeneficialAmount(acc)
		committed, _ := maStore.GetAccountStore(acc).GetChainPlasma()
		uncommitted, _ := accStore.GetChainPlasma()
		fusedPlasmaOfQsr := uint64(0)
		if fusedQsr != nil && fusedQsr.Sign() > 0 {
			if fusedQsr.Cmp(big.NewInt(int64(constants.MaxFussedAmountForAccount))) >= 0 {
				fusedPlasmaOfQsr = constants.MaxFusionPlasmaForAccount
			} else {
				fusedPlasmaOfQsr = fusedQsr.Uint64() / constants.CostPerFusionUnit * constants.PlasmaPerFusionUnit
			}
		}
		availI := new(big.Int).Add(big.NewInt(int64(fusedPlasmaOfQsr)), committed)
		availI.Sub(availI, uncommitted)
		base, baseKind := ownBaseCost(n, tpl, ma)
		if baseKind == "embedded-unknown" {
			return
		}
		// chosen fused plasma
		var fused uint64
		av := uint64(0)
		if availI.Sign() > 0 {
			av = availI.Uint64()
		}
		switch c.R.Intn(10) {
		case 0:
			fused = 0
		case 1:
			if base > 0 {
				fused = base - 1
			}
		case 2, 3, 4:
			fused = base
		case 5:
			fused = av
		case 6:
			fused = av + 1
		case 7:
			fused = constants.MaxPlasmaForAccountBlock + uint64(c.R.Intn(2))
		case 8:
			fused = 1<<64 - 1 - uint64(c.R.Intn(100000))
		default:
			fused = base + uint64(c.R.Intn(5000))
		}
		tpl.FusedPlasma = fused
		if fused == 0 {
			tpl.Difficulty = 0 // GenerateFromTemplate would fill in the base cost for (0,0); use 1 plasma unit of PoW claim? no nonce → keep it a pure fused test
			tpl.FusedPlasma = 0
			// a (0,0) template gets the base cost filled in by the supervisor: that is the honest wallet path
		}
		// sign it through the real supervisor; then optionally alter the uncovered plasma fields and deliver it raw
		kp := keyOf(acc)
		var tx *nom.AccountBlockTransaction
		var gerr error
		if p := safely(func() { tx, gerr = n.Sup.GenerateFromTemplate(tpl, kp.Signer) }); p != "" {
			gerr = fmt.Errorf("panic")
		}
		verdictOf := func(err error) string {
			switch {
			case err == nil:
				return "ok"
			case err == constants.ErrNotEnoughPlasma:
				return "not-enough-plasma"
			case err == constants.ErrBlockPlasmaLimitReached:
				return "limit-reached"
			case err == constants.ErrNotEnoughTotalPlasma:
				return "not-enough-total"
			case err == constants.ErrVmRunPanic:
				return "vm-panic"
			}
			return "other"
		}
		usedFused := tpl.FusedPlasma
		v := verdictOf(gerr)
		if v == "other" {
			c.Hit("candidate-other-error")
			return
		}
		isRecv := 0
		if tpl.IsReceiveBlock() {
			isRecv = 1
		}
		if !tpl.IsReceiveBlock() && !types.IsEmbeddedAddress(tpl.ToAddress) && len(tpl.Data) > constants.MaxDataLength {
			// data above the 16 KiB limit has no base cost: the block must never be accepted
			c.Hit("data-too-big-" + v)
			if gerr == nil {
				fail("C12: a block with %d data bytes (limit %d) was accepted", len(tpl.Data), constants.MaxDataLength)
			}
			return
		}
		// the QSR fused for the account as the replay of the plasma contract's chain gives it (s_plasma_methods.go), when known
		lineQsr := fusedQsr
		if rq := pr.replayedFused(acc, ma.Height); rq != nil {
			lineQsr = rq
			c.Hit("candidate-with-replayed-fused-qsr")
		}
		c.Emit("plasma-check %s %s %s %d 0 %d | %s", amt(lineQsr), amt(committed), amt(uncommitted), usedFused, base, v)
		c.Hit("verdict-" + v)
		_ = isRecv
		if gerr != nil {
			return
		}
		block := tx.Block
		// monitor on the accepted block
		powPlasma := vm.DifficultyToPlasma(block.Difficulty)
		if new(big.Int).SetUint64(block.FusedPlasma).Cmp(availI) > 0 {
			fail("C12: block %s/%d accepted with fused plasma %d, but the QSR fused for the account provides %d plasma, %s are committed on the confirmed chain and %s already on its unconfirmed blocks (available %s)", addrName(acc), block.Height, block.FusedPlasma, fusedPlasmaOfQsr, amt(committed), amt(uncommitted), availI.String())
		}
		if rq := pr.replayedFused(acc, ma.Height); rq != nil {
			own := new(big.Int).Add(new(big.Int).SetUint64(fusedQsrToPlasma(rq)), committed)
			own.Sub(own, uncommitted)
			if new(big.Int).SetUint64(block.FusedPlasma).Cmp(own) > 0 {
				fail("C12: block %s/%d accepted with fused plasma %d and no proof-of-work beyond difficulty %d; the QSR really fused for the account is %s (replay of the plasma contract's Fuse / CancelFuse receives up to momentum %d) = %d plasma, %s committed on the confirmed chain, %s on its unconfirmed blocks: %s available",
					addrName(acc), block.Height, block.FusedPlasma, block.Difficulty, amt(rq), ma.Height, fusedQsrToPlasma(rq), amt(committed), amt(uncommitted), own.String())
			}
		}
		if block.FusedPlasma+powPlasma < base {
			fail("C12: block %s/%d (%s, %d data bytes) accepted with total plasma %d below its base cost %d", addrName(acc), block.Height, baseKind, len(block.Data), block.FusedPlasma+powPlasma, base)
		}
		if block.FusedPlasma+powPlasma > constants.MaxPlasmaForAccountBlock {
			fail("C12: block %s/%d accepted with total plasma %d above the per-block cap", addrName(acc), block.Height, block.FusedPlasma+powPlasma)
		}
		// deliver: as generated, or raw with altered uncovered plasma fields
		raw := cloneBlock(block)
		altered := ""
		switch c.R.Intn(4) {
		case 0:
			raw.BasePlasma = uint64(1 + c.R.Intn(3))
			altered = "base-plasma-small"
		case 1:
			raw.BasePlasma, raw.TotalPlasma = 1, 1<<63
			altered = "base-and-total-plasma"
		case 2:
			raw.TotalPlasma = 0
			altered = "total-plasma-zero"
		}
		derr := n.SubmitExternal(raw)
		if derr != nil {
			c.Hit("delivery-refused")
			fail("C12: a block that the supervisor generated and signed (%s/%d) is refused on delivery (%s): %v", addrName(acc), block.Height, altered, derr)
			return
		}
		c.Hit("delivered-" + altered)
		held, _ := n.Chain().GetFrontierAccountStore(acc).ByHash(block.Hash)
		if held == nil {
			fail("delivered block not found")
			return
		}
		if held.BasePlasma != base || held.TotalPlasma != block.FusedPlasma+powPlasma {
			fail("C12: stored block %s/%d carries BasePlasma=%d TotalPlasma=%d, the computed values are %d and %d (delivered with %s)", addrName(acc), held.Height, held.BasePlasma, held.TotalPlasma, base, block.FusedPlasma+powPlasma, altered)
		}
		if tpl.IsReceiveBlock() {
			inbox[acc] = inbox[acc][1:]
		}
		// a second raw candidate that CLAIMS a tiny base cost while carrying too little plasma: sign a block with fused = 1
		// (refused by the supervisor path because total < base), then present it raw with BasePlasma = 1
		if c.R.Intn(3) == 0 {
			t2 := &nom.AccountBlock{BlockType: nom.BlockTypeUserSend, Address: acc, ToAddress: g.User2.Address, TokenStandard: types.ZnnTokenStandard, Amount: big.NewInt(0),
				Data: make([]byte, 1+c.R.Intn(200)), FusedPlasma: 1}
			if av >= 1 {
				// build it by hand: the supervisor refuses to sign it
				fr, _ := n.Chain().GetFrontierAccountStore(acc).Frontier()
				t2.Version, t2.ChainIdentifier = 1, n.Chain().ChainIdentifier()
				t2.Height, t2.PreviousHash = fr.Height+1, fr.Hash
				fm2, _ := n.Chain().GetFrontierMomentumStore().GetFrontierMomentum()
				t2.MomentumAcknowledged = fm2.Identifier()
				t2.BasePlasma, t2.TotalPlasma = 1, 1
				t2.Hash = t2.ComputeHash()
				sig, _, pub, _ := kp.Signer(t2.Hash.Bytes())
				t2.Signature, t2.PublicKey = sig, pub
				err := n.SubmitExternal(cloneBlock(t2))
				c.Hit("underpaid-raw-" + verdictOf(err))
				if err == nil {
					fail("C12: a raw block %s/%d with %d data bytes carrying total plasma 1 and a sender-chosen BasePlasma=1 was accepted; its base cost is %d", addrName(acc), t2.Height, len(t2.Data), uint64(len(t2.Data))*constants.ABByteDataPlasma+constants.AccountBlockBasePlasma)
				}
			}
		}
	}

	steps := 40 + c.R.Intn(30)
	for s := 0; s < steps; s++ {
		switch x := c.R.Intn(100); {
		case x < 18: // fuse for a poor account: amounts around the unit / base cost / cap
			ben := poor[c.R.Intn(len(poor))]
			if c.R.Intn(3) == 0 {
				// every token the sender holds x amounts below / at / above the minimum (only QSR >= 10 may be kept and credited)
				pr.fuseVariant(rich, ben)
				continue
			}
			units := []int64{10, 11, 15, 20, 21, 40, 100, 540, 5000, 5001}[c.R.Intn(10)]
			am := new(big.Int).Mul(big.NewInt(units), big.NewInt(g.Zexp))
			if c.R.Intn(3) == 0 {
				am.Add(am, big.NewInt(int64(c.R.Intn(3))-1))
			}
			if b, err := n.Submit(&nom.AccountBlock{BlockType: nom.BlockTypeUserSend, Address: rich, ToAddress: types.PlasmaContract, TokenStandard: types.QsrTokenStandard, Amount: am,
				Data: definition.ABIPlasma.PackMethodPanic(definition.FuseMethodName, ben)}); err == nil {
				fusions = append(fusions, fusion{b.Hash, n.Height()})
				c.Hit("fuse")
			}
		case x < 28 && len(fusions) > 0: // cancel a fusion (matured or not)
			i := c.R.Intn(len(fusions))
			if _, err := n.Submit(&nom.AccountBlock{BlockType: nom.BlockTypeUserSend, Address: rich, ToAddress: types.PlasmaContract,
				Data: definition.ABIPlasma.PackMethodPanic(definition.CancelFuseMethodName, fusions[i].id)}); err == nil {
				c.Hit("cancel-fuse")
				fusions = append(fusions[:i], fusions[i+1:]...)
			}
		case x < 45:
			if !mom() {
				return
			}
		case x < 53: // hand-built blocks on the account's current frontier (confirmed or unconfirmed predecessors)
			pr.handMatrix(poor[c.R.Intn(len(poor))], s+id, 8)
		default: // a burst of 1–6 unconfirmed blocks of one account
			acc := poor[c.R.Intn(len(poor))]
			for k := 0; k < 1+c.R.Intn(6); k++ {
				candidate(acc)
			}
		}
	}
	c.Hit("history")
}
