package main

import (
	"github.com/zenon-network/go-zenon/chain/nom"
)

func init() {
	factGens = append(factGens, func(repo string) (*factFile, error) {
		f := newFactFile("Pool")
		f.raw("-- chain/nom/account_block.go block types\n")
		f.nat("BlockTypeGenesisReceive", uint64(nom.BlockTypeGenesisReceive))
		f.nat("BlockTypeUserSend", uint64(nom.BlockTypeUserSend))
		f.nat("BlockTypeUserReceive", uint64(nom.BlockTypeUserReceive))
		f.nat("BlockTypeContractSend", uint64(nom.BlockTypeContractSend))
		f.nat("BlockTypeContractReceive", uint64(nom.BlockTypeContractReceive))
		return f, nil
	})
}
