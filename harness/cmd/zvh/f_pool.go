package main

import (
	"fmt"
	"go/ast"
	"go/parser"
	"go/token"
	"path/filepath"
	"sort"
	"strings"

	"github.com/zenon-network/go-zenon/chain/nom"
)

func init() {
	factGens = append(factGens, func(repo string) (*factFile, error) {
		f := newFactFile("Pool")
		f.raw("-- chain/nom/account_block.go block types\n")
		f.nat("BlockTypeGenesisReceive", uint64(nom.BlockTypeGenesisReceive))
		f.nat("BlockTypeUserSend", uint64(nom.BlockTypeUserSend))
		f.nat("BlockTypeUserReceive", uint64(nom.BlockTypeUserReceive))
		f.nat("BlockTypeContractSend", uint64(nom.BlockTypeContractSend))
		f.nat("BlockTypeContractReceive", uint64(nom.BlockTypeContractReceive))
		// lock discipline of accountPool, read from the AST of chain/account_pool.go:
		// for every method of *accountPool: (name, exported, position of the first `ap.changes.Lock()` statement that is
		// directly followed by `defer ap.changes.Unlock()` (0 = none), position of the first use of ap.managers or call of
		// an unexported method of the pool that reaches ap.managers (0 = none)). Positions are statement indices + 1 in source order.
		sites, err := poolLockSites(filepath.Join(repo, "chain", "account_pool.go"))
		if err != nil {
			return nil, err
		}
		f.raw("-- chain/account_pool.go: (method, exported, index of `ap.changes.Lock(); defer ap.changes.Unlock()`, index of first access to pool state), 0 = none\n")
		f.raw("def poolLockSites : List (String × Bool × Nat × Nat) := [\n%s\n]\n", strings.Join(sites, ",\n"))
		// number of `return` statements inside the per-address loop of rebuild (a return there skips the remaining addresses)
		n, err := rebuildLoopReturns(filepath.Join(repo, "chain", "account_pool.go"))
		if err != nil {
			return nil, err
		}
		f.raw("-- chain/account_pool.go rebuild: return statements inside `for _, address := range addresses`\n")
		f.nat("rebuildLoopReturns", n)
		return f, nil
	})
}

func rebuildLoopReturns(path string) (int, error) {
	fset := token.NewFileSet()
	file, err := parser.ParseFile(fset, path, nil, 0)
	if err != nil {
		return 0, err
	}
	for _, d := range file.Decls {
		fd, ok := d.(*ast.FuncDecl)
		if !ok || fd.Name.Name != "rebuild" || fd.Recv == nil || fd.Body == nil {
			continue
		}
		n, loops := 0, 0
		ast.Inspect(fd.Body, func(nd ast.Node) bool {
			rs, ok := nd.(*ast.RangeStmt)
			if !ok {
				return true
			}
			if id, ok := rs.X.(*ast.Ident); !ok || id.Name != "addresses" {
				return true
			}
			loops++
			ast.Inspect(rs.Body, func(in ast.Node) bool {
				switch in.(type) {
				case *ast.FuncLit:
					return false
				case *ast.ReturnStmt:
					n++
				}
				return true
			})
			return false
		})
		if loops != 1 {
			return 0, fmt.Errorf("rebuild: expected one loop over addresses, found %d", loops)
		}
		return n, nil
	}
	return 0, fmt.Errorf("accountPool.rebuild not found in %s", path)
}

func poolLockSites(path string) ([]string, error) {
	fset := token.NewFileSet()
	file, err := parser.ParseFile(fset, path, nil, 0)
	if err != nil {
		return nil, err
	}
	// methods of *accountPool
	type meth struct {
		name string
		decl *ast.FuncDecl
		recv string
	}
	var ms []meth
	unexported := map[string]bool{}
	for _, d := range file.Decls {
		fd, ok := d.(*ast.FuncDecl)
		if !ok || fd.Recv == nil || len(fd.Recv.List) != 1 || fd.Body == nil {
			continue
		}
		st, ok := fd.Recv.List[0].Type.(*ast.StarExpr)
		if !ok {
			continue
		}
		id, ok := st.X.(*ast.Ident)
		if !ok || id.Name != "accountPool" || len(fd.Recv.List[0].Names) != 1 {
			continue
		}
		ms = append(ms, meth{fd.Name.Name, fd, fd.Recv.List[0].Names[0].Name})
		if !ast.IsExported(fd.Name.Name) {
			unexported[fd.Name.Name] = true
		}
	}
	sort.Slice(ms, func(i, j int) bool { return ms[i].name < ms[j].name })
	isSel := func(e ast.Expr, recv string, path ...string) bool { // recv.path[0].path[1]...
		for i := len(path) - 1; i >= 0; i-- {
			se, ok := e.(*ast.SelectorExpr)
			if !ok || se.Sel.Name != path[i] {
				return false
			}
			e = se.X
		}
		id, ok := e.(*ast.Ident)
		return ok && id.Name == recv
	}
	// which unexported methods reach ap.managers (directly or through other unexported methods): fixpoint
	touches := map[string]bool{}
	for changed := true; changed; {
		changed = false
		for _, m := range ms {
			if touches[m.name] {
				continue
			}
			ast.Inspect(m.decl.Body, func(n ast.Node) bool {
				if se, ok := n.(*ast.SelectorExpr); ok {
					if id, ok := se.X.(*ast.Ident); ok && id.Name == m.recv && (se.Sel.Name == "managers" || touches[se.Sel.Name]) {
						touches[m.name] = true
						changed = true
					}
				}
				return !touches[m.name]
			})
		}
	}
	out := []string{}
	for _, m := range ms {
		lockAt, useAt := 0, 0
		stmts := m.decl.Body.List
		for i, s := range stmts {
			if lockAt == 0 && i+1 < len(stmts) {
				if es, ok := s.(*ast.ExprStmt); ok {
					if ce, ok := es.X.(*ast.CallExpr); ok && isSel(ce.Fun, m.recv, "changes", "Lock") {
						if ds, ok := stmts[i+1].(*ast.DeferStmt); ok && isSel(ds.Call.Fun, m.recv, "changes", "Unlock") {
							lockAt = i + 1
						}
					}
				}
			}
			if useAt == 0 {
				ast.Inspect(s, func(n ast.Node) bool {
					if se, ok := n.(*ast.SelectorExpr); ok {
						if id, ok := se.X.(*ast.Ident); ok && id.Name == m.recv && (se.Sel.Name == "managers" || (unexported[se.Sel.Name] && touches[se.Sel.Name])) {
							useAt = i + 1
						}
					}
					return useAt == 0
				})
			}
		}
		out = append(out, fmt.Sprintf("  (%q, %v, %d, %d)", m.name, ast.IsExported(m.name), lockAt, useAt))
	}
	return out, nil
}
