package main

import (
	"bytes"
	"encoding/binary"
	"fmt"
	"os"
	"sort"
	"strings"

	"github.com/syndtr/goleveldb/leveldb"

	"github.com/zenon-network/go-zenon/common/db"
	"github.com/zenon-network/go-zenon/common/types"
)

// ---------------------------------------------------------------------------------------------------
// vdb-cache stream (C07 "regardless of the cache state", C06 "no trace": the l1/l2 rollback-overlay cache of ldbManager).
//
// The real db.NewLevelDBManager is driven through commits, stale-parent commits, pops and Gets; every view handed out is
// KEPT OPEN and read again later (after further commits, after later Gets of the same identifier - which extend the overlay
// object the view points to in place -, after pops and branch switches). After every operation that can touch the caches the
// CONTENT of both levels of the real manager is printed (db.VerifCacheDump: identifier, tag, identity of the overlay object,
// raw content of the object) and compared with the caches of the Lean model CLdb (Model/VersionedCache.lean, Driver/VdbCache.lean),
// which replays the same operations; an entry that disappears without a Pop was evicted by the real LRU and is announced to
// the model as an explicit vc-evict line (the model treats eviction as nondeterminism, the capacities are constants of the
// package and cannot be shortened).
//
// Model-free monitor (the property's sentence, no model knowledge): per committed version the harness keeps the plain map the
// store had when that version was the frontier; every kept view must answer every Get / Has / ordered scan from that map at
// every later moment; an identifier that is not on the current chain must not be served.
// ---------------------------------------------------------------------------------------------------

type vcView struct {
	name string
	d    db.DB
	id   types.HashHeight
	base shadow
}

type vcRig struct {
	c         *Ctx
	seq       int
	what      string
	m         db.Manager
	chain     []types.HashHeight
	specs     map[string]shadow
	abandoned []types.HashHeight
	views     []*vcView
	universe  map[string]bool
	counter   uint64
	prev      [2]map[types.HashHeight]bool
	failed    bool
	maxDiff   int
	nviews    int
}

func newVcRig(c *Ctx, seq int, what string) (*vcRig, func()) {
	dir, err := os.MkdirTemp("", "zvdbc")
	if err != nil {
		panic(err)
	}
	m := db.NewLevelDBManager(dir)
	_, _, maxDiff := db.CacheConstantsVerif()
	r := &vcRig{c: c, seq: seq, what: what, m: m, specs: map[string]shadow{"0:": {}}, universe: map[string]bool{},
		counter: uint64(seq)<<32 | 1<<29, maxDiff: maxDiff}
	r.prev[0], r.prev[1] = map[types.HashHeight]bool{}, map[types.HashHeight]bool{}
	c.Emit("vc-reset | ok")
	return r, func() {
		safely(func() { m.Stop() })
		os.RemoveAll(dir)
	}
}

func (r *vcRig) fail(format string, a ...interface{}) {
	r.failed = true
	r.c.Fail("vdb-cache seq=%d %s: %s", r.seq, r.what, fmt.Sprintf(format, a...))
}

func (r *vcRig) newHash() types.Hash {
	r.counter++
	var h types.Hash
	binary.BigEndian.PutUint64(h[:8], r.counter)
	h[31] = 1
	return h
}

func (r *vcRig) frontier() types.HashHeight {
	if len(r.chain) == 0 {
		return types.ZeroHashHeight
	}
	return r.chain[len(r.chain)-1]
}

func vcVerKey(id types.HashHeight) string {
	if id.IsZero() {
		return "0:"
	}
	return idStr(id)
}

func (r *vcRig) genOps() []kvOp {
	c := r.c
	n := 1 + c.R.Intn(3)
	ops := make([]kvOp, 0, n)
	for i := 0; i < n; i++ {
		k := vdbKey(c)
		r.universe[string(k)] = true
		if c.R.Intn(4) == 0 {
			ops = append(ops, kvOp{del: true, k: k})
		} else {
			ops = append(ops, kvOp{k: k, v: vdbVal(c)})
		}
	}
	return ops
}

func vcPatch(ops []kvOp) db.Patch {
	p := db.NewPatch()
	for _, o := range ops {
		if o.del {
			p.Delete(o.k)
		} else {
			p.Put(o.k, o.v)
		}
	}
	return p
}

// commit on the frontier
func (r *vcRig) commit(ops []kvOp) bool {
	prev := r.frontier()
	id := types.HashHeight{Height: prev.Height + 1, Hash: r.newHash()}
	var aerr error
	p := safely(func() { aerr = r.m.Add(&vTx{commits: []db.Commit{&vCommit{id: id, prev: prev}}, patch: vcPatch(ops)}) })
	res := "ok"
	if p != "" {
		res = "panic"
	} else if aerr != nil {
		res = "err"
	}
	r.c.Emit("vc-add %s %s %s | %s", vcVerKey(prev), idStr(id), opsString(ops, false), res)
	if res != "ok" {
		r.fail("commit %s on the frontier %s refused (%s)", idStr(id), vcVerKey(prev), res)
		return false
	}
	ns := r.specs[vcVerKey(prev)].clone()
	for _, o := range ops {
		if o.del {
			delete(ns, string(o.k))
		} else {
			v := o.v
			if v == nil {
				v = []byte{}
			}
			ns[string(o.k)] = v
		}
	}
	r.specs[idStr(id)] = ns
	r.chain = append(r.chain, id)
	r.c.Hit("vc-commit")
	return true
}

// commit on a stale parent: Get(previous) files an overlay for the parent, nothing is written
func (r *vcRig) commitStale(pi int, ops []kvOp) bool {
	prev := r.chain[pi]
	id := types.HashHeight{Height: prev.Height + 1, Hash: r.newHash()}
	var aerr error
	p := safely(func() { aerr = r.m.Add(&vTx{commits: []db.Commit{&vCommit{id: id, prev: prev}}, patch: vcPatch(ops)}) })
	res := "ok"
	if p != "" {
		res = "panic"
	} else if aerr != nil {
		res = "err"
	}
	r.c.Emit("vc-add %s %s %s | %s", idStr(prev), idStr(id), opsString(ops, false), res)
	r.c.Hit("vc-commit-stale")
	if got := db.GetFrontierIdentifier(r.m.Frontier()); got != r.frontier() {
		r.fail("commit %s on stale parent %s moved the frontier to %s", idStr(id), idStr(prev), idStr(got))
		return false
	}
	return r.dump(false)
}

func (r *vcRig) pop() bool {
	var perr error
	p := safely(func() { perr = r.m.Pop() })
	res := "ok"
	if p != "" {
		res = "panic"
	} else if perr != nil {
		res = "err"
	}
	r.c.Emit("vc-pop | %s", res)
	if res != "ok" {
		r.fail("pop of the frontier %s failed: %s", idStr(r.frontier()), res)
		return false
	}
	r.abandoned = append(r.abandoned, r.chain[len(r.chain)-1])
	r.chain = r.chain[:len(r.chain)-1]
	r.c.Hit("vc-pop")
	return r.dump(true)
}

func vcLess(a, b types.HashHeight) bool {
	if a.Height != b.Height {
		return a.Height < b.Height
	}
	return bytes.Compare(a.Hash[:8], b.Hash[:8]) < 0
}

// digest of an overlay object: entries, user entries, FNV-1a over the user entries (raw values: tombstone = empty)
func vcDigest(raw [][2][]byte) string {
	const prime = 1099511628211
	h := uint64(14695981039346656037)
	feed := func(b byte) { h = (h ^ uint64(b)) * prime }
	n := 0
	for _, e := range raw {
		k, v := e[0], e[1]
		if !userKey(k) {
			continue
		}
		for _, l := range []int{len(k), len(v)} {
			feed(byte(l >> 24))
			feed(byte(l >> 16))
			feed(byte(l >> 8))
			feed(byte(l))
		}
		for _, b := range k {
			feed(b)
		}
		for _, b := range v {
			feed(b)
		}
		n++
	}
	return fmt.Sprintf("%d:%d:%d", len(raw), n, h)
}

// dump prints the content of both cache levels of the real manager. Entries that disappeared since the last dump
// without a Pop were evicted by the LRU: announced first.
func (r *vcRig) dump(afterPop bool) bool {
	l1, l2, ok := db.VerifCacheDump(r.m)
	if !ok {
		r.fail("not a leveldb manager")
		return false
	}
	levels := [2][]db.CacheEntryVerif{l1, l2}
	names := [2]string{"l1", "l2"}
	for li := 0; li < 2; li++ {
		sort.Slice(levels[li], func(i, j int) bool { return vcLess(levels[li][i].Id, levels[li][j].Id) })
		now := map[types.HashHeight]bool{}
		for _, e := range levels[li] {
			now[e.Id] = true
		}
		if !afterPop {
			var gone []types.HashHeight
			for id := range r.prev[li] {
				if !now[id] {
					gone = append(gone, id)
				}
			}
			sort.Slice(gone, func(i, j int) bool { return vcLess(gone[i], gone[j]) })
			for _, id := range gone {
				r.c.Emit("vc-evict %s %s | ok", names[li], idStr(id))
				r.c.Hit("vc-evicted-" + names[li])
			}
		}
		r.prev[li] = now
	}
	labels := map[uintptr]int{}
	var parts [2]string
	shared := false
	for li := 0; li < 2; li++ {
		var es []string
		for _, e := range levels[li] {
			lb, seen := labels[e.Obj]
			if !seen {
				lb = len(labels)
				labels[e.Obj] = lb
			} else {
				shared = true
			}
			es = append(es, fmt.Sprintf("%s>%s@%d#%s", idStr(e.Id), idStr(e.Tag), lb, vcDigest(e.Raw)))
		}
		if len(es) == 0 {
			parts[li] = "-"
		} else {
			parts[li] = strings.Join(es, ",")
		}
	}
	r.c.Emit("vc-cache | l1=%s l2=%s", parts[0], parts[1])
	if len(l1) > 0 {
		r.c.Hit("vc-cache-l1-nonempty")
	}
	if len(l2) > 0 {
		r.c.Hit("vc-cache-l2-nonempty")
	}
	if shared {
		r.c.Hit("vc-cache-object-in-both-levels")
	}
	return true
}

func (r *vcRig) onChain(id types.HashHeight) bool {
	if id.IsZero() {
		return true
	}
	return id.Height >= 1 && int(id.Height) <= len(r.chain) && r.chain[id.Height-1] == id
}

// open = ldbManager.Get(id); the view is kept
func (r *vcRig) open(id types.HashHeight) *vcView {
	name := fmt.Sprintf("w%d", r.nviews)
	r.nviews++
	var d db.DB
	p := safely(func() { d = r.m.Get(id) })
	res := "ok"
	if p != "" {
		res = "panic"
	} else if d == nil {
		res = "nil"
	}
	r.c.Emit("vc-open %s %s | %s", name, vcVerKey(id), res)
	on := r.onChain(id)
	if on && res != "ok" {
		r.fail("view at %s (on the current chain, %d below the frontier) could not be opened: %s", vcVerKey(id), len(r.chain)-int(id.Height), res)
	}
	if !on && res == "ok" {
		r.fail("view at %s, which is not a commit of the current chain, was served", vcVerKey(id))
	}
	var v *vcView
	if res == "ok" {
		base := r.specs[vcVerKey(id)]
		if base == nil {
			base = shadow{}
		}
		v = &vcView{name: name, d: d, id: id, base: base.clone()}
		depth := len(r.chain) - int(id.Height)
		switch {
		case id.IsZero():
			r.c.Hit("vc-open-zero")
		case id == r.frontier():
			r.c.Hit("vc-open-frontier")
		case depth < r.maxDiff:
			r.c.Hit("vc-open-near")
		default:
			r.c.Hit("vc-open-far")
		}
	} else {
		r.c.Hit("vc-open-refused")
	}
	r.views = append(r.views, v)
	if !r.dump(false) {
		return nil
	}
	if v != nil && !r.check(v, "at open") {
		return nil
	}
	return v
}

// check: model-free full validation of a kept view against the state as of its commit (every key of the universe by Get and
// Has, the ordered scan of everything); not printed
func (r *vcRig) check(v *vcView, when string) bool {
	keys := map[string]bool{}
	for k := range r.universe {
		keys[k] = true
	}
	for k := range v.base {
		keys[k] = true
	}
	ks := make([]string, 0, len(keys))
	for k := range keys {
		ks = append(ks, k)
	}
	sort.Strings(ks)
	for _, k := range ks {
		want, ok := v.base[k]
		got, gerr := v.d.Get([]byte(k))
		has, _ := v.d.Has([]byte(k))
		if ok != (gerr == nil) || ok != has || (ok && !bytes.Equal(got, want)) {
			r.fail("%s: view %s@%s (frontier now %s) key %s: store says (%s,%v,has=%v), state as of that commit: present=%v value=%s",
				when, v.name, vcVerKey(v.id), vcVerKey(r.frontier()), hx([]byte(k)), hx(got), gerr, has, ok, hx(want))
			return false
		}
	}
	_, entries, _ := scanDB(v.d, nil)
	var user [][2][]byte
	for _, e := range entries {
		if userKey(e[0]) {
			user = append(user, e)
		}
	}
	var wk []string
	for k := range v.base {
		if userKey([]byte(k)) {
			wk = append(wk, k)
		}
	}
	sort.Strings(wk)
	okScan := len(wk) == len(user)
	for i := 0; okScan && i < len(wk); i++ {
		okScan = wk[i] == string(user[i][0]) && bytes.Equal(v.base[wk[i]], user[i][1])
	}
	if !okScan {
		r.fail("%s: view %s@%s (frontier now %s): ordered scan lists %d entries [%s], the state as of that commit has %d",
			when, v.name, vcVerKey(v.id), vcVerKey(r.frontier()), len(user), entriesString(user), len(wk))
		return false
	}
	return true
}

// read: one printed read through a kept view (replayed by the model through ITS heap of the moment) + monitor
func (r *vcRig) read(v *vcView) bool {
	c := r.c
	switch q := c.R.Intn(10); {
	case q < 5:
		k := vdbKey(c)
		r.universe[string(k)] = true
		got, gerr := v.d.Get(k)
		res := "notfound"
		if gerr == nil {
			res = "val:" + hx(got)
		} else if gerr != leveldb.ErrNotFound {
			res = "error"
		}
		c.Emit("vc-get %s %s | %s", v.name, hx(k), res)
		want, ok := v.base[string(k)]
		if ok != (gerr == nil) || (ok && !bytes.Equal(want, got)) {
			r.fail("view %s@%s (frontier now %s) get %s = %s, state as of that commit: present=%v value=%s", v.name, vcVerKey(v.id), vcVerKey(r.frontier()), hx(k), res, ok, hx(want))
			return false
		}
		c.Hit("vc-get")
	case q < 7:
		k := vdbKey(c)
		r.universe[string(k)] = true
		has, _ := v.d.Has(k)
		c.Emit("vc-has %s %s | %v", v.name, hx(k), has)
		if _, ok := v.base[string(k)]; ok != has {
			r.fail("view %s@%s has %s = %v, state as of that commit: present=%v", v.name, vcVerKey(v.id), hx(k), has, ok)
			return false
		}
		c.Hit("vc-has")
	default:
		p := []byte{byte(3 + c.R.Intn(2))}
		if c.R.Intn(3) == 0 {
			p = append(p, vdbKeyAlphabet[c.R.Intn(len(vdbKeyAlphabet))])
		}
		got, entries, _ := scanDB(v.d, p)
		c.Emit("vc-scan %s %s | %s", v.name, hx(p), got)
		var wk []string
		for k := range v.base {
			if bytes.HasPrefix([]byte(k), p) {
				wk = append(wk, k)
			}
		}
		sort.Strings(wk)
		okScan := len(wk) == len(entries)
		for i := 0; okScan && i < len(wk); i++ {
			okScan = wk[i] == string(entries[i][0]) && bytes.Equal(v.base[wk[i]], entries[i][1])
		}
		if !okScan {
			r.fail("view %s@%s (frontier now %s): scan of prefix %s lists [%s], the state as of that commit has %d entries under it", v.name, vcVerKey(v.id), vcVerKey(r.frontier()), hx(p), got, len(wk))
			return false
		}
		c.Hit("vc-scan")
	}
	return true
}

// sweep: every kept view is validated in full (monitor) and read twice (printed)
func (r *vcRig) sweep(when string) bool {
	for _, v := range r.views {
		if v == nil {
			continue
		}
		if !r.check(v, when) || !r.read(v) || !r.read(v) {
			return false
		}
	}
	r.c.Hit("vc-sweep")
	return true
}

func (r *vcRig) grow(n int) bool {
	for i := 0; i < n; i++ {
		if !r.commit(r.genOps()) {
			return false
		}
	}
	return true
}

func init() {
	register("vdb-cache", func(c *Ctx) {
		if c.Args["mix"] == "pop" {
			// reorganisation mix (C06): pop-heavy random sequences, a branch switch every second sequence, the boundary scenarios
			// (with their pops and re-commits) now and then; no eviction scenario
			for seq := 0; seq < c.N; seq++ {
				vcRandom(c, seq)
				if seq%2 == 1 {
					vcBranchSwitch(c, seq)
				}
				if seq%20 == 3 {
					vcNearFar(c, seq)
				}
				if seq%20 == 13 {
					vcFarNearByPops(c, seq)
				}
			}
			return
		}
		for seq := 0; seq < c.N; seq++ {
			vcRandom(c, seq)
			if seq%8 == 1 {
				vcBranchSwitch(c, seq)
			}
			if seq%30 == 2 {
				vcNearFar(c, seq)
			}
			if seq%30 == 17 {
				vcFarNearByPops(c, seq)
			}
			if seq == 4 || (c.Tier == "thorough" && seq%200 == 4) {
				vcEviction(c, seq)
			}
		}
	})
}

// vcRandom: short chains (all overlays in the first level), every kind of operation interleaved; the same few identifiers
// are opened again and again so that cached objects are extended in place while older views of them are still open
func vcRandom(c *Ctx, seq int) {
	r, done := newVcRig(c, seq, "random")
	defer done()
	nops := 25 + c.R.Intn(35)
	popHeavy := c.Args["mix"] == "pop"
	for step := 0; step < nops && !r.failed; step++ {
		x := c.R.Intn(100)
		if popHeavy && len(r.chain) >= 2 && c.R.Intn(5) == 0 {
			x = 30 // an extra pop
		}
		switch {
		case x < 30:
			r.commit(r.genOps())
		case x < 38 && len(r.chain) >= 1:
			r.pop()
		case x < 44 && len(r.chain) >= 2:
			r.commitStale(c.R.Intn(len(r.chain)-1), r.genOps())
		case x < 70 && len(r.chain) >= 1:
			// favour the oldest few identifiers: re-opened under later frontiers
			var id types.HashHeight
			if c.R.Intn(3) > 0 {
				id = r.chain[c.R.Intn(minInt(3, len(r.chain)))]
			} else {
				id = r.chain[c.R.Intn(len(r.chain))]
			}
			r.open(id)
		case x < 74 && len(r.abandoned) > 0:
			r.open(r.abandoned[c.R.Intn(len(r.abandoned))])
			c.Hit("vc-open-abandoned")
		case x < 76:
			r.open(types.HashHeight{Height: uint64(1 + c.R.Intn(4)), Hash: r.newHash()})
		case x < 78 && len(r.chain) > 0:
			id := r.chain[c.R.Intn(len(r.chain))]
			id.Height += uint64(1 + c.R.Intn(2))
			r.open(id)
		case x < 80:
			r.open(types.ZeroHashHeight)
		default:
			var live []*vcView
			for _, v := range r.views {
				if v != nil {
					live = append(live, v)
				}
			}
			if len(live) > 0 {
				r.read(live[c.R.Intn(len(live))])
			}
		}
		if step%9 == 8 {
			r.sweep("revalidation after later operations")
		}
	}
	if !r.failed {
		r.sweep("at the end")
	}
}

// vcBranchSwitch: views opened before a pop; the popped heights are committed again with DIFFERENT content and new hashes;
// the same identifiers are opened again (fresh objects: the purge), old and new views are read; identifiers of the abandoned
// branch are refused
func vcBranchSwitch(c *Ctx, seq int) {
	r, done := newVcRig(c, seq, "branch-switch")
	defer done()
	if !r.grow(6 + c.R.Intn(6)) {
		return
	}
	x := r.chain[c.R.Intn(3)]
	y := r.chain[len(r.chain)-2]
	for _, id := range []types.HashHeight{x, y, x} {
		if r.open(id) == nil {
			return
		}
	}
	if !r.grow(1+c.R.Intn(3)) || r.open(x) == nil {
		return
	}
	k := 2 + c.R.Intn(3)
	for i := 0; i < k; i++ {
		if !r.pop() {
			return
		}
	}
	if !r.sweep("after the pops") {
		return
	}
	if r.onChain(x) && r.open(x) == nil {
		return
	}
	if !r.grow(k + c.R.Intn(2)) {
		return
	}
	for _, id := range []types.HashHeight{x, r.chain[len(r.chain)-2], x} {
		if r.onChain(id) && r.open(id) == nil {
			return
		}
	}
	for _, id := range r.abandoned {
		r.open(id)
	}
	if r.sweep("after the branch switch") {
		c.Hit("vc-branch-switch-scenario")
	}
}

// vcNearFar: the same identifier opened near -> far -> far across maximumCacheHeightDifference while all views stay open:
// the first-level entry stays behind with its old tag when the object is filed in the second level, and is the one `Get`
// finds next time; then pops (purge), the views again, a re-commit with other content, the identifier again
func vcNearFar(c *Ctx, seq int) {
	r, done := newVcRig(c, seq, "near-far")
	defer done()
	if !r.grow(4 + c.R.Intn(5)) {
		return
	}
	x := r.chain[c.R.Intn(2)]
	z := r.chain[2]
	if r.open(x) == nil || !r.grow(2) || r.open(x) == nil || r.open(z) == nil {
		return
	}
	// cross the boundary for x (and z)
	if !r.grow(r.maxDiff - len(r.chain) + int(x.Height) - 1) {
		return
	}
	if r.open(x) == nil { // last near open: depth maxDiff-1
		return
	}
	if !r.grow(1) || r.open(x) == nil { // first far open: depth maxDiff
		return
	}
	if !r.sweep("after the first far open") {
		return
	}
	if !r.grow(2+c.R.Intn(4)) || r.open(x) == nil || r.open(z) == nil || r.open(x) == nil {
		return
	}
	if !r.commitStale(int(x.Height)-1, r.genOps()) { // Add on the stale parent x: its Get goes through the caches too
		return
	}
	if !r.sweep("after far opens") {
		return
	}
	// pops, the old views again, re-commit, the same identifier again
	k := 1 + c.R.Intn(3)
	for i := 0; i < k; i++ {
		if !r.pop() {
			return
		}
	}
	if !r.sweep("after the pops") || r.open(x) == nil {
		return
	}
	if !r.grow(k+1) || r.open(x) == nil || r.open(z) == nil {
		return
	}
	if r.sweep("after the re-commit") {
		c.Hit("vc-near-far-scenario")
	}
}

// vcFarNearByPops: the boundary in the other direction: an identifier opened far (second level), then the frontier is popped
// back until it is near again (every pop purges), opened near, the chain grows again across the boundary, opened far
func vcFarNearByPops(c *Ctx, seq int) {
	r, done := newVcRig(c, seq, "far-near")
	defer done()
	if !r.grow(r.maxDiff + 4) {
		return
	}
	x := r.chain[1] // depth maxDiff+2
	if r.open(x) == nil || r.open(x) == nil {
		return
	}
	for i := 0; i < 4; i++ {
		if !r.pop() {
			return
		}
	}
	if r.open(x) == nil || !r.sweep("after popping back across the boundary") { // depth maxDiff-2: near
		return
	}
	if !r.grow(3) || r.open(x) == nil || !r.grow(2) || r.open(x) == nil {
		return
	}
	if r.sweep("after growing across the boundary again") {
		c.Hit("vc-far-near-scenario")
	}
}

// vcEviction: more distinct identifiers than a level holds (the capacities are constants of the package): the real LRU evicts,
// the evictions are announced to the model, the caches keep agreeing and every view keeps showing its commit; evicted identifiers
// are opened again (fresh objects)
func vcEviction(c *Ctx, seq int) {
	r, done := newVcRig(c, seq, "eviction")
	defer done()
	l1cap, l2cap, _ := db.CacheConstantsVerif()
	// first level: open l1cap+12 distinct identifiers, each only a few commits below the frontier of the moment
	n1 := l1cap + 12
	if !r.grow(6) {
		return
	}
	var opened []types.HashHeight
	for i := 0; i < n1; i++ {
		if !r.grow(1) {
			return
		}
		id := r.chain[len(r.chain)-2] // a new identifier every round
		if r.open(id) == nil {
			return
		}
		opened = append(opened, id)
		if i%5 == 4 && r.open(r.chain[len(r.chain)-3-c.R.Intn(3)]) == nil { // and a hit of a recent one now and then
			return
		}
		if i%16 == 0 {
			// only a few views are kept for the sweeps (the rest stay open but are not re-read): keep the scenario affordable
			r.views = r.views[:0]
		}
	}
	// an early identifier (evicted from l1 by now) again: a fresh object
	if r.open(opened[0]) == nil || r.open(opened[len(opened)-1]) == nil {
		return
	}
	if !r.sweep("after first-level evictions") {
		return
	}
	// second level: l2cap+5 distinct identifiers at least maxDiff below the frontier
	r.views = r.views[:0]
	for len(r.chain) < r.maxDiff+l2cap+10 {
		if !r.commit(r.genOps()) {
			return
		}
	}
	for i := 0; i < l2cap+5; i++ {
		if r.open(r.chain[i]) == nil {
			return
		}
		if i%8 != 0 {
			r.views = r.views[:len(r.views)-1]
		}
	}
	if r.open(r.chain[0]) == nil || r.open(r.chain[l2cap+4]) == nil {
		return
	}
	if r.sweep("after second-level evictions") {
		c.Hit("vc-eviction-scenario")
	}
}
