package main

import (
	"math/big"

	g "github.com/zenon-network/go-zenon/chain/genesis/mock"
	"github.com/zenon-network/go-zenon/chain/nom"
	"github.com/zenon-network/go-zenon/common/types"
	"github.com/zenon-network/go-zenon/verifier"
)

// ---------------------------------------------------------------------------------------------------
// sync stream, "deep warm cache" scenario (C02: "answer every ledger query identically ... with warm or cold caches,
// in one process run or across restarts"): a history longer than the near-cache window of the versioned store
// (maximumCacheHeightDifference = 360), a follower whose historical views — near and far — were materialised BEFORE it
// replaces its head momentum by a delivered two-momentum branch, and a second follower that only ever saw the final
// chain and is queried cold. Every historical view (the whole key space as of a momentum) must be the same on the warm
// follower, on the warm follower after a restart, and on the cold follower.
// ---------------------------------------------------------------------------------------------------

func serveChain(n *Node, from, to uint64) []*nom.DetailedMomentum {
	st := n.Chain().GetFrontierMomentumStore()
	var out []*nom.DetailedMomentum
	for h := from; h <= to; h++ {
		m, err := st.GetMomentumByHeight(h)
		if err != nil || m == nil {
			return nil
		}
		dm, err := st.PrefetchMomentum(m)
		if err != nil {
			return nil
		}
		out = append(out, dm)
	}
	return out
}

func syncDeepWarm(c *Ctx, id int) {
	origGate := verifier.ReceiverMismatchEnforcementHeight
	defer func() { verifier.ReceiverMismatchEnforcementHeight = origGate }()
	verifier.ReceiverMismatchEnforcementHeight = 0
	a := NewNode()
	defer a.Stop()
	produceTraffic(c, a, 12+c.R.Intn(10))
	early := a.Height()
	quiet := 362 + c.R.Intn(12)
	for i := 0; i < quiet; i++ {
		if _, err := a.Momentum(); err != nil {
			c.Fail("sync-deep run=%d: producer: %v", id, err)
			return
		}
	}
	produceTraffic(c, a, 1+c.R.Intn(3))
	H := a.Height()
	trunk := serveChain(a, 2, H)
	if trunk == nil {
		c.Fail("sync-deep run=%d: producer cannot serve its chain", id)
		return
	}
	// the replacement of the head: one momentum back, transfers from every account (keys that the abandoned head and the
	// recent momentums mostly did not touch), two momentums so that the branch is strictly longer
	// (blocks waiting in the producer's pool at that moment acknowledge the head that is about to be abandoned: they must
	// not find their way into the branch)
	pooled := 0
	for _, kp := range g.AllKeyPairs {
		if c.R.Intn(2) == 0 {
			continue
		}
		if _, err := a.Submit(&nom.AccountBlock{BlockType: nom.BlockTypeUserSend, Address: kp.Address, ToAddress: g.User2.Address,
			TokenStandard: types.QsrTokenStandard, Amount: big.NewInt(int64(1 + c.R.Intn(1000)))}); err == nil {
			pooled++
		}
	}
	c.HitN("deep-pooled-on-abandoned-head", pooled)
	target, _ := a.Chain().GetFrontierMomentumStore().GetMomentumByHeight(H - 1)
	ins := a.Chain().AcquireInsert("zvh sync-deep rollback")
	err := a.Chain().RollbackTo(ins, target.Identifier())
	ins.Unlock()
	if err != nil {
		c.Fail("sync-deep run=%d: producer rollback: %v", id, err)
		return
	}
	sent := 0
	for _, kp := range g.AllKeyPairs {
		if c.R.Intn(3) == 0 {
			continue
		}
		if _, err := a.Submit(&nom.AccountBlock{BlockType: nom.BlockTypeUserSend, Address: kp.Address, ToAddress: g.User1.Address,
			TokenStandard: types.ZnnTokenStandard, Amount: big.NewInt(int64(1 + c.R.Intn(1000)))}); err == nil {
			sent++
		}
	}
	c.HitN("deep-branch-blocks", sent)
	for i := 0; i < 2; i++ {
		if _, err := a.Momentum(); err != nil {
			c.Fail("sync-deep run=%d: producer branch: %v", id, err)
			return
		}
	}
	branch := serveChain(a, H, H+1)
	if branch == nil || branch[0].Momentum.Hash == trunk[len(trunk)-1].Momentum.Hash {
		c.Fail("sync-deep run=%d: producer did not build a branch", id)
		return
	}

	deliver := func(f *zFollower, ms []*nom.DetailedMomentum, what string) bool {
		for pos := 0; pos < len(ms); {
			k := 1 + c.R.Intn(60)
			if pos+k > len(ms) {
				k = len(ms) - pos
			}
			if idx, err := f.InsertChain(ms[pos : pos+k]); err != nil {
				c.Fail("sync-deep run=%d: %s refused at index %d of a batch starting at height %d: %v", id, what, idx, ms[pos].Momentum.Height, err)
				return false
			}
			pos += k
		}
		return true
	}
	warm, err := newZFollower("")
	if err != nil {
		c.Fail("sync-deep run=%d: follower: %v", id, err)
		return
	}
	defer warm.Destroy()
	if !deliver(warm, trunk, "trunk") {
		return
	}
	// the views to ask for: early (far cache), around the near/far boundary, recent
	heights := []uint64{1, 2, early / 2, early, early + 1, H - 365, H - 361, H - 360, H - 359, H - 40, H - 3, H - 2, H - 1}
	for i := 0; i < 6; i++ {
		heights = append(heights, 1+uint64(c.R.Intn(int(H-1))))
	}
	view := func(f *zFollower, h uint64) string {
		m, _ := f.ch.GetFrontierMomentumStore().GetMomentumByHeight(h)
		if m == nil {
			return "no-momentum"
		}
		var d string
		if p := safely(func() {
			v := f.mgr.Get(m.Identifier())
			if v == nil {
				d = "nil-view"
				return
			}
			d = digestDB(v)
		}); p != "" {
			return "panic: " + p
		}
		return d
	}
	before := map[uint64]string{}
	for _, h := range heights {
		if h >= 1 && h < H {
			before[h] = view(warm, h)
		}
	}
	if idx, err := warm.InsertChain(branch); err != nil {
		c.Fail("sync-deep run=%d: the two-momentum branch replacing the head is refused: index=%d err=%v", id, idx, err)
		return
	}
	if warm.Height() != H+1 {
		c.Fail("sync-deep run=%d: follower at height %d after the head replacement, expected %d", id, warm.Height(), H+1)
		return
	}
	c.Hit("deep-head-replaced")
	cold, err := newZFollower("")
	if err != nil {
		c.Fail("sync-deep run=%d: follower: %v", id, err)
		return
	}
	defer cold.Destroy()
	final := append(append([]*nom.DetailedMomentum{}, trunk[:len(trunk)-1]...), branch...)
	if !deliver(cold, final, "final chain") {
		return
	}
	if x, y := warm.StateDigest(), cold.StateDigest(); x != y {
		c.Fail("sync-deep run=%d: frontier state after the head replacement %s, on a node that only saw the final chain %s", id, x, y)
		return
	}
	compare := func(tag string) bool {
		for _, h := range heights {
			if h < 1 || h >= H {
				continue
			}
			x, y := view(warm, h), view(cold, h)
			if x != y {
				c.Fail("sync-deep run=%d: ledger as of momentum %d (frontier %d, %d behind) on the node that replaced its head (%s): %s — on a node that only saw the final chain: %s", id, h, H+1, H+1-h, tag, x, y)
				return false
			}
			if b := before[h]; b != y {
				c.Fail("sync-deep run=%d: ledger as of momentum %d answered %s before the head was replaced and %s on a node that only saw the final chain", id, h, b, y)
				return false
			}
			c.Hit("deep-view-compared")
			if H+1-h >= 360 {
				c.Hit("deep-view-compared-far")
			}
		}
		return true
	}
	if !compare("warm caches") {
		return
	}
	if err := warm.Restart(); err != nil {
		c.Fail("sync-deep run=%d: restart: %v", id, err)
		return
	}
	if !compare("after restart") {
		return
	}
	c.Hit("deep-history")
}
