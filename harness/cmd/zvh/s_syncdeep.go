package main

import (
	"fmt"
	"math/big"

	g "github.com/zenon-network/go-zenon/chain/genesis/mock"
	"github.com/zenon-network/go-zenon/chain/nom"
	"github.com/zenon-network/go-zenon/common/types"
	"github.com/zenon-network/go-zenon/verifier"
	"github.com/zenon-network/go-zenon/wallet"
)

// ---------------------------------------------------------------------------------------------------
// sync stream, "deep warm cache" scenario (C02: "answer every ledger query identically ... with warm or cold caches,
// in one process run or across restarts"): a history longer than the near-cache window of the versioned store
// (maximumCacheHeightDifference = 360), a follower whose historical views — near and far — were materialised BEFORE it
// replaces its head momentum by a delivered two-momentum branch, and a second follower that only ever saw the final
// chain and is queried cold. Every historical view (the whole key space as of a momentum) must be the same on the warm
// follower, on the warm follower after a restart, and on the cold follower.
// ---------------------------------------------------------------------------------------------------

func serveChain(n *Node, from, to uint64) []*nom.DetailedMomentum {
	st := n.Chain().GetFrontierMomentumStore()
	var out []*nom.DetailedMomentum
	for h := from; h <= to; h++ {
		m, err := st.GetMomentumByHeight(h)
		if err != nil || m == nil {
			return nil
		}
		dm, err := st.PrefetchMomentum(m)
		if err != nil {
			return nil
		}
		out = append(out, dm)
	}
	return out
}

func syncDeepWarm(c *Ctx, id int) {
	origGate := verifier.ReceiverMismatchEnforcementHeight
	defer func() { verifier.ReceiverMismatchEnforcementHeight = origGate }()
	verifier.ReceiverMismatchEnforcementHeight = 0
	a := NewNode()
	defer a.Stop()
	produceTraffic(c, a, 12+c.R.Intn(10))
	early := a.Height()
	quiet := 362 + c.R.Intn(12)
	for i := 0; i < quiet; i++ {
		if _, err := a.Momentum(); err != nil {
			c.Fail("sync-deep run=%d: producer: %v", id, err)
			return
		}
	}
	produceTraffic(c, a, 1+c.R.Intn(3))
	H := a.Height()
	trunk := serveChain(a, 2, H)
	if trunk == nil {
		c.Fail("sync-deep run=%d: producer cannot serve its chain", id)
		return
	}
	// the replacement of the head: one momentum back, transfers from every account (keys that the abandoned head and the
	// recent momentums mostly did not touch), two momentums so that the branch is strictly longer
	// (blocks waiting in the producer's pool at that moment acknowledge the head that is about to be abandoned: they must
	// not find their way into the branch)
	pooled := 0
	for _, kp := range g.AllKeyPairs {
		if c.R.Intn(2) == 0 {
			continue
		}
		if _, err := a.Submit(&nom.AccountBlock{BlockType: nom.BlockTypeUserSend, Address: kp.Address, ToAddress: g.User2.Address,
			TokenStandard: types.QsrTokenStandard, Amount: big.NewInt(int64(1 + c.R.Intn(1000)))}); err == nil {
			pooled++
		}
	}
	c.HitN("deep-pooled-on-abandoned-head", pooled)
	target, _ := a.Chain().GetFrontierMomentumStore().GetMomentumByHeight(H - 1)
	ins := a.Chain().AcquireInsert("zvh sync-deep rollback")
	err := a.Chain().RollbackTo(ins, target.Identifier())
	ins.Unlock()
	if err != nil {
		c.Fail("sync-deep run=%d: producer rollback: %v", id, err)
		return
	}
	// a dormant account with fused plasma (no block of its own that acknowledges a momentum of the last 365): the branch sends it
	// ZNN, so that after the head replacement a receive block of that account can ACKNOWLEDGE a momentum far below the frontier
	// (the account chain only demands that acknowledged heights do not decrease) — the C16 step below
	var dormant *wallet.KeyPair
	dormantMA := uint64(0)
	{
		var cands []*wallet.KeyPair
		mas := map[types.Address]uint64{}
		for _, kp := range g.AllKeyPairs[:8] { // the pillars: genesis fusions give each of them plasma
			fr, _ := a.Chain().GetFrontierAccountStore(kp.Address).Frontier()
			ma := uint64(0)
			if fr != nil {
				ma = fr.MomentumAcknowledged.Height
			}
			if ma+366 <= H {
				cands = append(cands, kp)
				mas[kp.Address] = ma
			}
		}
		if len(cands) > 0 {
			dormant = cands[c.R.Intn(len(cands))]
			dormantMA = mas[dormant.Address]
		}
	}
	var toDormant *nom.AccountBlock
	sent := 0
	for _, kp := range g.AllKeyPairs {
		if dormant != nil && kp.Address == dormant.Address {
			continue
		}
		if dormant != nil && toDormant == nil && keyOf(kp.Address) != nil {
			if b, err := a.Submit(&nom.AccountBlock{BlockType: nom.BlockTypeUserSend, Address: kp.Address, ToAddress: dormant.Address,
				TokenStandard: types.ZnnTokenStandard, Amount: big.NewInt(int64(1 + c.R.Intn(100000)))}); err == nil {
				toDormant = b
				sent++
				continue
			}
		}
		if c.R.Intn(3) == 0 {
			continue
		}
		if _, err := a.Submit(&nom.AccountBlock{BlockType: nom.BlockTypeUserSend, Address: kp.Address, ToAddress: g.User1.Address,
			TokenStandard: types.ZnnTokenStandard, Amount: big.NewInt(int64(1 + c.R.Intn(1000)))}); err == nil {
			sent++
		}
	}
	c.HitN("deep-branch-blocks", sent)
	for i := 0; i < 2; i++ {
		if _, err := a.Momentum(); err != nil {
			c.Fail("sync-deep run=%d: producer branch: %v", id, err)
			return
		}
	}
	branch := serveChain(a, H, H+1)
	if branch == nil || branch[0].Momentum.Hash == trunk[len(trunk)-1].Momentum.Hash {
		c.Fail("sync-deep run=%d: producer did not build a branch", id)
		return
	}

	deliver := func(f *zFollower, ms []*nom.DetailedMomentum, what string) bool {
		for pos := 0; pos < len(ms); {
			k := 1 + c.R.Intn(60)
			if pos+k > len(ms) {
				k = len(ms) - pos
			}
			if idx, err := f.InsertChain(ms[pos : pos+k]); err != nil {
				c.Fail("sync-deep run=%d: %s refused at index %d of a batch starting at height %d: %v", id, what, idx, ms[pos].Momentum.Height, err)
				return false
			}
			pos += k
		}
		return true
	}
	warm, err := newZFollower("")
	if err != nil {
		c.Fail("sync-deep run=%d: follower: %v", id, err)
		return
	}
	defer warm.Destroy()
	if !deliver(warm, trunk, "trunk") {
		return
	}
	// the views to ask for: early (far cache), around the near/far boundary, recent
	heights := []uint64{1, 2, early / 2, early, early + 1, H - 365, H - 361, H - 360, H - 359, H - 40, H - 3, H - 2, H - 1}
	for i := 0; i < 6; i++ {
		heights = append(heights, 1+uint64(c.R.Intn(int(H-1))))
	}
	view := func(f *zFollower, h uint64) string {
		m, _ := f.ch.GetFrontierMomentumStore().GetMomentumByHeight(h)
		if m == nil {
			return "no-momentum"
		}
		var d string
		if p := safely(func() {
			v := f.mgr.Get(m.Identifier())
			if v == nil {
				d = "nil-view"
				return
			}
			d = digestDB(v)
		}); p != "" {
			return "panic: " + p
		}
		return d
	}
	before := map[uint64]string{}
	for _, h := range heights {
		if h >= 1 && h < H {
			before[h] = view(warm, h)
		}
	}
	if idx, err := warm.InsertChain(branch); err != nil {
		c.Fail("sync-deep run=%d: the two-momentum branch replacing the head is refused: index=%d err=%v", id, idx, err)
		return
	}
	if warm.Height() != H+1 {
		c.Fail("sync-deep run=%d: follower at height %d after the head replacement, expected %d", id, warm.Height(), H+1)
		return
	}
	c.Hit("deep-head-replaced")
	cold, err := newZFollower("")
	if err != nil {
		c.Fail("sync-deep run=%d: follower: %v", id, err)
		return
	}
	defer cold.Destroy()
	final := append(append([]*nom.DetailedMomentum{}, trunk[:len(trunk)-1]...), branch...)
	if !deliver(cold, final, "final chain") {
		return
	}
	if x, y := warm.StateDigest(), cold.StateDigest(); x != y {
		c.Fail("sync-deep run=%d: frontier state after the head replacement %s, on a node that only saw the final chain %s", id, x, y)
		return
	}
	// ---- C16 step: "the node never ends up holding a momentum or account block that failed verification" after the head
	// replacement. The producer is made to confirm a receive block of the dormant account for the send the BRANCH confirmed at
	// height H (a reorganised height) that acknowledges a momentum V at least 360 below the frontier whose view the warm follower
	// had materialised before: as of V the send does not exist, the block fails verification (from-block missing) on every node
	// that only saw the final chain. Built as a hostile producer would: a valid receive (acknowledging the frontier) whose
	// acknowledged momentum is then replaced, re-hashed, re-signed by the account's key and forced into the producer's pool.
	if toDormant != nil {
		var vs []uint64
		for _, h := range heights {
			if h >= 1 && h >= dormantMA && h+360 <= H {
				vs = append(vs, h)
			}
		}
		if len(vs) > 0 && !syncDeepHostileReceive(c, id, a, warm, cold, dormant, toDormant, vs[c.R.Intn(len(vs))], H) {
			return
		}
	}
	compare := func(tag string) bool {
		for _, h := range heights {
			if h < 1 || h >= H {
				continue
			}
			x, y := view(warm, h), view(cold, h)
			if x != y {
				c.Fail("sync-deep run=%d: ledger as of momentum %d (frontier %d, %d behind) on the node that replaced its head (%s): %s — on a node that only saw the final chain: %s", id, h, H+1, H+1-h, tag, x, y)
				return false
			}
			if b := before[h]; b != y {
				c.Fail("sync-deep run=%d: ledger as of momentum %d answered %s before the head was replaced and %s on a node that only saw the final chain", id, h, b, y)
				return false
			}
			c.Hit("deep-view-compared")
			if H+1-h >= 360 {
				c.Hit("deep-view-compared-far")
			}
		}
		return true
	}
	if !compare("warm caches") {
		return
	}
	if err := warm.Restart(); err != nil {
		c.Fail("sync-deep run=%d: restart: %v", id, err)
		return
	}
	if !compare("after restart") {
		return
	}
	c.Hit("deep-history")
}

// syncDeepHostileReceive: see the C16 step of syncDeepWarm. Returns false when the scenario must stop (a violation was reported
// or a follower's chain moved).
func syncDeepHostileReceive(c *Ctx, id int, a *Node, warm, cold *zFollower, X *wallet.KeyPair, send *nom.AccountBlock, vh, H uint64) bool {
	if confirmedAt, _ := a.Chain().GetFrontierMomentumStore().GetBlockConfirmationHeight(send.Hash); confirmedAt != H {
		c.Hit("deep-c16-send-not-at-reorganised-height")
		return true
	}
	vm, _ := a.Chain().GetFrontierMomentumStore().GetMomentumByHeight(vh)
	if vm == nil {
		return true
	}
	var tx *nom.AccountBlockTransaction
	var err error
	if p := safely(func() {
		tx, err = a.Sup.GenerateFromTemplate(&nom.AccountBlock{BlockType: nom.BlockTypeUserReceive, Address: X.Address, FromBlockHash: send.Hash}, X.Signer)
	}); p != "" || err != nil || tx == nil {
		c.Hit("deep-c16-receive-not-built")
		return true
	}
	r := tx.Block
	r.MomentumAcknowledged = vm.Identifier()
	r.Hash = r.ComputeHash()
	r.Signature = X.Sign(r.Hash.Bytes())
	// reference verdict: the node that only ever saw the final chain, asked the way gossip asks
	var coldErr error
	if p := safely(func() { _, coldErr = cold.sup.ApplyBlock(r) }); p != "" {
		coldErr = fmt.Errorf("panic: %s", p)
	}
	if coldErr == nil {
		c.Hit("deep-c16-receive-valid-on-cold-node")
		return true
	}
	if p := safely(func() {
		ins := a.Chain().AcquireInsert("zvh sync-deep hostile receive")
		err = a.Chain().AddAccountBlockTransaction(ins, tx)
		ins.Unlock()
	}); p != "" || err != nil {
		c.Hit("deep-c16-receive-not-pooled")
		return true
	}
	if _, err := a.Momentum(); err != nil {
		c.Hit("deep-c16-momentum-not-produced")
		return true
	}
	bad := serveChain(a, H+2, H+2)
	holds := false
	if bad != nil {
		for _, b := range bad[0].AccountBlocks {
			if b.Hash == r.Hash {
				holds = true
			}
		}
	}
	if !holds {
		c.Hit("deep-c16-momentum-without-the-receive")
		return true
	}
	c.Hit("deep-c16-hostile-momentum-built")
	what := fmt.Sprintf("momentum %d:%s confirming the receive block %s#%d:%s of send %s (confirmed at height %d by the adopted two-momentum branch) that acknowledges momentum %d, %d below the frontier",
		H+2, h8(bad[0].Momentum.Hash), addrName(X.Address), r.Height, h8(r.Hash), h8(send.Hash), H, vh, H+1-vh)
	// the cold node first: it must refuse, else the input is not what it is meant to be
	cidx, cerr := cold.InsertChain(serveChain(a, H+2, H+2))
	if cerr == nil || cold.Height() != H+1 {
		c.Fail("C16 sync-deep run=%d: a node that only saw the final chain adopted %s although the block alone fails verification there (%v): index=%d err=%v frontier=%d",
			id, what, coldErr, cidx, cerr, cold.Height())
		return false
	}
	widx, werr := warm.InsertChain(bad)
	wst := warm.ch.GetFrontierMomentumStore()
	held, _ := wst.GetAccountBlockByHash(r.Hash)
	if werr == nil || warm.Height() != H+1 || held != nil {
		c.Fail("C16 sync-deep run=%d: the node that had replaced its head (views of old momentums materialised before) ADOPTED %s: InsertChain index=%d err=%v frontier=%d holds-the-block=%v — "+
			"the block fails verification on a node that only saw the same chain (%v; its InsertChain: index=%d err=%v): re-verification of this node's final chain on a fresh node fails at height %d",
			id, what, widx, werr, warm.Height(), held != nil, coldErr, cidx, cerr, H+2)
		return false
	}
	c.Hit("deep-c16-hostile-momentum-refused-by-both")
	return true
}

// Stream `sync-deep`: the deep scenario of the `sync` stream on its own (registered for C16: the scenario ends with a hostile
// momentum delivered to a node whose far views were materialised before a head replacement).
func init() {
	register("sync-deep", func(c *Ctx) {
		for i := 0; i < c.N; i++ {
			syncDeepWarm(c, i)
			syncDeepWindow(c, i)
		}
	})
}
