package main

import (
	"encoding/json"
	"fmt"
	"math/big"
	"reflect"
	"sort"
	"strings"

	"github.com/zenon-network/go-zenon/chain/nom"
	"github.com/zenon-network/go-zenon/rpc/api/embedded"

	g "github.com/zenon-network/go-zenon/chain/genesis/mock"
	"github.com/zenon-network/go-zenon/common/types"
	"github.com/zenon-network/go-zenon/rpc/api"
	"github.com/zenon-network/go-zenon/verifier"
)

// ---------------------------------------------------------------------------------------------------
// rpc stream (C18): the real LedgerApi called in-process on a generated chain, with page indices / sizes / heights /
// counts over boundary values and the full integer range, for known, unknown and contract addresses. Each returned
// list is printed as heights for the Lean paging model and compared by model-free monitors with the ground truth
// read from the stores: exact elements, documented order, totals, never more than the page limit; paging through
// all pages yields every element exactly once; a block returned as JSON parses back to a block with the same hash.
// ---------------------------------------------------------------------------------------------------

func rpcU32(c *Ctx, small uint32) uint32 {
	switch c.R.Intn(8) {
	case 0:
		return 0
	case 1:
		return 1
	case 2:
		return small
	case 3:
		b := []uint32{1023, 1024, 1025, 50, 51, 9, 10, 11, 4194304, 1<<31 - 1, 1 << 31, 1<<32 - 2, 1<<32 - 1}
		return b[c.R.Intn(len(b))]
	case 4:
		return c.R.Uint32()
	default:
		return uint32(c.R.Intn(int(small) + 3))
	}
}
func rpcU64(c *Ctx, around uint64) uint64 {
	switch c.R.Intn(8) {
	case 0:
		return 0
	case 1:
		return 1
	case 2:
		return around
	case 3:
		return around + 1
	case 4:
		b := []uint64{1023, 1024, 1025, 1<<63 - 1, 1 << 63, 1<<64 - 1025, 1<<64 - 2, 1<<64 - 1}
		return b[c.R.Intn(len(b))]
	case 5:
		return c.R.Uint64()
	default:
		return uint64(c.R.Intn(int(around) + 3))
	}
}

func heightsStr(hs []uint64) string {
	if len(hs) == 0 {
		return "none"
	}
	s := make([]string, len(hs))
	for i, h := range hs {
		s[i] = fmt.Sprint(h)
	}
	return strings.Join(s, ",")
}

func init() {
	register("rpc", func(c *Ctx) {
		if c.Args["only"] == "page-limit" {
			rpcPagerLimit(c, 0)
			return
		}
		if only := c.Args["only"]; only == "stateless" || only == "follower" || only == "xg" || only == "pagers" {
			for i := 0; i < c.N; i++ {
				switch only {
				case "stateless":
					rpcStatelessHistory(c, i)
				case "follower":
					rpcStatelessFollower(c, i)
				case "pagers":
					rpcPagerHistory(c, i)
				default:
					rpcXgHistory(c, i)
				}
			}
			return
		}
		for i := 0; i < c.N; i++ {
			rpcHistory(c, i)
		}
	})
}

func rpcHistory(c *Ctx, id int) {
	origGate := verifier.ReceiverMismatchEnforcementHeight
	defer func() { verifier.ReceiverMismatchEnforcementHeight = origGate }()
	verifier.ReceiverMismatchEnforcementHeight = 0
	n := NewNode()
	defer n.Stop()
	produceTraffic(c, n, 60+c.R.Intn(60))
	// legal but unusual blocks: a non-zero nonce on a block that claims no proof-of-work (the nonce is hashed, not checked)
	for k := 0; k < 6; k++ {
		from := []types.Address{g.User1.Address, g.User2.Address, g.User3.Address}[k%3]
		tpl := &nom.AccountBlock{BlockType: nom.BlockTypeUserSend, Address: from, ToAddress: g.User4.Address, TokenStandard: types.ZnnTokenStandard, Amount: big.NewInt(int64(k))}
		c.R.Read(tpl.Nonce.Data[:])
		if _, err := n.Submit(tpl); err == nil {
			c.Hit("nonzero-nonce-block")
		}
	}
	n.Momentum()
	// the amount family (s_rpc_amounts.go): two user-issued tokens with supplies up to 2^255-1 and sends / receives / mints /
	// a burn of amounts around 2^63, 2^64, 2^128 and of random 63..254-bit values, in EVERY history; it leaves some
	// blocks unconfirmed and some sends unreceived
	hugeTokens := rpcHugeAmounts(c, n, id)
	l := api.NewLedgerApi(n.Z)
	H := n.Height()
	st := n.Chain().GetFrontierMomentumStore()
	fail := func(format string, a ...interface{}) { c.Fail("rpc run=%d: %s", id, fmt.Sprintf(format, a...)) }
	rtFails := 0
	rtFail := func(format string, a ...interface{}) { // the random pages return the same blocks many times: the first few reports say it all
		if rtFails++; rtFails <= 6 {
			fail(format, a...)
		}
	}

	var unknown types.Address
	c.R.Read(unknown[:])
	unknown[0] = 0
	addrs := []types.Address{g.User1.Address, g.User2.Address, g.User3.Address, g.Pillar1.Address, g.User6.Address, types.TokenContract, types.PillarContract, unknown}

	// ---- momentums by page / by height
	for k := 0; k < 150; k++ {
		i, sz := rpcU32(c, uint32(H/3+1)), rpcU32(c, uint32(H/4+2))
		var res *api.MomentumList
		var err error
		if p := safely(func() { res, err = l.GetMomentumsByPage(i, sz) }); p != "" {
			fail("C18: GetMomentumsByPage(%d,%d) panicked: %s", i, sz, p)
			continue
		}
		if err != nil {
			c.Emit("rpc-mom-page %d %d %d | err", H, i, sz)
			if sz <= api.RpcMaxPageSize {
				fail("C18: GetMomentumsByPage(%d,%d) fails: %v", i, sz, err)
			}
			c.Hit("mom-page-err")
			continue
		}
		var hs []uint64
		for _, m := range res.List {
			hs = append(hs, m.Height)
		}
		c.Emit("rpc-mom-page %d %d %d | %s count=%d", H, i, sz, heightsStr(hs), res.Count)
		c.Hit("mom-page")
		// monitor: the statement's slice of the list H, H-1, …, 1
		ws, we := uint64(i)*uint64(sz), uint64(i)*uint64(sz)+uint64(sz)
		var want []uint64
		for p := ws; p < we && p < H; p++ {
			want = append(want, H-p)
		}
		if heightsStr(hs) != heightsStr(want) || uint64(res.Count) != H || uint32(len(hs)) > sz {
			fail("C18: GetMomentumsByPage(index=%d,size=%d) on a chain of %d returns heights [%s] count=%d; paging the list newest-first gives [%s] count=%d", i, sz, H, heightsStr(hs), res.Count, heightsStr(want), H)
		}
		for _, m := range res.List {
			if ref, _ := st.GetMomentumByHeight(m.Height); ref == nil || ref.Hash != m.Hash {
				fail("C18: GetMomentumsByPage returns a momentum at height %d that is not the chain's", m.Height)
			}
		}
	}
	for k := 0; k < 100; k++ {
		h, cnt := rpcU64(c, H), rpcU64(c, 5)
		switch k {
		case 0:
			h, cnt = 1<<64-1, 5
		case 1:
			h, cnt = 1<<64-2, 1024
		}
		var res *api.MomentumList
		var err error
		if p := safely(func() { res, err = l.GetMomentumsByHeight(h, cnt) }); p != "" {
			fail("C18: GetMomentumsByHeight(%d,%d) panicked: %s", h, cnt, p)
			continue
		}
		if err != nil {
			c.Emit("rpc-mom-height %d %d %d | err", H, h, cnt)
			if h != 0 && cnt <= api.RpcMaxCountSize {
				fail("C18: GetMomentumsByHeight(%d,%d) fails: %v", h, cnt, err)
			}
			continue
		}
		var hs []uint64
		for _, m := range res.List {
			hs = append(hs, m.Height)
		}
		c.Emit("rpc-mom-height %d %d %d | %s count=%d", H, h, cnt, heightsStr(hs), res.Count)
		c.Hit("mom-height")
		var want []uint64
		for k := uint64(0); k < cnt; k++ {
			x := h + k
			if x >= 1 && x <= H && x >= h {
				want = append(want, x)
			}
		}
		if heightsStr(hs) != heightsStr(want) || uint64(res.Count) != H || uint64(len(hs)) > cnt {
			fail("C18: GetMomentumsByHeight(height=%d,count=%d) on a chain of %d returns [%s] count=%d, the chain contains [%s]", h, cnt, H, heightsStr(hs), res.Count, heightsStr(want))
		}
	}
	// ---- account blocks by page / by height, unreceived, unconfirmed
	for _, a := range addrs {
		fr, _ := n.Chain().GetFrontierAccountStore(a).Frontier()
		AH := uint64(0)
		if fr != nil {
			AH = fr.Height
		}
		for k := 0; k < 40; k++ {
			i, sz := rpcU32(c, uint32(AH/2+1)), rpcU32(c, uint32(AH/2+2))
			var res *api.AccountBlockList
			var err error
			if p := safely(func() { res, err = l.GetAccountBlocksByPage(a, i, sz) }); p != "" {
				fail("C18: GetAccountBlocksByPage(%s,%d,%d) panicked: %s", addrName(a), i, sz, p)
				continue
			}
			if err != nil {
				c.Emit("rpc-acc-page %d %d %d | err", AH, i, sz)
				if sz <= api.RpcMaxPageSize {
					fail("C18: GetAccountBlocksByPage(%s,%d,%d) fails: %v", addrName(a), i, sz, err)
				}
				continue
			}
			var hs []uint64
			for _, b := range res.List {
				hs = append(hs, b.Height)
			}
			c.Emit("rpc-acc-page %d %d %d | %s count=%d", AH, i, sz, heightsStr(hs), res.Count)
			c.Hit("acc-page")
			ws, we := uint64(i)*uint64(sz), uint64(i)*uint64(sz)+uint64(sz)
			var want []uint64
			for p := ws; p < we && p < AH; p++ {
				want = append(want, AH-p)
			}
			if heightsStr(hs) != heightsStr(want) || uint64(res.Count) != AH || uint32(len(hs)) > sz {
				fail("C18: GetAccountBlocksByPage(%s,index=%d,size=%d) on an account chain of %d returns heights [%s] count=%d; paging the list newest-first gives [%s] count=%d", addrName(a), i, sz, AH, heightsStr(hs), res.Count, heightsStr(want), AH)
			}
			for _, b := range res.List {
				ref, _ := n.Chain().GetFrontierAccountStore(a).ByHeight(b.Height)
				if ref == nil || ref.Hash != b.Hash {
					fail("C18: GetAccountBlocksByPage returns a block at height %d that is not on the account chain", b.Height)
				}
				// JSON round trip: the block returned as JSON, fed back, is the same block with the same hash (s_rpc_amounts.go)
				rpcBlockRoundTrip(c, rtFail, fmt.Sprintf("ledger.getAccountBlocksByPage(%s,%d,%d)", addrName(a), i, sz), b, ref)
			}
		}
		// complete sweep: every block exactly once, newest first
		for _, sz := range []uint32{1, 3, 7, 1024} {
			seen := []uint64{}
			for i := uint32(0); ; i++ {
				res, err := l.GetAccountBlocksByPage(a, i, sz)
				if err != nil {
					fail("C18: sweep GetAccountBlocksByPage(%s,%d,%d): %v", addrName(a), i, sz, err)
					break
				}
				for _, b := range res.List {
					seen = append(seen, b.Height)
				}
				if len(res.List) == 0 {
					break
				}
			}
			okSweep := uint64(len(seen)) == AH
			for k := range seen {
				if seen[k] != AH-uint64(k) {
					okSweep = false
				}
			}
			if !okSweep {
				fail("C18: paging through the %d blocks of %s with page size %d yields heights [%s]", AH, addrName(a), sz, heightsStr(seen))
			}
			c.Hit("acc-sweep")
		}
		for k := 0; k < 25; k++ {
			h, cnt := rpcU64(c, AH), rpcU64(c, 4)
			switch k {
			case 0:
				h, cnt = 1<<64-1, 5 // height + i wraps around
			case 1:
				h, cnt = 1<<64-2, 1024
			}
			var res *api.AccountBlockList
			var err error
			if p := safely(func() { res, err = l.GetAccountBlocksByHeight(a, h, cnt) }); p != "" {
				fail("C18: GetAccountBlocksByHeight(%s,%d,%d) panicked: %s", addrName(a), h, cnt, p)
				continue
			}
			if err != nil {
				c.Emit("rpc-acc-height %d %d %d | err", AH, h, cnt)
				if h != 0 && cnt <= api.RpcMaxCountSize {
					fail("C18: GetAccountBlocksByHeight(%s,%d,%d) fails: %v", addrName(a), h, cnt, err)
				}
				continue
			}
			var hs []uint64
			for _, b := range res.List {
				hs = append(hs, b.Height)
			}
			c.Emit("rpc-acc-height %d %d %d | %s count=%d", AH, h, cnt, heightsStr(hs), res.Count)
			c.Hit("acc-height")
			var want []uint64
			for k := uint64(0); k < cnt; k++ {
				x := h + k
				if x >= 1 && x <= AH && x >= h {
					want = append(want, x)
				}
			}
			if heightsStr(hs) != heightsStr(want) || uint64(res.Count) != AH {
				fail("C18: GetAccountBlocksByHeight(%s,height=%d,count=%d) on an account chain of %d returns [%s] count=%d, the chain contains [%s]", addrName(a), h, cnt, AH, heightsStr(hs), res.Count, heightsStr(want))
			}
		}
		// unreceived: ground truth = pending set of the mailbox (≤ 500) minus what the pool already receives
		pend, _ := st.GetAccountMailbox(a).GetUnreceivedAccountBlockHashes(500)
		acc := n.Chain().GetFrontierAccountStore(a)
		var truth []string
		for _, h := range pend {
			if !acc.IsReceived(h) {
				truth = append(truth, h8(h))
			}
		}
		for k := 0; k < 12; k++ {
			i, sz := rpcU32(c, 3), rpcU32(c, 4)
			var res *api.AccountBlockList
			var err error
			if p := safely(func() { res, err = l.GetUnreceivedBlocksByAddress(a, i, sz) }); p != "" {
				fail("C18: GetUnreceivedBlocksByAddress(%s,%d,%d) panicked: %s", addrName(a), i, sz, p)
				continue
			}
			if err != nil {
				if sz <= 50 && i < 10 {
					fail("C18: GetUnreceivedBlocksByAddress(%s,%d,%d) fails: %v", addrName(a), i, sz, err)
				}
				c.Hit("unreceived-err")
				continue
			}
			var got []string
			for _, b := range res.List {
				got = append(got, h8(b.Hash))
			}
			ws, we := uint64(i)*uint64(sz), uint64(i)*uint64(sz)+uint64(sz)
			var want []string
			for p := ws; p < we && p < uint64(len(truth)); p++ {
				want = append(want, truth[p])
			}
			c.Emit("get-range %d %d %d | %d %d", i, sz, len(truth), minU64(ws, uint64(len(truth))), minU64(we, uint64(len(truth))))
			if strings.Join(got, ",") != strings.Join(want, ",") || res.Count != len(truth) || uint32(len(got)) > sz {
				fail("C18: GetUnreceivedBlocksByAddress(%s,index=%d,size=%d) returns [%s] count=%d, the pending set paged gives [%s] count=%d", addrName(a), i, sz, strings.Join(got, ","), res.Count, strings.Join(want, ","), len(truth))
			}
			c.Hit("unreceived")
		}
	}
	// ---- JSON round trip of every block every block-returning getter returns (s_rpc_amounts.go)
	rpcRoundTripEverything(c, n, l, id, addrs, hugeTokens)
	// ---- embedded-contract list getters: paging with any page size yields the one-big-page sequence, each element once
	pagers := map[string]func(i, k uint32) (interface{}, error){
		"embedded.pillar.getAll":             func(i, k uint32) (interface{}, error) { return embedded.NewPillarApi(n.Z, true).GetAll(i, k) },
		"embedded.token.getAll":              func(i, k uint32) (interface{}, error) { return embedded.NewTokenApi(n.Z).GetAll(i, k) },
		"embedded.plasma.getEntriesByAddress": func(i, k uint32) (interface{}, error) { return embedded.NewPlasmaApi(n.Z).GetEntriesByAddress(g.User1.Address, i, k) },
		"embedded.stake.getEntriesByAddress":  func(i, k uint32) (interface{}, error) { return embedded.NewStakeApi(n.Z).GetEntriesByAddress(g.User1.Address, i, k) },
		"embedded.sentinel.getAllActive":      func(i, k uint32) (interface{}, error) { return embedded.NewSentinelApi(n.Z).GetAllActive(i, k) },
	}
	names := make([]string, 0, len(pagers))
	for k := range pagers {
		names = append(names, k)
	}
	sort.Strings(names)
	elems := func(res interface{}) ([]string, bool) {
		v := reflect.ValueOf(res)
		if v.Kind() == reflect.Ptr {
			if v.IsNil() {
				return nil, false
			}
			v = v.Elem()
		}
		lf := v.FieldByName("List")
		if !lf.IsValid() || lf.Kind() != reflect.Slice {
			return nil, false
		}
		out := make([]string, lf.Len())
		for i := 0; i < lf.Len(); i++ {
			b, _ := json.Marshal(lf.Index(i).Interface())
			out[i] = string(b)
		}
		return out, true
	}
	for _, name := range names {
		f := pagers[name]
		var big interface{}
		var err error
		if p := safely(func() { big, err = f(0, 1024) }); p != "" || err != nil {
			fail("C18: %s(0,1024) fails: %v %s", name, err, p)
			continue
		}
		all, ok := elems(big)
		if !ok {
			continue
		}
		for _, k := range []uint32{1, 2, 3, 7} {
			var seq []string
			for i := uint32(0); i < uint32(len(all))+3; i++ {
				var res interface{}
				if p := safely(func() { res, err = f(i, k) }); p != "" || err != nil {
					fail("C18: %s(%d,%d) fails: %v %s", name, i, k, err, p)
					break
				}
				page, _ := elems(res)
				if uint32(len(page)) > k {
					fail("C18: %s(%d,%d) returns %d elements, more than the page size", name, i, k, len(page))
				}
				seq = append(seq, page...)
			}
			if strings.Join(seq, "|") != strings.Join(all, "|") {
				d := 0
				for d < len(seq) && d < len(all) && seq[d] == all[d] {
					d++
				}
				a, b := "<none>", "<none>"
				if d < len(seq) {
					a = seq[d]
				}
				if d < len(all) {
					b = all[d]
				}
				fail("C18: paging through %s with page size %d yields %d elements, one page of 1024 yields %d; first difference at position %d: paged %.160s, single page %.160s", name, k, len(seq), len(all), d, a, b)
			}
			c.Hit("embedded-sweep")
		}
	}
	c.Hit("history")
	// one long-lived set of API objects across growth and reorganisations (s_rpc_stateless.go); on a follower every second history
	rpcStatelessHistory(c, id)
	if id%2 == 1 {
		rpcStatelessFollower(c, id)
	}
	// all getters of an API answer from one state, the frontier context, at every intermediate state (s_rpc_xgetters.go)
	rpcXgHistory(c, id)
	if id%3 == 0 {
		rpcManyUnreceived(c, id)
	}
	if id%6 == 0 {
		// every paged getter of every registered service on a ledger whose collections span several pages (s_rpc_pagers.go)
		rpcPagerHistory(c, id)
	}
	if id%30 == 0 {
		// a collection larger than the page limit: no answer holds more than the limit
		rpcPagerLimit(c, id)
	}
}

// rpcManyUnreceived: an address with more pending sends than the unreceived query window (500), one of which is already
// received by an unconfirmed block in the pool. The pages (10 x 50) may show at most the window; whatever is not shown
// must be announced by More=true, every shown block is really unreceived, nothing is shown twice.
func rpcManyUnreceived(c *Ctx, id int) {
	n := NewNode()
	defer n.Stop()
	l := api.NewLedgerApi(n.Z)
	fail := func(format string, a ...interface{}) { c.Fail("rpc run=%d many-unreceived: %s", id, fmt.Sprintf(format, a...)) }
	to := g.User2.Address
	total := 498 + c.R.Intn(8)
	senders := []types.Address{g.User1.Address, g.User3.Address, g.User4.Address, g.User5.Address, g.Pillar1.Address, g.Pillar2.Address}
	sent := 0
	for sent < total {
		for k := 0; k < 90 && sent < total; k++ {
			if _, err := n.Submit(&nom.AccountBlock{BlockType: nom.BlockTypeUserSend, Address: senders[sent%len(senders)], ToAddress: to, TokenStandard: types.ZnnTokenStandard, Amount: big.NewInt(1)}); err != nil {
				fail("send refused: %v", err)
				return
			}
			sent++
		}
		if _, err := n.Momentum(); err != nil {
			fail("momentum: %v", err)
			return
		}
	}
	st := n.Chain().GetFrontierMomentumStore()
	pend, _ := st.GetAccountMailbox(to).GetUnreceivedAccountBlockHashes(100000)
	if len(pend) != total {
		fail("setup: %d pending, expected %d", len(pend), total)
		return
	}
	// receive 0..2 of them, unconfirmed (pool only)
	recvd := map[types.Hash]bool{}
	for k := 0; k < c.R.Intn(3); k++ {
		h := pend[c.R.Intn(minInt(len(pend), 500))]
		if recvd[h] {
			continue
		}
		if _, err := n.Submit(&nom.AccountBlock{BlockType: nom.BlockTypeUserReceive, Address: to, FromBlockHash: h}); err == nil {
			recvd[h] = true
		}
	}
	unreceived := total - len(recvd)
	shown := map[types.Hash]int{}
	more := false
	count := -1
	for i := uint32(0); i < 10; i++ {
		res, err := l.GetUnreceivedBlocksByAddress(to, i, 50)
		if err != nil {
			fail("GetUnreceivedBlocksByAddress(%d,50): %v", i, err)
			return
		}
		for _, b := range res.List {
			shown[b.Hash]++
			if recvd[b.Hash] {
				fail("C18: GetUnreceivedBlocksByAddress lists %s, which an unconfirmed block of the account already receives", h8(b.Hash))
			}
		}
		more = more || res.More
		count = res.Count
	}
	for h, k := range shown {
		if k > 1 {
			fail("C18: unreceived block %s appears on %d pages", h8(h), k)
		}
	}
	c.Emit("#rpc-unreceived-many %d %d shown=%d more=%v", total, len(recvd), len(shown), more)
	c.Hit(fmt.Sprintf("many-unreceived-more-%v", more))
	if len(shown) < unreceived && !more {
		fail("C18: %d sends to the account are unreceived (%d pending, %d received by unconfirmed blocks), the 10 pages show %d of them (count=%d) and More=false: %d unreceived blocks appear on no page and are not announced", unreceived, total, len(recvd), len(shown), count, unreceived-len(shown))
	}
}

