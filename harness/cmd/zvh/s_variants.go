package main

import (
	"bytes"
	"fmt"
	"math/big"

	g "github.com/zenon-network/go-zenon/chain/genesis/mock"
	"github.com/zenon-network/go-zenon/chain/nom"
	"github.com/zenon-network/go-zenon/common/types"
	"github.com/zenon-network/go-zenon/verifier"
	"github.com/zenon-network/go-zenon/vm/constants"
	"github.com/zenon-network/go-zenon/vm/embedded/definition"
)

// ---------------------------------------------------------------------------------------------------
// variants stream (C13, C02): for blocks accepted by a producing node, every field that is NOT covered by the hash
// (changes hash, base/total plasma, public key, signature) or that lives inside a contract receive's descendants is
// altered, and the altered variant is delivered to a follower BEFORE the honest data: as gossip for user blocks, as a
// lying peer's momentum for contract receives. Then the producer's momentum is delivered. The property's sentence,
// checked directly: a variant the follower is willing to accept has the same stored bytes and the same effect as the
// original (so the follower accepts the producer's momentum and ends in the reference state); nobody without the
// signing key can make the follower hold a second acceptable variant.
//
// "Covered by the hash" is decided by the harness's OWN pre-image everywhere in this stream (ownABHash / ownMomentumHash,
// s_variants_covered.go), never by the repository's ComputeHash. The second half of the stream (coveredHistory) is the
// complementary class: a COVERED field altered while the hash stays.
// ---------------------------------------------------------------------------------------------------

type variantKind struct {
	name string
	f    func(c *Ctx, b *nom.AccountBlock) bool // false = not applicable
}

func cloneBlock(b *nom.AccountBlock) *nom.AccountBlock {
	data, err := b.Serialize()
	if err != nil {
		panic(err)
	}
	nb, err := nom.DeserializeAccountBlock(data)
	if err != nil {
		panic(err)
	}
	return nb
}

var userVariants = []variantKind{
	{"changes-hash-random", func(c *Ctx, b *nom.AccountBlock) bool { c.R.Read(b.ChangesHash[:]); return true }},
	{"changes-hash-zero", func(c *Ctx, b *nom.AccountBlock) bool {
		if b.ChangesHash.IsZero() {
			return false
		}
		b.ChangesHash = types.ZeroHash
		return true
	}},
	{"base-plasma", func(c *Ctx, b *nom.AccountBlock) bool { b.BasePlasma += uint64(1 + c.R.Intn(1000)); return true }},
	{"base-plasma-lowered", func(c *Ctx, b *nom.AccountBlock) bool {
		// below the honest value but not 0: passes every "total >= base" comparison made with the delivered number
		if b.BasePlasma < 2 {
			return false
		}
		b.BasePlasma = 1 + uint64(c.R.Int63n(int64(b.BasePlasma-1)))
		return true
	}},
	{"total-plasma", func(c *Ctx, b *nom.AccountBlock) bool { b.TotalPlasma += uint64(1 + c.R.Intn(1000)); return true }},
	{"total-plasma-lowered", func(c *Ctx, b *nom.AccountBlock) bool {
		if b.TotalPlasma < 2 {
			return false
		}
		b.TotalPlasma = 1 + uint64(c.R.Int63n(int64(b.TotalPlasma-1)))
		return true
	}},
	{"both-plasma-lowered", func(c *Ctx, b *nom.AccountBlock) bool {
		if b.TotalPlasma < 2 || b.BasePlasma < 2 {
			return false
		}
		b.BasePlasma--
		b.TotalPlasma--
		return true
	}},
	{"plasma-zeroed", func(c *Ctx, b *nom.AccountBlock) bool {
		if b.BasePlasma == 0 && b.TotalPlasma == 0 {
			return false
		}
		b.BasePlasma, b.TotalPlasma = 0, 0
		return true
	}},
	{"public-key-other", func(c *Ctx, b *nom.AccountBlock) bool { b.PublicKey = append([]byte{}, g.User9.Public...); return true }},
	{"signature-bitflip", func(c *Ctx, b *nom.AccountBlock) bool {
		if len(b.Signature) == 0 {
			return false
		}
		b.Signature = append([]byte{}, b.Signature...)
		b.Signature[c.R.Intn(len(b.Signature))] ^= byte(1 << uint(c.R.Intn(8)))
		return true
	}},
	{"signature-by-other-key", func(c *Ctx, b *nom.AccountBlock) bool {
		sig, _, pub, err := g.User9.Signer(b.Hash.Bytes())
		if err != nil {
			return false
		}
		b.Signature, b.PublicKey = sig, pub
		return true
	}},
	{"signature-extended", func(c *Ctx, b *nom.AccountBlock) bool { b.Signature = append(append([]byte{}, b.Signature...), 0); return true }},
}

func containsStr(l []string, s string) bool {
	for _, x := range l {
		if x == s {
			return true
		}
	}
	return false
}

func init() {
	register("variants", func(c *Ctx) {
		for i := 0; i < c.N; i++ {
			variantsHistory(c, i)
		}
		// the complementary class (s_variants_covered.go): a field the hash DOES cover altered, hash / changes hash / key /
		// signature kept. After the histories above, so that their sequence of random draws is what it was.
		for i := 0; i < c.N; i++ {
			coveredHistory(c, i)
		}
	})
}

func variantsHistory(c *Ctx, id int) {
	origGate := verifier.ReceiverMismatchEnforcementHeight
	defer func() { verifier.ReceiverMismatchEnforcementHeight = origGate }()
	verifier.ReceiverMismatchEnforcementHeight = 0
	a := NewNode()
	defer a.Stop()
	f, err := newZFollower("")
	if err != nil {
		c.Fail("variants run=%d: %v", id, err)
		return
	}
	defer f.Destroy()
	ref, err := newZFollower("")
	if err != nil {
		c.Fail("variants run=%d: %v", id, err)
		return
	}
	defer ref.Destroy()
	fail := func(format string, args ...interface{}) {
		c.Fail("variants run=%d h=%d: %s", id, a.Height(), fmt.Sprintf(format, args...))
	}
	// deliver what the producer has produced since the last call, honestly, to both followers
	delivered := uint64(1)
	deliverHonest := func(to *zFollower, upto uint64, from uint64) error {
		st := a.Chain().GetFrontierMomentumStore()
		var batch []*nom.DetailedMomentum
		for h := from; h <= upto; h++ {
			m, _ := st.GetMomentumByHeight(h)
			dm, err := st.PrefetchMomentum(m)
			if err != nil {
				return err
			}
			batch = append(batch, dm)
		}
		if len(batch) == 0 {
			return nil
		}
		_, err := to.InsertChain(batch)
		return err
	}
	users := []types.Address{g.User1.Address, g.User2.Address, g.User3.Address, g.User4.Address, g.User5.Address}
	rounds := 10 + c.R.Intn(8)
	var abFields, mFields []string // fields not covered by the hash, found by experiment on the first block / momentum
	uintDonors = map[string][]uint64{}
	for r := 0; r < rounds; r++ {
		// generated blocks by gossip (s_variants_state.go): the contract receives in the producer's pool, with an uncovered field
		// altered / the empty key fields filled, reach follower f before the honest copy and before the confirming momentum
		contractGossipVariants(c, a, f, abFields, fail)
		// honest traffic on the producer: a few user blocks (sends, receives, contract calls), pooled, not yet in a momentum
		var fresh []*nom.AccountBlock
		for k := 0; k < 1+c.R.Intn(3); k++ {
			from := users[c.R.Intn(len(users))]
			var tpl *nom.AccountBlock
			choice := c.R.Intn(4)
			if r == 0 && k == 0 {
				choice = 2 + c.R.Intn(2) // every history has a contract call whose generated receive is in the pool at the top of round 1
			}
			switch choice {
			case 0:
				tpl = &nom.AccountBlock{BlockType: nom.BlockTypeUserSend, Address: from, ToAddress: users[c.R.Intn(len(users))], TokenStandard: types.ZnnTokenStandard, Amount: big.NewInt(int64(1 + c.R.Intn(1000)))}
			case 1:
				data := make([]byte, c.R.Intn(50))
				c.R.Read(data)
				tpl = &nom.AccountBlock{BlockType: nom.BlockTypeUserSend, Address: from, ToAddress: g.User6.Address, TokenStandard: types.QsrTokenStandard, Amount: big.NewInt(int64(c.R.Intn(50))), Data: data}
			case 3:
				// a plasma fusion: its contract receive has no descendants
				if data, perr := definition.ABIPlasma.PackMethod(definition.FuseMethodName, users[c.R.Intn(len(users))]); perr == nil {
					tpl = &nom.AccountBlock{BlockType: nom.BlockTypeUserSend, Address: from, ToAddress: types.PlasmaContract, TokenStandard: types.QsrTokenStandard, Amount: big.NewInt(int64(10+c.R.Intn(5)) * g.Zexp), Data: data}
				}
			default:
				// a token issue: its contract receive carries a descendant send (exercised by the lying-peer part)
				data, perr := definition.ABIToken.PackMethod(definition.IssueMethodName, fmt.Sprintf("vtok%d", c.R.Intn(1000000)), "VT", "", big.NewInt(int64(c.R.Intn(1000))), big.NewInt(1000), uint8(2), true, true, false)
				if perr == nil {
					tpl = &nom.AccountBlock{BlockType: nom.BlockTypeUserSend, Address: from, ToAddress: types.TokenContract, TokenStandard: types.ZnnTokenStandard, Amount: constants.TokenIssueAmount, Data: data}
				}
			}
			if tpl == nil {
				continue
			}
			if b, err := a.Submit(tpl); err == nil {
				fresh = append(fresh, b)
			}
		}
		// the altered variants reach follower f first
		poisoned := false
		for _, b := range fresh {
			vk := userVariants[c.R.Intn(len(userVariants))]
			v := cloneBlock(b)
			field := ""
			if c.R.Intn(3) != 0 {
				// the generic family: every alteration of every field the hash does not cover (found by experiment on this block)
				if abFields == nil {
					abFields = abUncoveredFields(b)
					for _, fn := range abFields {
						c.Hit("uncovered-account-block-field-" + fn)
					}
					if !containsStr(abFields, "Signature") || !containsStr(abFields, "PublicKey") {
						fail("the experiment on the pre-image says signature / public key are covered by the hash: %v", abFields)
					}
				}
				noteUintDonors(b, abFields)
				fvs := fieldVariantsOf(b, abFields)
				fv := fvs[c.R.Intn(len(fvs))]
				field = fv.field
				vk = variantKind{fv.name(), func(c *Ctx, x *nom.AccountBlock) bool { return applyFieldMut(c, x, fv.field, fv.mut) }}
			}
			if !vk.f(c, v) {
				continue
			}
			// what a peer can deliver is a decoded message: caches (producer address) follow the delivered bytes
			if v = rewireBlock(v); v == nil {
				continue
			}
			if v.Hash != b.Hash {
				continue
			}
			pre := accBefore(f, b, v)
			gerr := f.Gossip([]*nom.AccountBlock{v})
			res := "accepted"
			if gerr != nil {
				res = "rejected"
			}
			accEmit(c, f, "user", "block", vk.name, pre, b, gerr)
			c.Emit("variant user %s => %s", vk.name, res)
			c.Hit("variant-" + vk.name + "-" + res)
			if gerr == nil {
				// what the follower now holds for this hash
				held := f.ch.GetFrontierAccountStore(b.Address)
				hb, _ := held.ByHash(b.Hash)
				if hb != nil {
					x, _ := hb.Serialize()
					y, _ := b.Serialize()
					if !bytes.Equal(x, y) {
						tag := "C13"
						if vk.name == "changes-hash-random" || vk.name == "changes-hash-zero" || field == "ChangesHash" {
							tag = "C13 user-block-changes-hash"
							poisoned = true
						}
						fail("%s: a variant (%s) of block %s/%d with the same hash %s was accepted by a follower and is stored with different bytes than the original (original %d bytes, signature %d bytes, public key %d bytes, base/total plasma %d/%d; delivered base/total plasma %d/%d; stored %d bytes, signature %d bytes, public key %d bytes, base/total plasma %d/%d)",
							tag, vk.name, addrName(b.Address), b.Height, h8(b.Hash), len(y), len(b.Signature), len(b.PublicKey), b.BasePlasma, b.TotalPlasma, v.BasePlasma, v.TotalPlasma, len(x), len(hb.Signature), len(hb.PublicKey), hb.BasePlasma, hb.TotalPlasma)
					}
				}
			}
		}
		// the producer confirms its blocks; both followers get the honest momentum
		if _, err := a.Momentum(); err != nil {
			fail("momentum: %v", err)
			return
		}
		H := a.Height()
		if err := deliverHonest(ref, H, delivered+1); err != nil {
			fail("reference follower refused honest data: %v", err)
			return
		}
		// lying peer, momentum level: the producer's momentum H with a field the hash does not cover (public key, signature)
		// altered reaches follower f before the honest one. Accepted = it must be stored with the honest bytes.
		if !poisoned && c.R.Intn(3) != 0 {
			if H-1 > f.Height() {
				if err := deliverHonest(f, H-1, f.Height()+1); err != nil {
					fail("C13/C02: after a variant of a pooled block was gossiped to it, a follower refuses the producer's momentum: %v", err)
					return
				}
			}
			st := a.Chain().GetFrontierMomentumStore()
			m, _ := st.GetMomentumByHeight(H)
			dm, perr := st.PrefetchMomentum(m)
			if perr == nil && f.Height() == H-1 {
				if mFields == nil {
					mFields = momentumUncoveredFields(m)
					for _, fn := range mFields {
						c.Hit("uncovered-momentum-field-" + fn)
					}
					if !containsStr(mFields, "Signature") || !containsStr(mFields, "PublicKey") {
						fail("the experiment on the momentum pre-image says signature / public key are covered by the hash: %v", mFields)
					}
				}
				fvs := fieldVariantsOf(m, mFields)
				fv := fvs[c.R.Intn(len(fvs))]
				vm := cloneMomentum(m)
				if abFields != nil && len(dm.AccountBlocks) > 0 && c.R.Intn(4) == 0 {
					// instead: the honest momentum, but one of its user blocks is served with an uncovered field altered
					i := c.R.Intn(len(dm.AccountBlocks))
					b := dm.AccountBlocks[i]
					bvs := fieldVariantsOf(b, abFields)
					bv := bvs[c.R.Intn(len(bvs))]
					v := cloneBlock(b)
					if (b.BlockType == nom.BlockTypeUserSend || b.BlockType == nom.BlockTypeUserReceive) && applyFieldMut(c, v, bv.field, bv.mut) {
						if v = rewireBlock(v); v != nil && v.Hash == b.Hash {
							blocks := append([]*nom.AccountBlock{}, dm.AccountBlocks...)
							blocks[i] = v
							_, lerr := f.InsertChain([]*nom.DetailedMomentum{{Momentum: m, AccountBlocks: blocks}})
							res := "accepted"
							if lerr != nil {
								res = "rejected"
							}
							if bv.field == "ChangesHash" {
								// known finding F9 again: the block is pooled with the served changes hash even though the momentum is refused
								poisoned = true
							}
							c.Emit("variant user-in-momentum %s => %s", bv.name(), res)
							c.Hit("lie-user-" + bv.name() + "-" + res)
							if lerr == nil {
								if hb, _ := f.ch.GetFrontierAccountStore(b.Address).ByHash(b.Hash); hb != nil {
									x, _ := hb.Serialize()
									y, _ := b.Serialize()
									if !bytes.Equal(x, y) {
										tag := "C13"
										if bv.field == "ChangesHash" {
											tag = "C13 user-block-changes-hash"
										}
										fail("%s: a variant (%s) of block %s/%d with the same hash %s served inside momentum %d was accepted by a follower and is stored with different bytes than the original", tag, bv.name(), addrName(b.Address), b.Height, h8(b.Hash), H)
									}
								}
							}
						}
					}
				} else if applyFieldMut(c, vm, fv.field, fv.mut) {
					if vm = rewireMomentum(vm); vm != nil && vm.Hash == m.Hash {
						_, lerr := f.InsertChain([]*nom.DetailedMomentum{{Momentum: vm, AccountBlocks: dm.AccountBlocks}})
						res := "accepted"
						if lerr != nil {
							res = "rejected"
						}
						c.Emit("variant momentum %s => %s", fv.name(), res)
						c.Hit("momentum-variant-" + fv.name() + "-" + res)
						if lerr == nil {
							hm, _ := f.ch.GetFrontierMomentumStore().GetMomentumByHash(m.Hash)
							if hm != nil {
								x, _ := hm.Serialize()
								y, _ := m.Serialize()
								if !bytes.Equal(x, y) {
									fail("C13: a variant (%s) of momentum %d with the same hash %s was accepted by a follower and is stored with different bytes than the original (original %d bytes, signature %d bytes, public key %d bytes; stored %d bytes, signature %d bytes, public key %d bytes)",
										fv.name(), H, h8(m.Hash), len(y), len(m.Signature), len(m.PublicKey), len(x), len(hm.Signature), len(hm.PublicKey))
								}
							}
						}
					}
				}
			}
		}
		if f.Height() >= H {
			// the (accepted) variant took the place of momentum H; the comparison with the reference follower below decides
		} else if err := deliverHonest(f, H, f.Height()+1); err != nil {
			if poisoned {
				// known finding F9 (the changes hash of a user block is neither covered by the hash nor checked): the poisoned
				// follower is replaced by a fresh one so that the rest of the history still checks the other variants
				fail("C13 user-block-changes-hash: after a variant with an altered changes hash was gossiped to it, a follower refuses the producer's momentum %d: %v", H, err)
				f.Destroy()
				nf, nerr := newZFollower("")
				if nerr != nil {
					return
				}
				*f = *nf
				if err := deliverHonest(f, H, 2); err != nil {
					fail("fresh follower refused honest data: %v", err)
					return
				}
			} else {
				fail("C13/C02: after a variant of a pooled block was gossiped to it, a follower refuses the producer's momentum %d: %v", H, err)
				return
			}
		}
		delivered = H
		if f.StateDigest() != ref.StateDigest() {
			fail("C13/C02: the follower that saw variants holds a different ledger state than the reference follower at height %d", H)
			return
		}
		c.Hit("round")

		// lying peer: the NEXT momentum with an uncovered field of a contract receive / its descendants altered
		if r%2 == 1 {
			// the token issue above (if any) is answered in the next momentums by a contract receive with a descendant send
			a.Momentum()
			a.Momentum()
			H2 := a.Height()
			st := a.Chain().GetFrontierMomentumStore()
			for h := delivered + 1; h <= H2; h++ {
				m, _ := st.GetMomentumByHeight(h)
				dm, _ := st.PrefetchMomentum(m)
				lied := false
				for i, b := range dm.AccountBlocks {
					if b.BlockType != nom.BlockTypeContractReceive {
						continue
					}
					v := cloneBlock(b)
					kind := ""
					switch c.R.Intn(5) {
					case 4:
						// the key fields, empty on honest contract blocks, filled (on the receive or on a descendant)
						target := v
						kind = "receive-"
						if len(v.DescendantBlocks) > 0 && c.R.Intn(3) == 0 {
							target = v.DescendantBlocks[c.R.Intn(len(v.DescendantBlocks))]
							kind = "descendant-"
						}
						kv := keyVariants()
						vk := kv[c.R.Intn(len(kv))]
						if !vk.f(c, target) {
							continue
						}
						kind += vk.name
					case 0:
						pl := [][2]uint64{{7, 9}, {0, 1}, {1, 1}, {1, 0}, {^uint64(0), ^uint64(0)}, {21000, 21000}}[c.R.Intn(6)]
						v.BasePlasma, v.TotalPlasma = v.BasePlasma+pl[0], v.TotalPlasma+pl[1]
						kind = "receive-plasma"
					case 1:
						if len(v.DescendantBlocks) == 0 {
							continue
						}
						c.R.Read(v.DescendantBlocks[0].ChangesHash[:])
						kind = "descendant-changes-hash"
					case 2:
						if len(v.DescendantBlocks) == 0 {
							continue
						}
						if c.R.Intn(2) == 0 {
							v.DescendantBlocks[0].TotalPlasma += []uint64{1, 12345, ^uint64(0)}[c.R.Intn(3)]
						} else {
							v.DescendantBlocks[0].BasePlasma += []uint64{1, 21000, ^uint64(0)}[c.R.Intn(3)]
						}
						kind = "descendant-plasma"
					default:
						if len(v.DescendantBlocks) == 0 {
							continue
						}
						v.DescendantBlocks[0].PublicKey = append([]byte{}, g.User9.Public...)
						kind = "descendant-public-key"
					}
					blocks := append([]*nom.AccountBlock{}, dm.AccountBlocks...)
					blocks[i] = v
					// the descendant list of a momentum is flattened: replace the listed descendant too
					for j, d := range blocks {
						for k, vd := range v.DescendantBlocks {
							if d.Hash == vd.Hash && d.BlockType == nom.BlockTypeContractSend {
								blocks[j] = v.DescendantBlocks[k]
							}
						}
					}
					_, lerr := f.InsertChain([]*nom.DetailedMomentum{{Momentum: m, AccountBlocks: blocks}})
					res := "accepted"
					if lerr != nil {
						res = "rejected"
					}
					c.Emit("variant contract %s => %s", kind, res)
					c.Hit("lie-" + kind + "-" + res)
					lied = true
					break
				}
				// honest delivery must always work afterwards and lead to the reference state
				if err := deliverHonest(ref, h, h); err != nil {
					fail("reference follower refused honest data: %v", err)
					return
				}
				if f.Height() < h {
					if err := deliverHonest(f, h, h); err != nil {
						fail("C13/C02: after a peer served momentum %d with an altered uncovered field of a contract block (lied=%v), the follower refuses the honest momentum: %v", h, lied, err)
						return
					}
				}
				if f.StateDigest() != ref.StateDigest() {
					fail("C13/C02: after a peer served momentum %d with an altered uncovered field (lied=%v) the follower's ledger state differs from the reference follower's", h, lied)
					return
				}
			}
			delivered = H2
		}
	}
	// variants of blocks the follower verified and then lost in a reorganisation (s_variants_state.go)
	if delivered == a.Height() {
		if !variantsAfterReorg(c, a, f, ref, abFields, fail, nil, 0) {
			return
		}
	}
	c.Hit("history")
}
