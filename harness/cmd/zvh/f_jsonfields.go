package main

// Facts for the JSON model of account blocks / momentums (C13, L9 Codec): the members of the structs that
// encoding/json walks, read from the AST of /repo's working tree.
//
//	Gen.abJsonMembers            nom.AccountBlockMarshal   (the struct MarshalJSON / UnmarshalJSON go through)
//	Gen.abStructJsonMembers      nom.AccountBlock
//	Gen.momJsonMembers           nom.Momentum
//	Gen.hashHeightJsonMembers    types.HashHeight
//	Gen.accountHeaderJsonMembers types.AccountHeader
//	Gen.apiAbJsonMembers         api.AccountBlockMarshal
//	Gen.apiAbStructJsonMembers   api.AccountBlock
//
// each: (Go field, json name, Go type) in declaration order. json name = the name part of the `json:"…"` tag
// (before any comma); "" when the field has no json tag (unexported fields are listed too); "-" is kept;
// an embedded field is (type name, "<embedded>", type expression).

import (
	"fmt"
	"go/ast"
	"path/filepath"
	"reflect"
	"strconv"
	"strings"
)

// structJsonMembers returns (field, json name, type) of every field of the named struct type, in declaration order.
func (p *astPkg) structJsonMembers(name string) ([][3]string, error) {
	for _, f := range p.files {
		for _, d := range f.Decls {
			gd, ok := d.(*ast.GenDecl)
			if !ok {
				continue
			}
			for _, s := range gd.Specs {
				ts, ok := s.(*ast.TypeSpec)
				if !ok || ts.Name.Name != name {
					continue
				}
				st, ok := ts.Type.(*ast.StructType)
				if !ok {
					return nil, fmt.Errorf("%s is not a struct", name)
				}
				out := [][3]string{}
				for _, fl := range st.Fields.List {
					t := p.exprString(fl.Type)
					jn := ""
					if fl.Tag != nil {
						raw, err := strconv.Unquote(fl.Tag.Value)
						if err != nil {
							return nil, fmt.Errorf("%s: tag %s: %v", name, fl.Tag.Value, err)
						}
						if v, ok := reflect.StructTag(raw).Lookup("json"); ok {
							jn = v
							if i := strings.Index(jn, ","); i >= 0 {
								jn = jn[:i]
							}
						}
					}
					if len(fl.Names) == 0 { // embedded
						n := t
						if i := strings.LastIndex(n, "."); i >= 0 {
							n = n[i+1:]
						}
						out = append(out, [3]string{strings.TrimPrefix(n, "*"), "<embedded>", t})
						continue
					}
					for _, n := range fl.Names {
						out = append(out, [3]string{n.Name, jn, t})
					}
				}
				return out, nil
			}
		}
	}
	return nil, fmt.Errorf("struct %s not found", name)
}

func tripleList(f *factFile, name string, ts [][3]string) {
	ss := make([]string, len(ts))
	for i, t := range ts {
		ss[i] = fmt.Sprintf("(%q, %q, %q)", t[0], t[1], t[2])
	}
	f.raw("def %s : List (String × String × String) := [\n  %s]\n", name, strings.Join(ss, ",\n  "))
}

func init() {
	factGens = append(factGens, func(repo string) (*factFile, error) {
		f := newFactFile("JsonFields")
		nomPkg, err := parsePkgDir(filepath.Join(repo, "chain", "nom"))
		if err != nil {
			return nil, err
		}
		typesPkg, err := parsePkgDir(filepath.Join(repo, "common", "types"))
		if err != nil {
			return nil, err
		}
		apiPkg, err := parsePkgDir(filepath.Join(repo, "rpc", "api"))
		if err != nil {
			return nil, err
		}
		f.raw("-- (Go field, json member name, Go type), declaration order; \"\" = no json tag, \"<embedded>\" = embedded field\n")
		for _, s := range []struct {
			p       *astPkg
			comment string
			strct   string
			lean    string
		}{
			{nomPkg, "chain/nom/account_block.go: type AccountBlockMarshal", "AccountBlockMarshal", "abJsonMembers"},
			{nomPkg, "chain/nom/account_block.go: type AccountBlock", "AccountBlock", "abStructJsonMembers"},
			{nomPkg, "chain/nom/momentum.go: type Momentum", "Momentum", "momJsonMembers"},
			{typesPkg, "common/types/hash_height.go: type HashHeight", "HashHeight", "hashHeightJsonMembers"},
			{typesPkg, "common/types/account_header.go: type AccountHeader", "AccountHeader", "accountHeaderJsonMembers"},
			{apiPkg, "rpc/api/ledger_types.go: type AccountBlockMarshal", "AccountBlockMarshal", "apiAbJsonMembers"},
			{apiPkg, "rpc/api/ledger_types.go: type AccountBlock", "AccountBlock", "apiAbStructJsonMembers"},
		} {
			ts, err := s.p.structJsonMembers(s.strct)
			if err != nil {
				return nil, err
			}
			f.raw("-- %s\n", s.comment)
			tripleList(f, s.lean, ts)
		}
		return f, nil
	})
}
