package main

import (
	"context"
	"encoding/json"
	"fmt"
	"math/big"
	"net"
	"sort"
	"strings"
	"sync"
	"time"

	g "github.com/zenon-network/go-zenon/chain/genesis/mock"
	"github.com/zenon-network/go-zenon/chain/nom"
	"github.com/zenon-network/go-zenon/common/types"
	"github.com/zenon-network/go-zenon/rpc/api/subscribe"
	rpc "github.com/zenon-network/go-zenon/rpc/server"
	"github.com/zenon-network/go-zenon/vm/constants"
	"github.com/zenon-network/go-zenon/vm/embedded/definition"
)

// ---------------------------------------------------------------------------------------------------
// subscribe stream (C18 + C14, monitors only): the subscription server of a node (rpc/api/subscribe: the three calls of
// zenon.go - GetSubscribeServer, Init, Start - and the service registered as "ledger" on a real rpc server) on a real
// producing mock chain. Subscribers of every kind over an in-proc rpc client:
//
//	momentums, allAccountBlocks, accountBlocksByAddress(A), unreceivedAccountBlocksByAddress(A)
//	A: users, pillars, embedded contracts, an address nobody uses
//
// plus one hand-driven JSON connection (momentums + allAccountBlocks) whose reader can be stopped: a client that does not read
// (net.Pipe: the server's write blocks) keeps the worker goroutine inside Notify, so the momentums inserted meanwhile queue up
// behind it the way they do in a sync burst or behind a slow websocket client.
//
// History: generated traffic (user sends of several tokens, receives, token issue / mint to third parties / burn / refused
// calls, fuse / stake / delegate), directed contract-to-user sends (token minted for another user, fusion cancelled after its
// expiration, stake-less refunds) and a directed burst of momentums with different numbers of blocks of different accounts.
// The momentums are produced in segments: step (every momentum drained before the next one) or burst of 2..40 momentums
// inserted while the hand-driven client is not reading.
//
// Oracle = the ledger, read on the inserting goroutine right after every insertion (frontier store, PrefetchMomentum: the blocks
// of the momentum with their descendant blocks; account mailboxes before / after). Monitors at every drain point:
//
//	momentums                 every momentum once, in order, hash and height of the chain
//	allAccountBlocks          per momentum with blocks one event = exactly the blocks the momentum confirms (C14: whatever was
//	                          inserted behind it while it was queued)
//	accountBlocksByAddress    per momentum the blocks of the address, nothing for an address without blocks
//	unreceivedAccountBlocks…  per momentum the send blocks - user sends and contract sends alike - addressed to A; every hash
//	                          that is new in A's mailbox (momentum store) after the momentum was announced
//	every announced block     block type, height, address, toAddress, fromHash of the ledger's block
//
// ---------------------------------------------------------------------------------------------------

type subWant struct {
	height uint64 // momentum
	hashes []types.Hash
	burst  string // how the momentum was inserted
}

type subWatch struct {
	kind string
	addr types.Address
	name string
	raw  bool // subscription of the hand-driven connection

	mu   sync.Mutex
	got  [][]subscribe.AccountBlock
	gotM [][]subscribe.Momentum

	want    []subWant
	checked int
	trimmed bool
	dead    bool // reported once (or lossy): not judged any more
	sub     *rpc.ClientSubscription
}

func (w *subWatch) ngot() int {
	w.mu.Lock()
	defer w.mu.Unlock()
	if w.kind == "momentums" {
		return len(w.gotM)
	}
	return len(w.got)
}

// the hand-driven JSON connection: requests are written by the harness, the reader goroutine can be stopped
type subRawConn struct {
	conn   net.Conn
	mu     sync.Mutex // held during one read attempt
	cond   *sync.Cond
	closed bool // gate closed: the client does not read
	done   bool
	resp   chan json.RawMessage
	bySub  map[string]*subWatch
	bmu    sync.Mutex
	rerr   error
}

func (r *subRawConn) Read(p []byte) (int, error) {
	for {
		r.mu.Lock()
		for r.closed && !r.done {
			r.cond.Wait()
		}
		if r.done {
			r.mu.Unlock()
			return 0, fmt.Errorf("done")
		}
		r.conn.SetReadDeadline(time.Now().Add(15 * time.Millisecond))
		n, err := r.conn.Read(p)
		r.mu.Unlock()
		if n > 0 {
			return n, nil
		}
		if ne, ok := err.(net.Error); ok && ne.Timeout() {
			continue
		}
		return n, err
	}
}

func (r *subRawConn) gate(closed bool) {
	r.mu.Lock() // waits for the read attempt under way: after this the reader sees the new state
	r.closed = closed
	r.cond.Broadcast()
	r.mu.Unlock()
}

func (r *subRawConn) loop() {
	dec := json.NewDecoder(r)
	for {
		var msg struct {
			Id     json.RawMessage `json:"id"`
			Method string          `json:"method"`
			Result json.RawMessage `json:"result"`
			Error  json.RawMessage `json:"error"`
			Params struct {
				Subscription string          `json:"subscription"`
				Result       json.RawMessage `json:"result"`
			} `json:"params"`
		}
		if err := dec.Decode(&msg); err != nil {
			r.bmu.Lock()
			r.rerr = err
			r.bmu.Unlock()
			close(r.resp)
			return
		}
		if msg.Method == "" {
			if len(msg.Error) > 0 && string(msg.Error) != "null" {
				r.resp <- msg.Error
			} else {
				r.resp <- msg.Result
			}
			continue
		}
		r.bmu.Lock()
		w := r.bySub[msg.Params.Subscription]
		r.bmu.Unlock()
		if w == nil {
			continue
		}
		w.mu.Lock()
		if w.kind == "momentums" {
			var l []subscribe.Momentum
			if err := json.Unmarshal(msg.Params.Result, &l); err == nil {
				w.gotM = append(w.gotM, l)
			}
		} else {
			var l []subscribe.AccountBlock
			if err := json.Unmarshal(msg.Params.Result, &l); err == nil {
				w.got = append(w.got, l)
			}
		}
		w.mu.Unlock()
	}
}

func (r *subRawConn) subscribe(id int, w *subWatch) error {
	req := fmt.Sprintf(`{"jsonrpc":"2.0","id":%d,"method":"ledger.subscribe","params":[%q]}`+"\n", id, w.kind)
	r.conn.SetWriteDeadline(time.Now().Add(10 * time.Second))
	if _, err := r.conn.Write([]byte(req)); err != nil {
		return err
	}
	select {
	case res, ok := <-r.resp:
		if !ok {
			return fmt.Errorf("connection closed: %v", r.rerr)
		}
		var sid string
		if err := json.Unmarshal(res, &sid); err != nil {
			return fmt.Errorf("subscribe answered %s", res)
		}
		r.bmu.Lock()
		r.bySub[sid] = w
		r.bmu.Unlock()
		return nil
	case <-time.After(20 * time.Second):
		return fmt.Errorf("no answer to ledger.subscribe")
	}
}

type subRun struct {
	c   *Ctx
	n   *Node
	id  int
	raw *subRawConn

	watches []*subWatch
	watched []types.Address

	blocks  map[types.Hash]*nom.AccountBlock // every block of a recorded momentum (descendants too)
	momOf   map[types.Hash]uint64
	warm    map[types.Hash]bool // blocks of the momentums produced before the subscriptions were known to be installed
	h0      uint64
	mailbox map[types.Address]map[types.Hash]bool

	recording  bool
	left       int    // momentums left in the current segment
	segment    string // "step" or "burst a..": description of the current segment
	burstFrom  uint64
	burstStart time.Time
	forceBurst int // length of the next segment, if set
	nfails     int
	rawLossy   bool
}

func (r *subRun) fail(format string, a ...interface{}) {
	if r.nfails++; r.nfails <= 8 {
		r.c.Fail("subscribe run=%d: %s", r.id, fmt.Sprintf(format, a...))
	}
}

func subFlatten(b *nom.AccountBlock, out *[]*nom.AccountBlock) {
	*out = append(*out, b)
	for _, d := range b.DescendantBlocks {
		subFlatten(d, out)
	}
}

func subTypeName(t uint64) string {
	switch t {
	case nom.BlockTypeGenesisReceive:
		return "genesis"
	case nom.BlockTypeUserSend:
		return "send"
	case nom.BlockTypeUserReceive:
		return "receive"
	case nom.BlockTypeContractSend:
		return "contract-send"
	case nom.BlockTypeContractReceive:
		return "contract-receive"
	}
	return fmt.Sprintf("type%d", t)
}

func (r *subRun) blockStr(h types.Hash) string {
	b := r.blocks[h]
	if b == nil {
		return "unknown-block:" + h8(h)
	}
	s := fmt.Sprintf("%s#%d:%s", addrName(b.Address), b.Height, subTypeName(b.BlockType))
	if b.BlockType == nom.BlockTypeUserSend || b.BlockType == nom.BlockTypeContractSend {
		s += ">" + addrName(b.ToAddress)
	}
	return s + "@m" + fmt.Sprint(r.momOf[h])
}

func (r *subRun) listStr(hs []types.Hash) string {
	if len(hs) == 0 {
		return "[]"
	}
	s := make([]string, 0, len(hs))
	for i, h := range hs {
		if i == 12 {
			s = append(s, fmt.Sprintf("… %d more", len(hs)-i))
			break
		}
		s = append(s, r.blockStr(h))
	}
	return "[" + strings.Join(s, " ") + "]"
}

func (r *subRun) mailboxOf(a types.Address) map[types.Hash]bool {
	m := map[types.Hash]bool{}
	hs, err := r.n.Chain().GetFrontierMomentumStore().GetAccountMailbox(a).GetUnreceivedAccountBlockHashes(1 << 20)
	if err != nil {
		return m
	}
	for _, h := range hs {
		m[h] = true
	}
	return m
}

// onMomentum: the inserting goroutine, right after the insertion of dm (read back from the store by Node.Momentum)
func (r *subRun) onMomentum(dm *nom.DetailedMomentum) {
	var flat []*nom.AccountBlock
	for _, b := range dm.AccountBlocks {
		subFlatten(b, &flat)
	}
	// (a descendant block comes twice: under its contract receive and as the momentum's own entry)
	seen := map[types.Hash]bool{}
	uniq := flat[:0]
	for _, b := range flat {
		if !seen[b.Hash] {
			seen[b.Hash] = true
			uniq = append(uniq, b)
		}
	}
	flat = uniq
	H := dm.Momentum.Height
	if !r.recording {
		for _, b := range flat {
			r.warm[b.Hash] = true
		}
		return
	}
	for _, b := range flat {
		r.blocks[b.Hash] = b
		r.momOf[b.Hash] = H
	}
	// the mailboxes the ledger keeps: what is new after this momentum
	newIn := map[types.Address][]types.Hash{}
	for _, a := range r.watched {
		after := r.mailboxOf(a)
		before := r.mailbox[a]
		for h := range after {
			if !before[h] {
				newIn[a] = append(newIn[a], h)
			}
		}
		r.mailbox[a] = after
	}
	nsend, ncsend := 0, 0
	for _, w := range r.watches {
		var hs []types.Hash
		switch w.kind {
		case "momentums":
			hs = []types.Hash{dm.Momentum.Hash}
		case "allAccountBlocks":
			for _, b := range flat {
				hs = append(hs, b.Hash)
			}
		case "accountBlocksByAddress":
			for _, b := range flat {
				if b.Address == w.addr {
					hs = append(hs, b.Hash)
				}
			}
		case "unreceivedAccountBlocksByAddress":
			for _, b := range flat {
				if (b.BlockType == nom.BlockTypeUserSend || b.BlockType == nom.BlockTypeContractSend) && b.ToAddress == w.addr {
					hs = append(hs, b.Hash)
					if b.BlockType == nom.BlockTypeContractSend {
						ncsend++
					} else {
						nsend++
					}
				}
			}
			// the ledger's own view: everything that entered the mailbox with this momentum is a send block of this momentum
			in := map[types.Hash]bool{}
			for _, h := range hs {
				in[h] = true
			}
			for _, h := range newIn[w.addr] {
				if !in[h] {
					if r.momOf[h] == H {
						hs = append(hs, h) // (the monitor below then demands it of the subscription)
					}
					r.c.Hit("sub-mailbox-entry-not-a-send-of-the-momentum")
				}
			}
		}
		if len(hs) > 0 {
			w.want = append(w.want, subWant{H, hs, r.segment})
		}
	}
	r.c.HitN("sub-user-send-into-watched-mailbox", nsend)
	r.c.HitN("sub-contract-send-into-watched-mailbox", ncsend)
	r.c.Hit("sub-momentum")
	if len(flat) == 0 {
		r.c.Hit("sub-momentum-empty")
	}
	r.c.Emit("sub-mom %d blocks=%d %s | user-sends-to-watched=%d contract-sends-to-watched=%d", H, len(flat), strings.SplitN(r.segment, " ", 2)[0], nsend, ncsend)
	r.left--
	if r.left <= 0 {
		r.drain()
		r.nextSegment()
	}
}

func (r *subRun) nextSegment() {
	k := 1
	switch x := r.c.R.Intn(10); {
	case r.forceBurst > 0:
		k, r.forceBurst = r.forceBurst, 0
	case x < 4:
		k = 1
	case x < 8:
		k = 2 + r.c.R.Intn(7)
	case x < 9:
		k = 9 + r.c.R.Intn(12)
	default:
		k = 20 + r.c.R.Intn(21)
	}
	r.left = k
	H := r.n.Height()
	if k == 1 {
		r.segment = "step"
		r.c.Hit("sub-segment-step")
		return
	}
	r.segment = fmt.Sprintf("burst m%d..m%d (inserted back to back while one subscriber did not read its connection)", H+1, H+uint64(k))
	r.c.Hit("sub-segment-burst")
	r.burstStart = time.Now()
	r.raw.gate(true)
}

// drain: open the gate, wait until every subscription has what the ledger says it must have got (or nothing moves any more), compare
func (r *subRun) drain() {
	wasBurst := r.segment != "step"
	r.raw.gate(false)
	if wasBurst && time.Since(r.burstStart) > 4*time.Second {
		// the server gives a write 10 s: a burst that took long may have cost the silent client its notifications
		r.rawLossy = true
		r.c.Hit("sub-burst-too-slow-raw-client-not-judged")
	}
	if r.nfails >= 8 {
		return // this history has said enough
	}
	quiet, last := 0, -1
	for polls := 0; polls < 6000; polls++ {
		total, missing := 0, false
		for _, w := range r.watches {
			if w.dead || (w.raw && r.rawLossy) {
				continue
			}
			ng := w.ngot()
			total += ng
			r.trim(w)
			if w.ngot() < len(w.want) {
				missing = true
			}
		}
		if !missing {
			break
		}
		if total == last {
			quiet++
		} else {
			quiet, last = 0, total
		}
		if quiet > 500 { // 2.5 s of polls without a single notification
			break
		}
		time.Sleep(5 * time.Millisecond)
	}
	for _, w := range r.watches {
		if w.dead || (w.raw && r.rawLossy) {
			continue
		}
		r.compare(w)
	}
}

// trim drops the leading events that belong to the momentums produced before the subscriptions were known to be installed
func (r *subRun) trim(w *subWatch) {
	if w.trimmed {
		return
	}
	w.mu.Lock()
	defer w.mu.Unlock()
	if w.kind == "momentums" {
		for len(w.gotM) > 0 && len(w.gotM[0]) > 0 && w.gotM[0][0].Height <= r.h0 {
			w.gotM = w.gotM[1:]
		}
		if len(w.gotM) > 0 {
			w.trimmed = true
		}
		return
	}
	for len(w.got) > 0 && len(w.got[0]) > 0 && r.warm[w.got[0][0].Hash] {
		w.got = w.got[1:]
	}
	if len(w.got) > 0 {
		w.trimmed = true
	}
}

func (r *subRun) compare(w *subWatch) {
	r.trim(w)
	w.mu.Lock()
	got, gotM := w.got, w.gotM
	w.mu.Unlock()
	n := len(got)
	if w.kind == "momentums" {
		n = len(gotM)
	}
	prop := "C18"
	for ; w.checked < len(w.want) || w.checked < n; w.checked++ {
		i := w.checked
		if i >= n {
			w.dead = true
			r.fail("%s: %s was never told about momentum %d: ledger %s, %d of %d events arrived [%s]",
				prop, w.name, w.want[i].height, r.wantStr(w, w.want[i]), n, len(w.want), w.want[i].burst)
			return
		}
		var ghs []types.Hash
		if w.kind == "momentums" {
			for _, m := range gotM[i] {
				ghs = append(ghs, m.Hash)
			}
		} else {
			for _, b := range got[i] {
				ghs = append(ghs, b.Hash)
			}
		}
		if i >= len(w.want) {
			w.dead = true
			r.fail("%s: subscription %s received an event the ledger has nothing for: %s (all %d momentums with something for it were announced before)",
				prop, w.name, r.listStr(ghs), len(w.want))
			return
		}
		x := w.want[i]
		if w.kind == "momentums" {
			if len(gotM[i]) != 1 || gotM[i][0].Hash != x.hashes[0] || gotM[i][0].Height != x.height {
				w.dead = true
				r.fail("C18: subscription %s: event %d announces %v, the chain's next momentum is %d %s [inserted in: %s]", w.name, i, gotM[i], x.height, h8(x.hashes[0]), x.burst)
				return
			}
			r.c.Hit("sub-momentum-event-ok")
			continue
		}
		if len(subDedupe(ghs)) != len(ghs) {
			// the unchanged server lists a descendant block twice in one event (once under its contract receive, once as the
			// momentum's own entry): counted, not judged - the lists are compared as sets
			r.c.Hit("sub-event-lists-a-block-twice")
		}
		if !subSameSet(subDedupe(ghs), subDedupe(x.hashes)) {
			w.dead = true
			// an event that is another momentum's list (or a mixture) = the queued event did not keep its content
			other := map[uint64]bool{}
			for _, h := range ghs {
				if m, ok := r.momOf[h]; ok && m != x.height {
					other[m] = true
				}
			}
			if len(other) > 0 && x.burst != "step" {
				prop = "C14"
			}
			r.fail("%s: %s, event %d (momentum %d): ledger %s, subscriber was told %s [%s]",
				prop, w.name, i, x.height, r.listStr(subDedupe(x.hashes)), r.listStr(ghs), x.burst)
			return
		}
		for _, b := range got[i] {
			lb := r.blocks[b.Hash]
			if lb == nil {
				continue
			}
			if b.BlockType != lb.BlockType || b.Height != lb.Height || b.Address != lb.Address || b.ToAddress != lb.ToAddress || b.FromHash != lb.FromBlockHash {
				w.dead = true
				r.fail("C18: subscription %s announces block %s as {type %d height %d address %s to %s from %s}, the ledger's block is {type %d height %d address %s to %s from %s}",
					w.name, r.blockStr(b.Hash), b.BlockType, b.Height, addrName(b.Address), addrName(b.ToAddress), h8(b.FromHash),
					lb.BlockType, lb.Height, addrName(lb.Address), addrName(lb.ToAddress), h8(lb.FromBlockHash))
				return
			}
		}
		r.c.Hit("sub-event-ok-" + w.kind)
		if x.burst != "step" {
			r.c.Hit("sub-event-ok-after-burst")
		}
	}
}

func (r *subRun) wantStr(w *subWatch, x subWant) string {
	if w.kind == "momentums" {
		return "momentum " + h8(x.hashes[0])
	}
	return r.listStr(subDedupe(x.hashes))
}

func subDedupe(a []types.Hash) []types.Hash {
	seen := map[types.Hash]bool{}
	var out []types.Hash
	for _, h := range a {
		if !seen[h] {
			seen[h] = true
			out = append(out, h)
		}
	}
	return out
}

func subSameSet(a, b []types.Hash) bool {
	if len(a) != len(b) {
		return false
	}
	x := make([]string, len(a))
	y := make([]string, len(b))
	for i := range a {
		x[i], y[i] = string(a[i][:]), string(b[i][:])
	}
	sort.Strings(x)
	sort.Strings(y)
	for i := range x {
		if x[i] != y[i] {
			return false
		}
	}
	return true
}

func init() {
	register("subscribe", func(c *Ctx) {
		for i := 0; i < c.N; i++ {
			subscribeHistory(c, i)
		}
	})
}

func subscribeHistory(c *Ctx, id int) {
	origFuse := constants.FuseExpiration
	defer func() { constants.FuseExpiration = origFuse }()
	constants.FuseExpiration = uint64(2 + c.R.Intn(3))
	n := NewNode()
	defer n.Stop()
	r := &subRun{c: c, n: n, id: id, blocks: map[types.Hash]*nom.AccountBlock{}, momOf: map[types.Hash]uint64{}, warm: map[types.Hash]bool{},
		mailbox: map[types.Address]map[types.Hash]bool{}}
	n.OnMomentum = r.onMomentum

	// the subscription server of a node (zenon.go: GetSubscribeServer, Init, Start; the api registered as "ledger")
	srv := subscribe.GetSubscribeServer(n.Chain())
	if err := srv.Init(); err != nil {
		c.Fail("subscribe run=%d: Init: %v", id, err)
		return
	}
	if err := srv.Start(); err != nil {
		c.Fail("subscribe run=%d: Start: %v", id, err)
		return
	}
	stopped := false
	stopSrv := func() {
		if !stopped {
			stopped = true
			done := make(chan struct{})
			go func() { safely(func() { srv.Stop() }); close(done) }()
			select {
			case <-done:
			case <-time.After(30 * time.Second):
				c.Fail("subscribe run=%d: C18: Server.Stop does not return within 30 s", id)
			}
		}
	}
	defer stopSrv()
	silenceLoggers()
	rpcServer := rpc.NewServer()
	if err := rpcServer.RegisterName("ledger", subscribe.GetSubscribeApi()); err != nil {
		c.Fail("subscribe run=%d: RegisterName: %v", id, err)
		return
	}
	defer rpcServer.Stop()
	client := rpc.DialInProc(rpcServer)
	defer client.Close()

	var unknown types.Address
	c.R.Read(unknown[:])
	unknown[0] = 0
	r.watched = []types.Address{g.User1.Address, g.User2.Address, g.User3.Address, g.User4.Address, g.User5.Address, g.User6.Address, g.User7.Address,
		g.Pillar1.Address, g.Pillar2.Address, types.TokenContract, types.PlasmaContract, types.StakeContract, types.PillarContract, unknown}
	for _, a := range r.watched {
		r.mailbox[a] = r.mailboxOf(a)
	}
	var collectors sync.WaitGroup
	subscribeFast := func(kind string, addr *types.Address) bool {
		w := &subWatch{kind: kind, name: "ledger.subscribe(" + kind + ")"}
		args := []interface{}{kind}
		if addr != nil {
			w.addr = *addr
			w.name = "ledger.subscribe(" + kind + ", " + addrName(*addr) + ")"
			args = append(args, *addr)
		}
		ctx, cancel := context.WithTimeout(context.Background(), 20*time.Second)
		defer cancel()
		var err error
		if kind == "momentums" {
			ch := make(chan []subscribe.Momentum, 64)
			if w.sub, err = client.Subscribe(ctx, "ledger", ch, args...); err == nil {
				collectors.Add(1)
				go func() {
					defer collectors.Done()
					for {
						select {
						case l := <-ch:
							w.mu.Lock()
							w.gotM = append(w.gotM, l)
							w.mu.Unlock()
						case <-w.sub.Err():
							return
						}
					}
				}()
			}
		} else {
			ch := make(chan []subscribe.AccountBlock, 64)
			if w.sub, err = client.Subscribe(ctx, "ledger", ch, args...); err == nil {
				collectors.Add(1)
				go func() {
					defer collectors.Done()
					for {
						select {
						case l := <-ch:
							w.mu.Lock()
							w.got = append(w.got, l)
							w.mu.Unlock()
						case <-w.sub.Err():
							return
						}
					}
				}()
			}
		}
		if err != nil {
			c.Fail("subscribe run=%d: C18: %s refused: %v", id, w.name, err)
			return false
		}
		r.watches = append(r.watches, w)
		return true
	}
	defer func() {
		for _, w := range r.watches {
			if w.sub != nil {
				w.sub.Unsubscribe()
			}
		}
		collectors.Wait()
	}()
	if !subscribeFast("allAccountBlocks", nil) {
		return
	}
	for i := range r.watched {
		if !subscribeFast("accountBlocksByAddress", &r.watched[i]) || !subscribeFast("unreceivedAccountBlocksByAddress", &r.watched[i]) {
			return
		}
	}
	// a second subscriber of one address: both are told
	if !subscribeFast("unreceivedAccountBlocksByAddress", &r.watched[c.R.Intn(5)]) {
		return
	}
	// the hand-driven connection
	p1, p2 := net.Pipe()
	go rpcServer.ServeCodec(rpc.NewCodec(p1), 0)
	r.raw = &subRawConn{conn: p2, resp: make(chan json.RawMessage, 4), bySub: map[string]*subWatch{}}
	r.raw.cond = sync.NewCond(&r.raw.mu)
	go r.raw.loop()
	defer func() {
		r.raw.mu.Lock()
		r.raw.done = true
		r.raw.cond.Broadcast()
		r.raw.mu.Unlock()
		p2.Close()
	}()
	for i, kind := range []string{"allAccountBlocks", "momentums"} {
		w := &subWatch{kind: kind, raw: true, name: "ledger.subscribe(" + kind + ") of the client that stops reading during bursts"}
		if err := r.raw.subscribe(i+1, w); err != nil {
			c.Fail("subscribe run=%d: C18: %s refused: %v", id, w.name, err)
			return
		}
		r.watches = append(r.watches, w)
	}
	// the probe, installed last (the install queue is first-in first-out): once it is told about a momentum every subscription
	// above is installed
	if !subscribeFast("momentums", nil) {
		return
	}
	probe := r.watches[len(r.watches)-1]
	for k := 0; probe.ngot() == 0; k++ {
		if k == 60 {
			c.Fail("subscribe run=%d: C18: ledger.subscribe(momentums) was not told about any of 60 momentums", id)
			return
		}
		if _, err := n.Momentum(); err != nil {
			c.Fail("subscribe run=%d: momentum: %v", id, err)
			return
		}
		for t := 0; t < 100 && probe.ngot() == 0; t++ {
			time.Sleep(5 * time.Millisecond)
		}
	}
	r.h0 = n.Height()
	r.recording = true
	for _, a := range r.watched {
		r.mailbox[a] = r.mailboxOf(a)
	}
	r.nextSegment()

	// ---- generated traffic
	produceTraffic(c, n, 40+c.R.Intn(50))

	// ---- directed: contracts sending to users (every kind of account on both ends)
	users := []types.Address{g.User1.Address, g.User2.Address, g.User3.Address, g.User4.Address, g.User5.Address}
	owner, other := users[c.R.Intn(len(users))], users[c.R.Intn(len(users))]
	sym := fmt.Sprintf("SB%d", c.R.Intn(100000))
	n.Submit(&nom.AccountBlock{BlockType: nom.BlockTypeUserSend, Address: owner, ToAddress: types.TokenContract, TokenStandard: types.ZnnTokenStandard, Amount: constants.TokenIssueAmount,
		Data: definition.ABIToken.PackMethodPanic(definition.IssueMethodName, "sub-"+strings.ToLower(sym), sym, "", big.NewInt(int64(1+c.R.Intn(1000))), big.NewInt(1000000), uint8(2), true, true, false)})
	var fuses []*nom.AccountBlock
	for k := 0; k < 1+c.R.Intn(3); k++ {
		from := users[c.R.Intn(len(users))]
		if b, err := n.Submit(&nom.AccountBlock{BlockType: nom.BlockTypeUserSend, Address: from, ToAddress: types.PlasmaContract, TokenStandard: types.QsrTokenStandard,
			Amount: big.NewInt(int64(10+c.R.Intn(20)) * g.Zexp), Data: definition.ABIPlasma.PackMethodPanic(definition.FuseMethodName, r.watched[c.R.Intn(9)])}); err == nil {
			fuses = append(fuses, b)
		}
	}
	for k := 0; k < 3; k++ {
		n.Momentum()
	}
	// the token of the directed issue: minted for other users, several in one momentum, next to user sends to the same users
	var zts *types.ZenonTokenStandard
	if l, err := definition.GetTokenInfoList(n.Chain().GetFrontierMomentumStore().GetAccountStore(types.TokenContract).Storage()); err == nil {
		for _, ti := range l {
			if ti.TokenSymbol == sym {
				t := ti.TokenStandard
				zts = &t
			}
		}
	}
	for round := 0; round < 2; round++ {
		if zts != nil {
			for k := 0; k < 1+c.R.Intn(3); k++ {
				if _, err := n.Submit(&nom.AccountBlock{BlockType: nom.BlockTypeUserSend, Address: owner, ToAddress: types.TokenContract,
					Data: definition.ABIToken.PackMethodPanic(definition.MintMethodName, *zts, big.NewInt(int64(1+c.R.Intn(500))), r.watched[c.R.Intn(9)])}); err == nil {
					c.Hit("sub-directed-mint")
				}
			}
		}
		if c.R.Intn(2) == 0 {
			n.Submit(&nom.AccountBlock{BlockType: nom.BlockTypeUserSend, Address: other, ToAddress: r.watched[c.R.Intn(9)], TokenStandard: types.ZnnTokenStandard, Amount: big.NewInt(int64(c.R.Intn(100)))})
		}
		for k := 0; k < int(constants.FuseExpiration); k++ {
			n.Momentum()
		}
		if round == 0 {
			for _, f := range fuses {
				if _, err := n.Submit(&nom.AccountBlock{BlockType: nom.BlockTypeUserSend, Address: f.Address, ToAddress: types.PlasmaContract,
					Data: definition.ABIPlasma.PackMethodPanic(definition.CancelFuseMethodName, f.Hash)}); err == nil {
					c.Hit("sub-directed-cancel-fuse")
				}
			}
		}
	}
	for k := 0; k < 2; k++ {
		n.Momentum()
	}

	// ---- directed burst: momentums with different numbers of blocks of different accounts, inserted back to back
	// (the segment under way is finished with empty momentums first)
	L := 3 + c.R.Intn(8)
	r.forceBurst = L
	for k := 0; r.forceBurst > 0 && k < 64; k++ {
		if _, err := n.Momentum(); err != nil {
			break
		}
	}
	senders := []types.Address{g.User1.Address, g.User2.Address, g.User3.Address, g.User4.Address, g.User5.Address, g.Pillar1.Address, g.Pillar2.Address}
	for m := 0; m < L && r.forceBurst == 0; m++ {
		k := c.R.Intn(5)
		if c.R.Intn(4) == 0 {
			k = 0
		}
		for j := 0; j < k; j++ {
			n.Submit(&nom.AccountBlock{BlockType: nom.BlockTypeUserSend, Address: senders[c.R.Intn(len(senders))], ToAddress: r.watched[c.R.Intn(len(r.watched)-1)],
				TokenStandard: types.ZnnTokenStandard, Amount: big.NewInt(int64(c.R.Intn(50)))})
		}
		c.Hit("sub-directed-burst-momentum")
		if _, err := n.Momentum(); err != nil {
			break
		}
	}
	// the segment under way ends here
	if r.left > 0 {
		r.drain()
	}
	r.raw.gate(false)
	n.OnMomentum = nil
	// nothing may follow: a short wait, then every subscription must hold exactly what was compared
	time.Sleep(50 * time.Millisecond)
	for _, w := range r.watches {
		if !w.dead && !(w.raw && r.rawLossy) {
			r.compare(w)
		}
	}
	c.Emit("sub-history %d momentums=%d..%d | subscriptions=%d fails=%d", id, r.h0+1, n.Height(), len(r.watches), r.nfails)
}
