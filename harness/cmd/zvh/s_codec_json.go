package main

// codec stream (C13), every JSON entry point: a block travels as JSON between a client and the RPC of a node
// (ledger.publishRawTransaction decodes api.AccountBlock; the getters and subscriptions encode api.AccountBlock,
// AccountBlockList, Momentum, DetailedMomentum and their lists) and the field-by-field converters between the block and its
// JSON shape are written by hand - one line per field, in both directions, at the nom level and again at the api level.
//
// For every generated block (and the same block with EVERY field that is still zero filled with a random non-zero value
// - found by reflection over the struct, descendants included) and every generated momentum, each way through JSON that
// exists in the repository is taken:
//	nom.AccountBlock           MarshalJSON -> UnmarshalJSON
//	nom.AccountBlockMarshal    ToNomMarshalJson -> FromNomMarshalJson, directly and through the JSON text
//	api.AccountBlock           MarshalJSON -> UnmarshalJSON -> ToLedgerBlock        (the parameter of publishRawTransaction)
//	api.AccountBlock           as PairedAccountBlock of another block (FromApiMarshalJson), token and confirmation detail filled
//	api.AccountBlockList       MarshalJSON -> UnmarshalJSON, every element and its paired block
//	api.DetailedMomentum / DetailedMomentumList   blocks and momentum
//	nom.DetailedMomentum       momentum + account blocks
//	nom.Momentum, api.Momentum, api.MomentumList
//	AccountBlock.Copy()        (ToLedgerBlock)
// Monitors (model-free): what comes back has the same value in EVERY exported field (compared by reflection: a field
// added to the struct later is compared without being named here; nil and empty byte strings / lists and a nil and a
// zero amount are the same value), the same ComputeHash() and the same Serialize() bytes; the api-level wrappers
// (token, confirmation detail, paired block, producer, list count / more) are compared the same way.
//
// On a real node (codecPublishNode, once per run and every 2500th iteration): user blocks completed by the node's own
// template path but not inserted, and the contract receives the node generated, go through the JSON of the RPC; the
// user blocks are published with LedgerApi.PublishRawTransaction: what the pool and - after the next momentum - the
// ledger hold under the block's hash has exactly the bytes the client serialised.

import (
	"bytes"
	"encoding/json"
	"fmt"
	"math/big"
	"reflect"
	"strings"

	g "github.com/zenon-network/go-zenon/chain/genesis/mock"
	"github.com/zenon-network/go-zenon/chain/nom"
	"github.com/zenon-network/go-zenon/common/types"
	"github.com/zenon-network/go-zenon/rpc/api"
	"github.com/zenon-network/go-zenon/vm/embedded/definition"
)

var bigIntPtrType = reflect.TypeOf((*big.Int)(nil))

// cjFill gives every settable field that holds its zero value a random non-zero one. depth bounds recursive types.
func cjFill(c *Ctx, v reflect.Value, depth int) {
	switch v.Kind() {
	case reflect.Ptr:
		if v.Type() == bigIntPtrType {
			if v.IsNil() || v.Interface().(*big.Int).Sign() == 0 {
				x := new(big.Int).SetBytes(cRandBytes(c, 1+c.R.Intn(32)))
				x.Add(x, big.NewInt(1))
				v.Set(reflect.ValueOf(x))
			}
			return
		}
		if v.Type().Elem().Kind() != reflect.Struct {
			return
		}
		if v.IsNil() {
			if depth <= 0 || !v.CanSet() {
				return
			}
			v.Set(reflect.New(v.Type().Elem()))
			depth-- // a new value of a (possibly recursive) type
		}
		cjFill(c, v.Elem(), depth)
	case reflect.Struct:
		for i := 0; i < v.NumField(); i++ {
			f := v.Type().Field(i)
			if f.PkgPath != "" || !v.Field(i).CanSet() { // unexported: caches
				continue
			}
			if tag := f.Tag.Get("json"); tag == "-" { // not part of the JSON form (cached time of a momentum)
				continue
			}
			cjFill(c, v.Field(i), depth)
		}
	case reflect.Slice:
		if v.Type().Elem().Kind() == reflect.Uint8 {
			if v.Len() == 0 {
				n := 1 + c.R.Intn(70)
				switch {
				case strings.Contains(v.Type().String(), "PublicKey"):
					n = 32
				}
				v.SetBytes(cRandBytes(c, n))
			}
			return
		}
		if v.Len() == 0 && depth > 0 {
			n := 1 + c.R.Intn(2)
			s := reflect.MakeSlice(v.Type(), n, n)
			v.Set(s)
		}
		for i := 0; i < v.Len(); i++ {
			cjFill(c, v.Index(i), depth)
		}
	case reflect.Array:
		if v.Type().Elem().Kind() == reflect.Uint8 {
			if v.IsZero() {
				b := cRandBytes(c, v.Len())
				b[c.R.Intn(len(b))] |= 1
				reflect.Copy(v, reflect.ValueOf(b))
			}
			return
		}
		for i := 0; i < v.Len(); i++ {
			cjFill(c, v.Index(i), depth)
		}
	case reflect.Uint8, reflect.Uint16, reflect.Uint32, reflect.Uint64, reflect.Uint:
		if v.IsZero() {
			x := cRandU64(c)
			if v.Kind() == reflect.Uint8 {
				x &= 0xff
			}
			if x == 0 {
				x = 1
			}
			v.SetUint(x)
			if v.IsZero() {
				v.SetUint(1)
			}
		}
	case reflect.Int8, reflect.Int16, reflect.Int32, reflect.Int64, reflect.Int:
		if v.IsZero() {
			v.SetInt(int64(1 + c.R.Intn(1<<30)))
		}
	case reflect.Bool:
		v.SetBool(true)
	case reflect.String:
		if v.Len() == 0 {
			v.SetString(fmt.Sprintf("t%x", c.R.Intn(1<<24)))
		}
	}
}

// cjDiff lists the exported fields in which two values differ.
func cjDiff(path string, a, b reflect.Value, out *[]string) {
	if len(*out) >= 6 {
		return
	}
	note := func(x, y interface{}) {
		*out = append(*out, fmt.Sprintf("%s: before=%s after=%s", path, cjShow(x), cjShow(y)))
	}
	if a.Type() != b.Type() {
		note(a.Type(), b.Type())
		return
	}
	switch a.Kind() {
	case reflect.Ptr:
		if a.Type() == bigIntPtrType {
			x, y := a.Interface().(*big.Int), b.Interface().(*big.Int)
			if x == nil {
				x = new(big.Int)
			}
			if y == nil {
				y = new(big.Int)
			}
			if x.Cmp(y) != 0 {
				note(x, y)
			}
			return
		}
		if a.IsNil() || b.IsNil() {
			if a.IsNil() != b.IsNil() {
				note(fmt.Sprintf("nil=%v", a.IsNil()), fmt.Sprintf("nil=%v", b.IsNil()))
			}
			return
		}
		cjDiff(path, a.Elem(), b.Elem(), out)
	case reflect.Struct:
		for i := 0; i < a.NumField(); i++ {
			f := a.Type().Field(i)
			if f.PkgPath != "" {
				continue
			}
			if tag := f.Tag.Get("json"); tag == "-" {
				continue
			}
			name := f.Name
			if f.Anonymous {
				name = "(" + f.Name + ")"
			}
			cjDiff(path+"."+name, a.Field(i), b.Field(i), out)
		}
	case reflect.Slice:
		if a.Type().Elem().Kind() == reflect.Uint8 {
			if !bytes.Equal(a.Bytes(), b.Bytes()) {
				note(a.Bytes(), b.Bytes())
			}
			return
		}
		if a.Len() != b.Len() {
			note(fmt.Sprintf("%d elements", a.Len()), fmt.Sprintf("%d elements", b.Len()))
			return
		}
		for i := 0; i < a.Len(); i++ {
			cjDiff(fmt.Sprintf("%s[%d]", path, i), a.Index(i), b.Index(i), out)
		}
	default:
		if a.CanInterface() && b.CanInterface() && !reflect.DeepEqual(a.Interface(), b.Interface()) {
			note(a.Interface(), b.Interface())
		}
	}
}

func cjShow(x interface{}) string {
	switch v := x.(type) {
	case []byte:
		return "0x" + hx(v)
	case fmt.Stringer:
		return v.String()
	}
	rv := reflect.ValueOf(x)
	if rv.Kind() == reflect.Array && rv.Type().Elem().Kind() == reflect.Uint8 {
		b := make([]byte, rv.Len())
		reflect.Copy(reflect.ValueOf(b), rv)
		return "0x" + hx(b)
	}
	return fmt.Sprintf("%v", x)
}

func cjDiffOf(a, b interface{}) []string {
	var out []string
	cjDiff("", reflect.ValueOf(a), reflect.ValueOf(b), &out)
	return out
}

func cjSerialize(b *nom.AccountBlock) (out []byte) {
	defer func() {
		if recover() != nil {
			out = nil
		}
	}()
	d, err := b.Serialize()
	if err != nil {
		return nil
	}
	return d
}

// cjJsonBack encodes v and decodes the text into out (a pointer to a fresh value of the same type).
func cjJsonBack(v, out interface{}) error {
	data, err := json.Marshal(v)
	if err != nil {
		return fmt.Errorf("encode: %v", err)
	}
	if err := json.Unmarshal(data, out); err != nil {
		return fmt.Errorf("decode: %v", err)
	}
	return nil
}

// cjWrap dresses a block as the RPC serves it: token, confirmation detail and (depth permitting) a paired block.
func cjWrap(c *Ctx, b *nom.AccountBlock, paired *nom.AccountBlock) *api.AccountBlock {
	w := &api.AccountBlock{AccountBlock: *b.Copy()}
	if c.R.Intn(4) != 0 {
		w.TokenInfo = &api.Token{}
		cjFill(c, reflect.ValueOf(w.TokenInfo), 1)
	}
	if c.R.Intn(4) != 0 {
		w.ConfirmationDetail = &api.AccountBlockConfirmationDetail{}
		cjFill(c, reflect.ValueOf(w.ConfirmationDetail), 1)
	}
	if paired != nil {
		w.PairedAccountBlock = cjWrap(c, paired, nil)
	}
	return w
}

// codecJsonBlock takes one block through every JSON entry point.
func codecJsonBlock(c *Ctx, b *nom.AccountBlock, origin string) {
	wantHash := b.ComputeHash()
	wantBytes := cjSerialize(b)
	judge := func(entry string, back *nom.AccountBlock, err error) {
		c.Hit("cj-block-entry")
		if err != nil {
			c.Fail("json-entry-points: %s block does not survive %s: %v :: %s", origin, entry, err, short(blockStr(b)))
			return
		}
		if back == nil {
			c.Fail("json-entry-points: %s block comes back as nil through %s :: %s", origin, entry, short(blockStr(b)))
			return
		}
		if d := cjDiffOf(b, back); len(d) > 0 {
			c.Fail("json-entry-points: %s block changes through %s in field(s) %s :: block %s", origin, entry, strings.Join(d, "; "), short(blockStr(b)))
			return
		}
		if h := back.ComputeHash(); h != wantHash {
			c.Fail("json-entry-points: %s block hash changes through %s: %s -> %s :: %s", origin, entry, wantHash, h, short(blockStr(b)))
			return
		}
		if got := cjSerialize(back); wantBytes != nil && !bytes.Equal(got, wantBytes) {
			c.Fail("json-entry-points: %s block has other serialised bytes after %s (same hash %s): before=%s after=%s", origin, entry, wantHash, short(hx(wantBytes)), short(hx(got)))
		}
	}
	judgeApi := func(entry string, want, back *api.AccountBlock) {
		if back == nil {
			c.Fail("json-entry-points: %s block comes back as nil through %s :: %s", origin, entry, short(blockStr(b)))
			return
		}
		if d := cjDiffOf(want, back); len(d) > 0 {
			c.Fail("json-entry-points: %s block as served by the RPC (token, confirmation detail, paired block) changes through %s in field(s) %s :: block %s", origin, entry, strings.Join(d, "; "), short(blockStr(b)))
		}
	}
	guard := func(entry string, f func()) {
		defer func() {
			if r := recover(); r != nil {
				c.Fail("json-entry-points: %s block: %s panics (%v) :: %s", origin, entry, r, short(blockStr(b)))
			}
		}()
		f()
	}
	guard("Copy()", func() { judge("AccountBlock.Copy()", b.Copy(), nil) })
	guard("nom json", func() {
		back := new(nom.AccountBlock)
		err := cjJsonBack(b, back)
		judge("nom.AccountBlock MarshalJSON -> UnmarshalJSON", back, err)
	})
	guard("nom marshal struct", func() {
		judge("ToNomMarshalJson -> FromNomMarshalJson", b.ToNomMarshalJson().FromNomMarshalJson(), nil)
		aux := new(nom.AccountBlockMarshal)
		err := cjJsonBack(b.ToNomMarshalJson(), aux)
		judge("ToNomMarshalJson -> JSON text -> nom.AccountBlockMarshal -> FromNomMarshalJson", aux.FromNomMarshalJson(), err)
	})
	// a second block to travel as the paired one
	other := b
	if len(b.DescendantBlocks) > 0 {
		other = b.DescendantBlocks[0]
	}
	guard("api block", func() {
		w := cjWrap(c, b, other)
		back := new(api.AccountBlock)
		err := cjJsonBack(w, back)
		if err != nil {
			judge("api.AccountBlock MarshalJSON -> UnmarshalJSON", nil, err)
			return
		}
		lb, lerr := back.ToLedgerBlock()
		judge("api.AccountBlock MarshalJSON -> UnmarshalJSON -> ToLedgerBlock (the parameter of ledger.publishRawTransaction)", lb, lerr)
		judgeApi("api.AccountBlock MarshalJSON -> UnmarshalJSON", w, back)
		if back.PairedAccountBlock != nil {
			saveB, saveH, saveBytes := b, wantHash, wantBytes
			b, wantHash, wantBytes = other, other.ComputeHash(), cjSerialize(other)
			judge("api.AccountBlock.PairedAccountBlock (FromApiMarshalJson)", &back.PairedAccountBlock.AccountBlock, nil)
			b, wantHash, wantBytes = saveB, saveH, saveBytes
		}
		// the shape structs directly
		judgeApi("ToAccountBlockMarshal -> FromApiMarshalJson", w, w.ToAccountBlockMarshal().FromApiMarshalJson())
	})
	guard("api list", func() {
		l := &api.AccountBlockList{List: []*api.AccountBlock{cjWrap(c, b, other), cjWrap(c, other, b)}, Count: 1 + c.R.Intn(1000), More: true}
		back := new(api.AccountBlockList)
		if err := cjJsonBack(l, back); err != nil {
			judge("api.AccountBlockList MarshalJSON -> UnmarshalJSON", nil, err)
			return
		}
		if d := cjDiffOf(l, back); len(d) > 0 {
			c.Fail("json-entry-points: %s block inside an api.AccountBlockList changes through MarshalJSON -> UnmarshalJSON in field(s) %s :: block %s", origin, strings.Join(d, "; "), short(blockStr(b)))
			return
		}
		if len(back.List) == 2 {
			judge("api.AccountBlockList.List[0]", &back.List[0].AccountBlock, nil)
			if p := back.List[1].PairedAccountBlock; p != nil {
				judge("api.AccountBlockList.List[1].PairedAccountBlock", &p.AccountBlock, nil)
			}
		}
	})
}

// codecJsonMomentum takes a momentum (with account blocks) through every JSON entry point.
func codecJsonMomentum(c *Ctx, m *nom.Momentum, blocks []*nom.AccountBlock, origin string) {
	wantHash := m.ComputeHash()
	var wantBytes []byte
	func() {
		defer func() { recover() }()
		wantBytes, _ = m.Serialize()
	}()
	judge := func(entry string, back *nom.Momentum, err error) {
		c.Hit("cj-momentum-entry")
		if err != nil || back == nil {
			c.Fail("json-entry-points: %s momentum does not survive %s: %v :: %s", origin, entry, err, short(momentumStr(m)))
			return
		}
		if d := cjDiffOf(m, back); len(d) > 0 {
			c.Fail("json-entry-points: %s momentum changes through %s in field(s) %s :: momentum %s", origin, entry, strings.Join(d, "; "), short(momentumStr(m)))
			return
		}
		if h := back.ComputeHash(); h != wantHash {
			c.Fail("json-entry-points: %s momentum hash changes through %s: %s -> %s :: %s", origin, entry, wantHash, h, short(momentumStr(m)))
			return
		}
		var got []byte
		func() {
			defer func() { recover() }()
			got, _ = back.Serialize()
		}()
		if wantBytes != nil && !bytes.Equal(got, wantBytes) {
			c.Fail("json-entry-points: %s momentum has other serialised bytes after %s (same hash %s) :: %s", origin, entry, wantHash, short(momentumStr(m)))
		}
	}
	whole := func(entry string, want, back interface{}) bool {
		if d := cjDiffOf(want, back); len(d) > 0 {
			c.Fail("json-entry-points: %s momentum with %d account block(s) changes through %s in field(s) %s :: momentum %s", origin, len(blocks), entry, strings.Join(d, "; "), short(momentumStr(m)))
			return false
		}
		return true
	}
	guard := func(entry string, f func()) {
		defer func() {
			if r := recover(); r != nil {
				c.Fail("json-entry-points: %s momentum: %s panics (%v) :: %s", origin, entry, r, short(momentumStr(m)))
			}
		}()
		f()
	}
	guard("nom json", func() {
		back := new(nom.Momentum)
		err := cjJsonBack(m, back)
		judge("nom.Momentum JSON", back, err)
	})
	var producer types.Address
	cjFill(c, reflect.ValueOf(&producer).Elem(), 0)
	guard("nom detailed", func() {
		dm := &nom.DetailedMomentum{Momentum: m, AccountBlocks: blocks}
		back := new(nom.DetailedMomentum)
		if err := cjJsonBack(dm, back); err != nil {
			judge("nom.DetailedMomentum JSON", nil, err)
			return
		}
		if whole("nom.DetailedMomentum JSON", dm, back) {
			judge("nom.DetailedMomentum JSON", back.Momentum, nil)
		}
	})
	guard("api momentum", func() {
		am := &api.Momentum{Momentum: m, Producer: producer}
		back := new(api.Momentum)
		if err := cjJsonBack(am, back); err != nil {
			judge("api.Momentum JSON", nil, err)
			return
		}
		if whole("api.Momentum JSON", am, back) {
			judge("api.Momentum JSON", back.Momentum, nil)
		}
		ml := &api.MomentumList{List: []*api.Momentum{am, am}, Count: 2 + c.R.Intn(100)}
		mlBack := new(api.MomentumList)
		if err := cjJsonBack(ml, mlBack); err != nil {
			judge("api.MomentumList JSON", nil, err)
			return
		}
		whole("api.MomentumList JSON", ml, mlBack)
	})
	guard("api detailed", func() {
		dm := &api.DetailedMomentum{Momentum: &api.Momentum{Momentum: m, Producer: producer}}
		for i, b := range blocks {
			dm.AccountBlocks = append(dm.AccountBlocks, cjWrap(c, b, blocks[(i+1)%len(blocks)]))
		}
		back := new(api.DetailedMomentum)
		if err := cjJsonBack(dm, back); err != nil {
			judge("api.DetailedMomentum JSON", nil, err)
			return
		}
		if !whole("api.DetailedMomentum JSON", dm, back) {
			return
		}
		judge("api.DetailedMomentum JSON", back.Momentum.Momentum, nil)
		for i, b := range blocks {
			if !amountOK(b) {
				continue
			}
			if got, want := cjSerialize(&back.AccountBlocks[i].AccountBlock), cjSerialize(b); want != nil && !bytes.Equal(got, want) {
				c.Fail("json-entry-points: %s block %d of an api.DetailedMomentum has other serialised bytes after the JSON round trip :: %s", origin, i, short(blockStr(b)))
			}
		}
		l := &api.DetailedMomentumList{List: []*api.DetailedMomentum{dm}, Count: 1 + c.R.Intn(50)}
		lBack := new(api.DetailedMomentumList)
		if err := cjJsonBack(l, lBack); err != nil {
			judge("api.DetailedMomentumList JSON", nil, err)
			return
		}
		whole("api.DetailedMomentumList JSON", l, lBack)
	})
}

// cjFilled is the block with every zero field filled (descendants too).
func cjFilled(c *Ctx, b *nom.AccountBlock) *nom.AccountBlock {
	f := b.Copy()
	cjFill(c, reflect.ValueOf(f), 2)
	if c.R.Intn(2) == 0 {
		for _, d := range f.DescendantBlocks {
			d.Hash = safeABHash(d)
		}
		f.Hash = safeABHash(f)
	}
	return f
}

func cjAllFieldsSet(v reflect.Value) (zero []string) {
	v = reflect.Indirect(v)
	for i := 0; i < v.NumField(); i++ {
		f := v.Type().Field(i)
		if f.PkgPath != "" || f.Tag.Get("json") == "-" {
			continue
		}
		if v.Field(i).IsZero() || (v.Field(i).Kind() == reflect.Slice && v.Field(i).Len() == 0) {
			zero = append(zero, f.Name)
		}
	}
	return
}

func codecJsonCase(c *Ctx, b *nom.AccountBlock) {
	codecJsonBlock(c, b, "generated")
	f := cjFilled(c, b)
	if z := cjAllFieldsSet(reflect.ValueOf(f)); len(z) > 0 {
		c.Hit("cj-filled-block-has-zero-field:" + strings.Join(z, ","))
	} else {
		c.Hit("cj-filled-block-every-field-non-zero")
	}
	if amountOK(f) {
		codecJsonBlock(c, f, "every-field-non-zero")
	}
}

func codecJsonMomentumCase(c *Ctx, m *nom.Momentum, blocks []*nom.AccountBlock) {
	var ok []*nom.AccountBlock
	for _, b := range blocks {
		if amountOK(b) {
			ok = append(ok, b)
		}
	}
	codecJsonMomentum(c, m, ok, "generated")
	f := *m
	f.Timestamp = nil
	cjFill(c, reflect.ValueOf(&f), 1)
	for _, h := range f.Content {
		if h == nil {
			return
		}
	}
	if c.R.Intn(2) == 0 {
		f.Hash = safeMomHash(&f)
	}
	var fb []*nom.AccountBlock
	for _, b := range ok {
		fb = append(fb, cjFilled(c, b))
	}
	if len(fb) == 0 {
		fb = append(fb, cjFilled(c, &nom.AccountBlock{}))
	}
	if z := cjAllFieldsSet(reflect.ValueOf(&f)); len(z) > 0 {
		c.Hit("cj-filled-momentum-has-zero-field:" + strings.Join(z, ","))
	} else {
		c.Hit("cj-filled-momentum-every-field-non-zero")
	}
	codecJsonMomentum(c, &f, fb, "every-field-non-zero")
}

// ---- on a real node ---------------------------------------------------------------------------------------

func codecPublishNode(c *Ctx) {
	if c.Args["publish-node"] == "off" {
		return
	}
	n := NewNode() // os.Stdout is /dev/null for the whole codec stream
	defer n.Stop()
	silence()
	ledger := api.NewLedgerApi(n.Z)
	users := []*struct {
		addr types.Address
	}{{g.User1.Address}, {g.User2.Address}, {g.User3.Address}, {g.User4.Address}}
	type published struct {
		hash  types.Hash
		addr  types.Address
		bytes []byte
		what  string
	}
	var pub []published
	atNode := func(what string, p published, held *nom.AccountBlock) {
		if held == nil {
			c.Fail("json-publish-node: %s (%s/%s) published through the JSON parameter of ledger.publishRawTransaction is not held by the node %s", p.what, addrName(p.addr), hx(p.hash[:6]), what)
			return
		}
		got := cjSerialize(held)
		if !bytes.Equal(got, p.bytes) {
			orig, _ := nom.DeserializeAccountBlock(p.bytes)
			d := []string{"?"}
			if orig != nil {
				d = cjDiffOf(orig, held)
			}
			c.Fail("json-publish-node: %s (%s/%s) published through the JSON parameter of ledger.publishRawTransaction is held %s with other bytes than the client serialised (same hash): field(s) %s :: client bytes %s :: node bytes %s",
				p.what, addrName(p.addr), hx(p.hash[:6]), what, strings.Join(d, "; "), short(hx(p.bytes)), short(hx(got)))
			return
		}
		c.Hit("cj-published-block-bytes-compared")
	}
	for round := 0; round < 3; round++ {
		for i, u := range users {
			var tpl *nom.AccountBlock
			what := ""
			switch (round + i) % 4 {
			case 0:
				tpl = &nom.AccountBlock{BlockType: nom.BlockTypeUserSend, Address: u.addr, ToAddress: users[(i+1)%len(users)].addr, TokenStandard: types.ZnnTokenStandard, Amount: big.NewInt(int64(1 + c.R.Intn(100000)))}
				what = "user transfer"
			case 1:
				tpl = &nom.AccountBlock{BlockType: nom.BlockTypeUserSend, Address: u.addr, ToAddress: types.PlasmaContract, TokenStandard: types.QsrTokenStandard, Amount: big.NewInt(int64(10+c.R.Intn(20)) * g.Zexp),
					Data: definition.ABIPlasma.PackMethodPanic(definition.FuseMethodName, users[(i+2)%len(users)].addr)}
				what = "call of the plasma contract (fuse)"
			case 2:
				tpl = &nom.AccountBlock{BlockType: nom.BlockTypeUserSend, Address: u.addr, ToAddress: users[(i+3)%len(users)].addr, TokenStandard: types.QsrTokenStandard, Amount: big.NewInt(int64(1 + c.R.Intn(100000))), Data: cRandBytes(c, 1+c.R.Intn(60))}
				what = "user transfer with data"
			default:
				// receive something that was sent to this account, if there is anything
				var from types.Hash
				safely(func() {
					l, err := ledger.GetUnreceivedBlocksByAddress(u.addr, 0, 5)
					if err == nil && l != nil && len(l.List) > 0 {
						from = l.List[0].Hash
					}
				})
				if from.IsZero() {
					continue
				}
				tpl = &nom.AccountBlock{BlockType: nom.BlockTypeUserReceive, Address: u.addr, FromBlockHash: from}
				what = "user receive"
			}
			kp := keyOf(u.addr)
			var blk *nom.AccountBlock
			if p := safely(func() {
				tx, err := n.Sup.GenerateFromTemplate(tpl, kp.Signer)
				if err == nil && tx != nil {
					blk = tx.Block
				}
			}); p != "" || blk == nil {
				c.Hit("cj-publish-template-refused")
				continue
			}
			if !blk.ChangesHash.IsZero() {
				c.Hit("cj-published-block-with-changes-hash")
			}
			// the client: serialises what it signed, sends it as JSON
			clientBytes := cjSerialize(blk)
			text, err := json.Marshal(&api.AccountBlock{AccountBlock: *blk.Copy()})
			if err != nil || clientBytes == nil {
				c.Fail("json-publish-node: %s cannot be encoded: %v", what, err)
				continue
			}
			// the server: decodes the parameter as the RPC does and calls the method
			param := new(api.AccountBlock)
			if err := json.Unmarshal(text, param); err != nil {
				c.Fail("json-publish-node: the RPC's decoder refuses the JSON of a %s the node itself completed: %v", what, err)
				continue
			}
			var perr error
			if p := safely(func() { perr = ledger.PublishRawTransaction(param) }); p != "" {
				perr = fmt.Errorf("panic: %s", firstLine(p))
			}
			silence()
			p := published{hash: blk.Hash, addr: u.addr, bytes: clientBytes, what: what}
			var held *nom.AccountBlock
			safely(func() { held, _ = n.Chain().GetFrontierAccountStore(u.addr).ByHash(blk.Hash) })
			if perr != nil || held == nil {
				c.Fail("json-publish-node: a %s (%s/%s) that the node's own template path completed is not accepted after it travelled as JSON through ledger.publishRawTransaction: err=%v held=%v", what, addrName(u.addr), hx(blk.Hash[:6]), perr, held != nil)
				continue
			}
			atNode("in the unconfirmed pool", p, held)
			pub = append(pub, p)
			c.Hit("cj-published")
		}
		// every unconfirmed block of the node (the published ones, contract receives with descendants): through the JSON entry points
		safely(func() {
			for _, b := range n.Chain().GetAllUncommittedAccountBlocks() {
				codecJsonBlock(c, b, "pooled-on-a-node")
				c.Hit("cj-node-block")
			}
		})
		dm, err := n.Momentum()
		if err != nil || dm == nil {
			c.Hit("cj-publish-no-momentum")
			return
		}
		silence()
		codecJsonMomentum(c, dm.Momentum, dm.AccountBlocks, "produced-by-a-node")
		for _, b := range dm.AccountBlocks {
			codecJsonBlock(c, b, "confirmed-on-a-node")
			c.Hit("cj-node-block")
			if len(b.DescendantBlocks) > 0 {
				c.Hit("cj-node-block-with-descendants")
			}
			if !b.ChangesHash.IsZero() {
				c.Hit("cj-node-block-with-changes-hash")
			}
		}
		st := n.Chain().GetFrontierMomentumStore()
		for _, p := range pub {
			var held *nom.AccountBlock
			safely(func() { held, _ = st.GetAccountBlockByHash(p.hash) })
			if held == nil {
				// not confirmed yet (momentum limit): still pooled
				safely(func() { held, _ = n.Chain().GetFrontierAccountStore(p.addr).ByHash(p.hash) })
			}
			atNode(fmt.Sprintf("after momentum %d", dm.Momentum.Height), p, held)
		}
	}
	c.Hit("cj-publish-node")
}
