package main

import (
	"github.com/zenon-network/go-zenon/chain"
	"github.com/zenon-network/go-zenon/common/db"
	"github.com/zenon-network/go-zenon/rpc/api"
	"github.com/zenon-network/go-zenon/vm/constants"
)

func init() {
	factGens = append(factGens, func(repo string) (*factFile, error) {
		f := newFactFile("Consts")
		f.raw("-- vm/constants/plasma.go\n")
		f.nat("AccountBlockBasePlasma", uint64(constants.AccountBlockBasePlasma))
		f.nat("ABByteDataPlasma", uint64(constants.ABByteDataPlasma))
		f.nat("EmbeddedSimplePlasma", uint64(constants.EmbeddedSimplePlasma))
		f.nat("EmbeddedWResponse", uint64(constants.EmbeddedWResponse))
		f.nat("EmbeddedWDoubleResponse", uint64(constants.EmbeddedWDoubleResponse))
		f.nat("PlasmaPerFusionUnit", uint64(constants.PlasmaPerFusionUnit))
		f.nat("CostPerFusionUnit", uint64(constants.CostPerFusionUnit))
		f.nat("PoWDifficultyPerPlasma", uint64(constants.PoWDifficultyPerPlasma))
		f.nat("MaxDataLength", uint64(constants.MaxDataLength))
		f.nat("MaxPlasmaForAccountBlock", uint64(constants.MaxPlasmaForAccountBlock))
		f.nat("MaxPoWPlasmaForAccountBlock", uint64(constants.MaxPoWPlasmaForAccountBlock))
		f.nat("MaxDifficultyForAccountBlock", uint64(constants.MaxDifficultyForAccountBlock))
		f.nat("MaxFusionPlasmaForAccount", uint64(constants.MaxFusionPlasmaForAccount))
		f.nat("MaxFussedAmountForAccount", uint64(constants.MaxFussedAmountForAccount))
		f.nat("MaxFussedAmountForAccountBig", constants.MaxFussedAmountForAccountBig.String())
		f.raw("-- AlphanetPlasmaTable\n")
		f.nat("PT_TxPlasma", constants.AlphanetPlasmaTable.TxPlasma)
		f.nat("PT_TxDataPlasma", constants.AlphanetPlasmaTable.TxDataPlasma)
		f.nat("PT_EmbeddedSimple", constants.AlphanetPlasmaTable.EmbeddedSimple)
		f.nat("PT_EmbeddedWWithdraw", constants.AlphanetPlasmaTable.EmbeddedWWithdraw)
		f.nat("PT_EmbeddedWDoubleWithdraw", constants.AlphanetPlasmaTable.EmbeddedWDoubleWithdraw)
		f.raw("-- rpc/api/utils.go\n")
		f.nat("RpcMaxPageSize", uint64(api.RpcMaxPageSize))
		f.nat("RpcMaxCountSize", uint64(api.RpcMaxCountSize))
		f.raw("-- chain/account_pool.go\n")
		f.nat("MaxAccountBlocksInMomentum", uint64(chain.MaxAccountBlocksInMomentum))
		f.raw("-- common/db/versioned_db.go, keys.go\n")
		l1, l2, md := db.CacheConstantsVerif()
		f.nat("l1CacheSize", l1)
		f.nat("l2CacheSize", l2)
		f.nat("maximumCacheHeightDifference", md)
		fr, pa, rb, fi, hh, eh := db.KeyPrefixesVerif()
		toN := func(b []byte) []uint64 {
			r := make([]uint64, len(b))
			for i := range b {
				r[i] = uint64(b[i])
			}
			return r
		}
		f.natList("frontierByte", toN(fr))
		f.natList("patchByte", toN(pa))
		f.natList("rollbackByte", toN(rb))
		f.natList("frontierIdentifierKey", toN(fi))
		f.natList("heightByHashPrefix", toN(hh))
		f.natList("entryByHeightPrefix", toN(eh))
		return f, nil
	})
}
