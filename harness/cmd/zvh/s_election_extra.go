package main

import (
	"fmt"
	"math/big"
	"math/rand"
	"os"
	"sort"
	"strings"
	"sync"
	"sync/atomic"
	"time"
	"unicode/utf8"

	"github.com/zenon-network/go-zenon/common/db"
	"github.com/zenon-network/go-zenon/common/types"
	"github.com/zenon-network/go-zenon/consensus/storage"
)

// ---------------------------------------------------------------------------------------------------
// Two families added to the election stream (C05, "every node — live, from its cache, after a restart — derives the
// same list"; "the schedule is a pure function of the ledger as of the proof momentum"):
//
//  1. process-wide state: every election of the stream is repeated while other goroutines draw from (and re-seed) the
//     process-wide math/rand generator, as the p2p / fetcher / discovery goroutines of a live node do. The schedule
//     must be the one computed when nothing else runs (which is the one the Lean model is compared with).
//
//  2. persistence: every elected schedule is persisted exactly as consensus/election.go does
//     (storage.GenElectionData -> storage.DB.StoreElectionResultByHash) into a leveldb-backed consensus database with a
//     two-entry LRU, and read back (a) through Marshal/Unmarshal alone, (b) through a second storage.DB over the same
//     database (what a restarted node sees: LRU empty), (c) through the storing instance after its LRU has moved on,
//     (d) after the leveldb directory has been closed and re-opened. The same for generated storage.Point values
//     (period / epoch statistics). What is read must be what was stored.
// ---------------------------------------------------------------------------------------------------

// randNoise: goroutines that hammer the process-wide math/rand generator while enabled.
type randNoise struct {
	on    atomic.Bool
	stop  atomic.Bool
	draws atomic.Uint64
	wg    sync.WaitGroup
}

func startRandNoise(k int) *randNoise {
	h := &randNoise{}
	for g := 0; g < k; g++ {
		h.wg.Add(1)
		go func(g int) {
			defer h.wg.Done()
			for i := int64(1); !h.stop.Load(); i++ {
				if !h.on.Load() {
					time.Sleep(100 * time.Microsecond)
					continue
				}
				rand.Int63()
				rand.Intn(1000)
				if i%37 == 0 {
					rand.Seed(i*7919 + int64(g)) //nolint: the point is to disturb whoever relies on the global generator
				}
				h.draws.Add(1)
			}
		}(g)
	}
	return h
}

// enable switches the noise on and returns once the goroutines are really drawing.
func (h *randNoise) enable() {
	before := h.draws.Load()
	h.on.Store(true)
	for i := 0; i < 20000 && h.draws.Load() < before+64; i++ {
		time.Sleep(50 * time.Microsecond)
	}
}
func (h *randNoise) disable() {
	h.on.Store(false)
	time.Sleep(400 * time.Microsecond) // a draw in flight finishes
}
func (h *randNoise) close() {
	h.stop.Store(true)
	h.wg.Wait()
}

// withRandNoise runs f while the process-wide generator is being disturbed.
func withRandNoise(f func(h *randNoise)) {
	h := startRandNoise(3)
	h.enable()
	defer h.close()
	f(h)
}

type electRec struct {
	nodeCount, randCount uint8
	height               uint64
	in                   []pdIn
	quiet                string
}

type storedElection struct {
	hash      types.Hash
	producers string
	delegs    string
	what      string
}
type storedPoint struct {
	prefix byte
	height uint64
	text   string
}

type electExtra struct {
	c        *Ctx
	recs     []electRec
	dir      string
	ldbClose func()
	raw      db.DB
	sdb      *storage.DB // the storing instance: LRU of two entries
	stored   []storedElection
	recent   []storedElection
	points   []storedPoint
	seq      int
	failures int // reported persistence failures (the first few are enough)
}

var elx *electExtra

func newElectExtra(c *Ctx) *electExtra {
	dir, err := os.MkdirTemp("", "zvcsdb")
	if err != nil {
		panic(err)
	}
	x := &electExtra{c: c, dir: dir}
	x.open()
	return x
}

func (x *electExtra) open() {
	raw, ldb := db.NewLevelDB(x.dir)
	x.raw = raw
	x.ldbClose = func() { ldb.Close() }
	x.sdb = storage.NewConsensusDB(raw, 2, 2)
}

func (x *electExtra) cleanup() {
	if x.ldbClose != nil {
		x.ldbClose()
	}
	os.RemoveAll(x.dir)
}

// slotsText renders a schedule compactly: every producer as #i = the index of its delegation in the input
func slotsText(ps []types.Address, delegs []*types.PillarDelegation) string {
	ss := make([]string, len(ps))
	for i, p := range ps {
		ss[i] = "?" + hx(p[:4])
		for k, d := range delegs {
			if d.Producing == p {
				ss[i] = fmt.Sprintf("#%d", k)
				break
			}
		}
	}
	return "[" + strings.Join(ss, " ") + "]"
}

func producersText(ps []types.Address) string {
	ss := make([]string, len(ps))
	for i, p := range ps {
		ss[i] = hx(p[:])
	}
	return fmt.Sprintf("%d[%s]", len(ps), strings.Join(ss, ","))
}
func delegsText(ds []*types.PillarDelegation) string {
	ss := make([]string, len(ds))
	for i, d := range ds {
		ss[i] = fmt.Sprintf("%q/%s/%s", d.Name, hx(d.Producing[:]), d.Weight)
	}
	return fmt.Sprintf("%d[%s]", len(ds), strings.Join(ss, " "))
}
func pointText(p *storage.Point) string {
	if p == nil {
		return "<nil>"
	}
	names := make([]string, 0, len(p.Pillars))
	for k := range p.Pillars {
		names = append(names, k)
	}
	sort.Strings(names)
	ss := make([]string, len(names))
	for i, k := range names {
		d := p.Pillars[k]
		ss[i] = fmt.Sprintf("%q:%d/%d/%s", k, d.ExpectedNum, d.FactualNum, d.Weight)
	}
	return fmt.Sprintf("prev=%s end=%s total=%s pillars=%d[%s]", hx(p.PrevHash[:]), hx(p.EndHash[:]), p.TotalWeight, len(names), strings.Join(ss, " "))
}

// firstProducerDiff names the first slot in which two producer lists differ
func firstDiff(a, b string) string {
	i := 0
	for i < len(a) && i < len(b) && a[i] == b[i] {
		i++
	}
	lo := i - 30
	if lo < 0 {
		lo = 0
	}
	cut := func(s string) string {
		hi := i + 60
		if hi > len(s) {
			hi = len(s)
		}
		if lo > len(s) {
			return ""
		}
		return s[lo:hi]
	}
	return fmt.Sprintf("first difference at character %d: stored …%s… read …%s…", i, cut(a), cut(b))
}

func persistable(ds []*types.PillarDelegation) bool {
	for _, d := range ds {
		if !utf8.ValidString(d.Name) || d.Weight.Sign() < 0 { // proto3 strings are UTF-8; pillar names are [a-zA-Z0-9._-], weights are balances
			return false
		}
	}
	return true
}

// checkElection persists one election result the way election.go does and reads it back over every path.
func (x *electExtra) checkElection(what string, producers []types.Address, delegs []*types.PillarDelegation) {
	c := x.c
	if !persistable(delegs) {
		c.Hit("persist-skipped-not-a-ledger-value")
		return
	}
	x.seq++
	csElection(c, producers, delegs) // cs-* lines: the same value through the Lean model of the store (s_consstore.go)
	ed := storage.GenElectionData(producers, delegs)
	wantP, wantD := producersText(producers), delegsText(delegs)
	distinct := map[types.Address]bool{}
	for _, p := range producers {
		distinct[p] = true
	}
	switch {
	case len(producers) == 0:
		c.Hit("persist-empty-schedule")
	case len(distinct) >= 2:
		c.Hit("persist-schedule-with-2+-producers")
	default:
		c.Hit("persist-schedule-with-1-producer")
	}
	compare := func(path string, got *storage.ElectionData, err error) {
		if x.failures >= 3 {
			return
		}
		if err != nil || got == nil {
			x.failures++
			c.Fail("election persistence (%s): the stored election of %s cannot be read back: %v (nil=%v)", path, what, err, got == nil)
			return
		}
		if gp := producersText(got.Producers); gp != wantP {
			x.failures++
			nd := 0
			for i := range producers {
				if i >= len(got.Producers) || got.Producers[i] != producers[i] {
					nd++
				}
			}
			c.Fail("election persistence (%s): the schedule elected for %s (#i = i-th delegation) was stored as %s and is read back as %s: %d of %d slots name another pillar", path, what, slotsText(producers, delegs), slotsText(got.Producers, delegs), nd, len(producers))
		}
		if gd := delegsText(got.Delegations); gd != wantD {
			x.failures++
			c.Fail("election persistence (%s): the delegations of %s were stored as %s and are read back as %s; %s", path, what, wantD, gd, firstDiff(wantD, gd))
		}
	}
	// (a) Marshal -> Unmarshal
	var buf []byte
	var err error
	if p := safely(func() { buf, err = ed.Marshal() }); p != "" || err != nil {
		c.Fail("election persistence: ElectionData.Marshal fails for %s: %v %s", what, err, p)
		return
	}
	back := &storage.ElectionData{}
	var uerr error
	if p := safely(func() { uerr = back.Unmarshal(buf) }); p != "" {
		uerr = fmt.Errorf("panic: %s", p)
	}
	compare("Marshal/Unmarshal", back, uerr)
	// the in-memory value handed to Marshal is not altered by it
	if producersText(ed.Producers) != wantP || delegsText(ed.Delegations) != wantD {
		c.Fail("election persistence: Marshal altered the election of %s it was given", what)
	}
	// (b) the real store call, then a second storage.DB over the same database (= the node after a restart: empty LRU)
	var h types.Hash
	h = types.NewHash([]byte(fmt.Sprintf("election %d %d", c.Seed, x.seq)))
	if err := x.sdb.StoreElectionResultByHash(h, ed); err != nil {
		c.Fail("election persistence: StoreElectionResultByHash fails for %s: %v", what, err)
		return
	}
	live, lerr := x.sdb.GetElectionResultByHash(h)
	compare("same instance, from its LRU", live, lerr)
	restarted := storage.NewConsensusDB(x.raw, 2, 2)
	got, gerr := restarted.GetElectionResultByHash(h)
	compare("second instance on the same database, LRU empty", got, gerr)
	got2, gerr2 := restarted.GetElectionResultByHash(h) // now from that instance's LRU
	compare("second instance, second read", got2, gerr2)
	if len(x.stored) < 3000 { // re-read after the directory is re-opened (a bounded sample in long runs)
		x.stored = append(x.stored, storedElection{h, wantP, wantD, what})
	}
	x.recent = append(x.recent, storedElection{h, wantP, wantD, what})
	if len(x.recent) > 4 {
		x.recent = x.recent[1:]
	}
	// (c) the storing instance after its two-entry LRU has moved on
	if len(x.recent) == 4 {
		old := x.recent[0]
		g, e := x.sdb.GetElectionResultByHash(old.hash)
		if x.failures >= 3 {
		} else if e != nil || g == nil {
			x.failures++
			c.Fail("election persistence (storing instance, entry evicted from the LRU): election of %s cannot be read back: %v", old.what, e)
		} else if producersText(g.Producers) != old.producers || delegsText(g.Delegations) != old.delegs {
			x.failures++
			c.Fail("election persistence (storing instance, entry evicted from the LRU): the schedule of %s was stored as producers %s and is read back as %s; %s", old.what, old.producers, producersText(g.Producers), firstDiff(old.producers, producersText(g.Producers)))
		}
		c.Hit("persist-read-after-eviction")
	}
	// an unknown key is absent, not an error
	var unk types.Hash
	c.R.Read(unk[:])
	if g, e := restarted.GetElectionResultByHash(unk); g != nil || e != nil {
		c.Fail("election persistence: GetElectionResultByHash of a hash never stored returns (%v, %v)", g, e)
	}
	c.Hit("persist-election")
}

func (x *electExtra) genPoint() *storage.Point {
	c := x.c
	p := &storage.Point{Pillars: map[string]*storage.ProducerDetail{}, TotalWeight: big.NewInt(0)}
	switch c.R.Intn(4) {
	case 0: // empty point: PrevHash == EndHash
		c.R.Read(p.PrevHash[:])
		p.EndHash = p.PrevHash
	case 1: // genesis side: zero previous hash
		c.R.Read(p.EndHash[:])
	default:
		c.R.Read(p.PrevHash[:])
		c.R.Read(p.EndHash[:])
	}
	k := []int{0, 1, 2, 3, 30, 45, 90, 300}[c.R.Intn(8)]
	names := []string{}
	if k > 0 {
		base := k
		if base > 30 {
			base = 30 // genNames draws distinct names from small pools
		}
		for _, s := range genNames(c, base) {
			if utf8.ValidString(s) {
				names = append(names, s)
			}
		}
		for i := len(names); i < k; i++ {
			names = append(names, fmt.Sprintf("Pillar-nr-%d", i))
		}
	}
	for _, s := range names {
		d := &storage.ProducerDetail{Weight: big.NewInt(0)}
		switch c.R.Intn(5) {
		case 0:
		case 1:
			d.ExpectedNum, d.FactualNum = 1<<32-1, 1<<32-1
		case 2:
			d.ExpectedNum, d.FactualNum = uint32(c.R.Intn(3)), 0
		default:
			d.ExpectedNum, d.FactualNum = uint32(c.R.Intn(9000)), uint32(c.R.Intn(9000))
		}
		switch c.R.Intn(4) {
		case 0:
		case 1:
			d.Weight = new(big.Int).Lsh(big.NewInt(int64(1+c.R.Intn(255))), uint(c.R.Intn(200)))
		default:
			d.Weight = new(big.Int).Mul(big.NewInt(int64(c.R.Intn(3000000))), big.NewInt(100000000))
		}
		p.Pillars[s] = d
		p.TotalWeight.Add(p.TotalWeight, d.Weight)
	}
	return p
}

func (x *electExtra) checkPoint() {
	c := x.c
	p := x.genPoint()
	want := pointText(p)
	prefix := byte(c.R.Intn(storage.NumPointTypes))
	height := []uint64{0, 1, 2, uint64(c.R.Intn(5000)), 1<<32 - 1, 1 << 32, 1<<63 - 1, 1 << 63, 1<<64 - 1, c.R.Uint64()}[c.R.Intn(10)]
	if x.hasPoint(prefix, height) { // one value per key
		height = uint64(len(x.points)) + 100000
	}
	if len(x.points) >= 3000 {
		return // long runs: the first 3000 points are kept for the re-open check
	}
	compare := func(path string, got *storage.Point, err error) {
		if x.failures >= 3 {
			return
		}
		if err != nil || got == nil {
			x.failures++
			c.Fail("point persistence (%s): point %d/%d cannot be read back: %v", path, prefix, height, err)
			return
		}
		if g := pointText(got); g != want {
			x.failures++
			c.Fail("point persistence (%s): point %d/%d was stored as %s and is read back as %s; %s", path, prefix, height, want, g, firstDiff(want, g))
		}
	}
	csPoint(c, p, prefix, height) // cs-* lines (s_consstore.go)
	var buf []byte
	var err error
	if pn := safely(func() { buf, err = p.Marshal() }); pn != "" || err != nil {
		c.Fail("point persistence: Point.Marshal fails for %s: %v %s", want, err, pn)
		return
	}
	back := &storage.Point{}
	var uerr error
	if pn := safely(func() { uerr = back.Unmarshal(buf) }); pn != "" {
		uerr = fmt.Errorf("panic: %s", pn)
	}
	compare("Marshal/Unmarshal", back, uerr)
	if pointText(p) != want {
		c.Fail("point persistence: Marshal altered the point it was given")
	}
	if err := x.sdb.StorePointByHeight(prefix, height, p); err != nil {
		c.Fail("point persistence: StorePointByHeight(%d,%d): %v", prefix, height, err)
		return
	}
	restarted := storage.NewConsensusDB(x.raw, 2, 2)
	got, gerr := restarted.GetPointByHeight(prefix, height)
	compare("second instance on the same database, LRU empty", got, gerr)
	// the other point type at the same height is a different key
	if g, e := restarted.GetPointByHeight(1-prefix, height); e != nil || (g != nil && !x.hasPoint(1-prefix, height)) {
		c.Fail("point persistence: GetPointByHeight(%d,%d) returns (%v,%v) although only the point of type %d was stored at that height", 1-prefix, height, g, e, prefix)
	}
	x.points = append(x.points, storedPoint{prefix, height, want})
	if k := len(x.points) - 4; k >= 0 && len(x.points) < 3000 {
		old := x.points[k]
		g, e := x.sdb.GetPointByHeight(old.prefix, old.height)
		if e != nil || g == nil || pointText(g) != old.text {
			c.Fail("point persistence (storing instance, entry evicted from the LRU): point %d/%d was stored as %s and is read back as %s (err %v)", old.prefix, old.height, old.text, pointText(g), e)
		}
	}
	c.Hit("persist-point")
}

func (x *electExtra) hasPoint(prefix byte, height uint64) bool {
	for _, sp := range x.points {
		if sp.prefix == prefix && sp.height == height {
			return true
		}
	}
	return false
}

// reopen closes the leveldb directory and opens it again (process restart) and reads everything back.
func (x *electExtra) reopenAndVerify() {
	c := x.c
	x.ldbClose()
	x.ldbClose = nil
	if p := safely(func() { x.open() }); p != "" {
		c.Fail("election persistence: the consensus database cannot be re-opened: %s", p)
		return
	}
	for _, s := range x.stored {
		if x.failures >= 3 {
			break
		}
		g, e := x.sdb.GetElectionResultByHash(s.hash)
		if e != nil || g == nil {
			c.Fail("election persistence (database closed and re-opened): election of %s cannot be read back: %v", s.what, e)
			return
		}
		if gp := producersText(g.Producers); gp != s.producers {
			x.failures++
			c.Fail("election persistence (database closed and re-opened): the schedule of %s was stored as producers %s and is read back as %s; %s", s.what, s.producers, gp, firstDiff(s.producers, gp))
			return
		}
		if gd := delegsText(g.Delegations); gd != s.delegs {
			c.Fail("election persistence (database closed and re-opened): the delegations of %s were stored as %s and are read back as %s", s.what, s.delegs, gd)
			return
		}
		c.Hit("persist-reopen-election")
	}
	for _, s := range x.points {
		g, e := x.sdb.GetPointByHeight(s.prefix, s.height)
		if e != nil || g == nil || pointText(g) != s.text {
			c.Fail("point persistence (database closed and re-opened): point %d/%d was stored as %s and is read back as %s (err %v)", s.prefix, s.height, s.text, pointText(g), e)
			return
		}
		c.Hit("persist-reopen-point")
	}
}

// noisyRerun repeats every recorded election while the process-wide generator is disturbed.
func (x *electExtra) noisyRerun() {
	c := x.c
	withRandNoise(func(h *randNoise) {
		type failure struct {
			r   electRec
			res []*types.PillarDelegation
		}
		var failed []failure
		for _, r := range x.recs {
			res, st := runElect(r.nodeCount, r.randCount, r.height, mkDelegs(r.in), false)
			got := st
			if st == "ok" {
				got = "ok " + fmtElected(res)
			}
			c.Hit("elect-under-global-rand-noise")
			if got != r.quiet {
				failed = append(failed, failure{r, res})
			}
		}
		if len(failed) == 0 {
			return
		}
		// the smallest inputs first
		sort.SliceStable(failed, func(i, j int) bool { return len(failed[i].r.in) < len(failed[j].r.in) })
		h.disable()
		addrs := func(l []*types.PillarDelegation) []types.Address {
			out := make([]types.Address, len(l))
			for i, d := range l {
				out[i] = d.Producing
			}
			return out
		}
		for k, f := range failed {
			if k >= 3 {
				break
			}
			r := f.r
			ds := mkDelegs(r.in)
			quietRes, _ := runElect(r.nodeCount, r.randCount, r.height, mkDelegs(r.in), false)
			c.Fail("election: SelectProducers(nodeCount=%d randCount=%d height=%d delegations=%s) elects (#i = i-th delegation) %s while other goroutines draw from the process-wide math/rand generator, and %s when nothing else runs (the list the model is compared with): the schedule is not a function of (delegations, proof height)",
				r.nodeCount, r.randCount, r.height, describe(r.in), slotsText(addrs(f.res), ds), slotsText(addrs(quietRes), ds))
		}
		c.Fail("election: %d of %d elections differ while other goroutines draw from the process-wide math/rand generator", len(failed), len(x.recs))
	})
}
