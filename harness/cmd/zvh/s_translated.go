package main

import (
	"encoding/binary"
	"encoding/hex"
	"fmt"
	"math"
	"math/big"

	"github.com/zenon-network/go-zenon/chain"
	"github.com/zenon-network/go-zenon/chain/nom"
	"github.com/zenon-network/go-zenon/pow"
	"github.com/zenon-network/go-zenon/common/types"
	"github.com/zenon-network/go-zenon/rpc/api"
	apiembedded "github.com/zenon-network/go-zenon/rpc/api/embedded"
	"github.com/zenon-network/go-zenon/vm"
	"github.com/zenon-network/go-zenon/vm/constants"
	"github.com/zenon-network/go-zenon/vm/embedded/definition"
	"github.com/zenon-network/go-zenon/vm/embedded/implementation"
)

// Stream `translated` (DESIGN.md §2 L12): the REAL Go functions whose text `zvh facts` translates into
// Gen/Translated.lean, on random + boundary inputs. The driver answers every line with the translated definition AND the
// hand-written model (both must agree with the observation). Model-free monitors evaluate the property clause the
// function serves directly on the real result, so a behaviour-changing edit that breaks a theorem of Props/Translated.lean
// also yields a concrete failing input here.

func trU64(c *Ctx) uint64 {
	b := []uint64{0, 1, 2, 3, 1499, 1500, 1501, 94499, 94500, 94501, 141749999, 141750000, 141750001, 1 << 31, 1<<32 - 1, 1 << 32, 1<<32 + 1,
		1<<63 - 1, 1 << 63, 1<<63 + 1, math.MaxUint64 - 1, math.MaxUint64, 100000000, 99999999, 500000000000, 499999999999}
	switch c.R.Intn(4) {
	case 0:
		return b[c.R.Intn(len(b))]
	case 1:
		return uint64(c.R.Intn(2000))
	case 2:
		return c.R.Uint64() >> uint(c.R.Intn(64))
	default:
		return c.R.Uint64()
	}
}
func trU32(c *Ctx) uint32 {
	b := []uint32{0, 1, 2, 10, 1023, 1024, 1025, 65535, 65536, 4194304, 1<<31 - 1, 1 << 31, math.MaxUint32 - 1, math.MaxUint32}
	switch c.R.Intn(3) {
	case 0:
		return b[c.R.Intn(len(b))]
	case 1:
		return uint32(c.R.Intn(3000))
	default:
		return c.R.Uint32() >> uint(c.R.Intn(32))
	}
}
func trI64(c *Ctx) int64 {
	b := []int64{0, 1, -1, 86400, 2592000, 1 << 40, math.MaxInt64, math.MinInt64, math.MaxInt64 - 1, math.MinInt64 + 1}
	switch c.R.Intn(3) {
	case 0:
		return b[c.R.Intn(len(b))]
	case 1:
		return 1700000000 + int64(c.R.Intn(200000)) - 100000
	default:
		return int64(c.R.Uint64()) >> uint(c.R.Intn(64))
	}
}

func trCall(f func() string) (res string) {
	defer func() {
		if r := recover(); r != nil {
			res = "panic"
		}
	}()
	return f()
}

func trPrioName(err error) string {
	switch err {
	case nil:
		return "ok"
	case chain.ErrPlasmaRatioIsWorse:
		return "ErrPlasmaRatioIsWorse"
	case chain.ErrHashTieBreak:
		return "ErrHashTieBreak"
	}
	return "other"
}

func init() {
	register("translated", func(c *Ctx) {
		for n := 0; n < c.N; n++ {
			switch n % 14 {
			case 0: // api.GetRange — C18: the slice lies inside the list and holds at most count elements
				i, cnt, l := trU32(c), trU32(c), trU32(c)
				s, e := api.GetRange(i, cnt, l)
				c.Emit("tr-getrange %d %d %d | %d %d", i, cnt, l, s, e)
				c.Hit("getrange")
				want := uint64(i) * uint64(cnt)
				if want > uint64(l) {
					want = uint64(l)
				}
				if s > e || e > l || uint64(e-s) > uint64(cnt) || uint64(s) != want {
					c.Fail(fmt.Sprintf("GetRange(%d,%d,%d) = (%d,%d): not the slice [min(i*c,n), min(i*c+c,n))", i, cnt, l, s, e))
				}
			case 1: // chain.higherPriority — C14: never both ways, never neither for different hashes
				a := &nom.AccountBlock{TotalPlasma: trU64(c), BasePlasma: trU64(c), Hash: randHash(c)}
				b := &nom.AccountBlock{TotalPlasma: trU64(c), BasePlasma: trU64(c), Hash: randHash(c)}
				if c.R.Intn(3) == 0 { // equal ratios: the hash decides
					b.TotalPlasma, b.BasePlasma = a.TotalPlasma, a.BasePlasma
				}
				ab := trCall(func() string { return trPrioName(chain.HigherPriorityVerif(a, b)) })
				ba := trCall(func() string { return trPrioName(chain.HigherPriorityVerif(b, a)) })
				c.Emit("tr-prio %d %d %s %d %d %s | %s", a.TotalPlasma, a.BasePlasma, hex.EncodeToString(a.Hash[:]), b.TotalPlasma, b.BasePlasma, hex.EncodeToString(b.Hash[:]), ab)
				c.Hit("prio-" + ab)
				if ab == "ok" && ba == "ok" {
					c.Fail(fmt.Sprintf("higherPriority holds both ways: a=(%d,%d,%x) b=(%d,%d,%x)", a.TotalPlasma, a.BasePlasma, a.Hash[:4], b.TotalPlasma, b.BasePlasma, b.Hash[:4]))
				}
				if ab != "ok" && ba != "ok" && a.Hash != b.Hash {
					c.Fail(fmt.Sprintf("higherPriority holds neither way for different hashes: a=(%d,%d,%x) b=(%d,%d,%x)", a.TotalPlasma, a.BasePlasma, a.Hash[:4], b.TotalPlasma, b.BasePlasma, b.Hash[:4]))
				}
			case 2: // vm.DifficultyToPlasma — C12: capped, monotone step of 1/PoWDifficultyPerPlasma
				d := trU64(c)
				v := vm.DifficultyToPlasma(d)
				c.Emit("tr-d2p %d | %d", d, v)
				c.Hit("d2p")
				want := d / 1500
				if want > 94500 {
					want = 94500
				}
				if v > constants.MaxPoWPlasmaForAccountBlock || v != want {
					c.Fail(fmt.Sprintf("DifficultyToPlasma(%d) = %d, the statement's min(d/1500, 94500) = %d", d, v, want))
				}
			case 3: // vm.GetDifficultyForPlasma
				p := trU64(c)
				v, err := vm.GetDifficultyForPlasma(p)
				if err != nil {
					c.Emit("tr-p2d %d | ErrForbiddenParam", p)
				} else {
					c.Emit("tr-p2d %d | %d", p, v)
					if vm.DifficultyToPlasma(v) != p {
						c.Fail(fmt.Sprintf("GetDifficultyForPlasma(%d) = %d does not buy %d plasma", p, v, p))
					}
				}
				c.Hit("p2d")
			case 4: // vm.FussedAmountToPlasma
				var a *big.Int
				switch c.R.Intn(6) {
				case 0:
				case 1:
					a = new(big.Int).Neg(new(big.Int).SetUint64(trU64(c)))
				case 2:
					a = new(big.Int).Lsh(new(big.Int).SetUint64(trU64(c)), uint(c.R.Intn(70)))
				default:
					a = new(big.Int).SetUint64(trU64(c) % 600000000000)
				}
				v := vm.FussedAmountToPlasma(a)
				if a == nil {
					c.Emit("tr-fused nil | %d", v)
				} else {
					c.Emit("tr-fused %s | %d", a, v)
				}
				c.Hit("fused")
				if v > constants.MaxFusionPlasmaForAccount {
					c.Fail(fmt.Sprintf("FussedAmountToPlasma(%v) = %d above the per-account maximum", a, v))
				}
			case 5: // pow.getTargetByDifficulty
				d := trU64(c)
				t := trCall(func() string { x := pow.TargetByDifficultyVerif(d); return hex.EncodeToString(x[:]) })
				c.Emit("tr-target %d | %s", d, t)
				c.Hit("target")
			case 6: // getWeightedStake
				r, s, st, en := trI64(c), trI64(c), trI64(c), trI64(c)
				if c.R.Intn(2) == 0 {
					r = 0
				}
				w := new(big.Int).SetUint64(trU64(c))
				v := trCall(func() string {
					return implementation.GetWeightedStakeVerif(&definition.StakeInfo{StartTime: s, RevokeTime: r, WeightedAmount: w}, st, en).String()
				})
				c.Emit("tr-wstake %d %d %s %d %d | %s", r, s, w, st, en, v)
				c.Hit("wstake")
			case 7: // getWeightedSentinel
				reg, r, st, en := trI64(c), trI64(c), trI64(c), trI64(c)
				if c.R.Intn(2) == 0 {
					r = 0
				}
				if c.R.Intn(2) == 0 {
					st = 1700000000
					en = st + 86400
					reg = st + int64(c.R.Intn(20000)) - 5000
				}
				v := trCall(func() string {
					return implementation.GetWeightedSentinelVerif(&definition.SentinelInfo{RegistrationTimestamp: reg, RevokeTimestamp: r}, st, en).String()
				})
				c.Emit("tr-wsent %d %d %d %d | %s", reg, r, st, en, v)
				c.Hit("wsent")
				if v != "0" && v != "1" {
					c.Fail(fmt.Sprintf("getWeightedSentinel(%d,%d,%d,%d) = %s, not 0 or 1", reg, r, st, en, v))
				}
			case 8: // getWeightedStakeAmount (translated definition only: no separate hand model)
				a := new(big.Int).SetUint64(trU64(c))
				t := trI64(c)
				if c.R.Intn(2) == 0 {
					t = constants.StakeTimeUnitSec * int64(c.R.Intn(14))
				}
				v := trCall(func() string { return implementation.GetWeightedStakeAmountVerif(a, t).String() })
				c.Emit("tr-wamount %s %d | %s", a, t, v)
				c.Hit("wamount")
			case 9: // pow.greaterDifficulty — C12: little-endian x ≥ y on 8 bytes; shorter slices panic
				x, y := make([]byte, 8), make([]byte, 8)
				c.R.Read(x)
				c.R.Read(y)
				switch c.R.Intn(6) {
				case 0: // equal
					copy(y, x)
				case 1: // equal above one byte
					copy(y, x)
					y[c.R.Intn(8)] = byte(c.R.Intn(256))
				case 2: // few distinct values
					for i := range x {
						x[i], y[i] = byte(c.R.Intn(2))*255, byte(c.R.Intn(2))*255
					}
				case 3: // a short slice
					if c.R.Intn(2) == 0 {
						x = x[:c.R.Intn(8)]
					} else {
						y = y[:c.R.Intn(8)]
					}
				}
				hx := func(b []byte) string {
					if len(b) == 0 {
						return "-"
					}
					return hex.EncodeToString(b)
				}
				v := trCall(func() string { return fmt.Sprint(pow.GreaterDifficultyVerif(x, y)) })
				c.Emit("tr-gd %s %s | %s", hx(x), hx(y), v)
				c.Hit("gd-" + v)
				if len(x) == 8 && len(y) == 8 {
					want := binary.LittleEndian.Uint64(x) >= binary.LittleEndian.Uint64(y)
					if v != fmt.Sprint(want) {
						c.Fail(fmt.Sprintf("greaterDifficulty(%x, %x) = %s, little-endian x >= y is %v", x, y, v, want))
					}
				}
			case 10: // constants.NetworkZnnRewardPerEpoch / NetworkQsrRewardPerEpoch — C11: table lookup, last entry forever
				e := trU64(c)
				if c.R.Intn(2) == 0 {
					e = uint64(c.R.Intn(400))
				}
				if c.R.Intn(2) == 0 {
					v := trCall(func() string { return fmt.Sprint(constants.NetworkZnnRewardPerEpoch(e)) })
					c.Emit("tr-netznn %d | %s", e, v)
					t := e / 30
					if t >= uint64(len(constants.NetworkZnnRewardConfig)) {
						t = uint64(len(constants.NetworkZnnRewardConfig)) - 1
					}
					if v != fmt.Sprint(constants.NetworkZnnRewardConfig[t]) {
						c.Fail(fmt.Sprintf("NetworkZnnRewardPerEpoch(%d) = %s, table entry min(e/30, last) = %d", e, v, constants.NetworkZnnRewardConfig[t]))
					}
				} else {
					v := trCall(func() string { return fmt.Sprint(constants.NetworkQsrRewardPerEpoch(e)) })
					c.Emit("tr-netqsr %d | %s", e, v)
					t := e / 30
					if t >= uint64(len(constants.NetworkQsrRewardConfig)) {
						t = uint64(len(constants.NetworkQsrRewardConfig)) - 1
					}
					if v != fmt.Sprint(constants.NetworkQsrRewardConfig[t]) {
						c.Fail(fmt.Sprintf("NetworkQsrRewardPerEpoch(%d) = %s, table entry min(e/30, last) = %d", e, v, constants.NetworkQsrRewardConfig[t]))
					}
				}
				c.Hit("netreward")
			case 11: // vm.GetBasePlasmaForAccountBlock, plain send to a user address — C12: 21000 + 68·len, refused above MaxDataLength
				lens := []int{0, 1, 2, 100, 16383, 16384, 16385, 20000}
				l := lens[c.R.Intn(len(lens))]
				if c.R.Intn(2) == 0 {
					l = c.R.Intn(17000)
				}
				blk := &nom.AccountBlock{BlockType: nom.BlockTypeUserSend, Data: make([]byte, l)}
				blk.Address[0], blk.ToAddress[0] = 0, 0 // user addresses (not the embedded prefix)
				v := trCall(func() string {
					p, err := vm.GetBasePlasmaForAccountBlock(nil, blk)
					if err != nil {
						return "ErrABDataTooBig"
					}
					return fmt.Sprint(p)
				})
				c.Emit("tr-baseplasma %d | %s", l, v)
				c.Hit("baseplasma")
				want := fmt.Sprint(21000 + 68*l)
				if l > constants.MaxDataLength {
					want = "ErrABDataTooBig"
				}
				if v != want {
					c.Fail(fmt.Sprintf("GetBasePlasmaForAccountBlock(plain send, %d data bytes) = %s, the statement's answer is %s", l, v, want))
				}
			case 12: // page-size guards of paged getters on zero-value APIs — C18: a page size above RpcMaxPageSize is refused
				sz := trU32(c)
				if c.R.Intn(2) == 0 {
					sz = []uint32{0, 1, 49, 50, 51, 1023, 1024, 1025, 2048}[c.R.Intn(9)]
				}
				g := trPageGetters[c.R.Intn(len(trPageGetters))]
				v := trCall(func() string {
					if g.call(sz) == api.ErrPageSizeParamTooBig {
						return "toobig"
					}
					return "passed"
				})
				if v == "panic" { // the guard let the call through and the zero-value API dereferenced nil
					v = "passed"
				}
				c.Emit("tr-pageguard %s %d | %s", g.name, sz, v)
				c.Hit("pageguard-" + v)
				if sz > api.RpcMaxPageSize && v != "toobig" {
					c.Fail(fmt.Sprintf("%s accepted pageSize %d > RpcMaxPageSize", g.name, sz))
				}
			case 13: // accountPool.filterBlocksToCommit — C14: a prefix of at most MaxAccountBlocksInMomentum blocks that does
				// not end inside a batch of contract sends, and the longest such prefix
				k := c.R.Intn(40)
				switch c.R.Intn(4) {
				case 0:
					k = 95 + c.R.Intn(12)
				case 1:
					k = 100 + c.R.Intn(150)
				}
				blocks := make([]*nom.AccountBlock, k)
				ts := make([]byte, k)
				pCS := []int{0, 20, 50, 80, 95}[c.R.Intn(5)]
				for i := range blocks {
					t := uint64(2 + c.R.Intn(2)*1 + c.R.Intn(2)*2) // 2, 3, 4 or 5
					if c.R.Intn(100) < pCS {
						t = nom.BlockTypeContractSend
					}
					blocks[i] = &nom.AccountBlock{BlockType: t, Height: uint64(i + 1)}
					ts[i] = byte('0' + t)
				}
				tstr := "-"
				if k > 0 {
					tstr = string(ts)
				}
				var out []*nom.AccountBlock
				v := trCall(func() string { out = chain.FilterBlocksToCommitVerif(blocks); return fmt.Sprint(len(out)) })
				c.Emit("tr-filter %s | %s", tstr, v)
				c.Hit("filter")
				if v != "panic" {
					bad := len(out) > chain.MaxAccountBlocksInMomentum || len(out) > k
					for i := range out {
						bad = bad || out[i] != blocks[i]
					}
					if len(out) > 0 && out[len(out)-1].BlockType == nom.BlockTypeContractSend {
						bad = true
					}
					// maximal: the next complete batch would not fit (or there is none)
					j := len(out)
					for j < k && blocks[j].BlockType == nom.BlockTypeContractSend {
						j++
					}
					if j < k && j+1 <= chain.MaxAccountBlocksInMomentum {
						bad = true
					}
					if bad {
						c.Fail(fmt.Sprintf("filterBlocksToCommit(%s) committed %d blocks: not the longest prefix of whole batches within %d", tstr, len(out), chain.MaxAccountBlocksInMomentum))
					}
				}
			}
		}
	})
}

// paged getters called on zero-value API objects: only their page-size guard can answer without a node
var trPageGetters = []struct {
	name string
	call func(sz uint32) error
}{
	{"pageGuard_rpc_api_LedgerApi_GetAccountBlocksByPage", func(sz uint32) error { _, err := (&api.LedgerApi{}).GetAccountBlocksByPage(types.Address{}, 0, sz); return err }},
	{"pageGuard_rpc_api_LedgerApi_GetMomentumsByPage", func(sz uint32) error { _, err := (&api.LedgerApi{}).GetMomentumsByPage(0, sz); return err }},
	{"pageGuard_rpc_api_LedgerApi_GetUnconfirmedBlocksByAddress", func(sz uint32) error { _, err := (&api.LedgerApi{}).GetUnconfirmedBlocksByAddress(types.Address{}, 0, sz); return err }},
	// GetUnreceivedBlocksByAddress logs through l.log before its guard: not callable on a zero value
	{"pageGuard_rpc_api_embedded_PillarApi_GetAll", func(sz uint32) error { _, err := (&apiembedded.PillarApi{}).GetAll(0, sz); return err }},
	{"pageGuard_rpc_api_embedded_TokenAPI_GetAll", func(sz uint32) error { _, err := (&apiembedded.TokenAPI{}).GetAll(0, sz); return err }},
	{"pageGuard_rpc_api_embedded_StakeApi_GetEntriesByAddress", func(sz uint32) error { _, err := (&apiembedded.StakeApi{}).GetEntriesByAddress(types.Address{}, 0, sz); return err }},
	{"pageGuard_rpc_api_embedded_PlasmaApi_GetEntriesByAddress", func(sz uint32) error { _, err := (&apiembedded.PlasmaApi{}).GetEntriesByAddress(types.Address{}, 0, sz); return err }},
	{"pageGuard_rpc_api_embedded_SentinelApi_GetAllActive", func(sz uint32) error { _, err := (&apiembedded.SentinelApi{}).GetAllActive(0, sz); return err }},
	{"pageGuard_rpc_api_embedded_AcceleratorApi_GetAll", func(sz uint32) error { _, err := (&apiembedded.AcceleratorApi{}).GetAll(0, sz); return err }},
}
