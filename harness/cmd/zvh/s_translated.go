package main

import (
	"encoding/hex"
	"fmt"
	"math"
	"math/big"

	"github.com/zenon-network/go-zenon/chain"
	"github.com/zenon-network/go-zenon/chain/nom"
	"github.com/zenon-network/go-zenon/pow"
	"github.com/zenon-network/go-zenon/rpc/api"
	"github.com/zenon-network/go-zenon/vm"
	"github.com/zenon-network/go-zenon/vm/constants"
	"github.com/zenon-network/go-zenon/vm/embedded/definition"
	"github.com/zenon-network/go-zenon/vm/embedded/implementation"
)

// Stream `translated` (DESIGN.md §2 L12): the REAL Go functions whose text `zvh facts` translates into
// Gen/Translated.lean, on random + boundary inputs. The driver answers every line with the translated definition AND the
// hand-written model (both must agree with the observation). Model-free monitors evaluate the property clause the
// function serves directly on the real result, so a behaviour-changing edit that breaks a theorem of Props/Translated.lean
// also yields a concrete failing input here.

func trU64(c *Ctx) uint64 {
	b := []uint64{0, 1, 2, 3, 1499, 1500, 1501, 94499, 94500, 94501, 141749999, 141750000, 141750001, 1 << 31, 1<<32 - 1, 1 << 32, 1<<32 + 1,
		1<<63 - 1, 1 << 63, 1<<63 + 1, math.MaxUint64 - 1, math.MaxUint64, 100000000, 99999999, 500000000000, 499999999999}
	switch c.R.Intn(4) {
	case 0:
		return b[c.R.Intn(len(b))]
	case 1:
		return uint64(c.R.Intn(2000))
	case 2:
		return c.R.Uint64() >> uint(c.R.Intn(64))
	default:
		return c.R.Uint64()
	}
}
func trU32(c *Ctx) uint32 {
	b := []uint32{0, 1, 2, 10, 1023, 1024, 1025, 65535, 65536, 4194304, 1<<31 - 1, 1 << 31, math.MaxUint32 - 1, math.MaxUint32}
	switch c.R.Intn(3) {
	case 0:
		return b[c.R.Intn(len(b))]
	case 1:
		return uint32(c.R.Intn(3000))
	default:
		return c.R.Uint32() >> uint(c.R.Intn(32))
	}
}
func trI64(c *Ctx) int64 {
	b := []int64{0, 1, -1, 86400, 2592000, 1 << 40, math.MaxInt64, math.MinInt64, math.MaxInt64 - 1, math.MinInt64 + 1}
	switch c.R.Intn(3) {
	case 0:
		return b[c.R.Intn(len(b))]
	case 1:
		return 1700000000 + int64(c.R.Intn(200000)) - 100000
	default:
		return int64(c.R.Uint64()) >> uint(c.R.Intn(64))
	}
}

func trCall(f func() string) (res string) {
	defer func() {
		if r := recover(); r != nil {
			res = "panic"
		}
	}()
	return f()
}

func trPrioName(err error) string {
	switch err {
	case nil:
		return "ok"
	case chain.ErrPlasmaRatioIsWorse:
		return "ErrPlasmaRatioIsWorse"
	case chain.ErrHashTieBreak:
		return "ErrHashTieBreak"
	}
	return "other"
}

func init() {
	register("translated", func(c *Ctx) {
		for n := 0; n < c.N; n++ {
			switch n % 9 {
			case 0: // api.GetRange — C18: the slice lies inside the list and holds at most count elements
				i, cnt, l := trU32(c), trU32(c), trU32(c)
				s, e := api.GetRange(i, cnt, l)
				c.Emit("tr-getrange %d %d %d | %d %d", i, cnt, l, s, e)
				c.Hit("getrange")
				want := uint64(i) * uint64(cnt)
				if want > uint64(l) {
					want = uint64(l)
				}
				if s > e || e > l || uint64(e-s) > uint64(cnt) || uint64(s) != want {
					c.Fail(fmt.Sprintf("GetRange(%d,%d,%d) = (%d,%d): not the slice [min(i*c,n), min(i*c+c,n))", i, cnt, l, s, e))
				}
			case 1: // chain.higherPriority — C14: never both ways, never neither for different hashes
				a := &nom.AccountBlock{TotalPlasma: trU64(c), BasePlasma: trU64(c), Hash: randHash(c)}
				b := &nom.AccountBlock{TotalPlasma: trU64(c), BasePlasma: trU64(c), Hash: randHash(c)}
				if c.R.Intn(3) == 0 { // equal ratios: the hash decides
					b.TotalPlasma, b.BasePlasma = a.TotalPlasma, a.BasePlasma
				}
				ab := trCall(func() string { return trPrioName(chain.HigherPriorityVerif(a, b)) })
				ba := trCall(func() string { return trPrioName(chain.HigherPriorityVerif(b, a)) })
				c.Emit("tr-prio %d %d %s %d %d %s | %s", a.TotalPlasma, a.BasePlasma, hex.EncodeToString(a.Hash[:]), b.TotalPlasma, b.BasePlasma, hex.EncodeToString(b.Hash[:]), ab)
				c.Hit("prio-" + ab)
				if ab == "ok" && ba == "ok" {
					c.Fail(fmt.Sprintf("higherPriority holds both ways: a=(%d,%d,%x) b=(%d,%d,%x)", a.TotalPlasma, a.BasePlasma, a.Hash[:4], b.TotalPlasma, b.BasePlasma, b.Hash[:4]))
				}
				if ab != "ok" && ba != "ok" && a.Hash != b.Hash {
					c.Fail(fmt.Sprintf("higherPriority holds neither way for different hashes: a=(%d,%d,%x) b=(%d,%d,%x)", a.TotalPlasma, a.BasePlasma, a.Hash[:4], b.TotalPlasma, b.BasePlasma, b.Hash[:4]))
				}
			case 2: // vm.DifficultyToPlasma — C12: capped, monotone step of 1/PoWDifficultyPerPlasma
				d := trU64(c)
				v := vm.DifficultyToPlasma(d)
				c.Emit("tr-d2p %d | %d", d, v)
				c.Hit("d2p")
				want := d / 1500
				if want > 94500 {
					want = 94500
				}
				if v > constants.MaxPoWPlasmaForAccountBlock || v != want {
					c.Fail(fmt.Sprintf("DifficultyToPlasma(%d) = %d, the statement's min(d/1500, 94500) = %d", d, v, want))
				}
			case 3: // vm.GetDifficultyForPlasma
				p := trU64(c)
				v, err := vm.GetDifficultyForPlasma(p)
				if err != nil {
					c.Emit("tr-p2d %d | ErrForbiddenParam", p)
				} else {
					c.Emit("tr-p2d %d | %d", p, v)
					if vm.DifficultyToPlasma(v) != p {
						c.Fail(fmt.Sprintf("GetDifficultyForPlasma(%d) = %d does not buy %d plasma", p, v, p))
					}
				}
				c.Hit("p2d")
			case 4: // vm.FussedAmountToPlasma
				var a *big.Int
				switch c.R.Intn(6) {
				case 0:
				case 1:
					a = new(big.Int).Neg(new(big.Int).SetUint64(trU64(c)))
				case 2:
					a = new(big.Int).Lsh(new(big.Int).SetUint64(trU64(c)), uint(c.R.Intn(70)))
				default:
					a = new(big.Int).SetUint64(trU64(c) % 600000000000)
				}
				v := vm.FussedAmountToPlasma(a)
				if a == nil {
					c.Emit("tr-fused nil | %d", v)
				} else {
					c.Emit("tr-fused %s | %d", a, v)
				}
				c.Hit("fused")
				if v > constants.MaxFusionPlasmaForAccount {
					c.Fail(fmt.Sprintf("FussedAmountToPlasma(%v) = %d above the per-account maximum", a, v))
				}
			case 5: // pow.getTargetByDifficulty
				d := trU64(c)
				t := trCall(func() string { x := pow.TargetByDifficultyVerif(d); return hex.EncodeToString(x[:]) })
				c.Emit("tr-target %d | %s", d, t)
				c.Hit("target")
			case 6: // getWeightedStake
				r, s, st, en := trI64(c), trI64(c), trI64(c), trI64(c)
				if c.R.Intn(2) == 0 {
					r = 0
				}
				w := new(big.Int).SetUint64(trU64(c))
				v := trCall(func() string {
					return implementation.GetWeightedStakeVerif(&definition.StakeInfo{StartTime: s, RevokeTime: r, WeightedAmount: w}, st, en).String()
				})
				c.Emit("tr-wstake %d %d %s %d %d | %s", r, s, w, st, en, v)
				c.Hit("wstake")
			case 7: // getWeightedSentinel
				reg, r, st, en := trI64(c), trI64(c), trI64(c), trI64(c)
				if c.R.Intn(2) == 0 {
					r = 0
				}
				if c.R.Intn(2) == 0 {
					st = 1700000000
					en = st + 86400
					reg = st + int64(c.R.Intn(20000)) - 5000
				}
				v := trCall(func() string {
					return implementation.GetWeightedSentinelVerif(&definition.SentinelInfo{RegistrationTimestamp: reg, RevokeTimestamp: r}, st, en).String()
				})
				c.Emit("tr-wsent %d %d %d %d | %s", reg, r, st, en, v)
				c.Hit("wsent")
				if v != "0" && v != "1" {
					c.Fail(fmt.Sprintf("getWeightedSentinel(%d,%d,%d,%d) = %s, not 0 or 1", reg, r, st, en, v))
				}
			case 8: // getWeightedStakeAmount (translated definition only: no separate hand model)
				a := new(big.Int).SetUint64(trU64(c))
				t := trI64(c)
				if c.R.Intn(2) == 0 {
					t = constants.StakeTimeUnitSec * int64(c.R.Intn(14))
				}
				v := trCall(func() string { return implementation.GetWeightedStakeAmountVerif(a, t).String() })
				c.Emit("tr-wamount %s %d | %s", a, t, v)
				c.Hit("wamount")
			}
		}
	})
}
