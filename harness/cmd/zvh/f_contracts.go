package main

import (
	"github.com/zenon-network/go-zenon/vm/constants"
	"github.com/zenon-network/go-zenon/vm/embedded/definition"
)

// Constants of the embedded contracts that lock funds (C10): read from the live packages.
func init() {
	factGens = append(factGens, func(repo string) (*factFile, error) {
		f := newFactFile("Contracts")
		f.raw("-- vm/constants/embedded.go (production values; the contract stream also runs histories with shortened lock periods)\n")
		f.nat("FuseMinAmount", constants.FuseMinAmount.String())
		f.nat("FuseExpiration", constants.FuseExpiration)
		f.nat("CostPerFusionUnitC", uint64(constants.CostPerFusionUnit))
		f.nat("StakeMinAmount", constants.StakeMinAmount.String())
		f.nat("CtStakeTimeUnitSec", constants.StakeTimeUnitSec)
		f.nat("StakeTimeMinSec", constants.StakeTimeMinSec)
		f.nat("StakeTimeMaxSec", constants.StakeTimeMaxSec)
		f.nat("PillarStakeAmount", constants.PillarStakeAmount.String())
		f.nat("PillarQsrStakeBaseAmount", constants.PillarQsrStakeBaseAmount.String())
		f.nat("PillarQsrStakeIncreaseAmount", constants.PillarQsrStakeIncreaseAmount.String())
		f.nat("PillarEpochLockTime", constants.PillarEpochLockTime)
		f.nat("PillarEpochRevokeTime", constants.PillarEpochRevokeTime)
		f.nat("SentinelZnnRegisterAmount", constants.SentinelZnnRegisterAmount.String())
		f.nat("SentinelQsrDepositAmount", constants.SentinelQsrDepositAmount.String())
		f.nat("SentinelLockTimeWindow", constants.SentinelLockTimeWindow)
		f.nat("SentinelRevokeTimeWindow", constants.SentinelRevokeTimeWindow)
		f.raw("-- vm/embedded/definition\n")
		f.nat("HashTypeSHA3", uint64(definition.HashTypeSHA3))
		f.nat("HashTypeSHA256", uint64(definition.HashTypeSHA256))
		f.nat("DigestSizeSHA3", uint64(definition.HashTypeDigestSizes[definition.HashTypeSHA3]))
		f.nat("DigestSizeSHA256", uint64(definition.HashTypeDigestSizes[definition.HashTypeSHA256]))
		f.nat("NumHashTypes", uint64(len(definition.HashTypeDigestSizes)))
		f.nat("LegacyPillarType", uint64(definition.LegacyPillarType))
		f.nat("NormalPillarType", uint64(definition.NormalPillarType))
		f.raw("-- vm/constants/embedded.go: LiquidityStakeWeights (indexed by stakingTime / StakeTimeUnitSec)\n")
		w := make([]uint64, len(constants.LiquidityStakeWeights))
		for i, x := range constants.LiquidityStakeWeights {
			w[i] = uint64(x)
		}
		f.natList("CtLiquidityStakeWeights", w)
		return f, nil
	})
}
