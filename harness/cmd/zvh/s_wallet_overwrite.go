package main

import (
	"bytes"
	"encoding/json"
	"fmt"
	"os"
	"path/filepath"
	"strings"

	"github.com/zenon-network/go-zenon/wallet"
)

// ---------------------------------------------------------------------------------------------------
// wallet stream, part 8 (C19): persisted round trips over a path that is ALREADY in use.
//
// "A key file decrypts with its password to exactly the entropy it was created from" — for the key file as KeyFile.Write
// persists it and ReadKeyFile / Manager.Start read it back, whatever the path held before: for EVERY allowed entropy
// size (16/20/24/28/32 bytes) the new key file is written over
//   - a key file of every allowed entropy size: the shorter ones, the longer ones, the same size (password change),
//   - files that are no key files: empty, a few bytes, 4 kB of random bytes, a long JSON document of another shape,
//     a key file followed by trailing text,
// and over a chain of earlier key files of all sizes at one path. After Write returned nil:
//   ReadKeyFile reads it to the fields that were written, the recorded address is the index-0 address,
//   Decrypt(password) gives the entropy; the former password (same-size case) is refused,
//   a Manager started on the directory lists the file, unlocks it with the password and holds the entropy.
// The decrypt attempts are emitted as `wl-decrypt` lines for the model.
// ---------------------------------------------------------------------------------------------------

type owPrior struct {
	name string
	put  func(path string) error // puts the prior content at path
}

type owKeyFile struct {
	size    int
	entropy []byte
	pw      string
	kf      *wallet.KeyFile
	ks      *wallet.KeyStore
}

func owMake(c *Ctx, size int, pw string) *owKeyFile {
	e := make([]byte, size)
	c.R.Read(e)
	ks, err := wallet.KeyStoreFromEntropyVerif(append([]byte{}, e...))
	if err != nil {
		c.Fail("keyStoreFromEntropy(len %d) failed: %v", size, err)
		return nil
	}
	kf, err := ks.Encrypt(pw)
	if err != nil {
		c.Fail("Encrypt failed: %v", err)
		return nil
	}
	return &owKeyFile{size: size, entropy: e, pw: pw, kf: kf, ks: ks}
}

func (k *owKeyFile) writeTo(path string) error {
	k.kf.Path = path
	return k.kf.Write()
}

// owCheck: the statement for the key file `k` just written to path (over `prior`); unlock = also through Manager.Unlock
func owCheck(c *Ctx, k *owKeyFile, path, prior string, unlock bool) bool {
	what := fmt.Sprintf("C19 overwrite: key file of a %d-byte entropy written (Write returned nil) over %s", k.size, prior)
	raw, rerr := os.ReadFile(path)
	if rerr != nil {
		c.Fail("%s: the file cannot be read: %v", what, rerr)
		return false
	}
	ok := true
	// ReadKeyFile -> the fields that were written
	kf2, err := wallet.ReadKeyFile(path)
	if err != nil {
		c.Emit("wl-read overwrite | err %s", walletErrKind(err))
		c.Fail("%s cannot be read back by ReadKeyFile: %v (file is %d bytes, the serialised key file %d bytes; tail of the file: %q)", what, err, len(raw), len(owSerial(k.kf)), owTail(raw))
		ok = false
	} else {
		if !bytes.Equal(kf2.Crypto.CipherData, k.kf.Crypto.CipherData) || !bytes.Equal(kf2.Crypto.AesNonce, k.kf.Crypto.AesNonce) ||
			!bytes.Equal(kf2.Crypto.Argon2Params.Salt, k.kf.Crypto.Argon2Params.Salt) || kf2.BaseAddress != k.kf.BaseAddress {
			c.Fail("%s reads back with other fields than were written (address %v vs %v)", what, kf2.BaseAddress, k.kf.BaseAddress)
			ok = false
		}
		if kp0, _ := wallet.DeriveWithIndex(0, k.ks.Seed); kp0 == nil || kf2.BaseAddress != kp0.Address {
			c.Fail("%s: the recorded address %v is not the index-0 address of the entropy", what, kf2.BaseAddress)
			ok = false
		}
		// Decrypt(password) = the entropy
		ct, nonce, salt := []byte(kf2.Crypto.CipherData), []byte(kf2.Crypto.AesNonce), []byte(kf2.Crypto.Argon2Params.Salt)
		dk := refKdf(k.pw, salt)
		otok := "none"
		if pt, o := refOpen(dk, nonce, ct); o {
			otok = "some:" + hx(pt)
		}
		ks2, kind := kfTryDecrypt(kf2, k.pw)
		obs := "err " + kind
		if kind == "ok" {
			obs = "ok " + hx(ks2.Entropy)
		}
		c.Emit("wl-decrypt %s %s %s %s %s %s | %s", hx(ct), hx(nonce), hx(salt), hx([]byte(k.pw)), hx(dk), otok, obs)
		if kind != "ok" || !bytes.Equal(ks2.Entropy, k.entropy) {
			c.Fail("%s does not decrypt with its password to the entropy it was created from: %s", what, obs)
			ok = false
		}
	}
	// a Manager started on the directory
	m := wallet.New(&wallet.Config{WalletDir: filepath.Dir(path)})
	if err := m.Start(); err != nil {
		c.Fail("%s: Manager.Start: %v", what, err)
		return false
	}
	defer safely(func() { m.Stop() })
	name := filepath.Base(path)
	if _, err := m.GetKeyFile(name); err != nil {
		c.Fail("%s: a Manager started on the directory does not list the file (GetKeyFile: %v)", what, err)
		ok = false
	} else if unlock {
		var uerr error
		if p := safely(func() { uerr = m.Unlock(name, k.pw) }); p != "" || uerr != nil {
			c.Fail("%s: Manager.Unlock with its password after a restart: %v %s", what, uerr, p)
			ok = false
		} else if ks, gerr := m.GetKeyStore(name); gerr != nil || ks == nil || !bytes.Equal(ks.Entropy, k.entropy) {
			c.Fail("%s: the key store a Manager unlocks after a restart does not hold the entropy (%v)", what, gerr)
			ok = false
		}
		c.Hit("overwrite-manager-unlock")
	}
	return ok
}

// owRescan: the key file at the path was replaced on disk by `k` (over `former`) while the Manager `m` was running; after the
// Manager has re-scanned its directory (Start again) it must answer for the file that IS there: the password of `k` opens it
// and gives k's entropy and k's index-0 address, the former file's password does not.
func owRescan(c *Ctx, m *wallet.Manager, k, former *owKeyFile, what string) {
	defer safely(func() { m.Stop() })
	name := "wallet.json"
	var serr error
	if p := safely(func() { serr = m.Start() }); p != "" || serr != nil {
		c.Fail("C19 overwrite: second Manager.Start (re-scan) over %s: %v %s", what, serr, p)
		return
	}
	c.Hit("overwrite-manager-rescan")
	var ks *wallet.KeyStore
	var err error
	if p := safely(func() { ks, err = m.GetKeyFileAndDecrypt(name, k.pw) }); p != "" || err != nil || ks == nil {
		c.Fail("C19 overwrite: after a re-scan the Manager does not decrypt the key file on disk (written over %s) with ITS password: %v %s", what, err, p)
	} else if !bytes.Equal(ks.Entropy, k.entropy) || ks.BaseAddress != k.ks.BaseAddress {
		c.Fail("C19 overwrite: after a re-scan the Manager decrypts the key file on disk (written over %s) to entropy %x / address %v, it was created from %x / %v", what, ks.Entropy, ks.BaseAddress, k.entropy, k.ks.BaseAddress)
	}
	if former.pw != k.pw {
		var ks2 *wallet.KeyStore
		err = nil
		if p := safely(func() { ks2, err = m.GetKeyFileAndDecrypt(name, former.pw) }); p == "" && err == nil && ks2 != nil {
			c.Fail("C19 overwrite: after a re-scan the Manager still opens the path with the password of the REPLACED key file (%s) and gives entropy %x; the file on disk was created from %x", what, ks2.Entropy, k.entropy)
		}
	}
	var uerr error
	if p := safely(func() { uerr = m.Unlock(name, k.pw) }); p != "" || uerr != nil {
		c.Fail("C19 overwrite: after a re-scan Manager.Unlock refuses the password of the key file on disk (written over %s): %v %s", what, uerr, p)
	} else if ks3, gerr := m.GetKeyStore(name); gerr != nil || ks3 == nil || !bytes.Equal(ks3.Entropy, k.entropy) {
		c.Fail("C19 overwrite: after a re-scan the key store the Manager unlocks is not the one of the key file on disk (written over %s) (%v)", what, gerr)
	}
	if kf, gerr := m.GetKeyFile(name); gerr != nil || kf == nil || kf.BaseAddress != k.ks.BaseAddress {
		c.Fail("C19 overwrite: after a re-scan the Manager's key file for the path does not record the index-0 address of the file on disk (written over %s)", what)
	}
}

func owSerial(kf *wallet.KeyFile) []byte {
	b, _ := json.MarshalIndent(kf, "", "    ")
	return b
}

func owTail(raw []byte) string {
	if len(raw) > 60 {
		raw = raw[len(raw)-60:]
	}
	return string(raw)
}

func walletOverwrite(c *Ctx, dir string) {
	defer func() {
		if r := recover(); r != nil {
			c.Emit("wl-keyfile-panic - | panic")
			c.Fail("C19 overwrite scenario panicked: %v", r)
		}
	}()
	sizes := []int{16, 20, 24, 28, 32}
	// one new key file and one former key file per size (their serialised length grows with the entropy size)
	newKf := map[int]*owKeyFile{}
	oldKf := map[int]*owKeyFile{}
	for i, s := range sizes {
		pw := passwords[1+(i+c.R.Intn(3))%(len(passwords)-1)]
		if s == 24 {
			pw = ""
		}
		if newKf[s] = owMake(c, s, pw); newKf[s] == nil {
			return
		}
		if oldKf[s] = owMake(c, s, "former password "+fmt.Sprint(s)); oldKf[s] == nil {
			return
		}
	}
	var priors []owPrior
	for _, s := range sizes {
		s := s
		priors = append(priors, owPrior{fmt.Sprintf("a key file of a %d-byte entropy", s), func(path string) error { return oldKf[s].writeTo(path) }})
	}
	garbage := func(b []byte) func(string) error {
		return func(path string) error { return os.WriteFile(path, b, 0o700) }
	}
	big := make([]byte, 4096)
	c.R.Read(big)
	small := make([]byte, 1+c.R.Intn(20))
	c.R.Read(small)
	priors = append(priors,
		owPrior{"an empty file", garbage([]byte{})},
		owPrior{"a file of a few random bytes", garbage(small)},
		owPrior{"a file of 4096 random bytes", garbage(big)},
		owPrior{"a 3 kB JSON document of another shape", garbage([]byte(`{"note": "` + strings.Repeat("not a key file ", 200) + `"}`))},
		owPrior{"a key file followed by trailing text", func(path string) error {
			return os.WriteFile(path, append(owSerial(oldKf[32].kf), []byte("\n\n# trailing comment left by an editor\n}}}\n")...), 0o700)
		}},
	)
	n := 0
	for _, s := range sizes {
		for pi, pr := range priors {
			sub := filepath.Join(dir, fmt.Sprintf("ow-%d-%d", s, pi))
			if err := os.MkdirAll(sub, 0o700); err != nil {
				c.Fail("mkdir: %v", err)
				return
			}
			path := filepath.Join(sub, "wallet.json")
			if err := pr.put(path); err != nil {
				c.Fail("C19 overwrite: cannot prepare %s: %v", pr.name, err)
				continue
			}
			// a Manager that is already running on the directory when the key file is replaced (wallet restored / password
			// changed while the node runs) and re-scans it by a second Start
			var live *wallet.Manager
			if pi < len(sizes) && (pi+n)%2 == 0 {
				live = wallet.New(&wallet.Config{WalletDir: sub})
				if err := live.Start(); err != nil {
					c.Fail("C19 overwrite: Manager.Start: %v", err)
					live = nil
				} else if _, err := live.GetKeyFile("wallet.json"); err != nil {
					c.Fail("C19 overwrite: a Manager started on the directory does not list the former key file: %v", err)
				}
			}
			if err := newKf[s].writeTo(path); err != nil {
				c.Fail("C19 overwrite: KeyFile.Write over %s failed: %v", pr.name, err)
				continue
			}
			if live != nil {
				owRescan(c, live, newKf[s], oldKf[sizes[pi]], pr.name)
			}
			n++
			rel := "no-keyfile"
			if pi < len(sizes) {
				switch {
				case sizes[pi] > s:
					rel = "longer"
				case sizes[pi] < s:
					rel = "shorter"
				default:
					rel = "same-size"
				}
			}
			c.Hit("overwrite:" + rel)
			owCheck(c, newKf[s], path, pr.name, n%5 == 0 || rel == "same-size")
			if rel == "same-size" && oldKf[s].pw != newKf[s].pw {
				// password change: the former password no longer opens the file
				if kf2, err := wallet.ReadKeyFile(path); err == nil {
					ct, nonce, salt := []byte(kf2.Crypto.CipherData), []byte(kf2.Crypto.AesNonce), []byte(kf2.Crypto.Argon2Params.Salt)
					dk := refKdf(oldKf[s].pw, salt)
					otok := "none"
					if pt, o := refOpen(dk, nonce, ct); o {
						otok = "some:" + hx(pt)
					}
					ks2, kind := kfTryDecrypt(kf2, oldKf[s].pw)
					obs := "err " + kind
					if kind == "ok" {
						obs = "ok " + hx(ks2.Entropy)
						c.Fail("C19 overwrite: after the key file at a path was replaced by one with another password, the FORMER password still decrypts it")
					}
					c.Emit("wl-decrypt %s %s %s %s %s %s | %s", hx(ct), hx(nonce), hx(salt), hx([]byte(oldKf[s].pw)), hx(dk), otok, obs)
				}
			}
			os.RemoveAll(sub)
		}
	}
	// a chain of key files of all sizes at ONE path (a random order, every size at least once, ending with the smallest)
	{
		sub := filepath.Join(dir, "ow-chain")
		if err := os.MkdirAll(sub, 0o700); err == nil {
			path := filepath.Join(sub, "wallet.json")
			order := c.R.Perm(len(sizes))
			seq := []*owKeyFile{}
			for _, i := range order {
				seq = append(seq, oldKf[sizes[i]])
			}
			seq = append(seq, newKf[32], newKf[16])
			prior := "a fresh path"
			for i, k := range seq {
				if err := k.writeTo(path); err != nil {
					c.Fail("C19 overwrite: KeyFile.Write in a chain failed: %v", err)
					break
				}
				if !owCheck(c, k, path, prior+" (step "+fmt.Sprint(i+1)+" of a chain of writes to one path)", i == len(seq)-1) {
					break
				}
				prior = fmt.Sprintf("a key file of a %d-byte entropy", k.size)
			}
			c.Hit("overwrite-chain")
			os.RemoveAll(sub)
		}
	}
	c.Stats["overwrite-cases"] = n
}
