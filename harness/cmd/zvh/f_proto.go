package main

// Facts for C15/C16: protocol limits and message codes (live values) and the shape of the decisive
// comparisons of chainBridge.InsertChain / ProtocolManager.handleMsg (AST of the working tree).

import (
	"bytes"
	"fmt"
	"go/ast"
	"go/parser"
	"go/printer"
	"go/token"
	"path/filepath"
	"strings"

	"github.com/zenon-network/go-zenon/protocol"
	"github.com/zenon-network/go-zenon/protocol/downloader"
)

func exprStr(fset *token.FileSet, e ast.Node) string {
	var b bytes.Buffer
	printer.Fprint(&b, fset, e)
	return strings.Join(strings.Fields(b.String()), " ")
}

func findFuncE(f *ast.File, name string) *ast.FuncDecl {
	for _, d := range f.Decls {
		if fd, ok := d.(*ast.FuncDecl); ok && fd.Name.Name == name {
			return fd
		}
	}
	return nil
}

func init() {
	factGens = append(factGens, func(repo string) (*factFile, error) {
		f := newFactFile("Proto")
		f.raw("-- protocol/downloader/downloader.go, protocol/protocol.go (live values)\n")
		f.nat("MaxHashFetch", uint64(downloader.MaxHashFetch))
		f.nat("MaxBlockFetch", uint64(downloader.MaxBlockFetch))
		f.nat("ProtocolMaxMsgSize", uint64(protocol.ProtocolMaxMsgSize))
		f.nat("ProtocolVersion", uint64(protocol.ProtocolVersions[0]))
		f.nat("ProtocolLength", protocol.ProtocolLengths[0])
		f.nat("StatusMsg", uint64(protocol.StatusMsg))
		f.nat("NewBlockHashesMsg", uint64(protocol.NewBlockHashesMsg))
		f.nat("TxMsg", uint64(protocol.TxMsg))
		f.nat("GetBlockHashesMsg", uint64(protocol.GetBlockHashesMsg))
		f.nat("BlockHashesMsg", uint64(protocol.BlockHashesMsg))
		f.nat("GetBlocksMsg", uint64(protocol.GetBlocksMsg))
		f.nat("BlocksMsg", uint64(protocol.BlocksMsg))
		f.nat("NewBlockMsg", uint64(protocol.NewBlockMsg))
		f.nat("GetBlockHashesFromNumberMsg", uint64(protocol.GetBlockHashesFromNumberMsg))

		// ---- AST of chainBridge.InsertChain ------------------------------------------------------------
		fset := token.NewFileSet()
		cb, err := parser.ParseFile(fset, filepath.Join(repo, "protocol", "chain_bridge.go"), nil, 0)
		if err != nil {
			return nil, err
		}
		ic := findFuncE(cb, "InsertChain")
		if ic == nil {
			return nil, fmt.Errorf("protocol/chain_bridge.go: func InsertChain not found")
		}
		var ifConds, loopReturns, allReturns []string
		window, windowOp, longerOp := "", "", ""
		rollbackBeforeLoop := false
		sawRollback := false
		ast.Inspect(ic.Body, func(n ast.Node) bool {
			switch x := n.(type) {
			case *ast.IfStmt:
				ifConds = append(ifConds, exprStr(fset, x.Cond))
				if be, ok := x.Cond.(*ast.BinaryExpr); ok {
					l := exprStr(fset, be.X)
					r := exprStr(fset, be.Y)
					if l == "ourFrontier.Height-target.Height" || l == "ourFrontier.Height - target.Height" {
						windowOp, window = be.Op.String(), r
					}
					if l == "tail.Height" && r == "ourFrontier.Height" {
						longerOp = be.Op.String()
					}
				}
			case *ast.CallExpr:
				if exprStr(fset, x.Fun) == "c.chain.RollbackTo" {
					sawRollback = true
				}
			case *ast.RangeStmt:
				if exprStr(fset, x.X) == "momentums" {
					rollbackBeforeLoop = sawRollback
					ast.Inspect(x.Body, func(m ast.Node) bool {
						if r, ok := m.(*ast.ReturnStmt); ok && len(r.Results) == 2 {
							loopReturns = append(loopReturns, exprStr(fset, r.Results[0]))
						}
						return true
					})
				}
			case *ast.ReturnStmt:
				if len(x.Results) == 2 {
					allReturns = append(allReturns, exprStr(fset, x.Results[0])+" / "+exprStr(fset, x.Results[1]))
				}
			}
			return true
		})
		if window == "" || longerOp == "" {
			return nil, fmt.Errorf("InsertChain: window/longer comparisons not found (conds: %q)", ifConds)
		}
		f.raw("-- protocol/chain_bridge.go InsertChain (AST of the working tree)\n")
		f.raw("def InsertChainWindow : Nat := %s\n", window)
		f.raw("def InsertChainWindowOp : String := %q   -- ourFrontier.Height-target.Height <op> window ⇒ refuse\n", windowOp)
		f.raw("def InsertChainLongerOp : String := %q   -- tail.Height <op> ourFrontier.Height ⇒ refuse\n", longerOp)
		f.strList("InsertChainIfConds", ifConds)
		f.strList("InsertChainLoopReturnIndex", loopReturns)
		f.strList("InsertChainReturns", allReturns)
		f.raw("def InsertChainRollbackBeforeApplyLoop : Bool := %v\n", rollbackBeforeLoop)

		// ---- InsertChain: what is read from the node BEFORE the insert lock is held. C16 judges the batch against the chain the
		//      node has at insertion time: every read of node state (c.chain…, c.consensus…, a store obtained from them, …) must come
		//      after c.chain.AcquireInsert, and the lock must be held to the end (deferred Unlock). Source order = position order.
		lockPos := token.NoPos
		ast.Inspect(ic.Body, func(n ast.Node) bool {
			if x, ok := n.(*ast.CallExpr); ok && lockPos == token.NoPos && exprStr(fset, x.Fun) == "c.chain.AcquireInsert" {
				lockPos = x.Pos()
			}
			return true
		})
		rootOf := func(e ast.Expr) string {
			for {
				switch x := e.(type) {
				case *ast.SelectorExpr:
					e = x.X
				case *ast.CallExpr:
					e = x.Fun
				case *ast.IndexExpr:
					e = x.X
				case *ast.StarExpr:
					e = x.X
				case *ast.ParenExpr:
					e = x.X
				case *ast.Ident:
					return x.Name
				default:
					return ""
				}
			}
		}
		nodeRoots := map[string]bool{"c": true} // the receiver, and every variable assigned from a call on it before the lock
		readsBefore := []string{}
		unlockDeferred := false
		ast.Inspect(ic.Body, func(n ast.Node) bool {
			switch x := n.(type) {
			case *ast.AssignStmt:
				if lockPos == token.NoPos || x.Pos() < lockPos {
					fromNode := false
					for _, r := range x.Rhs {
						ast.Inspect(r, func(m ast.Node) bool {
							if call, ok := m.(*ast.CallExpr); ok && nodeRoots[rootOf(call.Fun)] && exprStr(fset, call.Fun) != "c.chain.AcquireInsert" {
								fromNode = true
							}
							return true
						})
					}
					if fromNode {
						for _, l := range x.Lhs {
							if id, ok := l.(*ast.Ident); ok && id.Name != "_" {
								nodeRoots[id.Name] = true
							}
						}
					}
				}
			case *ast.CallExpr:
				fn := exprStr(fset, x.Fun)
				if fn != "c.chain.AcquireInsert" && nodeRoots[rootOf(x.Fun)] && (lockPos == token.NoPos || x.Pos() < lockPos) {
					readsBefore = append(readsBefore, fn)
				}
			case *ast.DeferStmt:
				if exprStr(fset, x.Call.Fun) == "insert.Unlock" && lockPos != token.NoPos && x.Pos() > lockPos {
					unlockDeferred = true
				}
			}
			return true
		})
		f.raw("def InsertChainLockAcquired : Bool := %v   -- c.chain.AcquireInsert is called\n", lockPos != token.NoPos)
		f.raw("def InsertChainUnlockDeferred : Bool := %v   -- `defer insert.Unlock()` follows it\n", unlockDeferred)
		f.strList("InsertChainNodeReadsBeforeLock", readsBefore)

		// ---- AST of Downloader.process: who is dropped when the import of a downloaded batch fails ----------------
		df, err := parser.ParseFile(fset, filepath.Join(repo, "protocol", "downloader", "downloader.go"), nil, 0)
		if err != nil {
			return nil, err
		}
		pf := findFuncE(df, "process")
		if pf == nil {
			return nil, fmt.Errorf("protocol/downloader/downloader.go: func process not found")
		}
		var dropArgs, insertStmts []string
		ast.Inspect(pf.Body, func(n ast.Node) bool {
			switch x := n.(type) {
			case *ast.CallExpr:
				if exprStr(fset, x.Fun) == "d.dropPeer" && len(x.Args) == 1 {
					dropArgs = append(dropArgs, exprStr(fset, x.Args[0]))
				}
			case *ast.AssignStmt:
				for _, r := range x.Rhs {
					if call, ok := r.(*ast.CallExpr); ok && exprStr(fset, call.Fun) == "d.insertChain" {
						insertStmts = append(insertStmts, exprStr(fset, x))
					}
				}
			case *ast.RangeStmt:
				// `for _, block := range blocks[:max] { raw = append(raw, block.RawBlock) }`: raw[i] is blocks[i]
				if len(x.Body.List) == 1 {
					insertStmts = append(insertStmts, "for "+exprStr(fset, x.Key)+", "+exprStr(fset, x.Value)+" := range "+exprStr(fset, x.X)+" { "+exprStr(fset, x.Body.List[0])+" }")
				}
			}
			return true
		})
		f.raw("-- protocol/downloader/downloader.go process (AST of the working tree)\n")
		f.strList("DownloaderProcessDropArgs", dropArgs)
		f.strList("DownloaderProcessInsert", insertStmts)

		// ---- AST of ProtocolManager.handleMsg ----------------------------------------------------------
		hf, err := parser.ParseFile(fset, filepath.Join(repo, "protocol", "handler.go"), nil, 0)
		if err != nil {
			return nil, err
		}
		hm := findFuncE(hf, "handleMsg")
		if hm == nil {
			return nil, fmt.Errorf("protocol/handler.go: func handleMsg not found")
		}
		// top-level statements in order; the size gate must come before the switch and before any Decode
		var top []string
		gateIdx, switchIdx := -1, -1
		for i, st := range hm.Body.List {
			switch x := st.(type) {
			case *ast.IfStmt:
				c := exprStr(fset, x.Cond)
				top = append(top, "if "+c)
				if c == "msg.Size > ProtocolMaxMsgSize" {
					if len(x.Body.List) == 1 {
						if _, ok := x.Body.List[0].(*ast.ReturnStmt); ok && gateIdx < 0 {
							gateIdx = i
						}
					}
				}
			case *ast.SwitchStmt:
				top = append(top, "switch "+exprStr(fset, x.Tag))
				if switchIdx < 0 {
					switchIdx = i
				}
			case *ast.AssignStmt:
				top = append(top, exprStr(fset, x))
			case *ast.DeferStmt:
				top = append(top, "defer "+exprStr(fset, x.Call))
			case *ast.ReturnStmt:
				top = append(top, "return")
			default:
				top = append(top, fmt.Sprintf("%T", st))
			}
		}
		f.raw("-- protocol/handler.go handleMsg (AST of the working tree)\n")
		f.strList("HandleMsgTopLevel", top)
		f.raw("def HandleMsgSizeGateBeforeSwitch : Bool := %v\n", gateIdx >= 0 && switchIdx > gateIdx)
		// the cap statements of the two hash handlers: `if request.Amount > uint64(downloader.MaxHashFetch)`
		caps := 0
		blockCap := ""
		ast.Inspect(hm.Body, func(n ast.Node) bool {
			if x, ok := n.(*ast.IfStmt); ok {
				c := exprStr(fset, x.Cond)
				if c == "request.Amount > uint64(downloader.MaxHashFetch)" {
					caps++
				}
				if strings.HasPrefix(c, "len(blocks)") && strings.Contains(c, "MaxBlockFetch") {
					blockCap = c
				}
			}
			return true
		})
		f.nat("HandleMsgHashCapSites", caps)
		f.raw("def HandleMsgBlockCapCond : String := %q\n", blockCap)
		// every statement of handleMsg that writes request.Amount, with the if that guards it ("<init>; <cond> => <assignment>"):
		// the two caps, and the recomputation in the `last == nil` branch, which must be guarded by `available < request.Amount`
		var amountWrites []string
		ast.Inspect(hm.Body, func(n ast.Node) bool {
			x, ok := n.(*ast.IfStmt)
			if !ok {
				return true
			}
			for _, st := range x.Body.List {
				as, ok := st.(*ast.AssignStmt)
				if !ok || len(as.Lhs) != 1 || exprStr(fset, as.Lhs[0]) != "request.Amount" {
					continue
				}
				g := exprStr(fset, x.Cond)
				if x.Init != nil {
					g = exprStr(fset, x.Init) + "; " + g
				}
				amountWrites = append(amountWrites, g+" => "+exprStr(fset, as))
			}
			return true
		})
		f.strList("HandleMsgAmountWrites", amountWrites)

		// ---- AST of momentumStore.GetMomentumsByHash: the nil test on the looked-up momentum ----------------
		mf, err := parser.ParseFile(fset, filepath.Join(repo, "chain", "momentum", "momentum.go"), nil, 0)
		if err != nil {
			return nil, err
		}
		gm := findFuncE(mf, "GetMomentumsByHash")
		if gm == nil {
			return nil, fmt.Errorf("chain/momentum/momentum.go: func GetMomentumsByHash not found")
		}
		var gmStmts []string
		for _, st := range gm.Body.List {
			switch x := st.(type) {
			case *ast.IfStmt:
				body := make([]string, len(x.Body.List))
				for i, b := range x.Body.List {
					body[i] = exprStr(fset, b)
				}
				gmStmts = append(gmStmts, "if "+exprStr(fset, x.Cond)+" { "+strings.Join(body, "; ")+" }")
			default:
				gmStmts = append(gmStmts, exprStr(fset, st))
			}
		}
		f.raw("-- chain/momentum/momentum.go GetMomentumsByHash (AST of the working tree)\n")
		f.strList("GetMomentumsByHashStmts", gmStmts)
		return f, nil
	})
}
