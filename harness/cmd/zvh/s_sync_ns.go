package main

import (
	"encoding/hex"
	"fmt"
	"sort"
	"strings"

	"github.com/zenon-network/go-zenon/chain"
	"github.com/zenon-network/go-zenon/chain/nom"
	"github.com/zenon-network/go-zenon/chain/store"
	"github.com/zenon-network/go-zenon/common/types"
)

// ---------------------------------------------------------------------------------------------------
// sync stream, abstract node trace (C02, lean/ZenonVerif/Model/NodeSync.lean, driver lean/Driver/NodeSync.lean): what
// happens to every follower of a history — gossiped blocks, delivered batches, restarts — is written down in the
// vocabulary of the node-level model, together with what the real node answered; the driver replays the operations on
// the model (exec instantiated by an uninterpreted tagging of (ledger as of the acknowledged momentum, account chain up
// to the stated previous, block)) and compares every acceptance decision, the content of the unconfirmed pool after
// every batch, and at the end that all followers of the history hold the same model ledger.
//
//   ns-reset <genesis momentum id> <n> <acct>:<block id> × n                       (no observation) new history
//   ns-mom <id> <height> <prev> <k> <block id>:<acct>:<pos>:<prev>:<ack>:<total>:<base> × k   (no observation) a served momentum
//   ns-new <fid>                                                                   (no observation) a fresh follower
//   ns-gossip <fid> <block id> <acct> <pos> <prev> <ack> <total> <base>            | accepted / refused
//   ns-prio <block id a> <block id b>                                              | a-wins / b-wins      (higherPriority(a, b) == nil)
//   ns-deliver <fid> <momentum id> …                                               | ok / refused <index>
//   ns-restart <fid>                                                               (no observation)
//   ns-pool <fid>                                                                  | <ids of the unconfirmed blocks, sorted> / -   (after every gossip and delivery)
//   ns-same <fid a> <fid b>                                                        | same / differ        (ledger after the history)
//
// One model block = one pool transaction: ContractSend blocks travel inside the contract receive that carries them and
// are left out; <pos> is the position of the transaction in its account chain (for user accounts: the block height).
// Block ids are the full hashes (the priority rule compares them), accounts the full addresses, momentum ids the first
// 8 bytes of the hash; <total>/<base> are TotalPlasma/BasePlasma (the inputs of higherPriority).
// ---------------------------------------------------------------------------------------------------

type nsHistory struct {
	c     *Ctx
	pos   map[types.Hash]uint64            // transaction position of every block of the producer's chain (and genesis)
	byPos map[string]*nom.AccountBlock     // "<addr>/<real height>" → block of the producer's chain
	known map[types.Hash]*nom.AccountBlock // blocks the driver has been told about
}

type nsFollower struct {
	h   *nsHistory
	fid int
	f   *zFollower
}

func nsHex(b []byte) string { return hex.EncodeToString(b) }

func nsMid(id types.HashHeight) string { return nsHex(id.Hash[:8]) }

func isTx(b *nom.AccountBlock) bool { return b.BlockType != nom.BlockTypeContractSend }

func (h *nsHistory) blockFields(b *nom.AccountBlock) (string, bool) {
	p, ok := h.pos[b.Hash]
	if !ok {
		// not a block of the producer's chain (a rival): the position of the block it competes with, else its height
		if o := h.byPos[fmt.Sprintf("%s/%d", b.Address, b.Height)]; o != nil {
			p = h.pos[o.Hash]
		} else {
			p = b.Height
		}
	}
	prev := b.Previous()
	return fmt.Sprintf("%s %s %d %s %s %d %d", nsHex(b.Hash[:]), nsHex(b.Address[:]), p, nsHex(prev.Hash[:]), nsMid(b.MomentumAcknowledged),
		b.TotalPlasma, b.BasePlasma), true
}

// nsBegin describes the history (genesis account chains, every served momentum) once.
func nsBegin(c *Ctx, st store.Momentum, chainA []*nom.DetailedMomentum) *nsHistory {
	h := &nsHistory{c: c, pos: map[types.Hash]uint64{}, byPos: map[string]*nom.AccountBlock{}, known: map[types.Hash]*nom.AccountBlock{}}
	gm, err := st.GetMomentumByHeight(1)
	if err != nil || gm == nil {
		return nil
	}
	count := map[types.Address]uint64{}
	var gs []string
	for _, hd := range gm.Content {
		b, _ := st.GetAccountBlock(*hd)
		if b == nil || !isTx(b) {
			continue
		}
		count[b.Address]++
		h.pos[b.Hash] = count[b.Address]
		gs = append(gs, nsHex(b.Address[:])+":"+nsHex(b.Hash[:]))
	}
	c.Emit("ns-reset %s %d %s", nsMid(gm.Identifier()), len(gs), strings.Join(gs, " "))
	for _, dm := range chainA {
		var bs []string
		for _, b := range dm.AccountBlocks {
			if !isTx(b) {
				continue
			}
			count[b.Address]++
			h.pos[b.Hash] = count[b.Address]
			h.byPos[fmt.Sprintf("%s/%d", b.Address, b.Height)] = b
			h.known[b.Hash] = b
			s, _ := h.blockFields(b)
			bs = append(bs, strings.ReplaceAll(s, " ", ":"))
		}
		m := dm.Momentum
		c.Emit("ns-mom %s %d %s %d %s", nsMid(m.Identifier()), m.Height, nsMid(m.Previous()), len(bs), strings.Join(bs, " "))
	}
	return h
}

// nsAttach makes the follower report what is done to it.
func nsAttach(h *nsHistory, fid int, f *zFollower) {
	if h == nil {
		return
	}
	h.c.Emit("ns-new %d", fid)
	f.obs = &nsFollower{h: h, fid: fid, f: f}
}

func (n *nsFollower) onGossip(b *nom.AccountBlock, err error) {
	if !isTx(b) {
		return
	}
	s, _ := n.h.blockFields(b)
	verdict := "accepted"
	if err != nil {
		verdict = "refused"
	}
	n.h.c.Emit("ns-gossip %d %s | %s", n.fid, s, verdict)
	if _, ok := n.h.known[b.Hash]; !ok {
		n.h.known[b.Hash] = b
		// a block that is not the producer's: the priority contest with the producer's block at that place
		if o := n.h.byPos[fmt.Sprintf("%s/%d", b.Address, b.Height)]; o != nil && o.Hash != b.Hash {
			for _, pair := range [][2]*nom.AccountBlock{{b, o}, {o, b}} {
				w := "a-wins"
				if chain.HigherPriorityVerif(pair[0], pair[1]) != nil {
					w = "b-wins"
				}
				n.h.c.Emit("ns-prio %s %s | %s", nsHex(pair[0].Hash[:]), nsHex(pair[1].Hash[:]), w)
			}
			n.h.c.Hit("ns-rival-contest")
		}
	}
	n.h.c.Hit("ns-gossip-" + verdict)
	n.emitPool()
}

func (n *nsFollower) onInsert(batch []*nom.DetailedMomentum, idx int, err error) {
	ids := make([]string, len(batch))
	for i, dm := range batch {
		ids[i] = nsMid(dm.Momentum.Identifier())
	}
	verdict := "ok"
	if err != nil {
		verdict = fmt.Sprintf("refused %d", idx)
	}
	n.h.c.Emit("ns-deliver %d %s | %s", n.fid, strings.Join(ids, " "), verdict)
	n.emitPool()
	n.h.c.Hit("ns-deliver")
}

// what the unconfirmed pool holds now
func (n *nsFollower) emitPool() {
	var pool []string
	safely(func() {
		for _, b := range n.f.ch.GetAllUncommittedAccountBlocks() {
			if isTx(b) {
				pool = append(pool, nsHex(b.Hash[:]))
			}
		}
	})
	sort.Strings(pool)
	for i := range pool {
		pool[i] = pool[i][:16]
	}
	ps := "-"
	if len(pool) > 0 {
		ps = strings.Join(pool, ",")
		n.h.c.Hit("ns-pool-nonempty")
	}
	n.h.c.Emit("ns-pool %d | %s", n.fid, ps)
}

func (n *nsFollower) onRestart() {
	n.h.c.Emit("ns-restart %d", n.fid)
	n.h.c.Hit("ns-restart")
}

// nsLedger: the follower's ledger after the history against the first follower's.
func nsLedger(h *nsHistory, fid int, digest, first string) {
	if h == nil || fid == 0 {
		return
	}
	v := "same"
	if digest != first {
		v = "differ"
	}
	h.c.Emit("ns-same 0 %d | %s", fid, v)
}

// gossipContest delivers the rival of the producer's block b to the follower — alone (half of the time: the rival meets an
// empty pool), after b and possibly the producer's next block of that account (the rival is the challenger: the priority
// rule decides, a winning rival displaces b and what was built on it), or before b (b is the challenger). Every gossip
// is reported through the observer, so the model has to predict each verdict. Returns the verdict on the rival.
func gossipContest(c *Ctx, h *nsHistory, f *zFollower, b, rival *nom.AccountBlock) error {
	one := func(x *nom.AccountBlock) error { return f.Gossip([]*nom.AccountBlock{x}) }
	ackKnown := func(x *nom.AccountBlock) bool { return x.MomentumAcknowledged.Height <= f.Height() }
	switch c.R.Intn(4) {
	case 2:
		if !ackKnown(b) {
			break
		}
		if one(b) == nil && h != nil && c.R.Intn(2) == 0 {
			if nx := h.byPos[fmt.Sprintf("%s/%d", b.Address, b.Height+1)]; nx != nil && ackKnown(nx) {
				if one(nx) == nil {
					c.Hit("contest-descendant-pooled")
				}
			}
		}
		err := one(rival)
		if err == nil {
			c.Hit("contest-rival-displaces")
		} else {
			c.Hit("contest-rival-loses")
		}
		return err
	case 3:
		err := one(rival)
		if err == nil && ackKnown(b) {
			if one(b) == nil {
				c.Hit("contest-honest-displaces")
			} else {
				c.Hit("contest-honest-loses")
			}
		}
		return err
	}
	return one(rival)
}
