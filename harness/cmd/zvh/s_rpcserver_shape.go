package main

import (
	"bytes"
	"encoding/hex"
	"encoding/json"
	"fmt"
	"io"
	"strings"
)

// ---------------------------------------------------------------------------------------------------
// `rpc-req` lines of the rpcserver stream (C18): the tie between the real JSON-RPC server and the Lean dispatch model
// (lean/ZenonVerif/Model/JsonRpc.lean `respond`, handler lean/Driver/JsonRpc.lean).
//
//   rpc-req <transport> <json> | <shape>
//
// <json>: the request as a compact token without spaces or pipes — what a JSON parser sees, nothing of the server's
// reading of it: z (null) t f n<literal>; s<hex of the decoded string>; [<json>*] {(<hex of the member name>:<json>)*}; numbers keep
// their literal, members keep their order and repetitions.
// <shape>: what came back, read off the reply text alone: `none` (no body / no message), `single <id>:<class>` (one reply
// object), `batch <k> <id>:<class>…` (one array), or how the exchange failed (http-<status>, dropped, closed, timeout,
// sentinel-…, malformed). <id>: z t f n<literal> s<hex> (`?` an object / array, `-` no id member). <class>: `e-32700`,
// `e-32600`, `e-32601` for the protocol errors the dispatch alone decides; `app` for a result and for every other error code
// (−32602 also comes from the typed decoding of an argument, −32000 from the method — the APIs are not part of that
// model); `bad` for an object that is neither.
// ---------------------------------------------------------------------------------------------------

// jsonTokens prints one complete JSON value in the compact form; ok = false when the text is not exactly one value
func jsonTokens(body []byte) (string, bool) {
	dec := json.NewDecoder(bytes.NewReader(body))
	dec.UseNumber()
	var b strings.Builder
	var val func() error
	val = func() error {
		t, err := dec.Token()
		if err != nil {
			return err
		}
		switch x := t.(type) {
		case nil:
			b.WriteByte('z')
		case bool:
			if x {
				b.WriteByte('t')
			} else {
				b.WriteByte('f')
			}
		case json.Number:
			b.WriteString("n" + x.String() + ";")
		case string:
			b.WriteString("s" + hex.EncodeToString([]byte(x)) + ";")
		case json.Delim:
			switch x {
			case '[':
				b.WriteByte('[')
				for dec.More() {
					if err := val(); err != nil {
						return err
					}
				}
				if _, err := dec.Token(); err != nil {
					return err
				}
				b.WriteByte(']')
			case '{':
				b.WriteByte('{')
				for dec.More() {
					k, err := dec.Token()
					if err != nil {
						return err
					}
					ks, ok := k.(string)
					if !ok {
						return fmt.Errorf("member name is %T", k)
					}
					b.WriteString(hex.EncodeToString([]byte(ks)) + ":")
					if err := val(); err != nil {
						return err
					}
				}
				if _, err := dec.Token(); err != nil {
					return err
				}
				b.WriteByte('}')
			default:
				return fmt.Errorf("unexpected delimiter %v", x)
			}
		}
		return nil
	}
	if err := val(); err != nil {
		return "", false
	}
	if _, err := dec.Token(); err != io.EOF {
		return "", false
	}
	return b.String(), true
}

// idToken: the id member of a reply object
func idToken(raw json.RawMessage, present bool) string {
	if !present {
		return "-"
	}
	dec := json.NewDecoder(bytes.NewReader(raw))
	dec.UseNumber()
	t, err := dec.Token()
	if err != nil {
		return "!"
	}
	switch x := t.(type) {
	case nil:
		return "z"
	case bool:
		if x {
			return "t"
		}
		return "f"
	case json.Number:
		return "n" + x.String()
	case string:
		return "s" + hex.EncodeToString([]byte(x))
	}
	return "?"
}

func replyToken(raw json.RawMessage) string {
	var m map[string]json.RawMessage
	if err := json.Unmarshal(raw, &m); err != nil || m == nil {
		return "!:bad"
	}
	idRaw, hasId := m["id"]
	id := idToken(idRaw, hasId)
	_, hasRes := m["result"]
	errRaw, hasErr := m["error"]
	switch {
	case hasRes && !hasErr:
		return id + ":app"
	case hasErr && !hasRes:
		var e struct {
			Code *int64 `json:"code"`
		}
		if json.Unmarshal(errRaw, &e) != nil || e.Code == nil {
			return id + ":bad"
		}
		switch *e.Code {
		case -32700, -32600, -32601:
			return fmt.Sprintf("%s:e%d", id, *e.Code)
		}
		return id + ":app"
	}
	return id + ":bad"
}

// observedShape: the canonical shape of what one exchange produced (resp, how as returned by rpcTransport.send)
func observedShape(resp, how string) string {
	switch {
	case strings.HasPrefix(how, "http-"), how == "closed", how == "timeout", strings.HasPrefix(how, "sentinel-"):
		return how
	case strings.HasPrefix(how, "panic"):
		return "panic"
	case strings.HasPrefix(how, "transport-error"):
		return "dropped"
	case how != "ok":
		return "failed"
	}
	t := strings.TrimSpace(resp)
	if t == "" {
		return "none"
	}
	if t[0] == '[' {
		var objs []json.RawMessage
		if json.Unmarshal([]byte(t), &objs) != nil {
			return "malformed"
		}
		parts := make([]string, len(objs))
		for i, o := range objs {
			parts[i] = replyToken(o)
		}
		if len(parts) == 0 {
			return "batch 0 "
		}
		return fmt.Sprintf("batch %d %s", len(objs), strings.Join(parts, " "))
	}
	var one json.RawMessage
	if json.Unmarshal([]byte(t), &one) != nil {
		return "malformed" // e.g. two messages where one was due
	}
	return "single " + replyToken(one)
}
