package main

import (
	"fmt"
	"strings"

	"github.com/zenon-network/go-zenon/vm/constants"
)

func init() {
	factGens = append(factGens, func(repo string) (*factFile, error) {
		f := newFactFile("Rewards")
		intv := func(name string, v int64) {
			if v < 0 {
				f.raw("def %s : Int := (%d)\n", name, v)
			} else {
				f.raw("def %s : Int := %d\n", name, v)
			}
		}
		intList := func(name string, vs []int64) {
			ss := make([]string, len(vs))
			for i, v := range vs {
				if v < 0 {
					ss[i] = fmt.Sprintf("(%d)", v)
				} else {
					ss[i] = fmt.Sprint(v)
				}
			}
			f.raw("def %s : List Int := [%s]\n", name, strings.Join(ss, ", "))
		}
		f.raw("-- vm/constants/embedded.go: reward constants (Go type int64 unless noted)\n")
		intv("MomentumsPerHour", constants.MomentumsPerHour)
		intv("MomentumsPerEpoch", constants.MomentumsPerEpoch)
		intv("RewardTimeLimit", constants.RewardTimeLimit)
		f.nat("MaxEpochsPerUpdate", constants.MaxEpochsPerUpdate)
		f.nat("RewardTickDurationInEpochs", constants.RewardTickDurationInEpochs)
		intList("NetworkZnnRewardConfig", constants.NetworkZnnRewardConfig)
		intList("NetworkQsrRewardConfig", constants.NetworkQsrRewardConfig)
		intv("DelegationZnnRewardPercentage", constants.DelegationZnnRewardPercentage)
		intv("MomentumProducingZnnRewardPercentage", constants.MomentumProducingZnnRewardPercentage)
		intv("SentinelZnnRewardPercentage", constants.SentinelZnnRewardPercentage)
		intv("LiquidityZnnRewardPercentage", constants.LiquidityZnnRewardPercentage)
		f.nat("LiquidityZnnTotalPercentages", constants.LiquidityZnnTotalPercentages)
		intv("StakingQsrRewardPercentage", constants.StakingQsrRewardPercentage)
		intv("SentinelQsrRewardPercentage", constants.SentinelQsrRewardPercentage)
		intv("LiquidityQsrRewardPercentage", constants.LiquidityQsrRewardPercentage)
		f.nat("LiquidityQsrTotalPercentages", constants.LiquidityQsrTotalPercentages)
		intv("StakeTimeUnitSec", constants.StakeTimeUnitSec)
		intList("LiquidityStakeWeights", constants.LiquidityStakeWeights)
		return f, nil
	})
}
