package main

import (
	"fmt"
	"math/big"
	"sort"
	"strings"
	"time"

	g "github.com/zenon-network/go-zenon/chain/genesis/mock"
	"github.com/zenon-network/go-zenon/chain/nom"
	"github.com/zenon-network/go-zenon/common"
	"github.com/zenon-network/go-zenon/common/types"
	"github.com/zenon-network/go-zenon/consensus"
	"github.com/zenon-network/go-zenon/verifier"
	"github.com/zenon-network/go-zenon/vm"
	"github.com/zenon-network/go-zenon/vm/constants"
	"github.com/zenon-network/go-zenon/vm/embedded/definition"
)

// ---------------------------------------------------------------------------------------------------
// ledger stream (C01, C04, C09): generated histories on a real node. Every accepted account block is printed
// in confirmation order for the Lean ledger model; after every momentum the real balances of every account,
// every token's supply and the pending sets are compared with the model, and model-free monitors evaluate the
// properties' sentences directly on the real stores:
//   C01  Σ balances + Σ unreceived sends = recorded supply ≤ max supply, per token, at every momentum and pool state
//   C04  every send received at most once, only by its addressee; contract inbox strictly FIFO
//   C09  every confirmed send to a contract is answered by exactly one receive (applied, or refund of exactly the amount)
// ---------------------------------------------------------------------------------------------------

type sendRec struct {
	hash      types.Hash
	from, to  types.Address
	tok       types.ZenonTokenStandard
	amount    *big.Int
	data      []byte // call data, kept for sends addressed to the token contract
	confirmed uint64 // momentum height, 0 while only in the pool
	order     int    // confirmation order among sends to the same contract
	received  []types.AccountHeader
}

type ledgerRun struct {
	c               *Ctx
	n               *Node
	id              int
	sends           map[types.Hash]*sendRec
	sendList        []types.Hash
	addrs           map[types.Address]bool
	tokens          map[types.ZenonTokenStandard]bool
	toContractOrder map[types.Address][]types.Hash // confirmation order of sends per contract
	contractRecvd   map[types.Address]int          // number of receives seen per contract
	pool            *argPool
	failed          bool
	preGate         bool
	gateBroken      bool
	note            string                                // what the harness just did (appended to failure messages)
	hist            string                                // what is special about this history (appended to failure messages)
	prevSupply      map[types.ZenonTokenStandard]*big.Int // recorded supplies at the previous state comparison
	expectDelta     map[types.ZenonTokenStandard]*big.Int // supply changes the momentum's token-contract receives account for (nil: no check)
	deltaWhy        []string
	undo            map[uint64][]func() // per momentum height: how to take its blocks out of the harness log again (rollback)
}

func (r *ledgerRun) fail(format string, a ...interface{}) {
	if r.gateBroken {
		return // the ledger already left the property's regime (third-party receive below the enforcement height); the run ends
	}
	if r.preGate && strings.Contains(format, "pre-enforcement-height") {
		defer func() { r.gateBroken = true }()
	}
	r.failed = true
	note := ""
	if r.note != "" {
		note = " [" + r.note + "]"
	}
	if r.hist != "" {
		note += " {history: " + r.hist + "}"
	}
	r.c.Fail("ledger run=%d h=%d: %s%s", r.id, r.n.Height(), fmt.Sprintf(format, a...), note)
}

func tokCallString(data []byte) string {
	m, err := definition.ABIToken.MethodById(data)
	if err != nil {
		return "other"
	}
	switch m.Name {
	case definition.IssueMethodName:
		p := new(definition.IssueParam)
		if definition.ABIToken.UnpackMethod(p, m.Name, data) != nil {
			return "other"
		}
		return fmt.Sprintf("issue:%s:%s:%v:%v", amt(p.TotalSupply), amt(p.MaxSupply), p.IsMintable, p.IsBurnable)
	case definition.MintMethodName:
		p := new(definition.MintParam)
		if definition.ABIToken.UnpackMethod(p, m.Name, data) != nil {
			return "other"
		}
		return fmt.Sprintf("mint:%s:%s:%s", tokName(p.TokenStandard), amt(p.Amount), addrName(p.ReceiveAddress))
	case definition.BurnMethodName:
		return "burn"
	case definition.UpdateTokenMethodName:
		p := new(definition.UpdateTokenParam)
		if definition.ABIToken.UnpackMethod(p, m.Name, data) != nil {
			return "other"
		}
		return fmt.Sprintf("update:%s:%s:%v:%v", tokName(p.TokenStandard), addrName(p.Owner), p.IsMintable, p.IsBurnable)
	}
	return "other"
}

// onMomentum prints the confirmed blocks for the model and updates the harness's own log of sends/receives.
func (r *ledgerRun) onMomentum(dm *nom.DetailedMomentum) {
	c := r.c
	blocks := append([]*nom.AccountBlock{}, dm.AccountBlocks...)
	sort.SliceStable(blocks, func(i, j int) bool {
		a, b := blocks[i], blocks[j]
		if a.Address != b.Address {
			return strings.Compare(string(a.Address[:]), string(b.Address[:])) < 0
		}
		return a.Height < b.Height
	})
	h := dm.Momentum.Height
	addUndo := func(f func()) { r.undo[h] = append(r.undo[h], f) }
	noteSend := func(b *nom.AccountBlock) {
		rec := r.sends[b.Hash]
		if rec == nil {
			rec = &sendRec{hash: b.Hash, from: b.Address, to: b.ToAddress, tok: b.TokenStandard, amount: new(big.Int).Set(b.Amount)}
			if b.ToAddress == types.TokenContract {
				rec.data = append([]byte{}, b.Data...)
			}
			r.sends[b.Hash] = rec
			r.sendList = append(r.sendList, b.Hash)
		}
		hash := b.Hash
		addUndo(func() { // a rolled back momentum takes its blocks with it (the pool is emptied as well)
			delete(r.sends, hash)
			for i, x := range r.sendList {
				if x == hash {
					r.sendList = append(r.sendList[:i], r.sendList[i+1:]...)
					break
				}
			}
		})
		rec.confirmed = h
		r.addrs[b.Address] = true
		r.addrs[b.ToAddress] = true
		r.tokens[b.TokenStandard] = true
	}
	// sends to contracts enter the inbox in the order in which the momentum lists them (header order)
	for _, hd := range dm.Momentum.Content {
		for _, b := range dm.AccountBlocks {
			if b.Hash == hd.Hash && b.IsSendBlock() && types.IsEmbeddedAddress(b.ToAddress) {
				r.toContractOrder[b.ToAddress] = append(r.toContractOrder[b.ToAddress], b.Hash)
				ca := b.ToAddress
				addUndo(func() { r.toContractOrder[ca] = r.toContractOrder[ca][:len(r.toContractOrder[ca])-1] })
			}
		}
	}
	// C01 "supply changes only through the token contract's issue, mint and burn operations": what the token contract's
	// receive blocks of this momentum account for - a call that was applied (status 1) changes the supply by its amount, a
	// call that failed (status 2: e.g. a mint beyond the maximum supply) by nothing
	delta := map[types.ZenonTokenStandard]*big.Int{}
	var why []string
	addDelta := func(t types.ZenonTokenStandard, v *big.Int, w string) {
		if delta[t] == nil {
			delta[t] = new(big.Int)
		}
		delta[t].Add(delta[t], v)
		why = append(why, w)
	}
	for _, b := range blocks {
		r.addrs[b.Address] = true
		if b.BlockType == nom.BlockTypeContractReceive && b.Address == types.TokenContract {
			r.tokenReceiveDelta(b, addDelta)
		}
		switch b.BlockType {
		case nom.BlockTypeUserSend:
			noteSend(b)
			tc := "-"
			if b.ToAddress == types.TokenContract {
				tc = tokCallString(b.Data)
			}
			c.Emit("L-usend %s %d %s %s %s %s %s | ok", addrName(b.Address), b.Height, h8(b.Hash), addrName(b.ToAddress), tokName(b.TokenStandard), amt(b.Amount), tc)
			c.Hit("blk-usend")
		case nom.BlockTypeUserReceive:
			c.Emit("L-urecv %s %d %s %s | ok", addrName(b.Address), b.Height, h8(b.Hash), h8(b.FromBlockHash))
			c.Hit("blk-urecv")
			r.noteReceive(b)
		case nom.BlockTypeContractSend:
			noteSend(b) // printed inline with its receive block
		case nom.BlockTypeContractReceive:
			status := "?"
			if len(b.Data) == 8 {
				status = fmt.Sprint(common.BytesToUint64(b.Data))
			}
			var sb strings.Builder
			for _, d := range b.DescendantBlocks {
				tc := "-"
				if d.ToAddress == types.TokenContract {
					tc = tokCallString(d.Data)
				}
				fmt.Fprintf(&sb, " %s %s %s %s %s", addrName(d.ToAddress), tokName(d.TokenStandard), amt(d.Amount), h8(d.Hash), tc)
			}
			c.Emit("L-crecv %s %d %s %s %s %d%s | ok", addrName(b.Address), b.Height, h8(b.Hash), h8(b.FromBlockHash), status, len(b.DescendantBlocks), sb.String())
			c.Hit("blk-crecv-status" + status)
			r.noteReceive(b)
			r.checkContractReceive(b, status)
		}
	}
	c.Emit("L-mom %d | ok", h)
	r.expectDelta, r.deltaWhy = delta, why
	r.compareState()
	r.expectDelta, r.deltaWhy = nil, nil
}

// tokenReceiveDelta: the supply change a receive block of the token contract stands for, from the call it answers
func (r *ledgerRun) tokenReceiveDelta(b *nom.AccountBlock, add func(t types.ZenonTokenStandard, v *big.Int, w string)) {
	rec := r.sends[b.FromBlockHash]
	if rec == nil || len(b.Data) != 8 {
		return
	}
	status := common.BytesToUint64(b.Data)
	m, err := definition.ABIToken.MethodById(rec.data)
	if err != nil {
		return
	}
	switch m.Name {
	case definition.MintMethodName:
		p := new(definition.MintParam)
		if definition.ABIToken.UnpackMethod(p, m.Name, rec.data) != nil {
			return
		}
		if status == 1 {
			add(p.TokenStandard, p.Amount, fmt.Sprintf("mint of %s %s requested by %s applied", amt(p.Amount), tokName(p.TokenStandard), addrName(rec.from)))
			r.c.Hit("supply-mint-applied")
			if types.IsEmbeddedAddress(rec.from) {
				r.c.Hit("supply-mint-by-contract-applied")
			}
		} else {
			add(p.TokenStandard, new(big.Int), fmt.Sprintf("mint of %s %s requested by %s REFUSED", amt(p.Amount), tokName(p.TokenStandard), addrName(rec.from)))
			r.c.Hit("supply-mint-refused")
			if types.IsEmbeddedAddress(rec.from) {
				r.c.Hit("supply-mint-by-contract-refused")
			}
		}
	case definition.BurnMethodName:
		if status == 1 {
			add(rec.tok, new(big.Int).Neg(rec.amount), fmt.Sprintf("burn of %s %s by %s applied", amt(rec.amount), tokName(rec.tok), addrName(rec.from)))
			r.c.Hit("supply-burn-applied")
		}
	case definition.IssueMethodName:
		p := new(definition.IssueParam)
		if definition.ABIToken.UnpackMethod(p, m.Name, rec.data) != nil {
			return
		}
		if status == 1 && len(b.DescendantBlocks) == 1 {
			add(b.DescendantBlocks[0].TokenStandard, p.TotalSupply, fmt.Sprintf("issue of %s by %s applied", amt(p.TotalSupply), addrName(rec.from)))
			r.c.Hit("supply-issue-applied")
		}
	}
}

func (r *ledgerRun) noteReceive(b *nom.AccountBlock) {
	rec := r.sends[b.FromBlockHash]
	if rec == nil {
		r.fail("C04: receive %s/%d references send %s that was never confirmed", addrName(b.Address), b.Height, h8(b.FromBlockHash))
		return
	}
	rec.received = append(rec.received, b.Header())
	if mh := r.n.Height(); r.undo != nil {
		r.undo[mh] = append(r.undo[mh], func() {
			if len(rec.received) > 0 {
				rec.received = rec.received[:len(rec.received)-1]
			}
		})
	}
	if len(rec.received) > 1 {
		// below the enforcement height a send can be received by a third account AND by its addressee (known finding F8) —
		// but never twice by the SAME account, at any height
		sameTwice := false
		for _, h := range rec.received[:len(rec.received)-1] {
			if h.Address == b.Address {
				sameTwice = true
			}
		}
		if r.preGate && !sameTwice {
			r.fail("C04 pre-enforcement-height: send %s (to %s) received %d times: by %s and %s", h8(rec.hash), addrName(rec.to), len(rec.received), addrName(rec.received[0].Address), addrName(b.Address))
		} else {
			r.fail("C04: send %s (to %s) received %d times: by %s and %s", h8(rec.hash), addrName(rec.to), len(rec.received), addrName(rec.received[0].Address), addrName(b.Address))
		}
	}
	if b.Address != rec.to {
		if r.preGate {
			r.fail("C04 pre-enforcement-height: send %s addressed to %s was received by %s", h8(rec.hash), addrName(rec.to), addrName(b.Address))
		} else {
			r.fail("C04: send %s addressed to %s was received by %s", h8(rec.hash), addrName(rec.to), addrName(b.Address))
		}
	}
	if types.IsEmbeddedAddress(b.Address) {
		// strict FIFO: the k-th receive of a contract answers the k-th confirmed send to it
		k := r.contractRecvd[b.Address]
		order := r.toContractOrder[b.Address]
		if k >= len(order) || order[k] != b.FromBlockHash {
			exp := "-"
			if k < len(order) {
				exp = h8(order[k])
			}
			r.fail("C04: contract %s receive #%d answers send %s, inbox order expects %s", addrName(b.Address), k+1, h8(b.FromBlockHash), exp)
		}
		r.contractRecvd[b.Address] = k + 1
		ca := b.Address
		if mh := r.n.Height(); r.undo != nil {
			r.undo[mh] = append(r.undo[mh], func() { r.contractRecvd[ca]-- })
		}
	}
}

// C09: a contract receive either applied the call (status 1) or refunded exactly the sent amount to the sender (status 2)
func (r *ledgerRun) checkContractReceive(b *nom.AccountBlock, status string) {
	rec := r.sends[b.FromBlockHash]
	if rec == nil {
		return
	}
	switch status {
	case "1":
	case "2":
		if rec.amount.Sign() > 0 {
			if len(b.DescendantBlocks) != 1 || b.DescendantBlocks[0].ToAddress != rec.from || b.DescendantBlocks[0].TokenStandard != rec.tok || b.DescendantBlocks[0].Amount.Cmp(rec.amount) != 0 {
				r.fail("C09: failed call %s to %s (amount %s %s from %s) was not refunded exactly: %d descendants", h8(rec.hash), addrName(b.Address), amt(rec.amount), tokName(rec.tok), addrName(rec.from), len(b.DescendantBlocks))
			}
		} else if len(b.DescendantBlocks) != 0 {
			r.fail("C09: failed zero-amount call %s to %s produced %d descendant blocks", h8(rec.hash), addrName(b.Address), len(b.DescendantBlocks))
		}
	default:
		r.fail("C09: contract receive %s/%d has status %s", addrName(b.Address), b.Height, status)
	}
}

// compareState prints the real state for the model and runs the conservation monitor on the confirmed ledger.
func (r *ledgerRun) compareState() {
	c := r.c
	store := r.n.Chain().GetFrontierMomentumStore()
	addrs := make([]types.Address, 0, len(r.addrs))
	for a := range r.addrs {
		addrs = append(addrs, a)
	}
	sort.Slice(addrs, func(i, j int) bool { return string(addrs[i][:]) < string(addrs[j][:]) })
	sums := map[types.ZenonTokenStandard]*big.Int{}
	add := func(t types.ZenonTokenStandard, x *big.Int) {
		if sums[t] == nil {
			sums[t] = new(big.Int)
		}
		sums[t].Add(sums[t], x)
	}
	nz := 0
	for _, a := range addrs {
		bm, err := store.GetAccountStore(a).GetBalanceMap()
		if err != nil {
			r.fail("GetBalanceMap(%s): %v", addrName(a), err)
			continue
		}
		toks := make([]types.ZenonTokenStandard, 0, len(bm))
		for t := range bm {
			toks = append(toks, t)
		}
		sort.Slice(toks, func(i, j int) bool { return string(toks[i][:]) < string(toks[j][:]) })
		for _, t := range toks {
			if bm[t].Sign() < 0 {
				r.fail("C01: negative balance %s of %s for %s", amt(bm[t]), tokName(t), addrName(a))
			}
			if bm[t].Sign() != 0 {
				nz++
				c.Emit("L-bal %s %s | %s", addrName(a), tokName(t), amt(bm[t]))
				add(t, bm[t])
				r.tokens[t] = true
			}
		}
	}
	c.Emit("L-nbal | %d", nz)
	// unreceived sends, from the harness's own log of confirmed blocks
	pendingByAddr := map[types.Address][]string{}
	ninf := 0
	for _, hs := range r.sendList {
		rec := r.sends[hs]
		if rec.confirmed != 0 && len(rec.received) == 0 {
			add(rec.tok, rec.amount)
			pendingByAddr[rec.to] = append(pendingByAddr[rec.to], h8(rec.hash))
			ninf++
		}
	}
	c.Emit("L-ninflight | %d", ninf)
	// the store's own pending sets must agree with the log
	for _, a := range addrs {
		hashes, err := store.GetAccountMailbox(a).GetUnreceivedAccountBlockHashes(100000)
		if err != nil {
			r.fail("pending(%s): %v", addrName(a), err)
			continue
		}
		got := make([]string, len(hashes))
		for i, h := range hashes {
			got[i] = h8(h)
		}
		sort.Strings(got)
		want := append([]string{}, pendingByAddr[a]...)
		sort.Strings(want)
		if strings.Join(got, ",") != strings.Join(want, ",") {
			r.fail("C04: pending set of %s is [%s], confirmed-and-unreceived sends addressed to it are [%s]", addrName(a), strings.Join(got, ","), strings.Join(want, ","))
		}
	}
	toks := make([]types.ZenonTokenStandard, 0, len(r.tokens))
	for t := range r.tokens {
		toks = append(toks, t)
	}
	sort.Slice(toks, func(i, j int) bool { return string(toks[i][:]) < string(toks[j][:]) })
	nowSupply := map[types.ZenonTokenStandard]*big.Int{}
	for _, t := range toks {
		if t == types.ZeroTokenStandard {
			continue
		}
		info, err := store.GetTokenInfoByTs(t)
		if err != nil || info == nil {
			if sums[t] != nil && sums[t].Sign() != 0 {
				r.fail("C01: token %s has no recorded supply but balances+in-flight sum to %s", tokName(t), amt(sums[t]))
			}
			c.Emit("L-sup %s | none", tokName(t))
			continue
		}
		c.Emit("L-sup %s | %s %s %v %v %s", tokName(t), amt(info.TotalSupply), amt(info.MaxSupply), info.IsMintable, info.IsBurnable, addrName(info.Owner))
		s := sums[t]
		if s == nil {
			s = new(big.Int)
		}
		if s.Cmp(info.TotalSupply) != 0 {
			tag := "C01"
			if r.preGate {
				tag = "C01 pre-enforcement-height"
			}
			r.fail("%s: token %s recorded supply %s, balances + unreceived sends = %s", tag, tokName(t), amt(info.TotalSupply), amt(s))
		}
		if info.TotalSupply.Cmp(info.MaxSupply) > 0 {
			r.fail("C01: token %s supply %s exceeds max supply %s", tokName(t), amt(info.TotalSupply), amt(info.MaxSupply))
		}
		nowSupply[t] = new(big.Int).Set(info.TotalSupply)
		if r.expectDelta != nil {
			prev := r.prevSupply[t]
			if prev == nil {
				prev = new(big.Int)
			}
			d := r.expectDelta[t]
			if d == nil {
				d = new(big.Int)
			}
			if new(big.Int).Add(prev, d).Cmp(info.TotalSupply) != 0 {
				r.fail("C01: recorded supply of %s went from %s to %s in this momentum; the token contract's issue / mint / burn operations applied in it account for a change of %s [%s]", tokName(t), amt(prev), amt(info.TotalSupply), amt(d), strings.Join(r.deltaWhy, "; "))
			}
			c.Hit("supply-change-checked")
		}
	}
	r.prevSupply = nowSupply
	c.Hit("momentum")
}

// poolMonitor: conservation at the unconfirmed-pool state (frontier account stores include pooled blocks)
func (r *ledgerRun) poolMonitor(_ []*nom.AccountBlock) {
	sums := map[types.ZenonTokenStandard]*big.Int{}
	add := func(t types.ZenonTokenStandard, x *big.Int) {
		if sums[t] == nil {
			sums[t] = new(big.Int)
		}
		sums[t].Add(sums[t], x)
	}
	pooled := r.n.Chain().GetAllUncommittedAccountBlocks()
	for _, b := range pooled {
		r.addrs[b.Address] = true
	}
	for a := range r.addrs {
		bm, err := r.n.Chain().GetFrontierAccountStore(a).GetBalanceMap()
		if err != nil {
			continue
		}
		for t, v := range bm {
			add(t, v)
		}
	}
	recvd := map[types.Hash]bool{}
	for _, b := range pooled {
		if b.IsReceiveBlock() {
			recvd[b.FromBlockHash] = true
		}
	}
	for _, b := range pooled {
		// sends that exist only in the pool and are not in the harness log yet (contract descendants)
		if b.IsSendBlock() && r.sends[b.Hash] == nil && !recvd[b.Hash] {
			add(b.TokenStandard, b.Amount)
		}
	}
	for _, hs := range r.sendList {
		rec := r.sends[hs]
		if len(rec.received) == 0 && !recvd[rec.hash] {
			add(rec.tok, rec.amount)
		}
	}
	tokenStorage := r.n.Chain().GetFrontierAccountStore(types.TokenContract).Storage()
	for t := range r.tokens {
		if t == types.ZeroTokenStandard {
			continue
		}
		// recorded supply as of the pool state: the token contract's own unconfirmed storage
		info, err := definition.GetTokenInfo(tokenStorage, t)
		if err != nil || info == nil {
			continue
		}
		s := sums[t]
		if s == nil {
			s = new(big.Int)
		}
		if s.Cmp(info.TotalSupply) != 0 {
			tag := "C01"
			if r.preGate {
				tag = "C01 pre-enforcement-height"
			}
			var pl []string
			for _, b := range pooled {
				pl = append(pl, fmt.Sprintf("%s/%d:type%d:%s:%s", addrName(b.Address), b.Height, b.BlockType, amt(b.Amount), h8(b.FromBlockHash)))
			}
			sort.Strings(pl)
			r.fail("%s pool-state: token %s recorded supply %s, balances(incl. unconfirmed) + unreceived sends = %s; pooled=[%s]", tag, tokName(t), amt(info.TotalSupply), amt(s), strings.Join(pl, " "))
		}
	}
	r.c.Hit("pool-monitor")
	if len(pooled) > 1 {
		r.c.Hit("pool-monitor-multi")
	}
}

var ledgerUsers = []types.Address{}

// balancesOf: the account's balances as of the pool state (frontier account store)
func (r *ledgerRun) balancesOf(a types.Address) map[types.ZenonTokenStandard]*big.Int {
	bm, err := r.n.Chain().GetFrontierAccountStore(a).GetBalanceMap()
	if err != nil || bm == nil {
		return map[types.ZenonTokenStandard]*big.Int{}
	}
	return bm
}

// recordAccepted: bookkeeping + monitors for a user block the node just accepted into its pool, whatever path it came
// through (template, raw ApplyBlock, protobuf, JSON). The block is read back FROM THE LEDGER: the in-flight amount of a
// send is the amount the ledger records for it (the one a receive will credit), not a field of the object that was handed
// in. Monitor (C01, "preserved by every accepted account block"; "plain transfers leave the sum unchanged"): the block
// changed its own account's balances by exactly that amount of exactly that token - a send debits it, a receive credits
// the amount of the send it answers - and nothing else; then conservation at the pool state.
func (r *ledgerRun) recordAccepted(kind string, addr types.Address, hash types.Hash, before map[types.ZenonTokenStandard]*big.Int) *nom.AccountBlock {
	c := r.c
	b, err := r.n.Chain().GetFrontierAccountStore(addr).ByHash(hash)
	if err != nil || b == nil {
		r.fail("accepted block %s of %s (%s) is not in the account's frontier store: %v", h8(hash), addrName(addr), kind, err)
		return nil
	}
	c.Hit("accepted-" + kind)
	after := r.balancesOf(addr)
	want := map[types.ZenonTokenStandard]*big.Int{}
	for t, v := range before {
		want[t] = new(big.Int).Set(v)
	}
	known := true
	what := ""
	if b.IsSendBlock() {
		if b.Amount.Sign() < 0 {
			r.fail("C01: the ledger records the negative amount %s for send %s of %s", amt(b.Amount), h8(hash), addrName(addr))
		}
		if want[b.TokenStandard] == nil {
			want[b.TokenStandard] = new(big.Int)
		}
		want[b.TokenStandard].Sub(want[b.TokenStandard], b.Amount)
		what = fmt.Sprintf("send of %s %s to %s", amt(b.Amount), tokName(b.TokenStandard), addrName(b.ToAddress))
	} else if rec := r.sends[b.FromBlockHash]; rec != nil {
		if want[rec.tok] == nil {
			want[rec.tok] = new(big.Int)
		}
		want[rec.tok].Add(want[rec.tok], rec.amount)
		what = fmt.Sprintf("receive of send %s (%s %s)", h8(rec.hash), amt(rec.amount), tokName(rec.tok))
	} else {
		known = false
	}
	if known {
		toks := map[types.ZenonTokenStandard]bool{}
		for t := range want {
			toks[t] = true
		}
		for t := range after {
			toks[t] = true
		}
		for t := range toks {
			w, a := want[t], after[t]
			if w == nil {
				w = new(big.Int)
			}
			if a == nil {
				a = new(big.Int)
			}
			if w.Cmp(a) != 0 {
				bf := before[t]
				r.fail("C01: accepted block %s/%d (%s, delivered as %s) changed the %s balance of its account from %s to %s; a %s must leave %s", addrName(addr), b.Height, h8(hash), kind, tokName(t), amt(bf), amt(a), what, amt(w))
			}
		}
		c.Hit("accepted-balance-delta-checked")
	}
	if b.IsSendBlock() {
		rec := &sendRec{hash: b.Hash, from: b.Address, to: b.ToAddress, tok: b.TokenStandard, amount: new(big.Int).Set(b.Amount)}
		if b.ToAddress == types.TokenContract {
			rec.data = append([]byte{}, b.Data...)
		}
		r.sends[b.Hash] = rec
		r.sendList = append(r.sendList, b.Hash)
		r.addrs[b.ToAddress] = true
	}
	r.poolMonitor(nil)
	return b
}

func init() {
	register("ledger", func(c *Ctx) {
		for i := 0; i < c.N; i++ {
			ledgerHistory(c, i)
		}
	})
}

func ledgerHistory(c *Ctx, id int) {
	origGate := verifier.ReceiverMismatchEnforcementHeight
	defer func() { verifier.ReceiverMismatchEnforcementHeight = origGate }()
	preGate := c.Args["gate"] == "pre" || (c.Args["gate"] == "" && id%5 == 4)
	if preGate {
		verifier.ReceiverMismatchEnforcementHeight = 1 << 60
	} else {
		verifier.ReceiverMismatchEnforcementHeight = 0
	}
	// one history in four runs on a chain whose genesis puts ZNN / QSR within a few reward mints of their maximum supply
	// (legal: the genesis check demands total <= max), with ten-minute reward epochs so that the contracts' reward mints
	// (liquidity rewards at the epoch update, CollectReward of pillars / stakers / sentinels) meet the cap inside the history
	tight := c.Args["caps"] == "tight" || (c.Args["caps"] == "" && id%4 == 2 && id < 480) // at most 120 per run (thorough tier)
	tightDesc := ""
	if tight {
		restore, desc := ledgerTightCaps(c, id)
		defer restore()
		c.Hit("history-tight-caps")
		c.Hit("history-tight-caps:" + desc)
		tightDesc = "mock genesis with MaxSupply = TotalSupply + delta, " + desc + " (E = first epoch's liquidity reward), 10-minute reward epochs"
	}
	n := NewNode()
	defer n.Stop()
	r := &ledgerRun{hist: tightDesc, c: c, n: n, id: id, sends: map[types.Hash]*sendRec{}, addrs: map[types.Address]bool{}, tokens: map[types.ZenonTokenStandard]bool{},
		toContractOrder: map[types.Address][]types.Hash{}, contractRecvd: map[types.Address]int{}, preGate: preGate, undo: map[uint64][]func(){}}
	gate := "post"
	if preGate {
		gate = "pre"
	}
	c.Emit("L-reset %s", gate)
	c.Hit("history-gate-" + gate)

	users := []types.Address{g.User1.Address, g.User2.Address, g.User3.Address, g.User4.Address, g.User5.Address,
		g.Pillar1.Address, g.Pillar2.Address, g.Pillar3.Address}
	everyone := append([]types.Address{g.User6.Address, g.User7.Address, g.Pillar4.Address}, users...)
	r.pool = &argPool{addrs: append([]types.Address{types.TokenContract, types.PlasmaContract, types.ZeroAddress}, everyone...),
		tokens: []types.ZenonTokenStandard{types.ZnnTokenStandard, types.QsrTokenStandard, types.ZeroTokenStandard},
		names:  []string{g.Pillar1Name, g.Pillar2Name, "TEST-pillar-new"}}

	// initial state for the model: genesis balances and tokens (read from the real genesis state)
	store := n.Chain().GetFrontierMomentumStore()
	for _, kp := range g.AllKeyPairs {
		r.addrs[kp.Address] = true
	}
	for a := range embeddedNames {
		r.addrs[a] = true
	}
	gaddrs := make([]types.Address, 0)
	for a := range r.addrs {
		gaddrs = append(gaddrs, a)
	}
	sort.Slice(gaddrs, func(i, j int) bool { return string(gaddrs[i][:]) < string(gaddrs[j][:]) })
	for _, a := range gaddrs {
		bm, _ := store.GetAccountStore(a).GetBalanceMap()
		for _, t := range []types.ZenonTokenStandard{types.ZnnTokenStandard, types.QsrTokenStandard} {
			if v := bm[t]; v != nil && v.Sign() != 0 {
				c.Emit("L-init-bal %s %s %s", addrName(a), tokName(t), amt(v))
			}
		}
	}
	for _, t := range []types.ZenonTokenStandard{types.ZnnTokenStandard, types.QsrTokenStandard} {
		info, _ := store.GetTokenInfoByTs(t)
		c.Emit("L-init-tok %s %s %s %v %v %s", tokName(t), amt(info.TotalSupply), amt(info.MaxSupply), info.IsMintable, info.IsBurnable, addrName(info.Owner))
		r.tokens[t] = true
	}
	r.compareState()
	if r.failed {
		return
	}

	n.OnMomentum = r.onMomentum
	momentum := func() bool {
		_, err := n.Momentum()
		if err != nil {
			r.fail("C09: momentum production failed: %v", err)
			return false
		}
		return !r.failed
	}

	if id%3 == 1 { // histories under the later spork regimes
		for i, sp := range []*types.ImplementedSpork{types.AcceleratorSpork, types.BridgeAndLiquiditySpork, types.HtlcSpork} {
			if i > id%4 {
				break
			}
			if err := n.ActivateSpork(sp, fmt.Sprintf("spork-%d", i)); err != nil {
				r.fail("spork activation: %v", err)
				return
			}
			if r.failed {
				return
			}
			c.Hit("spork-activated")
		}
	}

	issued := []types.ZenonTokenStandard{}
	pooled := []*nom.AccountBlock{}
	submit := func(kind string, tpl *nom.AccountBlock) *nom.AccountBlock {
		before := r.balancesOf(tpl.Address)
		b, err := n.Submit(tpl)
		if err != nil {
			c.Hit("rejected-" + kind)
			if c.Args["debug"] != "" {
				c.Hit("dbg rejected-" + kind + ": " + firstLine(err.Error()))
			}
			return nil
		}
		pooled = append(pooled, b)
		return r.recordAccepted(kind, b.Address, b.Hash, before)
	}
	pickTok := func() types.ZenonTokenStandard {
		x := c.R.Intn(10)
		switch {
		case x < 4:
			return types.ZnnTokenStandard
		case x < 6:
			return types.QsrTokenStandard
		case x < 9 && len(issued) > 0:
			return issued[c.R.Intn(len(issued))]
		case x < 9:
			return types.ZnnTokenStandard
		default:
			var t types.ZenonTokenStandard
			c.R.Read(t[:])
			return t
		}
	}
	pickAmount := func(a types.Address, t types.ZenonTokenStandard) *big.Int {
		bal, _ := n.Chain().GetFrontierAccountStore(a).GetBalance(t)
		if bal == nil {
			bal = new(big.Int)
		}
		switch c.R.Intn(8) {
		case 0:
			return big.NewInt(0)
		case 1:
			return new(big.Int).Set(bal)
		case 2:
			return new(big.Int).Add(bal, big.NewInt(1))
		case 3:
			return new(big.Int).Lsh(big.NewInt(1), 254)
		case 4:
			return big.NewInt(1)
		default:
			if bal.Sign() == 0 {
				return big.NewInt(int64(c.R.Intn(3)))
			}
			return new(big.Int).Rand(c.R, bal)
		}
	}

	// fillTo: an amount that makes the balance of `to` (pool state) land on 2^k-1, 2^k or 2^k+1 for a k of hugeBoundaryBits, if
	// the sender can afford it (C01: credits and debits of user-issued tokens with more than 2^64 base units)
	fillTo := func(from, to types.Address, t types.ZenonTokenStandard) *big.Int {
		have, _ := n.Chain().GetFrontierAccountStore(from).GetBalance(t)
		cur, _ := n.Chain().GetFrontierAccountStore(to).GetBalance(t)
		if have == nil || have.Sign() <= 0 {
			return nil
		}
		if cur == nil {
			cur = new(big.Int)
		}
		var cands []*big.Int
		for _, k := range hugeBoundaryBits {
			for d := int64(-1); d <= 1; d++ {
				a := new(big.Int).Sub(new(big.Int).Add(bigPow2(k), big.NewInt(d)), cur)
				if a.Sign() > 0 && a.Cmp(have) <= 0 {
					cands = append(cands, a)
				}
			}
		}
		if len(cands) == 0 {
			return nil
		}
		c.Hit("transfer-fill-to-boundary")
		return cands[c.R.Intn(len(cands))]
	}
	// hugeLadder (once per history in one history of three): a user issues a token whose supply exceeds 2^64 base units (family:
	// 2^255-1 = the largest legal supply, 2^128+.., 2^64+.., 2^64, 2^64+1, 2^65-1; mintable up to 2^255-1 every other time) and
	// pays it out so that the running balance of a fresh receiver R_k lands on 2^k-1, 2^k and 2^k+1 for every k of
	// hugeBoundaryBits the supply affords: a random part first, then the rest up to 2^k-1, then 1, then 1 - every credit
	// in its own receive block; a mint for the owner tops the recorded supply up across the next power of two where the
	// cap allows; then the receivers pay 1, 1 and a random part back (debits cross the same boundaries downwards), every
	// other one by burning. Every accepted block goes through recordAccepted (balance delta of its own account = the
	// recorded amount) and the conservation monitors of every momentum / pool state; the lines are replayed by the model.
	hugeLadder := func() bool {
		var owner types.Address
		found := false
		for i := range users {
			u := users[(id/3+i)%len(users)]
			if bal, _ := n.Chain().GetFrontierAccountStore(u).GetBalance(types.ZnnTokenStandard); bal != nil && bal.Cmp(constants.TokenIssueAmount) >= 0 {
				owner, found = u, true
				break
			}
		}
		if !found {
			c.Hit("huge-ladder-no-owner")
			return true
		}
		p2 := bigPow2
		add := func(xs ...*big.Int) *big.Int {
			z := new(big.Int)
			for _, x := range xs {
				z.Add(z, x)
			}
			return z
		}
		rnd := func(bits uint) *big.Int { return new(big.Int).Rand(c.R, p2(bits)) }
		max255 := new(big.Int).Sub(p2(255), big.NewInt(1))
		var supply *big.Int
		variant := (id / 3) % 6
		switch variant {
		case 0:
			supply = max255
		case 1:
			supply = add(p2(128), p2(127), p2(65), rnd(32))
		case 2:
			supply = add(p2(64), p2(63), p2(33), rnd(20))
		case 3:
			supply = p2(64)
		case 4:
			supply = add(p2(64), big.NewInt(1))
		default:
			supply = new(big.Int).Sub(p2(65), big.NewInt(1))
		}
		mintable := (id/3)%2 == 1 && supply.Cmp(max255) < 0
		maxSupply := new(big.Int).Set(supply)
		if mintable {
			maxSupply = max255
		}
		c.Hit(fmt.Sprintf("huge-ladder-variant-%d", variant))
		data, err := definition.ABIToken.PackMethod(definition.IssueMethodName, fmt.Sprintf("huge%d", id), fmt.Sprintf("HG%d", id%1000), "", supply, maxSupply, uint8(18), mintable, true, false)
		if err != nil {
			return true
		}
		is := submit("huge-issue", &nom.AccountBlock{BlockType: nom.BlockTypeUserSend, Address: owner, ToAddress: types.TokenContract, TokenStandard: types.ZnnTokenStandard,
			Amount: constants.TokenIssueAmount, Data: data})
		if is == nil {
			c.Hit("huge-ladder-issue-rejected")
			return true
		}
		zts := types.NewZenonTokenStandard(is.Hash.Bytes())
		round := func() bool {
			pooled = pooled[:0]
			return momentum()
		}
		// receiveAll: every confirmed, unreceived send of the token addressed to `who`, in confirmation order
		receiveAll := func(who types.Address) {
			for _, hs := range append([]types.Hash{}, r.sendList...) {
				rec := r.sends[hs]
				if rec != nil && rec.confirmed != 0 && len(rec.received) == 0 && rec.to == who && rec.tok == zts {
					submit("huge-receive", &nom.AccountBlock{BlockType: nom.BlockTypeUserReceive, Address: who, FromBlockHash: rec.hash})
				}
			}
		}
		if !round() || !round() {
			return false
		}
		receiveAll(owner)
		if !round() {
			return false
		}
		if bal, _ := n.Chain().GetFrontierAccountStore(owner).GetBalance(zts); bal == nil || bal.Cmp(supply) != 0 {
			c.Hit("huge-ladder-supply-not-received")
			return true
		}
		// the boundaries the supply affords (largest first), one fresh receiver each
		var ks []uint
		var rcv []types.Address
		left := new(big.Int).Set(supply)
		one := big.NewInt(1)
		cand := []types.Address{} // accounts that can pay for their own receive blocks (plasma fused for them in the mock genesis)
		for _, a := range append(append([]types.Address{}, users...), g.Pillar4.Address, g.Pillar5.Address, g.Pillar6.Address, g.Pillar7.Address, g.Pillar8.Address) {
			if a != owner {
				cand = append(cand, a)
			}
		}
		for i := len(hugeBoundaryBits) - 1; i >= 0 && len(rcv) < len(cand); i-- {
			k := hugeBoundaryBits[i]
			need := add(p2(k), one)
			if need.Cmp(left) <= 0 {
				left.Sub(left, need)
				ks = append(ks, k)
				rcv = append(rcv, cand[len(rcv)])
			}
		}
		part := make([]*big.Int, len(ks))
		for j := 0; j < 4; j++ {
			for i, k := range ks {
				var a *big.Int
				switch j {
				case 0:
					part[i] = add(one, new(big.Int).Rand(c.R, new(big.Int).Sub(p2(k), big.NewInt(2)))) // 1 .. 2^k-2
					a = part[i]
				case 1:
					a = new(big.Int).Sub(new(big.Int).Sub(p2(k), one), part[i]) // lands on 2^k-1
				default:
					a = one // 2^k, then 2^k+1
				}
				submit("huge-transfer", &nom.AccountBlock{BlockType: nom.BlockTypeUserSend, Address: owner, ToAddress: rcv[i], TokenStandard: zts, Amount: new(big.Int).Set(a)})
			}
			if j == 2 && mintable {
				// the recorded supply crosses the next power of two by a mint (credited to the owner through the token contract's send)
				info, _ := n.Chain().GetFrontierMomentumStore().GetTokenInfoByTs(zts)
				if info != nil {
					up := new(big.Int).Sub(p2(uint(info.TotalSupply.BitLen())), info.TotalSupply)
					if md, err := definition.ABIToken.PackMethod(definition.MintMethodName, zts, add(up, big.NewInt(int64(c.R.Intn(3)-1))), owner); err == nil {
						submit("huge-mint", &nom.AccountBlock{BlockType: nom.BlockTypeUserSend, Address: owner, ToAddress: types.TokenContract, Data: md})
					}
				}
			}
			if !round() {
				return false
			}
			for _, w := range rcv {
				receiveAll(w)
			}
			receiveAll(owner)
		}
		// back down across the same boundaries: 1, 1, a random part; every other receiver burns instead of paying back
		for j := 0; j < 3; j++ {
			for i, k := range ks {
				a := one
				if j == 2 {
					a = add(one, new(big.Int).Rand(c.R, new(big.Int).Sub(p2(k), big.NewInt(2))))
				}
				if i%2 == 1 {
					submit("huge-burn", &nom.AccountBlock{BlockType: nom.BlockTypeUserSend, Address: rcv[i], ToAddress: types.TokenContract, TokenStandard: zts, Amount: new(big.Int).Set(a),
						Data: definition.ABIToken.PackMethodPanic(definition.BurnMethodName)})
				} else {
					submit("huge-transfer-back", &nom.AccountBlock{BlockType: nom.BlockTypeUserSend, Address: rcv[i], ToAddress: owner, TokenStandard: zts, Amount: new(big.Int).Set(a)})
				}
			}
			if !round() {
				return false
			}
			receiveAll(owner)
		}
		if !round() {
			return false
		}
		c.Hit("huge-ladder-done")
		c.HitN("huge-ladder-boundaries", len(ks))
		return !r.failed
	}

	if tight {
		// somebody to be rewarded in QSR as well: a stake, and a sentinel (QSR deposit, then registration)
		submit("stake", &nom.AccountBlock{BlockType: nom.BlockTypeUserSend, Address: g.User1.Address, ToAddress: types.StakeContract, TokenStandard: types.ZnnTokenStandard,
			Amount: big.NewInt(1000 * g.Zexp), Data: definition.ABIStake.PackMethodPanic(definition.StakeMethodName, constants.StakeTimeMinSec)})
		submit("sentinel-deposit", &nom.AccountBlock{BlockType: nom.BlockTypeUserSend, Address: g.User2.Address, ToAddress: types.SentinelContract, TokenStandard: types.QsrTokenStandard,
			Amount: new(big.Int).Set(constants.SentinelQsrDepositAmount), Data: definition.ABISentinel.PackMethodPanic(definition.DepositQsrMethodName)})
		if !momentum() || !momentum() {
			return
		}
		submit("sentinel-register", &nom.AccountBlock{BlockType: nom.BlockTypeUserSend, Address: g.User2.Address, ToAddress: types.SentinelContract, TokenStandard: types.ZnnTokenStandard,
			Amount: new(big.Int).Set(constants.SentinelZnnRegisterAmount), Data: definition.ABISentinel.PackMethodPanic(definition.RegisterSentinelMethodName)})
		if !momentum() {
			return
		}
	}
	steps := 50 + c.R.Intn(30)
	if c.Tier == "thorough" {
		steps = 120 + c.R.Intn(80)
	}
	for s := 0; s < steps && !r.failed; s++ {
		x := c.R.Intn(100)
		if s == steps/3 { // once in every history, whatever the seed
			r.hostileBurst(users, everyone, pickTok(), 7*id, 8)
			continue
		}
		if s == steps/2 && (c.Args["huge"] == "1" || (c.Args["huge"] == "" && id%3 == 0)) {
			if !hugeLadder() {
				return
			}
			continue
		}
		switch {
		case x < 22: // plain transfer
			from := users[c.R.Intn(len(users))]
			to := everyone[c.R.Intn(len(everyone))]
			t := pickTok()
			data := []byte{}
			if c.R.Intn(4) == 0 {
				data = make([]byte, c.R.Intn(40))
				c.R.Read(data)
			}
			am := pickAmount(from, t)
			if t != types.ZnnTokenStandard && t != types.QsrTokenStandard && c.R.Intn(3) == 0 {
				if f := fillTo(from, to, t); f != nil {
					am = f
				}
			}
			switch c.R.Intn(8) {
			case 0: // data-only message: no token at all
				t, am = types.ZeroTokenStandard, big.NewInt(0)
				c.Hit("transfer-data-only")
			case 1: // a token, amount zero
				am = big.NewInt(0)
				c.Hit("transfer-zero-amount")
			}
			submit("transfer", &nom.AccountBlock{BlockType: nom.BlockTypeUserSend, Address: from, ToAddress: to, TokenStandard: t, Amount: am, Data: data})
		case x < 42: // receive attempts: addressee, a third account, an already received send
			var cands, toEmbedded, already []*sendRec
			for _, hs := range r.sendList {
				rec := r.sends[hs]
				if rec.confirmed == 0 {
					continue
				}
				if types.IsEmbeddedAddress(rec.to) {
					toEmbedded = append(toEmbedded, rec)
					continue
				}
				cands = append(cands, rec)
				if len(rec.received) > 0 {
					already = append(already, rec)
				}
			}
			if len(cands) == 0 {
				continue
			}
			rec := cands[c.R.Intn(len(cands))]
			// prefer unreceived ones
			for k := 0; k < 3 && len(rec.received) > 0; k++ {
				rec = cands[c.R.Intn(len(cands))]
			}
			who := rec.to
			kind := "receive"
			y := c.R.Intn(20)
			switch {
			case y < 4:
				who = users[c.R.Intn(len(users))]
				if who != rec.to {
					kind = "receive-by-third"
				}
			case y < 7 && len(toEmbedded) > 0: // a user account claims a send that was addressed to an embedded contract
				rec = toEmbedded[c.R.Intn(len(toEmbedded))]
				who = users[c.R.Intn(len(users))]
				kind = "receive-of-contract-send"
			case y < 11 && len(already) > 0: // a send that was received before (whatever its amount and token), by its addressee
				rec = already[c.R.Intn(len(already))]
				who = rec.to
			case y < 15 && len(toEmbedded) > 0:
				// a contract receive for ANY confirmed send to a contract, built by the node's own generator as a peer would (contract
				// blocks are unsigned): the head of the inbox is honest, an already answered send is a replay, a later entry is out of
				// order — only the head may pass (the FIFO and receive-once monitors judge what gets confirmed)
				rec = toEmbedded[c.R.Intn(len(toEmbedded))]
				send, _ := n.Chain().GetFrontierMomentumStore().GetAccountBlockByHash(rec.hash)
				if send == nil {
					continue
				}
				var ce *vm.ContractExecution
				var gerr error
				if p := safely(func() { ce, gerr = n.Sup.GenerateAutoReceive(send) }); p != "" {
					c.Hit("forged-contract-receive-panic")
					continue
				}
				if gerr != nil || ce == nil || ce.Transaction == nil {
					c.Hit("forged-contract-receive-refused")
					if gerr != nil {
						kind := "unanswered-entry"
						if len(rec.received) > 0 {
							kind = "replay"
						}
						c.Hit("forged-contract-receive-refused-" + kind + "-" + strings.ReplaceAll(firstLine(gerr.Error()), " ", "-"))
					}
					continue
				}
				if len(rec.received) > 0 {
					r.fail("C04: a contract receive for send %s to %s, which that contract has already received (at %s/%d), was generated and verified again (replay)", h8(rec.hash), addrName(rec.to), addrName(rec.received[0].Address), rec.received[0].Height)
					return
				}
				ins := n.Chain().AcquireInsert("zvh contract receive")
				ierr := n.Chain().AddAccountBlockTransaction(ins, ce.Transaction)
				ins.Unlock()
				if ierr == nil {
					c.Hit("forged-contract-receive-pooled")
				} else {
					c.Hit("forged-contract-receive-not-inserted")
				}
				continue
			}
			if keyOf(who) == nil {
				continue
			}
			if len(rec.received) > 0 {
				kind += "-again"
			}
			b := submit(kind, &nom.AccountBlock{BlockType: nom.BlockTypeUserReceive, Address: who, FromBlockHash: rec.hash})
			if b != nil && c.R.Intn(3) == 0 {
				// immediately try the same receive again on top of the pooled one
				submit(kind+"-twice", &nom.AccountBlock{BlockType: nom.BlockTypeUserReceive, Address: who, FromBlockHash: rec.hash})
			}
		case x < 62: // token contract
			from := users[c.R.Intn(len(users))]
			switch c.R.Intn(5) {
			case 0:
				total := c.genBig()
				max := c.genBig()
				switch c.R.Intn(6) {
				case 0, 1:
				case 2: // more than 2^64 base units (legal up to 2^255-1): next to a power of two of hugeBoundaryBits, or 2^255-1
					k := hugeBoundaryBits[2+c.R.Intn(len(hugeBoundaryBits)-2)]
					total = new(big.Int).Add(bigPow2(k), big.NewInt(int64(c.R.Intn(5)-2)))
					if c.R.Intn(4) == 0 {
						total = new(big.Int).Sub(bigPow2(255), big.NewInt(1))
					}
					max = new(big.Int).Set(total)
					if c.R.Intn(2) == 0 {
						max = new(big.Int).Sub(bigPow2(255), big.NewInt(1))
					}
					c.Hit("token-issue-huge")
				default:
					total = big.NewInt(int64(c.R.Intn(1000)))
					max = new(big.Int).Add(total, big.NewInt(int64(c.R.Intn(1000))))
				}
				mintable := c.R.Intn(2) == 0
				if !mintable && c.R.Intn(4) != 0 {
					max = new(big.Int).Set(total)
				}
				data, err := definition.ABIToken.PackMethod(definition.IssueMethodName, fmt.Sprintf("tok%d", s), fmt.Sprintf("TK%d", s), "", total, max, uint8(c.R.Intn(19)), mintable, c.R.Intn(2) == 0, false)
				if err != nil {
					continue
				}
				am := constants.TokenIssueAmount
				if c.R.Intn(8) == 0 {
					am = big.NewInt(1)
				}
				submit("token-issue", &nom.AccountBlock{BlockType: nom.BlockTypeUserSend, Address: from, ToAddress: types.TokenContract, TokenStandard: types.ZnnTokenStandard, Amount: am, Data: data})
			case 1:
				t := pickTok()
				data, err := definition.ABIToken.PackMethod(definition.MintMethodName, t, c.genBig(), everyone[c.R.Intn(len(everyone))])
				if err != nil {
					continue
				}
				submit("token-mint", &nom.AccountBlock{BlockType: nom.BlockTypeUserSend, Address: from, ToAddress: types.TokenContract, Data: data})
			case 2:
				t := pickTok()
				data, err := definition.ABIToken.PackMethod(definition.MintMethodName, t, big.NewInt(int64(1+c.R.Intn(500))), r.pool.addrs[c.R.Intn(len(r.pool.addrs))])
				if err != nil {
					continue
				}
				submit("token-mint-small", &nom.AccountBlock{BlockType: nom.BlockTypeUserSend, Address: from, ToAddress: types.TokenContract, Data: data})
			case 3:
				t := pickTok()
				submit("token-burn", &nom.AccountBlock{BlockType: nom.BlockTypeUserSend, Address: from, ToAddress: types.TokenContract, TokenStandard: t, Amount: pickAmount(from, t),
					Data: definition.ABIToken.PackMethodPanic(definition.BurnMethodName)})
			default:
				t := pickTok()
				data, err := definition.ABIToken.PackMethod(definition.UpdateTokenMethodName, t, everyone[c.R.Intn(len(everyone))], c.R.Intn(2) == 0, c.R.Intn(2) == 0)
				if err != nil {
					continue
				}
				submit("token-update", &nom.AccountBlock{BlockType: nom.BlockTypeUserSend, Address: from, ToAddress: types.TokenContract, Data: data})
			}
		case x < 66 && len(issued) > 0: // two calls on the SAME token back to back (received in one momentum): supply change + update
			t := issued[c.R.Intn(len(issued))]
			info, _ := n.Chain().GetFrontierMomentumStore().GetTokenInfoByTs(t)
			if info == nil || keyOf(info.Owner) == nil {
				continue
			}
			owner := info.Owner
			first := c.R.Intn(2)
			for k := 0; k < 2; k++ {
				if (k == 0) == (first == 0) {
					if c.R.Intn(2) == 0 {
						data, _ := definition.ABIToken.PackMethod(definition.MintMethodName, t, big.NewInt(int64(1+c.R.Intn(50))), owner)
						submit("combo-mint", &nom.AccountBlock{BlockType: nom.BlockTypeUserSend, Address: owner, ToAddress: types.TokenContract, Data: data})
					} else {
						bal, _ := n.Chain().GetFrontierAccountStore(owner).GetBalance(t)
						if bal != nil && bal.Sign() > 0 {
							submit("combo-burn", &nom.AccountBlock{BlockType: nom.BlockTypeUserSend, Address: owner, ToAddress: types.TokenContract, TokenStandard: t, Amount: big.NewInt(1 + int64(c.R.Intn(burnLimit(bal)))),
								Data: definition.ABIToken.PackMethodPanic(definition.BurnMethodName)})
						}
					}
				} else {
					data, _ := definition.ABIToken.PackMethod(definition.UpdateTokenMethodName, t, owner, info.IsMintable, c.R.Intn(2) == 0)
					submit("combo-update", &nom.AccountBlock{BlockType: nom.BlockTypeUserSend, Address: owner, ToAddress: types.TokenContract, Data: data})
				}
			}
		case x < 80: // any method of any embedded contract with generated arguments, amounts and tokens
			ca := allContractABIs[c.R.Intn(len(allContractABIs))]
			names := sortedMethodNames(ca.abi)
			if len(names) == 0 {
				continue
			}
			m := names[c.R.Intn(len(names))]
			r.pool.tokens = append([]types.ZenonTokenStandard{types.ZnnTokenStandard, types.QsrTokenStandard, types.ZeroTokenStandard}, issued...)
			data, err := c.genCall(ca.abi, m, r.pool)
			if err != nil {
				c.Hit("pack-failed")
				continue
			}
			from := users[c.R.Intn(len(users))]
			t := pickTok()
			am := pickAmount(from, t)
			if c.R.Intn(3) == 0 {
				am = big.NewInt(0)
			}
			b := submit("call-"+embeddedNames[ca.addr][2:], &nom.AccountBlock{BlockType: nom.BlockTypeUserSend, Address: from, ToAddress: ca.addr, TokenStandard: t, Amount: am, Data: data})
			if b != nil {
				c.Hit("call-accepted-" + embeddedNames[ca.addr][2:] + "." + m)
			}
		case x >= 97: // blocks with hostile numeric fields through every acceptance path (s_ledger_hostile.go)
			r.hostileBurst(users, everyone, pickTok(), s+id, 6)
		case x < 81 && !preGate:
			// a contract's inbox holding two unanswered calls of ONE sender, and a peer that presents the receive of the second
			// one first (contract blocks are unsigned; the sequencer is the only thing that keeps the order): refused — the
			// FIFO monitor judges whatever gets confirmed
			from := users[c.R.Intn(len(users))]
			// (first let the contract answer everything that is already queued, so that its inbox holds exactly the two calls)
			pooled = pooled[:0]
			if !momentum() || !momentum() {
				return
			}
			mk := func() *nom.AccountBlock {
				return submit("queue-call", &nom.AccountBlock{BlockType: nom.BlockTypeUserSend, Address: from, ToAddress: types.TokenContract,
					TokenStandard: types.ZnnTokenStandard, Amount: big.NewInt(int64(1 + c.R.Intn(3))), Data: definition.ABIToken.PackMethodPanic(definition.BurnMethodName)})
			}
			s1, s2 := mk(), mk()
			if s1 == nil || s2 == nil {
				continue
			}
			pooled = pooled[:0]
			// (confirmed by a producer that does not run its contract phase: both calls stay unanswered)
			if _, err := n.MomentumWithoutContractPhase(); err != nil {
				c.Hit("queue-manual-momentum-failed")
				if !momentum() {
					return
				}
			}
			if r.failed {
				return
			}
			for _, target := range []*nom.AccountBlock{s2, s1} {
				send, _ := n.Chain().GetFrontierMomentumStore().GetAccountBlockByHash(target.Hash)
				if send == nil {
					continue
				}
				rec := r.sends[send.Hash]
				var ce *vm.ContractExecution
				var gerr error
				if p := safely(func() { ce, gerr = n.Sup.GenerateAutoReceive(send) }); p != "" || gerr != nil || ce == nil || ce.Transaction == nil {
					if target == s2 {
						c.Hit("queue-second-first-refused")
						if gerr != nil {
							c.Hit("queue-second-first-refused-" + strings.ReplaceAll(firstLine(gerr.Error()), " ", "-"))
						}
					}
					continue
				}
				if target == s2 && rec != nil && len(rec.received) == 0 {
					c.Hit("queue-second-first-ACCEPTED")
					if k := r.contractRecvd[types.TokenContract]; k < len(r.toContractOrder[types.TokenContract]) && r.toContractOrder[types.TokenContract][k] != s2.Hash {
						r.fail("C04: the token contract's inbox expects send %s next; a receive of the later entry %s (same sender %s) was generated and verified first — calls are answered out of order", h8(r.toContractOrder[types.TokenContract][k]), h8(s2.Hash), addrName(from))
						return
					}
				}
				ins := n.Chain().AcquireInsert("zvh contract receive")
				n.Chain().AddAccountBlockTransaction(ins, ce.Transaction)
				ins.Unlock()
			}
			c.Hit("queue-scenario")
		case x < 84 && n.Height() > 6 && !preGate: // reorganisation: the last 1–3 momentums are rolled back (as when a longer side chain arrives)
			k := uint64(1 + c.R.Intn(3))
			H := n.Height() - k
			target, terr := n.Chain().GetFrontierMomentumStore().GetMomentumByHeight(H)
			if terr != nil || target == nil {
				continue
			}
			ins := n.Chain().AcquireInsert("zvh rollback")
			rerr := n.Chain().RollbackTo(ins, target.Identifier())
			ins.Unlock()
			if rerr != nil {
				r.fail("rollback to %d failed: %v", H, rerr)
				return
			}
			// every list query of the embedded contracts still answers (momentum insertion itself runs spork.GetAllSporks)
			if _, p := listQueries(n.Chain().GetFrontierMomentumStore()); p != "" {
				r.fail("C06: after rolling back %d momentum(s) to height %d the node cannot answer a ledger query any more: %s", k, H, p)
				return
			}
			c.Hit("list-queries-after-rollback")
			for h := H + k; h > H; h-- {
				fs := r.undo[h]
				for i := len(fs) - 1; i >= 0; i-- {
					fs[i]()
				}
				delete(r.undo, h)
			}
			// blocks that were only in the pool are gone with the pool
			for hs, rec := range r.sends {
				if rec.confirmed == 0 {
					delete(r.sends, hs)
				}
			}
			kept := r.sendList[:0]
			for _, hs := range r.sendList {
				if r.sends[hs] != nil {
					kept = append(kept, hs)
				}
			}
			r.sendList = kept
			pooled = pooled[:0]
			c.Emit("L-rollback %d | ok", H)
			c.Hit("rollback")
			// the statement (C06/C14): after the switch the unconfirmed pool is that of a node that only saw the remaining
			// chain and no gossip since: empty; and conservation holds for the pool state again
			if left := n.Chain().GetAllUncommittedAccountBlocks(); len(left) != 0 {
				var pl []string
				for _, b := range left {
					pl = append(pl, fmt.Sprintf("%s/%d:type%d", addrName(b.Address), b.Height, b.BlockType))
				}
				sort.Strings(pl)
				r.fail("C06/C14: after rolling back %d momentum(s) the unconfirmed pool still holds blocks of the abandoned branch: [%s]", k, strings.Join(pl, " "))
				return
			}
			r.poolMonitor(nil)
			r.compareState()
		default:
			pooled = pooled[:0]
			if !momentum() {
				return
			}
			// remember issued tokens (sorted: map order must not influence the generated history)
			tl := make([]types.ZenonTokenStandard, 0, len(r.tokens))
			for t := range r.tokens {
				tl = append(tl, t)
			}
			sort.Slice(tl, func(i, j int) bool { return string(tl[i][:]) < string(tl[j][:]) })
			for _, t := range tl {
				known := t == types.ZnnTokenStandard || t == types.QsrTokenStandard || t == types.ZeroTokenStandard
				for _, it := range issued {
					if it == t {
						known = true
					}
				}
				if !known {
					if info, _ := n.Chain().GetFrontierMomentumStore().GetTokenInfoByTs(t); info != nil {
						issued = append(issued, t)
					}
				}
			}
			if len(r.sendList) > 0 {
				r.pool.hashes = append(r.pool.hashes[:0], r.sendList[c.R.Intn(len(r.sendList))])
			}
		}
	}
	if tight && !r.failed {
		// reward phase: a good two epochs; stakes / a sentinel were set up at the start, everybody who may hold a reward
		// deposit tries to collect it now and then (twice in a row as well), the owner-less ZNN / QSR are minted only by contracts
		collectors := append([]types.Address{g.User1.Address, g.User2.Address, g.User3.Address}, g.Pillar1.Address, g.Pillar2.Address, g.Pillar3.Address)
		target := n.Height() + 135
		for n.Height() < target && !r.failed {
			pooled = pooled[:0]
			if !momentum() {
				return
			}
			if n.Height()%7 == 0 {
				for _, who := range collectors {
					for _, ca := range []types.Address{types.PillarContract, types.StakeContract, types.SentinelContract, types.LiquidityContract} {
						if c.R.Intn(3) != 0 {
							continue
						}
						submit("collect-reward", &nom.AccountBlock{BlockType: nom.BlockTypeUserSend, Address: who, ToAddress: ca,
							Data: definition.ABICommon.PackMethodPanic(definition.CollectRewardMethodName)})
					}
				}
				// a user asks the token contract directly for ZNN / QSR (refused: only embedded contracts may mint them)
				t := []types.ZenonTokenStandard{types.ZnnTokenStandard, types.QsrTokenStandard}[c.R.Intn(2)]
				if data, err := definition.ABIToken.PackMethod(definition.MintMethodName, t, big.NewInt(int64(1+c.R.Intn(5))), g.User1.Address); err == nil {
					submit("token-mint-native-by-user", &nom.AccountBlock{BlockType: nom.BlockTypeUserSend, Address: g.User1.Address, ToAddress: types.TokenContract, Data: data})
				}
			}
		}
		c.Hit("history-tight-caps-reward-phase")
		constants.UpdateMinNumMomentums = 1 << 40 // the producers stop sending Update calls: the drain below waits for answers, not for new calls
	}
	// drain: every confirmed send to a contract must be answered (C09: the inbox is never wedged)
	for i := 0; i < 4 && !r.failed; i++ {
		pooled = pooled[:0]
		if !momentum() {
			return
		}
	}
	if r.failed {
		return
	}
	unanswered := 0
	for ca, order := range r.toContractOrder {
		if r.contractRecvd[ca] != len(order) {
			unanswered += len(order) - r.contractRecvd[ca]
			r.fail("C09: contract %s has %d confirmed calls but produced %d receive blocks after 4 further momentums (next unanswered: %s)", addrName(ca), len(order), r.contractRecvd[ca], h8(order[r.contractRecvd[ca]]))
		}
	}
	c.Hit("history-complete")
}

// hugeBoundaryBits: the powers of two the running balances of huge-supply tokens are made to cross (machine word sizes)
var hugeBoundaryBits = []uint{31, 32, 63, 64, 127, 128, 254}

func burnLimit(bal *big.Int) int {
	if bal.IsInt64() && bal.Int64() < 30 {
		return int(bal.Int64())
	}
	return 30
}

// ledgerTightCaps rewrites the maximum supplies of the mock genesis (a package variable; restored by the returned function)
// to total + delta with delta around the first epoch's liquidity reward E of the token (the first mint a contract asks for):
// 0, 1, E-1, E, E+1, 2E-1, 2E, 2E+1, E + a random part of E, a few units, several E, and shortens the reward epoch.
func ledgerTightCaps(c *Ctx, id int) (restore func(), desc string) {
	origEpoch, origUpd, origLimit := consensus.EpochDuration, constants.UpdateMinNumMomentums, constants.RewardTimeLimit
	toks := g.EmbeddedGenesis.TokenConfig.Tokens
	origMax := make([]*big.Int, len(toks))
	for i, t := range toks {
		origMax[i] = t.MaxSupply
	}
	restore = func() {
		consensus.EpochDuration, constants.UpdateMinNumMomentums, constants.RewardTimeLimit = origEpoch, origUpd, origLimit
		for i, t := range toks {
			t.MaxSupply = origMax[i]
		}
	}
	consensus.EpochDuration = 10 * time.Minute // the shortest the consensus layer supports (one election tick)
	constants.UpdateMinNumMomentums, constants.RewardTimeLimit = 10, 0
	eZnn, eQsr := constants.LiquidityRewardForEpoch(0)
	family := func(e *big.Int, k int) (*big.Int, string) {
		two := new(big.Int).Mul(e, big.NewInt(2))
		one := big.NewInt(1)
		switch k % 12 {
		case 0:
			return big.NewInt(0), "0"
		case 1:
			return big.NewInt(1), "1"
		case 2:
			return new(big.Int).Sub(e, one), "E-1"
		case 3:
			return new(big.Int).Set(e), "E"
		case 4:
			return new(big.Int).Add(e, one), "E+1"
		case 5:
			return new(big.Int).Sub(two, one), "2E-1"
		case 6:
			return two, "2E"
		case 7:
			return new(big.Int).Add(two, one), "2E+1"
		case 8:
			return new(big.Int).Add(e, new(big.Int).Rand(c.R, e)), "E+part"
		case 9:
			return big.NewInt(int64(2 + c.R.Intn(1000))), "units"
		case 10:
			return new(big.Int).Add(new(big.Int).Mul(e, big.NewInt(int64(3+c.R.Intn(12)))), big.NewInt(int64(c.R.Intn(3)-1))), "kE+-1"
		default:
			return nil, "far"
		}
	}
	k := id / 4
	for _, t := range toks {
		var d *big.Int
		var name string
		switch t.TokenStandard {
		case types.ZnnTokenStandard:
			d, name = family(eZnn, k)
			desc += "znn=" + name
		case types.QsrTokenStandard:
			d, name = family(eQsr, k+5)
			desc += " qsr=" + name
		default:
			continue
		}
		if d != nil {
			t.MaxSupply = new(big.Int).Add(t.TotalSupply, d)
		}
	}
	return restore, desc
}
