package main

import (
	"bytes"
	"encoding/hex"
	"encoding/json"
	"fmt"
	"math/big"
	"os"
	"os/exec"
	"path/filepath"
	"sort"
	"strings"

	"github.com/inconshreveable/log15"

	"github.com/zenon-network/go-zenon/chain"
	"github.com/zenon-network/go-zenon/chain/genesis"
	g "github.com/zenon-network/go-zenon/chain/genesis/mock"
	"github.com/zenon-network/go-zenon/chain/nom"
	"github.com/zenon-network/go-zenon/common/db"
	"github.com/zenon-network/go-zenon/common/types"
	"github.com/zenon-network/go-zenon/vm/embedded/definition"
)

// Hidden subcommand for the "fresh process" clause of C20: `zvh genesis-hash-child <config.json>` prints the genesis
// momentum hash of the configuration and exits. Handled in init() so that main.go needs no change.
func init() {
	if len(os.Args) == 3 && os.Args[1] == "genesis-hash-child" {
		log15.Root().SetHandler(log15.DiscardHandler())
		raw, err := os.ReadFile(os.Args[2])
		if err != nil {
			fmt.Println("error", err)
			os.Exit(3)
		}
		cfg := new(genesis.GenesisConfig)
		if err := json.Unmarshal(raw, cfg); err != nil {
			fmt.Println("error", err)
			os.Exit(3)
		}
		h, e := genesisHash(cfg)
		fmt.Println(h, e)
		os.Exit(0)
	}
}

func cloneCfg(cfg *genesis.GenesisConfig) *genesis.GenesisConfig {
	raw, err := json.Marshal(cfg)
	if err != nil {
		panic(err)
	}
	out := new(genesis.GenesisConfig)
	if err := json.Unmarshal(raw, out); err != nil {
		panic(err)
	}
	return out
}

// genesisHash = NewGenesis(cfg).GetGenesisMomentum().Hash, with panics (common.DealWithErr) mapped to a kind.
func genesisHash(cfg *genesis.GenesisConfig) (h string, kind string) {
	defer func() {
		if r := recover(); r != nil {
			h, kind = "-", "panic"
		}
	}()
	gen := genesis.NewGenesis(cfg)
	return hex.EncodeToString(gen.GetGenesisMomentum().Hash.Bytes()), "ok"
}

func randAddr(c *Ctx, first byte) types.Address {
	var a types.Address
	c.R.Read(a[:])
	a[0] = first
	return a
}
func gnRandHash(c *Ctx) types.Hash {
	var h types.Hash
	c.R.Read(h[:])
	return h
}
func gnRandAmount(c *Ctx) *big.Int {
	switch c.R.Intn(6) {
	case 0:
		return big.NewInt(0)
	case 1:
		return big.NewInt(int64(c.R.Intn(10)))
	case 2:
		return new(big.Int).Mul(big.NewInt(int64(c.R.Intn(100000))), big.NewInt(g.Zexp))
	case 3:
		return new(big.Int).Lsh(big.NewInt(1), uint(c.R.Intn(120)))
	default:
		return big.NewInt(c.R.Int63n(1 << 50))
	}
}

// genConfig builds a random CONSISTENT configuration: every list entry has its own storage key, token supplies are
// the sums of the balances given, the pillar / plasma contracts hold exactly the stakes / fusions.
func gnGenConfig(c *Ctx) *genesis.GenesisConfig {
	cfg := cloneCfg(g.EmbeddedGenesis)
	cfg.ChainIdentifier = uint64(1 + c.R.Intn(1000))
	cfg.ExtraData = fmt.Sprintf("zv-genesis-%d", c.R.Int63())
	cfg.GenesisTimestampSec = 1000000000 + int64(c.R.Intn(1000000))
	sa := randAddr(c, 0)
	cfg.SporkAddress = &sa
	nUsers := 2 + c.R.Intn(8)
	users := make([]types.Address, nUsers)
	for i := range users {
		users[i] = randAddr(c, 0)
	}
	// tokens
	zts := []types.ZenonTokenStandard{types.ZnnTokenStandard, types.QsrTokenStandard}
	for i := c.R.Intn(4); i > 0; i-- {
		var z types.ZenonTokenStandard
		c.R.Read(z[:])
		zts = append(zts, z)
	}
	// pillars
	cfg.PillarConfig.Pillars = nil
	stake := big.NewInt(0)
	for i, n := 0, 1+c.R.Intn(5); i < n; i++ {
		a := randAddr(c, 0)
		gnAmt := gnRandAmount(c)
		stake.Add(stake, gnAmt)
		cfg.PillarConfig.Pillars = append(cfg.PillarConfig.Pillars, &definition.PillarInfo{
			Name: fmt.Sprintf("zv-pillar-%d-%d", i, c.R.Intn(1000)), BlockProducingAddress: a, StakeAddress: users[c.R.Intn(nUsers)],
			RewardWithdrawAddress: a, Amount: gnAmt, RegistrationTime: cfg.GenesisTimestampSec, GiveBlockRewardPercentage: uint8(c.R.Intn(101)),
			GiveDelegateRewardPercentage: uint8(c.R.Intn(101)), PillarType: uint8(c.R.Intn(2)),
		})
	}
	cfg.PillarConfig.Delegations = nil
	for _, u := range users {
		if c.R.Intn(2) == 0 {
			p := cfg.PillarConfig.Pillars[c.R.Intn(len(cfg.PillarConfig.Pillars))]
			cfg.PillarConfig.Delegations = append(cfg.PillarConfig.Delegations, &definition.DelegationInfo{Backer: u, Name: p.Name})
		}
	}
	cfg.PillarConfig.LegacyEntries = nil
	for i := c.R.Intn(4); i > 0; i-- {
		cfg.PillarConfig.LegacyEntries = append(cfg.PillarConfig.LegacyEntries, &definition.LegacyPillarEntry{KeyIdHash: gnRandHash(c), PillarCount: uint8(c.R.Intn(5))})
	}
	// fusions (distinct (owner, id) keys)
	cfg.PlasmaConfig.Fusions = nil
	fused := big.NewInt(0)
	for i := c.R.Intn(8); i > 0; i-- {
		gnAmt := gnRandAmount(c)
		fused.Add(fused, gnAmt)
		cfg.PlasmaConfig.Fusions = append(cfg.PlasmaConfig.Fusions, &definition.FusionInfo{
			Owner: users[c.R.Intn(nUsers)], Id: gnRandHash(c), Amount: gnAmt, ExpirationHeight: uint64(c.R.Intn(100)), Beneficiary: users[c.R.Intn(nUsers)]})
	}
	// swap entries
	cfg.SwapConfig.Entries = nil
	for i := c.R.Intn(5); i > 0; i-- {
		cfg.SwapConfig.Entries = append(cfg.SwapConfig.Entries, &definition.SwapAssets{KeyIdHash: gnRandHash(c), Znn: gnRandAmount(c), Qsr: gnRandAmount(c)})
	}
	// sporks: nil config, or not-yet-active / implemented ones (chain.Init calls os.Exit(2) on an active unknown spork)
	cfg.SporkConfig = nil
	if c.R.Intn(2) == 0 {
		cfg.SporkConfig = &genesis.SporkConfig{}
		impl := []types.Hash{types.AcceleratorSpork.SporkId, types.HtlcSpork.SporkId, types.BridgeAndLiquiditySpork.SporkId}
		c.R.Shuffle(len(impl), func(a, b int) { impl[a], impl[b] = impl[b], impl[a] })
		for i, n := 0, c.R.Intn(4); i < n; i++ {
			sp := &definition.Spork{Id: gnRandHash(c), Name: fmt.Sprintf("spork-%d", i), Description: "zv", Activated: false, EnforcementHeight: 0}
			if i < len(impl) && c.R.Intn(2) == 0 {
				sp.Id, sp.Activated, sp.EnforcementHeight = impl[i], true, uint64(c.R.Intn(3))
			}
			cfg.SporkConfig.Sporks = append(cfg.SporkConfig.Sporks, sp)
		}
	}
	// balances
	total := map[types.ZenonTokenStandard]*big.Int{}
	for _, z := range zts {
		total[z] = big.NewInt(0)
	}
	cfg.GenesisBlocks.Blocks = nil
	add := func(a types.Address, bl map[types.ZenonTokenStandard]*big.Int) {
		for z, v := range bl {
			total[z].Add(total[z], v)
		}
		cfg.GenesisBlocks.Blocks = append(cfg.GenesisBlocks.Blocks, &genesis.GenesisBlockConfig{Address: a, BalanceList: bl})
	}
	add(types.PillarContract, map[types.ZenonTokenStandard]*big.Int{types.ZnnTokenStandard: new(big.Int).Set(stake)})
	add(types.PlasmaContract, map[types.ZenonTokenStandard]*big.Int{types.QsrTokenStandard: new(big.Int).Set(fused)})
	switch c.R.Intn(4) {
	case 0:
		add(types.SwapContract, map[types.ZenonTokenStandard]*big.Int{})
	case 1:
		add(types.SwapContract, map[types.ZenonTokenStandard]*big.Int{types.ZnnTokenStandard: big.NewInt(0), types.QsrTokenStandard: big.NewInt(0)})
	}
	if c.R.Intn(3) == 0 {
		add(types.TokenContract, map[types.ZenonTokenStandard]*big.Int{})
	}
	// balances on the embedded contracts whose holdings no section constrains - the spork contract among them, whether or
	// not the configuration has a spork section (its block is then built from the section, or as a plain balance block)
	for i, ca := range []types.Address{types.StakeContract, types.SentinelContract, types.AcceleratorContract, types.HtlcContract,
		types.BridgeContract, types.LiquidityContract, types.SporkContract} {
		if c.R.Intn(3) == 0 {
			add(ca, map[types.ZenonTokenStandard]*big.Int{zts[c.R.Intn(len(zts))]: gnRandAmount(c)})
			name := []string{"stake", "sentinel", "accelerator", "htlc", "bridge", "liquidity", "spork"}[i]
			if ca == types.SporkContract && cfg.SporkConfig != nil {
				name += "+spork-section"
			}
			c.Hit("genesis-balance-on:" + name)
		}
	}
	for _, u := range users {
		bl := map[types.ZenonTokenStandard]*big.Int{}
		for _, z := range zts {
			if c.R.Intn(3) != 0 {
				bl[z] = gnRandAmount(c)
			}
		}
		add(u, bl)
	}
	// every declared token must be given at least once
	for _, z := range zts {
		found := false
		for _, b := range cfg.GenesisBlocks.Blocks {
			if _, ok := b.BalanceList[z]; ok {
				found = true
			}
		}
		if !found {
			v := gnRandAmount(c)
			cfg.GenesisBlocks.Blocks[len(cfg.GenesisBlocks.Blocks)-1].BalanceList[z] = v
			total[z].Add(total[z], v)
		}
	}
	cfg.TokenConfig.Tokens = nil
	for i, z := range zts {
		max := new(big.Int).Add(total[z], gnRandAmount(c))
		cfg.TokenConfig.Tokens = append(cfg.TokenConfig.Tokens, &definition.TokenInfo{
			Owner: users[c.R.Intn(nUsers)], TokenName: fmt.Sprintf("Token%d", i), TokenSymbol: fmt.Sprintf("TK%d", i), TokenDomain: "zv.example",
			TotalSupply: new(big.Int).Set(total[z]), MaxSupply: max, Decimals: uint8(c.R.Intn(19)), IsMintable: c.R.Intn(2) == 0, IsBurnable: c.R.Intn(2) == 0,
			IsUtility: c.R.Intn(2) == 0, TokenStandard: z})
	}
	return cfg
}

// permuteCfg returns a deep copy with every list that carries no order shuffled.
func permuteCfg(c *Ctx, in *genesis.GenesisConfig) *genesis.GenesisConfig {
	cfg := cloneCfg(in)
	sh := func(n int, swap func(i, j int)) { c.R.Shuffle(n, swap) }
	p := cfg.PillarConfig
	sh(len(p.Pillars), func(i, j int) { p.Pillars[i], p.Pillars[j] = p.Pillars[j], p.Pillars[i] })
	sh(len(p.Delegations), func(i, j int) { p.Delegations[i], p.Delegations[j] = p.Delegations[j], p.Delegations[i] })
	sh(len(p.LegacyEntries), func(i, j int) { p.LegacyEntries[i], p.LegacyEntries[j] = p.LegacyEntries[j], p.LegacyEntries[i] })
	t := cfg.TokenConfig.Tokens
	sh(len(t), func(i, j int) { t[i], t[j] = t[j], t[i] })
	f := cfg.PlasmaConfig.Fusions
	sh(len(f), func(i, j int) { f[i], f[j] = f[j], f[i] })
	s := cfg.SwapConfig.Entries
	sh(len(s), func(i, j int) { s[i], s[j] = s[j], s[i] })
	if cfg.SporkConfig != nil {
		sp := cfg.SporkConfig.Sporks
		sh(len(sp), func(i, j int) { sp[i], sp[j] = sp[j], sp[i] })
	}
	b := cfg.GenesisBlocks.Blocks
	sh(len(b), func(i, j int) { b[i], b[j] = b[j], b[i] })
	return cfg
}

// ---- line encoding of the part of a configuration CheckGenesis looks at ---------------------------------

func gnAmt(v *big.Int) string {
	if v == nil {
		return "nil"
	}
	return v.String()
}

func encodeCfg(cfg *genesis.GenesisConfig) string {
	var sb strings.Builder
	bit := func(b bool) byte {
		if b {
			return '1'
		}
		return '0'
	}
	sb.Write([]byte{bit(cfg.GenesisBlocks != nil), bit(cfg.TokenConfig != nil), bit(cfg.PillarConfig != nil), bit(cfg.SporkAddress != nil),
		bit(cfg.PlasmaConfig != nil), bit(cfg.SwapConfig != nil)})
	if cfg.GenesisBlocks != nil {
		fmt.Fprintf(&sb, " B %d", len(cfg.GenesisBlocks.Blocks))
		for _, b := range cfg.GenesisBlocks.Blocks {
			ks := make([]types.ZenonTokenStandard, 0, len(b.BalanceList))
			for z := range b.BalanceList {
				ks = append(ks, z)
			}
			sort.Slice(ks, func(i, j int) bool { return bytes.Compare(ks[i][:], ks[j][:]) < 0 })
			fmt.Fprintf(&sb, " %s %d", hx(b.Address.Bytes()), len(ks))
			for _, z := range ks {
				fmt.Fprintf(&sb, " %s %s", hx(z[:]), gnAmt(b.BalanceList[z]))
			}
		}
	} else {
		sb.WriteString(" B 0")
	}
	if cfg.TokenConfig != nil {
		fmt.Fprintf(&sb, " T %d", len(cfg.TokenConfig.Tokens))
		for _, t := range cfg.TokenConfig.Tokens {
			fmt.Fprintf(&sb, " %s %s %s", hx(t.TokenStandard[:]), gnAmt(t.TotalSupply), gnAmt(t.MaxSupply))
		}
	} else {
		sb.WriteString(" T 0")
	}
	if cfg.PillarConfig != nil {
		fmt.Fprintf(&sb, " P %d", len(cfg.PillarConfig.Pillars))
		for _, p := range cfg.PillarConfig.Pillars {
			fmt.Fprintf(&sb, " %s", gnAmt(p.Amount))
		}
	} else {
		sb.WriteString(" P 0")
	}
	if cfg.PlasmaConfig != nil {
		fmt.Fprintf(&sb, " F %d", len(cfg.PlasmaConfig.Fusions))
		for _, f := range cfg.PlasmaConfig.Fusions {
			if f == nil {
				sb.WriteString(" nilentry")
			} else {
				fmt.Fprintf(&sb, " %s", gnAmt(f.Amount))
			}
		}
	} else {
		sb.WriteString(" F 0")
	}
	if cfg.SwapConfig != nil {
		fmt.Fprintf(&sb, " S %d", len(cfg.SwapConfig.Entries))
		for _, s := range cfg.SwapConfig.Entries {
			fmt.Fprintf(&sb, " %s %s", gnAmt(s.Znn), gnAmt(s.Qsr))
		}
	} else {
		sb.WriteString(" S 0")
	}
	return sb.String()
}

// checkReal: the verdict of the real CheckGenesis; on refusal the first of the five exported validators (in the
// order CheckGenesis calls them) that refuses.
func checkReal(cfg *genesis.GenesisConfig) (verdict string) {
	defer func() {
		if r := recover(); r != nil {
			verdict = "panic"
		}
	}()
	if genesis.CheckGenesis(cfg) == nil {
		return "ok"
	}
	for _, v := range []struct {
		n string
		f func(*genesis.GenesisConfig) error
	}{{"fields", genesis.CheckFieldsExist}, {"plasma", genesis.CheckPlasmaInfo}, {"swap", genesis.CheckSwapAccount},
		{"pillar", genesis.CheckPillarBalance}, {"supply", genesis.CheckTokenTotalSupply}} {
		if err := v.f(cfg); err != nil {
			return "reject " + v.n
		}
	}
	return "reject none-of-the-validators"
}

// ledgerAfterGenesis inserts the genesis of cfg into a fresh in-memory chain and returns the balance maps of addrs.
func ledgerAfterGenesis(cfg *genesis.GenesisConfig, addrs []types.Address) (bal map[types.Address]map[types.ZenonTokenStandard]*big.Int, kind string) {
	defer func() {
		if r := recover(); r != nil {
			bal, kind = nil, fmt.Sprintf("panic: %v", r)
		}
	}()
	gen := genesis.NewGenesis(cfg)
	ch := chain.NewChain(db.NewMemDBManager(db.NewMemDB()), gen)
	if err := ch.Init(); err != nil {
		return nil, "init: " + err.Error()
	}
	st := ch.GetFrontierMomentumStore()
	bal = map[types.Address]map[types.ZenonTokenStandard]*big.Int{}
	for _, a := range addrs {
		m, err := st.GetAccountStore(a).GetBalanceMap()
		if err != nil {
			return nil, "balance: " + err.Error()
		}
		bal[a] = m
	}
	return bal, "ok"
}

// monitorAccepted: the sentence of the property (= theorem check_genesis_sound) evaluated on the REAL ledger produced from
// an ACCEPTED configuration: per declared token the balances add up to TotalSupply (<= MaxSupply, MaxSupply present), every
// held token is declared, no amount (balance, fusion, pillar stake, swap) is missing or negative, no address has two entries,
// the plasma contract holds exactly the sum of the fusions in QSR, the pillar contract exactly the sum of the stakes in ZNN,
// the swap contract nothing.
func monitorAccepted(c *Ctx, tag string, cfg *genesis.GenesisConfig) {
	seen := map[types.Address]bool{}
	var addrs []types.Address
	for _, a := range []types.Address{types.PlasmaContract, types.PillarContract, types.SwapContract, types.TokenContract} {
		seen[a] = true
		addrs = append(addrs, a)
	}
	for _, b := range cfg.GenesisBlocks.Blocks {
		if !seen[b.Address] {
			seen[b.Address] = true
			addrs = append(addrs, b.Address)
		}
	}
	// every fusion, pillar and swap amount is present and not negative (check_genesis_amounts): the contracts store them as
	// unsigned 256-bit values, so a negative one becomes 2^256-v while it lowers the sum compared with the balance. Looked at
	// BEFORE the chain is started: packing such an amount rewrites the configuration's big.Int in place.
	malformed := false
	for i, f := range cfg.PlasmaConfig.Fusions {
		if f == nil || f.Amount == nil || f.Amount.Sign() < 0 {
			malformed = true
			a := "nilentry"
			if f != nil {
				a = gnAmt(f.Amount)
			}
			c.Fail("CheckGenesis accepted (%s) the fusion amount %s (fusion %d) [%s]", tag, a, i, encodeCfg(cfg))
		}
	}
	for i, p := range cfg.PillarConfig.Pillars {
		if p.Amount == nil || p.Amount.Sign() < 0 {
			malformed = true
			c.Fail("CheckGenesis accepted (%s) the pillar amount %s (pillar %d) [%s]", tag, gnAmt(p.Amount), i, encodeCfg(cfg))
		}
	}
	for i, e := range cfg.SwapConfig.Entries {
		if e.Znn == nil || e.Qsr == nil || e.Znn.Sign() < 0 || e.Qsr.Sign() < 0 {
			c.Fail("CheckGenesis accepted (%s) the swap amounts %s / %s (entry %d) [%s]", tag, gnAmt(e.Znn), gnAmt(e.Qsr), i, encodeCfg(cfg))
		}
	}
	if malformed {
		return // the sums below are not defined
	}
	bal, kind := ledgerAfterGenesis(cfg, addrs)
	if kind != "ok" {
		c.Hit("accepted-ledger:" + strings.SplitN(kind, ":", 2)[0])
		c.Fail("accepted genesis config cannot be started (%s): %s [%s]", tag, kind, encodeCfg(cfg))
		return
	}
	c.Hit("accepted-ledger:ok")
	c01AtGenesis(c, tag, cfg)
	sum := map[types.ZenonTokenStandard]*big.Int{}
	for _, a := range addrs {
		for z, v := range bal[a] {
			if sum[z] == nil {
				sum[z] = big.NewInt(0)
			}
			sum[z].Add(sum[z], v)
		}
	}
	get := func(a types.Address, z types.ZenonTokenStandard) *big.Int {
		if v, ok := bal[a][z]; ok {
			return v
		}
		return big.NewInt(0)
	}
	for _, t := range cfg.TokenConfig.Tokens {
		s := sum[t.TokenStandard]
		if s == nil {
			s = big.NewInt(0)
		}
		if s.Cmp(t.TotalSupply) != 0 {
			c.Fail("CheckGenesis accepted (%s) but ledger balances of %x add up to %v, declared TotalSupply %v [%s]", tag, t.TokenStandard[:], s, t.TotalSupply, encodeCfg(cfg))
		}
		if t.MaxSupply == nil {
			c.Fail("CheckGenesis accepted (%s) token %x without MaxSupply [%s]", tag, t.TokenStandard[:], encodeCfg(cfg))
		} else if t.TotalSupply.Cmp(t.MaxSupply) > 0 {
			c.Fail("CheckGenesis accepted (%s) TotalSupply %v above MaxSupply %v for token %x [%s]", tag, t.TotalSupply, t.MaxSupply, t.TokenStandard[:], encodeCfg(cfg))
		}
	}
	// every token somebody holds is declared (check_genesis_declared)
	for z, v := range sum {
		declared := false
		for _, t := range cfg.TokenConfig.Tokens {
			declared = declared || t.TokenStandard == z
		}
		if !declared && v.Sign() != 0 {
			c.Fail("CheckGenesis accepted (%s) but the ledger holds %v of token %x, which TokenConfig does not declare [%s]", tag, v, z[:], encodeCfg(cfg))
		}
	}
	// no balance list carries a missing or negative amount, no address two entries (check_genesis_entries_wellformed)
	entries := map[types.Address]int{}
	for _, b := range cfg.GenesisBlocks.Blocks {
		entries[b.Address]++
		if entries[b.Address] == 2 {
			c.Fail("CheckGenesis accepted (%s) two genesis entries for address %x [%s]", tag, b.Address.Bytes(), encodeCfg(cfg))
		}
		for z, v := range b.BalanceList {
			if v == nil || v.Sign() < 0 {
				c.Fail("CheckGenesis accepted (%s) the amount %s of token %x for address %x [%s]", tag, gnAmt(v), z[:], b.Address.Bytes(), encodeCfg(cfg))
			}
		}
	}
	fused := big.NewInt(0)
	for _, f := range cfg.PlasmaConfig.Fusions {
		fused.Add(fused, f.Amount)
	}
	if get(types.PlasmaContract, types.QsrTokenStandard).Cmp(fused) != 0 {
		c.Fail("CheckGenesis accepted (%s) but plasma contract holds %v QSR, fusions add up to %v [%s]", tag, get(types.PlasmaContract, types.QsrTokenStandard), fused, encodeCfg(cfg))
	}
	stake := big.NewInt(0)
	for _, p := range cfg.PillarConfig.Pillars {
		stake.Add(stake, p.Amount)
	}
	if get(types.PillarContract, types.ZnnTokenStandard).Cmp(stake) != 0 {
		c.Fail("CheckGenesis accepted (%s) but pillar contract holds %v ZNN, pillar stakes add up to %v [%s]", tag, get(types.PillarContract, types.ZnnTokenStandard), stake, encodeCfg(cfg))
	}
	for _, ct := range []struct {
		a    types.Address
		z    types.ZenonTokenStandard
		name string
	}{{types.PlasmaContract, types.QsrTokenStandard, "plasma"}, {types.PillarContract, types.ZnnTokenStandard, "pillar"}} {
		for z, v := range bal[ct.a] {
			if z != ct.z && v.Sign() != 0 {
				c.Fail("CheckGenesis accepted (%s) but %s contract also holds %v of token %x [%s]", tag, ct.name, v, z[:], encodeCfg(cfg))
			}
		}
	}
	for z, v := range bal[types.SwapContract] {
		if v.Sign() != 0 {
			c.Fail("CheckGenesis accepted (%s) but swap contract holds %v of %x [%s]", tag, v, z[:], encodeCfg(cfg))
		}
	}
}

type perturbation struct {
	name    string
	changes bool // true: changes one of the sums the property names => must be rejected
	f       func(c *Ctx, cfg *genesis.GenesisConfig) bool
}

func someBlockWithBalance(c *Ctx, cfg *genesis.GenesisConfig) (*genesis.GenesisBlockConfig, types.ZenonTokenStandard, bool) {
	idx := c.R.Perm(len(cfg.GenesisBlocks.Blocks))
	for _, i := range idx {
		b := cfg.GenesisBlocks.Blocks[i]
		ks := make([]types.ZenonTokenStandard, 0)
		for z := range b.BalanceList {
			ks = append(ks, z)
		}
		if len(ks) == 0 {
			continue
		}
		sort.Slice(ks, func(i, j int) bool { return bytes.Compare(ks[i][:], ks[j][:]) < 0 })
		return b, ks[c.R.Intn(len(ks))], true
	}
	return nil, types.ZenonTokenStandard{}, false
}

var perturbations = []perturbation{
	{"balance+1", true, func(c *Ctx, cfg *genesis.GenesisConfig) bool {
		b, z, ok := someBlockWithBalance(c, cfg)
		if ok {
			b.BalanceList[z].Add(b.BalanceList[z], big.NewInt(1))
		}
		return ok
	}},
	{"balance-1", true, func(c *Ctx, cfg *genesis.GenesisConfig) bool {
		b, z, ok := someBlockWithBalance(c, cfg)
		if ok {
			b.BalanceList[z].Sub(b.BalanceList[z], big.NewInt(1))
		}
		return ok
	}},
	{"drop-block", true, func(c *Ctx, cfg *genesis.GenesisConfig) bool {
		// drop a block that carries a non-zero balance
		idx := c.R.Perm(len(cfg.GenesisBlocks.Blocks))
		for _, i := range idx {
			nz := false
			for _, v := range cfg.GenesisBlocks.Blocks[i].BalanceList {
				if v.Sign() != 0 {
					nz = true
				}
			}
			if nz {
				cfg.GenesisBlocks.Blocks = append(cfg.GenesisBlocks.Blocks[:i], cfg.GenesisBlocks.Blocks[i+1:]...)
				return true
			}
		}
		return false
	}},
	{"undeclared-token", true, func(c *Ctx, cfg *genesis.GenesisConfig) bool {
		var z types.ZenonTokenStandard
		c.R.Read(z[:])
		b := cfg.GenesisBlocks.Blocks[c.R.Intn(len(cfg.GenesisBlocks.Blocks))]
		b.BalanceList[z] = big.NewInt(int64(c.R.Intn(3)))
		return true
	}},
	{"fusion+-1", true, func(c *Ctx, cfg *genesis.GenesisConfig) bool {
		if len(cfg.PlasmaConfig.Fusions) == 0 {
			return false
		}
		f := cfg.PlasmaConfig.Fusions[c.R.Intn(len(cfg.PlasmaConfig.Fusions))]
		f.Amount.Add(f.Amount, big.NewInt(int64(1-2*c.R.Intn(2))))
		return true
	}},
	{"add-fusion", true, func(c *Ctx, cfg *genesis.GenesisConfig) bool {
		cfg.PlasmaConfig.Fusions = append(cfg.PlasmaConfig.Fusions, &definition.FusionInfo{Owner: randAddr(c, 0), Id: gnRandHash(c), Amount: big.NewInt(1 + int64(c.R.Intn(1000))), Beneficiary: randAddr(c, 0)})
		return true
	}},
	{"drop-fusion", true, func(c *Ctx, cfg *genesis.GenesisConfig) bool {
		for _, i := range c.R.Perm(len(cfg.PlasmaConfig.Fusions)) {
			if cfg.PlasmaConfig.Fusions[i].Amount.Sign() != 0 {
				cfg.PlasmaConfig.Fusions = append(cfg.PlasmaConfig.Fusions[:i], cfg.PlasmaConfig.Fusions[i+1:]...)
				return true
			}
		}
		return false
	}},
	{"pillar-stake+-1", true, func(c *Ctx, cfg *genesis.GenesisConfig) bool {
		p := cfg.PillarConfig.Pillars[c.R.Intn(len(cfg.PillarConfig.Pillars))]
		p.Amount.Add(p.Amount, big.NewInt(int64(1-2*c.R.Intn(2))))
		return true
	}},
	{"supply+-1", true, func(c *Ctx, cfg *genesis.GenesisConfig) bool {
		t := cfg.TokenConfig.Tokens[c.R.Intn(len(cfg.TokenConfig.Tokens))]
		t.TotalSupply.Add(t.TotalSupply, big.NewInt(int64(1-2*c.R.Intn(2))))
		return true
	}},
	{"drop-token", true, func(c *Ctx, cfg *genesis.GenesisConfig) bool {
		i := c.R.Intn(len(cfg.TokenConfig.Tokens))
		cfg.TokenConfig.Tokens = append(cfg.TokenConfig.Tokens[:i], cfg.TokenConfig.Tokens[i+1:]...)
		return true
	}},
	{"declare-ungiven-token", true, func(c *Ctx, cfg *genesis.GenesisConfig) bool {
		var z types.ZenonTokenStandard
		c.R.Read(z[:])
		cfg.TokenConfig.Tokens = append(cfg.TokenConfig.Tokens, &definition.TokenInfo{Owner: randAddr(c, 0), TokenName: "X", TokenSymbol: "X", TokenDomain: "x.example",
			TotalSupply: big.NewInt(int64(c.R.Intn(2))), MaxSupply: big.NewInt(10), TokenStandard: z})
		return true
	}},
	{"swap-holds", true, func(c *Ctx, cfg *genesis.GenesisConfig) bool {
		// the swap contract is given something (and the supply is raised accordingly so only the swap clause is violated)
		z := []types.ZenonTokenStandard{types.ZnnTokenStandard, types.QsrTokenStandard}[c.R.Intn(2)]
		for _, b := range cfg.GenesisBlocks.Blocks {
			if b.Address == types.SwapContract {
				b.BalanceList[z] = big.NewInt(5)
				for _, t := range cfg.TokenConfig.Tokens {
					if t.TokenStandard == z {
						t.TotalSupply.Add(t.TotalSupply, big.NewInt(5))
					}
				}
				return true
			}
		}
		cfg.GenesisBlocks.Blocks = append(cfg.GenesisBlocks.Blocks, &genesis.GenesisBlockConfig{Address: types.SwapContract, BalanceList: map[types.ZenonTokenStandard]*big.Int{z: big.NewInt(5)}})
		for _, t := range cfg.TokenConfig.Tokens {
			if t.TokenStandard == z {
				t.TotalSupply.Add(t.TotalSupply, big.NewInt(5))
			}
		}
		return true
	}},
	{"nil-section", true, func(c *Ctx, cfg *genesis.GenesisConfig) bool {
		switch c.R.Intn(6) {
		case 0:
			cfg.GenesisBlocks = nil
		case 1:
			cfg.TokenConfig = nil
		case 2:
			cfg.PillarConfig = nil
		case 3:
			cfg.SporkAddress = nil
		case 4:
			cfg.PlasmaConfig = nil
		default:
			cfg.SwapConfig = nil
		}
		return true
	}},
	{"nil-swap-amount", true, func(c *Ctx, cfg *genesis.GenesisConfig) bool {
		e := &definition.SwapAssets{KeyIdHash: gnRandHash(c), Znn: big.NewInt(1), Qsr: big.NewInt(1)}
		if c.R.Intn(2) == 0 {
			e.Znn = nil
		} else {
			e.Qsr = nil
		}
		cfg.SwapConfig.Entries = append(cfg.SwapConfig.Entries, e)
		return true
	}},
	{"nil-fusion-entry", true, func(c *Ctx, cfg *genesis.GenesisConfig) bool {
		cfg.PlasmaConfig.Fusions = append(cfg.PlasmaConfig.Fusions, nil)
		return true
	}},
	{"contract-token-missing", true, func(c *Ctx, cfg *genesis.GenesisConfig) bool {
		// the contract keeps its entry but the entry no longer lists the backing token; supply adjusted so that only the
		// contract-holding validator can notice
		return editContractBlock(c, cfg, func(b *genesis.GenesisBlockConfig, z types.ZenonTokenStandard) (*big.Int, bool) {
			v, ok := b.BalanceList[z]
			if !ok || v.Sign() == 0 {
				return nil, false
			}
			delete(b.BalanceList, z)
			return new(big.Int).Neg(v), true
		})
	}},
	{"contract-balance-shift", true, func(c *Ctx, cfg *genesis.GenesisConfig) bool {
		return editContractBlock(c, cfg, func(b *genesis.GenesisBlockConfig, z types.ZenonTokenStandard) (*big.Int, bool) {
			v, ok := b.BalanceList[z]
			if !ok {
				return nil, false
			}
			d := big.NewInt(int64(1 - 2*c.R.Intn(2)))
			v.Add(v, d)
			return d, true
		})
	}},
	{"contract-extra-token", true, func(c *Ctx, cfg *genesis.GenesisConfig) bool {
		return editContractBlock(c, cfg, func(b *genesis.GenesisBlockConfig, z types.ZenonTokenStandard) (*big.Int, bool) {
			// give the contract some of the OTHER native token as well (zero or not: both are "extra")
			other := types.ZnnTokenStandard
			if z == types.ZnnTokenStandard {
				other = types.QsrTokenStandard
			}
			d := big.NewInt(int64(c.R.Intn(3)))
			b.BalanceList[other] = d
			for _, t := range cfg.TokenConfig.Tokens {
				if t.TokenStandard == other {
					t.TotalSupply.Add(t.TotalSupply, d)
					t.MaxSupply.Add(t.MaxSupply, d)
				}
			}
			return big.NewInt(0), true
		})
	}},
	// --- consistent up to the code's validators, but the contract-holding / supply clauses of the statement break ---
	{"drop-plasma-contract-block", true, func(c *Ctx, cfg *genesis.GenesisConfig) bool {
		// remove the plasma contract's entry and take its QSR out of the declared supply: all sums the validators
		// compute still agree, yet the fusions are backed by nothing
		return dropContractBlock(cfg, types.PlasmaContract)
	}},
	{"drop-pillar-contract-block", true, func(c *Ctx, cfg *genesis.GenesisConfig) bool {
		return dropContractBlock(cfg, types.PillarContract)
	}},
	{"duplicate-user-block", true, func(c *Ctx, cfg *genesis.GenesisConfig) bool {
		// a second entry for an address that already has one, supply raised by its balances: the validators add both
		// entries, the ledger keeps one balance per (address, token)
		for _, i := range c.R.Perm(len(cfg.GenesisBlocks.Blocks)) {
			b := cfg.GenesisBlocks.Blocks[i]
			if types.IsEmbeddedAddress(b.Address) {
				continue
			}
			nb := &genesis.GenesisBlockConfig{Address: b.Address, BalanceList: map[types.ZenonTokenStandard]*big.Int{}}
			nz := false
			for z, v := range b.BalanceList {
				nb.BalanceList[z] = new(big.Int).Set(v)
				if v.Sign() != 0 {
					nz = true
				}
				for _, t := range cfg.TokenConfig.Tokens {
					if t.TokenStandard == z {
						t.TotalSupply.Add(t.TotalSupply, v)
						t.MaxSupply.Add(t.MaxSupply, v)
					}
				}
			}
			if !nz {
				// undo and try another block
				for z, v := range b.BalanceList {
					for _, t := range cfg.TokenConfig.Tokens {
						if t.TokenStandard == z {
							t.TotalSupply.Sub(t.TotalSupply, v)
							t.MaxSupply.Sub(t.MaxSupply, v)
						}
					}
				}
				continue
			}
			cfg.GenesisBlocks.Blocks = append(cfg.GenesisBlocks.Blocks, nb)
			return true
		}
		return false
	}},
	{"duplicate-contract-block", true, func(c *Ctx, cfg *genesis.GenesisConfig) bool {
		// a second, identical entry for the plasma (pillar) contract, supply raised by it: each entry alone satisfies
		// checkAccountBalance, the sums agree, the ledger keeps one of the two
		addr := types.PlasmaContract
		if c.R.Intn(2) == 0 {
			addr = types.PillarContract
		}
		for _, b := range cfg.GenesisBlocks.Blocks {
			if b.Address != addr {
				continue
			}
			nb := &genesis.GenesisBlockConfig{Address: addr, BalanceList: map[types.ZenonTokenStandard]*big.Int{}}
			nz := false
			for z, v := range b.BalanceList {
				nb.BalanceList[z] = new(big.Int).Set(v)
				nz = nz || v.Sign() != 0
			}
			if !nz {
				return false
			}
			for z, v := range nb.BalanceList {
				for _, t := range cfg.TokenConfig.Tokens {
					if t.TokenStandard == z {
						t.TotalSupply.Add(t.TotalSupply, v)
						t.MaxSupply.Add(t.MaxSupply, v)
					}
				}
			}
			cfg.GenesisBlocks.Blocks = append(cfg.GenesisBlocks.Blocks, nb)
			return true
		}
		return false
	}},
	{"duplicate-empty-block", true, func(c *Ctx, cfg *genesis.GenesisConfig) bool {
		// a second entry without balances for an address that has one: no sum changes, the ledger is the same — refused
		// all the same since bf6e6a8 (one entry per address)
		b := cfg.GenesisBlocks.Blocks[c.R.Intn(len(cfg.GenesisBlocks.Blocks))]
		cfg.GenesisBlocks.Blocks = append(cfg.GenesisBlocks.Blocks, &genesis.GenesisBlockConfig{Address: b.Address, BalanceList: map[types.ZenonTokenStandard]*big.Int{}})
		return true
	}},
	{"negative-balance", true, func(c *Ctx, cfg *genesis.GenesisConfig) bool {
		if c.R.Intn(2) == 0 {
			// an existing positive balance a of an ordinary account becomes -a, TotalSupply lowered by 2a: the signed sums
			// agree, the ledger stores |-a| = a
			for _, i := range c.R.Perm(len(cfg.GenesisBlocks.Blocks)) {
				b := cfg.GenesisBlocks.Blocks[i]
				if types.IsEmbeddedAddress(b.Address) {
					continue
				}
				for _, t := range cfg.TokenConfig.Tokens {
					if a, ok := b.BalanceList[t.TokenStandard]; ok && a.Sign() > 0 {
						t.TotalSupply.Sub(t.TotalSupply, a)
						t.TotalSupply.Sub(t.TotalSupply, a)
						a.Neg(a)
						return true
					}
				}
			}
		}
		// two fresh user entries of -v and +v of one declared token: every sum the validators compute is unchanged
		z := cfg.TokenConfig.Tokens[c.R.Intn(len(cfg.TokenConfig.Tokens))].TokenStandard
		v := big.NewInt(1 + int64(c.R.Intn(1000)))
		cfg.GenesisBlocks.Blocks = append(cfg.GenesisBlocks.Blocks,
			&genesis.GenesisBlockConfig{Address: randAddr(c, 0), BalanceList: map[types.ZenonTokenStandard]*big.Int{z: new(big.Int).Neg(v)}},
			&genesis.GenesisBlockConfig{Address: randAddr(c, 0), BalanceList: map[types.ZenonTokenStandard]*big.Int{z: v}})
		return true
	}},
	{"nil-balance", true, func(c *Ctx, cfg *genesis.GenesisConfig) bool {
		// a MISSING amount (nil pointer, `null` in a file) where the validators return an error instead of dereferencing it:
		// in the entry of an ordinary account, or under a token the contract must not hold in a contract's entry
		z := cfg.TokenConfig.Tokens[c.R.Intn(len(cfg.TokenConfig.Tokens))].TokenStandard
		switch c.R.Intn(3) {
		case 0:
			cfg.GenesisBlocks.Blocks = append(cfg.GenesisBlocks.Blocks,
				&genesis.GenesisBlockConfig{Address: randAddr(c, 0), BalanceList: map[types.ZenonTokenStandard]*big.Int{z: nil}})
			return true
		case 1:
			for _, i := range c.R.Perm(len(cfg.GenesisBlocks.Blocks)) {
				if b := cfg.GenesisBlocks.Blocks[i]; !types.IsEmbeddedAddress(b.Address) {
					b.BalanceList[z] = nil // replaces the amount, or adds the key
					return true
				}
			}
			return false
		default:
			return editContractBlock(c, cfg, func(b *genesis.GenesisBlockConfig, cz types.ZenonTokenStandard) (*big.Int, bool) {
				other := types.ZnnTokenStandard
				if cz == types.ZnnTokenStandard {
					other = types.QsrTokenStandard
				}
				b.BalanceList[other] = nil
				return big.NewInt(0), true
			})
		}
	}},
	{"negative-fusion", true, func(c *Ctx, cfg *genesis.GenesisConfig) bool {
		// a negative fusion amount, compensated so that the SUM of the fusions still equals the plasma contract's balance
		v := big.NewInt(1 + int64(c.R.Intn(1000)))
		f := cfg.PlasmaConfig.Fusions
		if len(f) >= 2 && c.R.Intn(2) == 0 {
			// an existing fusion becomes -v, another one takes over the difference
			i := c.R.Intn(len(f))
			j := (i + 1 + c.R.Intn(len(f)-1)) % len(f)
			f[j].Amount.Add(f[j].Amount, f[i].Amount)
			f[j].Amount.Add(f[j].Amount, v)
			f[i].Amount = new(big.Int).Neg(v)
			return true
		}
		// two fresh fusions of -v and +v
		o, b := randAddr(c, 0), randAddr(c, 0)
		cfg.PlasmaConfig.Fusions = append(cfg.PlasmaConfig.Fusions,
			&definition.FusionInfo{Owner: o, Id: gnRandHash(c), Amount: new(big.Int).Neg(v), ExpirationHeight: 1, Beneficiary: b},
			&definition.FusionInfo{Owner: o, Id: gnRandHash(c), Amount: v, ExpirationHeight: 1, Beneficiary: b})
		return true
	}},
	{"negative-pillar-amount", true, func(c *Ctx, cfg *genesis.GenesisConfig) bool {
		// a negative pillar stake, compensated by another pillar (an existing one, or a new one) so that the SUM of the
		// stakes still equals the pillar contract's balance
		v := big.NewInt(1 + int64(c.R.Intn(1000)))
		p := cfg.PillarConfig.Pillars
		i := c.R.Intn(len(p))
		diff := new(big.Int).Add(p[i].Amount, v)
		p[i].Amount = new(big.Int).Neg(v)
		if len(p) >= 2 {
			j := (i + 1 + c.R.Intn(len(p)-1)) % len(p)
			p[j].Amount.Add(p[j].Amount, diff)
		} else {
			a := randAddr(c, 0)
			cfg.PillarConfig.Pillars = append(p, &definition.PillarInfo{Name: fmt.Sprintf("zv-pillar-x-%d", c.R.Intn(1000)), BlockProducingAddress: a,
				StakeAddress: a, RewardWithdrawAddress: a, Amount: diff, RegistrationTime: cfg.GenesisTimestampSec})
		}
		return true
	}},
	{"negative-swap-entry", true, func(c *Ctx, cfg *genesis.GenesisConfig) bool {
		// a swap entry with a negative amount (an existing entry, or a new one); nothing is summed over swap entries
		v := big.NewInt(-1 - int64(c.R.Intn(1000)))
		var e *definition.SwapAssets
		if n := len(cfg.SwapConfig.Entries); n > 0 && c.R.Intn(2) == 0 {
			e = cfg.SwapConfig.Entries[c.R.Intn(n)]
		} else {
			e = &definition.SwapAssets{KeyIdHash: gnRandHash(c), Znn: big.NewInt(int64(c.R.Intn(5))), Qsr: big.NewInt(int64(c.R.Intn(5)))}
			cfg.SwapConfig.Entries = append(cfg.SwapConfig.Entries, e)
		}
		if c.R.Intn(2) == 0 {
			e.Znn = v
		} else {
			e.Qsr = v
		}
		return true
	}},
	{"nil-fusion-amount", true, func(c *Ctx, cfg *genesis.GenesisConfig) bool {
		// a fusion whose Amount is missing: an existing one (then the sum changes as well) or an extra one
		if n := len(cfg.PlasmaConfig.Fusions); n > 0 && c.R.Intn(2) == 0 {
			cfg.PlasmaConfig.Fusions[c.R.Intn(n)].Amount = nil
		} else {
			cfg.PlasmaConfig.Fusions = append(cfg.PlasmaConfig.Fusions, &definition.FusionInfo{Owner: randAddr(c, 0), Id: gnRandHash(c), Beneficiary: randAddr(c, 0)})
		}
		return true
	}},
	{"nil-pillar-amount", true, func(c *Ctx, cfg *genesis.GenesisConfig) bool {
		p := cfg.PillarConfig.Pillars
		if c.R.Intn(2) == 0 {
			// a zero stake replaced by nil leaves the sum alone; otherwise any pillar
			for _, i := range c.R.Perm(len(p)) {
				if p[i].Amount.Sign() == 0 {
					p[i].Amount = nil
					return true
				}
			}
		}
		p[c.R.Intn(len(p))].Amount = nil
		return true
	}},
	{"supply-above-max", true, func(c *Ctx, cfg *genesis.GenesisConfig) bool {
		t := cfg.TokenConfig.Tokens[c.R.Intn(len(cfg.TokenConfig.Tokens))]
		if t.TotalSupply.Sign() <= 0 {
			return false
		}
		// MaxSupply one below TotalSupply (the boundary), or far below, or zero
		switch c.R.Intn(3) {
		case 0:
			t.MaxSupply = new(big.Int).Sub(t.TotalSupply, big.NewInt(1))
		case 1:
			t.MaxSupply = new(big.Int).Rsh(t.TotalSupply, 1)
		default:
			t.MaxSupply = big.NewInt(0)
		}
		return true
	}},
	{"nil-max-supply", true, func(c *Ctx, cfg *genesis.GenesisConfig) bool {
		cfg.TokenConfig.Tokens[c.R.Intn(len(cfg.TokenConfig.Tokens))].MaxSupply = nil
		return true
	}},
	// --- perturbations that change no sum: must stay accepted ---
	{"permute-only", false, func(c *Ctx, cfg *genesis.GenesisConfig) bool { return true }},
	{"zero-fusion-and-swap-amounts", false, func(c *Ctx, cfg *genesis.GenesisConfig) bool {
		// the accepted side of the sign checks: amounts of exactly zero
		cfg.PlasmaConfig.Fusions = append(cfg.PlasmaConfig.Fusions, &definition.FusionInfo{Owner: randAddr(c, 0), Id: gnRandHash(c), Amount: big.NewInt(0), Beneficiary: randAddr(c, 0)})
		cfg.SwapConfig.Entries = append(cfg.SwapConfig.Entries, &definition.SwapAssets{KeyIdHash: gnRandHash(c), Znn: big.NewInt(0), Qsr: big.NewInt(0)})
		return true
	}},
	{"supply-equals-max", false, func(c *Ctx, cfg *genesis.GenesisConfig) bool {
		// the accepted side of the MaxSupply boundary
		t := cfg.TokenConfig.Tokens[c.R.Intn(len(cfg.TokenConfig.Tokens))]
		t.MaxSupply = new(big.Int).Set(t.TotalSupply)
		return true
	}},
	// declared-but-unheld tokens (C01: the supply the token contract records must be what the accounts hold): a token is
	// added to TokenConfig that no genesis entry holds - mintable or not, TotalSupply zero or not, MaxSupply at / above it
	{"declare-unheld-mintable-nonzero", true, func(c *Ctx, cfg *genesis.GenesisConfig) bool {
		return declareUnheld(c, cfg, true, true)
	}},
	{"declare-unheld-mintable-zero", true, func(c *Ctx, cfg *genesis.GenesisConfig) bool {
		return declareUnheld(c, cfg, true, false)
	}},
	{"declare-unheld-fixed-nonzero", true, func(c *Ctx, cfg *genesis.GenesisConfig) bool {
		return declareUnheld(c, cfg, false, true)
	}},
	{"declare-unheld-fixed-zero", true, func(c *Ctx, cfg *genesis.GenesisConfig) bool {
		return declareUnheld(c, cfg, false, false)
	}},
	// ... or an existing issued token loses all its holders (its keys are removed from every balance list), the
	// declaration - mintable or not as generated - stays
	{"unhold-token", true, func(c *Ctx, cfg *genesis.GenesisConfig) bool {
		for _, i := range c.R.Perm(len(cfg.TokenConfig.Tokens)) {
			t := cfg.TokenConfig.Tokens[i]
			if t.TokenStandard == types.ZnnTokenStandard || t.TokenStandard == types.QsrTokenStandard || t.TotalSupply.Sign() == 0 {
				continue
			}
			for _, b := range cfg.GenesisBlocks.Blocks {
				delete(b.BalanceList, t.TokenStandard)
			}
			if c.R.Intn(2) == 0 {
				t.IsMintable = !t.IsMintable
			}
			return true
		}
		return false
	}},
	// ... or keeps its holders, who all hold zero
	{"zero-out-token", true, func(c *Ctx, cfg *genesis.GenesisConfig) bool {
		for _, i := range c.R.Perm(len(cfg.TokenConfig.Tokens)) {
			t := cfg.TokenConfig.Tokens[i]
			if t.TokenStandard == types.ZnnTokenStandard || t.TokenStandard == types.QsrTokenStandard || t.TotalSupply.Sign() == 0 {
				continue
			}
			for _, b := range cfg.GenesisBlocks.Blocks {
				if _, ok := b.BalanceList[t.TokenStandard]; ok {
					b.BalanceList[t.TokenStandard] = big.NewInt(0)
				}
			}
			t.IsMintable = c.R.Intn(2) == 0
			return true
		}
		return false
	}},
	{"zero-balance-entry", false, func(c *Ctx, cfg *genesis.GenesisConfig) bool {
		b := cfg.GenesisBlocks.Blocks[2+c.R.Intn(len(cfg.GenesisBlocks.Blocks)-2)]
		if b.Address == types.SwapContract || b.Address == types.PlasmaContract || b.Address == types.PillarContract {
			return false
		}
		z := cfg.TokenConfig.Tokens[c.R.Intn(len(cfg.TokenConfig.Tokens))].TokenStandard
		if _, ok := b.BalanceList[z]; ok {
			return false
		}
		b.BalanceList[z] = big.NewInt(0)
		return true
	}},
}

func declareUnheld(c *Ctx, cfg *genesis.GenesisConfig, mintable, nonzero bool) bool {
	var z types.ZenonTokenStandard
	c.R.Read(z[:])
	total := big.NewInt(0)
	if nonzero {
		total = []*big.Int{big.NewInt(1), big.NewInt(1000), big.NewInt(1 + c.R.Int63n(1<<40)), new(big.Int).Lsh(big.NewInt(1), uint(64+c.R.Intn(100)))}[c.R.Intn(4)]
	}
	max := new(big.Int).Set(total)
	switch c.R.Intn(3) {
	case 0:
		max.Add(max, big.NewInt(1+c.R.Int63n(5000)))
	case 1:
		max.Lsh(big.NewInt(1), 200)
	}
	if !mintable && c.R.Intn(2) == 0 {
		max.Set(total)
	}
	cfg.TokenConfig.Tokens = append(cfg.TokenConfig.Tokens, &definition.TokenInfo{Owner: randAddr(c, 0), TokenName: "Unheld", TokenSymbol: "UNH", TokenDomain: "x.example",
		TotalSupply: total, MaxSupply: max, Decimals: uint8(c.R.Intn(19)), IsMintable: mintable, IsBurnable: c.R.Intn(2) == 0, TokenStandard: z})
	// the list carries no order: the new token may come first
	if c.R.Intn(2) == 0 {
		t := cfg.TokenConfig.Tokens
		t[0], t[len(t)-1] = t[len(t)-1], t[0]
	}
	return true
}

// inconsistentKinds: perturbations after which, BY CONSTRUCTION, the balances the ledger would hold no longer add up to the
// declared supplies / contract holdings (or a supply exceeds its maximum) — the clause of the property itself, no model
// involved: such a configuration must be refused. The value says what is wrong.
var inconsistentKinds = map[string]string{
	"declare-unheld-mintable-nonzero": "a mintable token declared with a non-zero TotalSupply that no account holds: recorded supply exceeds the balances",
	"declare-unheld-fixed-nonzero":    "a non-mintable token declared with a non-zero TotalSupply that no account holds: recorded supply exceeds the balances",
	"unhold-token":                    "an issued token with non-zero TotalSupply whose holders were all removed: recorded supply exceeds the balances",
	"zero-out-token":                  "an issued token with non-zero TotalSupply whose holders all hold zero: recorded supply exceeds the balances",
	"balance+1":                  "one balance raised by 1, declared supplies / fusions / stakes unchanged",
	"balance-1":                  "one balance lowered by 1, declared supplies / fusions / stakes unchanged",
	"drop-block":                 "an entry with a non-zero balance removed, declared supplies unchanged",
	"fusion+-1":                  "one fusion amount changed by 1, plasma contract balance unchanged",
	"add-fusion":                 "a fusion added, plasma contract balance unchanged",
	"drop-fusion":                "a non-zero fusion removed, plasma contract balance unchanged",
	"pillar-stake+-1":            "one pillar stake changed by 1, pillar contract balance unchanged",
	"supply+-1":                  "one declared TotalSupply changed by 1, balances unchanged",
	"swap-holds":                 "the swap contract holds 5 of a native token",
	"contract-token-missing":     "the plasma/pillar contract's entry does not list the token backing the fusions/stakes",
	"contract-balance-shift":     "the plasma/pillar contract's balance differs by 1 from the fusions/stakes (supply adjusted)",
	"drop-plasma-contract-block": "non-zero fusions but the plasma contract has no genesis entry: it holds nothing",
	"drop-pillar-contract-block": "non-zero pillar stakes but the pillar contract has no genesis entry: it holds nothing",
	"duplicate-user-block":       "two entries for one address counted twice in TotalSupply: the ledger keeps one balance per (address, token)",
	"duplicate-contract-block":   "two entries for one contract counted twice in TotalSupply: the ledger keeps one balance per (address, token)",
	"negative-balance":           "a negative amount offsets a positive one in the declared TotalSupply: the ledger stores its absolute value",
	"supply-above-max":           "a declared TotalSupply above the token's MaxSupply",
	"negative-fusion":            "a negative fusion amount offsets others in the sum compared with the plasma contract's balance: it is stored as 2^256-v, the stored fusions exceed what the contract holds",
	"negative-pillar-amount":     "a negative pillar stake offsets others in the sum compared with the pillar contract's balance: it is stored as 2^256-v, the stored stakes exceed what the contract holds",
	"negative-swap-entry":        "a swap entry with a negative amount: it is stored as a claim of 2^256-v",
	// malformed rather than inconsistent: an amount is missing altogether
	"nil-fusion-amount": "a fusion without amount",
	"nil-pillar-amount": "a pillar without stake amount",
	"nil-balance":       "a balance list entry without amount",
	"nil-max-supply":    "a token without MaxSupply",
}

// directedKinds: run in rotation on EVERY configuration (two per configuration) in addition to the random draws, so that
// each of the repaired gaps of the validators (F13a no contract entry, F13b duplicate entry, F13e negative / missing
// amount, F13c MaxSupply, F13f negative / missing fusion, pillar, swap amount) and the accepted side of the new checks is
// exercised on every run whatever the seed.
var directedKinds = []string{"drop-plasma-contract-block", "duplicate-user-block", "negative-balance", "supply-above-max",
	"negative-fusion", "negative-pillar-amount", "negative-swap-entry",
	"drop-pillar-contract-block", "nil-balance", "duplicate-contract-block", "nil-max-supply", "supply-equals-max", "duplicate-empty-block",
	"nil-fusion-amount", "nil-pillar-amount", "zero-fusion-and-swap-amounts",
	"declare-unheld-mintable-nonzero", "unhold-token", "declare-unheld-mintable-zero", "declare-unheld-fixed-nonzero", "zero-out-token", "declare-unheld-fixed-zero"}

func perturbationByName(name string) perturbation {
	for _, p := range perturbations {
		if p.name == name {
			return p
		}
	}
	panic("no perturbation " + name)
}

// editContractBlock applies f to the plasma (QSR) or pillar (ZNN) contract entry; f returns the change of the token's
// total amount, which is mirrored in TotalSupply / MaxSupply so that CheckTokenTotalSupply stays satisfied.
func editContractBlock(c *Ctx, cfg *genesis.GenesisConfig, f func(b *genesis.GenesisBlockConfig, z types.ZenonTokenStandard) (*big.Int, bool)) bool {
	addr, z := types.PlasmaContract, types.QsrTokenStandard
	if c.R.Intn(2) == 0 {
		addr, z = types.PillarContract, types.ZnnTokenStandard
	}
	for _, b := range cfg.GenesisBlocks.Blocks {
		if b.Address != addr {
			continue
		}
		d, ok := f(b, z)
		if !ok {
			return false
		}
		for _, t := range cfg.TokenConfig.Tokens {
			if t.TokenStandard == z {
				t.TotalSupply.Add(t.TotalSupply, d)
				t.MaxSupply.Add(t.MaxSupply, d)
			}
		}
		// the token must still be given somewhere, otherwise "declared but not given" rejects for another reason
		for _, ob := range cfg.GenesisBlocks.Blocks {
			if _, ok := ob.BalanceList[z]; ok {
				return true
			}
		}
		return false
	}
	return false
}

func dropContractBlock(cfg *genesis.GenesisConfig, addr types.Address) bool {
	for i, b := range cfg.GenesisBlocks.Blocks {
		if b.Address != addr {
			continue
		}
		nz := false
		for z, v := range b.BalanceList {
			if v.Sign() != 0 {
				nz = true
			}
			for _, t := range cfg.TokenConfig.Tokens {
				if t.TokenStandard == z {
					t.TotalSupply.Sub(t.TotalSupply, v)
				}
			}
		}
		cfg.GenesisBlocks.Blocks = append(cfg.GenesisBlocks.Blocks[:i], cfg.GenesisBlocks.Blocks[i+1:]...)
		return nz
	}
	return false
}

// nullKinds: one amount of a consistent configuration set to nil; json.Marshal writes null, the decoder leaves the pointer nil
var nullKinds = []struct {
	name string
	f    func(c *Ctx, cfg *genesis.GenesisConfig) bool
}{
	{"fusion-amount", func(c *Ctx, cfg *genesis.GenesisConfig) bool {
		if len(cfg.PlasmaConfig.Fusions) == 0 {
			return false
		}
		cfg.PlasmaConfig.Fusions[c.R.Intn(len(cfg.PlasmaConfig.Fusions))].Amount = nil
		return true
	}},
	{"pillar-amount", func(c *Ctx, cfg *genesis.GenesisConfig) bool {
		cfg.PillarConfig.Pillars[c.R.Intn(len(cfg.PillarConfig.Pillars))].Amount = nil
		return true
	}},
	{"total-supply", func(c *Ctx, cfg *genesis.GenesisConfig) bool {
		cfg.TokenConfig.Tokens[c.R.Intn(len(cfg.TokenConfig.Tokens))].TotalSupply = nil
		return true
	}},
	{"max-supply", func(c *Ctx, cfg *genesis.GenesisConfig) bool {
		cfg.TokenConfig.Tokens[c.R.Intn(len(cfg.TokenConfig.Tokens))].MaxSupply = nil
		return true
	}},
	{"user-balance", func(c *Ctx, cfg *genesis.GenesisConfig) bool {
		for _, i := range c.R.Perm(len(cfg.GenesisBlocks.Blocks)) {
			b := cfg.GenesisBlocks.Blocks[i]
			if types.IsEmbeddedAddress(b.Address) {
				continue
			}
			for z := range b.BalanceList {
				b.BalanceList[z] = nil
				return true
			}
		}
		return false
	}},
	{"contract-balance", func(c *Ctx, cfg *genesis.GenesisConfig) bool {
		// the amount the plasma / pillar contract is REQUIRED to hold is null: checkAccountBalance compares with nil
		addr, z := types.PlasmaContract, types.QsrTokenStandard
		if c.R.Intn(2) == 0 {
			addr, z = types.PillarContract, types.ZnnTokenStandard
		}
		for _, b := range cfg.GenesisBlocks.Blocks {
			if b.Address == addr {
				b.BalanceList[z] = nil
				return true
			}
		}
		return false
	}},
	{"swap-amount", func(c *Ctx, cfg *genesis.GenesisConfig) bool {
		if len(cfg.SwapConfig.Entries) == 0 {
			return false
		}
		e := cfg.SwapConfig.Entries[c.R.Intn(len(cfg.SwapConfig.Entries))]
		if c.R.Intn(2) == 0 {
			e.Znn = nil
		} else {
			e.Qsr = nil
		}
		return true
	}},
}

// readFileCase: the path a node takes — genesis.ReadGenesisConfigFromFile on the JSON file. It must return exactly one
// of (genesis, nil) / (nil, error); a genesis iff CheckGenesis accepts; the same hash as the in-process construction.
func readFileCase(c *Ctx, tmp, tag string, raw []byte, wantOK bool, wantHash string) {
	fn := filepath.Join(tmp, "readfile.json")
	os.WriteFile(fn, raw, 0o600)
	var gen interface{ GetGenesisMomentum() *nom.Momentum }
	var err error
	panicked := false
	func() {
		defer func() {
			if r := recover(); r != nil {
				panicked = true
			}
		}()
		g0, e0 := genesis.ReadGenesisConfigFromFile(fn)
		err = e0
		if g0 != nil {
			gen = g0
		}
	}()
	switch {
	case panicked:
		c.Hit("readfile:panic")
		c.Fail("ReadGenesisConfigFromFile panicked (%s) file: %s", tag, raw)
	case gen == nil && err == nil:
		c.Hit("readfile:nil-nil")
		c.Fail("ReadGenesisConfigFromFile returned neither a genesis nor an error (%s): the caller reports \"Loaded a valid genesis config\" file: %s", tag, raw)
	case gen != nil && err == nil:
		c.Hit("readfile:genesis")
		if !wantOK {
			c.Fail("ReadGenesisConfigFromFile accepted a configuration that is inconsistent / that CheckGenesis refuses (%s) file: %s", tag, raw)
		} else if h := hex.EncodeToString(gen.GetGenesisMomentum().Hash.Bytes()); wantHash != "" && h != wantHash {
			c.Fail("genesis hash read from file %s differs from in-process construction %s (%s)", h, wantHash, tag)
		}
	default:
		c.Hit("readfile:error")
		if wantOK {
			c.Fail("ReadGenesisConfigFromFile refused (%v) a configuration CheckGenesis accepts (%s)", err, tag)
		}
	}
}

// dropFirstJSONField removes the first occurrence of `"<name>":<value>,` from a JSON text (value without commas).
func dropFirstJSONField(raw []byte, name string) ([]byte, bool) {
	s := string(raw)
	i := strings.Index(s, `"`+name+`":`)
	if i < 0 {
		return nil, false
	}
	j := strings.IndexAny(s[i:], ",}")
	if j < 0 {
		return nil, false
	}
	if s[i+j] == ',' {
		return []byte(s[:i] + s[i+j+1:]), true
	}
	// last field of its object: drop the preceding comma instead
	k := strings.LastIndex(s[:i], ",")
	return []byte(s[:k] + s[i+j:]), true
}

func startChain(dir string, cfg *genesis.GenesisConfig) (res string) {
	defer func() {
		if r := recover(); r != nil {
			res = "panic"
		}
	}()
	gen := genesis.NewGenesis(cfg)
	man := db.NewLevelDBManager(dir)
	ch := chain.NewChain(man, gen)
	err := ch.Init()
	ch.Stop()
	if err != nil {
		if strings.Contains(err.Error(), "genesis state is incorrect") {
			return "refused"
		}
		return "error"
	}
	return "started"
}

// genesisHeaders: the account-block headers of the genesis momentum of cfg
func genesisHeaders(cfg *genesis.GenesisConfig) (hs []types.AccountHeader) {
	defer func() { recover() }()
	for _, h := range genesis.NewGenesis(cfg).GetGenesisMomentum().Content {
		hs = append(hs, *h)
	}
	return hs
}

// contentCase: the real nom.NewMomentumContent on blocks carrying the given headers in a random order; the result must be
// sorted by (address, height, hash) bytes and be a permutation of the input (monitor), and equal the model's sort (driver).
func contentCase(c *Ctx, hs []types.AccountHeader) {
	defer func() {
		if r := recover(); r != nil {
			c.Emit("gen-content | panic")
			c.Fail("NewMomentumContent panicked: %v", r)
		}
	}()
	blocks := make([]*nom.AccountBlock, len(hs))
	for i, j := range c.R.Perm(len(hs)) {
		blocks[i] = &nom.AccountBlock{Address: hs[j].Address, Height: hs[j].Height, Hash: hs[j].Hash}
	}
	in := make([]string, len(blocks))
	for i, b := range blocks {
		h := b.Header()
		in[i] = hx(h.Bytes())
	}
	content := nom.NewMomentumContent(blocks)
	out := make([]string, len(content))
	for i, h := range content {
		out[i] = hx(h.Bytes())
	}
	c.Emit("gen-content %s | %s", strings.Join(in, " "), strings.Join(out, " "))
	c.HitN("content-headers", len(hs))
	for i := 1; i < len(content); i++ {
		if bytes.Compare(content[i-1].Bytes(), content[i].Bytes()) > 0 {
			c.Fail("NewMomentumContent result is not sorted at %d: %s", i, strings.Join(out, " "))
			break
		}
	}
	a, b := append([]string{}, in...), append([]string{}, out...)
	sort.Strings(a)
	sort.Strings(b)
	if strings.Join(a, " ") != strings.Join(b, " ") {
		c.Fail("NewMomentumContent result is not a permutation of its input: %s -> %s", strings.Join(in, " "), strings.Join(out, " "))
	}
	// a second random order gives the same content
	blocks2 := make([]*nom.AccountBlock, len(blocks))
	for i, j := range c.R.Perm(len(blocks)) {
		blocks2[i] = blocks[j]
	}
	c2 := nom.NewMomentumContent(blocks2)
	if c2.Hash() != content.Hash() {
		c.Fail("NewMomentumContent depends on the order of its input: %s", strings.Join(in, " "))
	}
}

func randHeaders(c *Ctx) []types.AccountHeader {
	n := c.R.Intn(12)
	addrs := []types.Address{randAddr(c, 0), randAddr(c, 1), randAddr(c, 0)}
	addrs[2] = addrs[0]
	addrs[2][19] ^= 1 // differs in the last byte only
	hs := make([]types.AccountHeader, 0, n)
	seen := map[string]bool{}
	for len(hs) < n {
		var h types.AccountHeader
		h.Address = addrs[c.R.Intn(len(addrs))]
		switch c.R.Intn(4) {
		case 0:
			h.Height = 1
		case 1:
			h.Height = uint64(c.R.Intn(4))
		case 2:
			h.Height = []uint64{255, 256, 1<<32 - 1, 1 << 32, 1<<63 - 1, 1 << 63, 1<<64 - 1}[c.R.Intn(7)]
		default:
			h.Height = c.R.Uint64()
		}
		h.Hash = gnRandHash(c)
		if c.R.Intn(3) == 0 {
			h.Hash = types.Hash{byte(c.R.Intn(2))}
		}
		if !seen[string(h.Bytes())] {
			seen[string(h.Bytes())] = true
			hs = append(hs, h)
		}
	}
	return hs
}

func init() {
	register("genesis", func(c *Ctx) {
		log15.Root().SetHandler(log15.DiscardHandler())
		gnInstallClock() // s_genesis_pure.go: common.Clock = real time unless a scenario fixes it
		stdout := os.Stdout
		if devnull, err := os.OpenFile(os.DevNull, os.O_WRONLY, 0); err == nil {
			os.Stdout = devnull // chain.Init prints "Initialized NoM ..." with fmt.Printf
			defer func() { os.Stdout = stdout }()
		}
		tmp, err := os.MkdirTemp("", "zv-genesis-")
		if err != nil {
			c.Fail("tempdir: %v", err)
			return
		}
		defer os.RemoveAll(tmp)
		nCfg := c.N
		nPerm := 4
		if v, ok := c.Args["perms"]; ok {
			fmt.Sscan(v, &nPerm)
		}
		nPert := 6
		if v, ok := c.Args["perturb"]; ok {
			fmt.Sscan(v, &nPert)
		}
		// 0. the two built-in configurations pass their own validators (anchor: the generator starts from one of them)
		c.Emit("gen-check %s | %s", encodeCfg(g.EmbeddedGenesis), checkReal(g.EmbeddedGenesis))
		contentCase(c, genesisHeaders(g.EmbeddedGenesis))
		// the excluded case of `writes_canonical`: list entries that share one storage key (the mock genesis has nine fusions
		// of one owner with the zero id). Reversing such a list changes which entry survives, hence the hash — counted only.
		{
			hm, _ := genesisHash(g.EmbeddedGenesis)
			rv := cloneCfg(g.EmbeddedGenesis)
			f := rv.PlasmaConfig.Fusions
			for i, j := 0, len(f)-1; i < j; i, j = i+1, j-1 {
				f[i], f[j] = f[j], f[i]
			}
			hr, _ := genesisHash(rv)
			c.Hit(fmt.Sprintf("duplicate-key-list-reversed:hash-differs=%v", hm != hr))
		}
		for i := 0; i < 20*nCfg; i++ {
			contentCase(c, randHeaders(c))
		}
		// 0b. pure function of the configuration (s_genesis_pure.go): the configuration with everything left out and the mock
		//     genesis, scalar members on boundary values, under changed clocks / time zones / GOMAXPROCS / working directories /
		//     environments / math/rand states, through the file, restarted at later clocks, in child processes
		var late []gnLate
		genesisPureDirected(c, tmp, &late)
		defer func() { genesisPureLate(c, tmp, late) }()
		nBoundary := 0
		var prev *genesis.GenesisConfig
		for k := 0; k < nCfg; k++ {
			cfg := gnGenConfig(c)
			id := fmt.Sprintf("cfg%d", k)
			// every other configuration (drawn) goes through ALL scenarios of the stream with its scalar members on boundary
			// values (GenesisTimestampSec 0 / 1 / -1 / 2^31 / 2^63-1 / -2^63 …, ChainIdentifier 0 / 2^64-1 …, ExtraData empty / long / escaped)
			if c.R.Intn(2) == 0 {
				cfg = gnBoundaryCfg(cfg, nBoundary)
				nBoundary++
				c.Hit("base-with-boundary-scalars")
			}
			// 1. the generated configuration is accepted by the real validators and by the model
			v := checkReal(cfg)
			c.Emit("gen-check %s | %s", encodeCfg(cfg), v)
			c.Hit("base:" + v)
			if v != "ok" {
				c.Fail("generator produced a configuration the validators refuse (%s): %s", v, encodeCfg(cfg))
				continue
			}
			if k%4 == 0 {
				monitorAccepted(c, id, cfg)
			}
			// 2. permutations of every unordered list: same genesis momentum hash (in process and in fresh processes)
			h0, kind0 := genesisHash(cfg)
			if kind0 != "ok" {
				c.Fail("NewGenesis panicked on an accepted configuration: %s", encodeCfg(cfg))
				continue
			}
			contentCase(c, genesisHeaders(cfg))
			h0b, _ := genesisHash(cloneCfg(cfg))
			if h0b != h0 {
				c.Fail("genesis hash differs between two constructions of the same configuration in one process: %s vs %s", h0, h0b)
			}
			// 2a. the same configuration under every surrounding of the process a Go program can read (s_genesis_pure.go)
			genesisPure(c, tmp, id, cfg, k, &late)
			for p := 1; p <= nPerm; p++ {
				pc := permuteCfg(c, cfg)
				hp, kp := genesisHash(pc)
				c.Hit("perm:" + kp)
				if hp != h0 {
					raw, _ := json.Marshal(pc)
					c.Fail("genesis hash depends on list order: %s (original) vs %s (permutation %d of %s): %s", h0, hp, p, id, raw)
				}
				if pv := checkReal(pc); pv != "ok" {
					c.Fail("CheckGenesis verdict depends on list order: permutation %d of %s gives %s", p, id, pv)
				}
			}
			if k%5 == 0 {
				// fresh processes: original and one permutation
				for p, pc := range []*genesis.GenesisConfig{cfg, permuteCfg(c, cfg)} {
					raw, _ := json.Marshal(pc)
					fn := filepath.Join(tmp, fmt.Sprintf("%s-%d.json", id, p))
					os.WriteFile(fn, raw, 0o600)
					out, err := exec.Command(os.Args[0], "genesis-hash-child", fn).Output()
					got := strings.Fields(string(out))
					c.Hit("fresh-process")
					if err != nil || len(got) != 2 || got[0] != h0 {
						c.Fail("genesis hash in a fresh process differs: in-process %s, child says %q (err %v), config %s", h0, strings.TrimSpace(string(out)), err, fn)
					}
				}
			}
			// 3. single-entry perturbations: real verdict vs model verdict; a changed sum must be rejected; an accepted
			//    configuration must yield a ledger that satisfies the property's sentence
			pts := make([]perturbation, 0, nPert+2)
			for j := 0; j < nPert; j++ {
				pts = append(pts, perturbations[c.R.Intn(len(perturbations))])
			}
			pts = append(pts, perturbationByName(directedKinds[(2*k)%len(directedKinds)]), perturbationByName(directedKinds[(2*k+1)%len(directedKinds)]))
			for j, pt := range pts {
				pc := permuteCfg(c, cfg)
				if !pt.f(c, pc) {
					c.Hit("perturb-skip:" + pt.name)
					continue
				}
				v := checkReal(pc)
				c.Emit("gen-check %s | %s", encodeCfg(pc), v)
				c.Hit("perturb:" + pt.name + ":" + strings.Fields(v)[0])
				if j >= nPert {
					c.Hit("directed:" + pt.name + ":" + strings.Fields(v)[0])
				}
				if v == "panic" || strings.HasPrefix(v, "reject none") {
					c.Fail("CheckGenesis %s on perturbation %s of %s: %s", v, pt.name, id, encodeCfg(pc))
					continue
				}
				if !pt.changes && v != "ok" {
					c.Fail("perturbation %s of %s changes no sum but is refused (%s): %s", pt.name, id, v, encodeCfg(pc))
				}
				if v == "ok" {
					// the clause itself: an inconsistent configuration is refused (never accepted) ...
					if what, bad := inconsistentKinds[pt.name]; bad {
						c.Fail("inconsistent configuration accepted by CheckGenesis (perturbation %s of %s: %s) [%s]", pt.name, id, what, encodeCfg(pc))
					}
					// ... and whatever is accepted yields a real ledger that satisfies the statement (says what is off, and by how much)
					monitorAccepted(c, "perturbation "+pt.name+" of "+id, pc)
				}
			}
			// 3b. the same through the JSON file a node reads (every 4th config: the config, one perturbation, and files with
			//     a missing amount, which make the validators dereference nil)
			if k%4 == 1 {
				raw, _ := json.Marshal(cfg)
				readFileCase(c, tmp, id, raw, true, h0)
				pt := perturbations[c.R.Intn(len(perturbations))]
				pc := permuteCfg(c, cfg)
				if pt.f(c, pc) {
					if v := checkReal(pc); v != "panic" {
						rawp, _ := json.Marshal(pc)
						readFileCase(c, tmp, "perturbation "+pt.name+" of "+id, rawp, v == "ok", "")
					}
				}
				// files with a MISSING amount (field dropped from the text / written as null), in rotation so that every kind
				// comes up on every run: the validators dereference most of them — whatever happens inside, the caller must
				// get (nil, error): never a genesis, never (nil, nil), never a panic
				fields := []string{"amount", "Amount", "totalSupply", "znn", "maxSupply", "qsr"}
				field := fields[(k/4)%len(fields)]
				if rawm, ok := dropFirstJSONField(raw, field); ok {
					c.Hit("readfile-missing:" + field)
					readFileCase(c, tmp, "missing-field "+field+" of "+id, rawm, false, "")
				} else {
					c.Hit("readfile-missing-skip:" + field)
				}
				nk := nullKinds[(k/4)%len(nullKinds)]
				nc := cloneCfg(cfg)
				if nk.f(c, nc) {
					rawn, _ := json.Marshal(nc)
					c.Hit("readfile-null:" + nk.name)
					readFileCase(c, tmp, "null-field "+nk.name+" of "+id, rawn, false, "")
				} else {
					c.Hit("readfile-null-skip:" + nk.name)
				}
				// the repaired gaps through the file as well (the path a node takes)
				dk := perturbationByName([]string{"drop-plasma-contract-block", "duplicate-user-block", "negative-balance", "supply-above-max",
					"negative-fusion", "negative-pillar-amount", "negative-swap-entry", "drop-pillar-contract-block", "duplicate-contract-block"}[(k/4)%9])
				dc := permuteCfg(c, cfg)
				if dk.f(c, dc) {
					rawd, _ := json.Marshal(dc)
					c.Hit("readfile-inconsistent:" + dk.name)
					readFileCase(c, tmp, "perturbation "+dk.name+" of "+id, rawd, false, "")
				}
			}
			// 4. database created with A, node started with B != A: refused; with A again (also permuted): starts
			if prev != nil && k%3 == 0 {
				dir := filepath.Join(tmp, id+"-db")
				r1 := startChain(dir, prev)
				r2 := startChain(dir, cfg)
				r3 := startChain(dir, permuteCfg(c, prev))
				hprev, _ := genesisHash(prev)
				c.Emit("gen-startup empty %s | %s", hprev, r1)
				c.Emit("gen-startup %s %s | %s", hprev, h0, r2)
				c.Emit("gen-startup %s %s | %s", hprev, hprev, r3)
				c.Hit("startup:" + r1 + "/" + r2 + "/" + r3)
				if r1 != "started" || r3 != "started" {
					c.Fail("node does not start on its own database: first start %s, restart with the same (permuted) config %s", r1, r3)
				}
				if r2 != "refused" {
					c.Fail("node started with genesis %s on a database created with genesis %s: %s", h0, hprev, r2)
				}
			}
			// 4b. the same scenario over every single FIELD of the configuration (s_genesis_startup.go): database created with
			//     A = cfg, chain.Init with A-with-one-field-edited — header fields of the genesis momentum, node configuration,
			//     order-only changes on every run, the state fields in rotation —, then A again
			if k%3 == 1 {
				startupForeignFields(c, tmp, id, cfg, k/3, 6)
			}
			// 4c. ONE genesis object initialises several ledgers in this process (s_genesis_oneobject.go): every ledger that
			//     ends up initialised holds the full initial state, and a later start on it is refused or finds that state
			if k%3 == 2 || k == 0 {
				genesisOneObject(c, tmp, id, cfg, k/3+int(c.Seed%6))
			}
			// 5. the node-level path (s_genesis_node.go): node.NewNode on genesis FILES, several nodes in this one process - same path
			//    with other contents, other path with the same contents, start on the database of the other configuration
			//    (at most 60 scenarios per run: a node that was initialised but not started cannot be stopped completely, see nodeStart)
			if prev != nil && (k%10 == 2 || (k == 1 && nCfg < 3)) && c.Stats["node-path-scenario"] < 60 {
				nodeGenesisPath(c, tmp, id, prev, cfg, 3)
			}
			prev = cfg
		}
	})
}

// c01AtGenesis: property C01 at momentum 1 of the chain a node starts from an ACCEPTED configuration ("the equality already
// holds for the genesis state"), read from the started chain only - not from the configuration: for every token the token
// contract records, recorded TotalSupply = sum of that token's balances over all accounts of the ledger + amounts of
// unreceived sends (none at genesis, read from the mailboxes all the same) <= MaxSupply; no negative balance; nobody holds a
// token the contract does not record.
func c01AtGenesis(c *Ctx, tag string, cfg *genesis.GenesisConfig) {
	defer func() {
		if r := recover(); r != nil {
			c.Fail("C01 at genesis (%s): reading the started chain panicked: %v [%s]", tag, r, encodeCfg(cfg))
		}
	}()
	gen := genesis.NewGenesis(cfg)
	ch := chain.NewChain(db.NewMemDBManager(db.NewMemDB()), gen)
	if err := ch.Init(); err != nil {
		return // reported by monitorAccepted
	}
	st := ch.GetFrontierMomentumStore()
	// all accounts of the ledger: every account with a block in the genesis momentum, every address of the configuration,
	// every embedded contract
	seen := map[types.Address]bool{}
	var addrs []types.Address
	note := func(a types.Address) {
		if !seen[a] {
			seen[a] = true
			addrs = append(addrs, a)
		}
	}
	for _, h := range ch.GetGenesisMomentum().Content {
		note(h.Address)
	}
	for _, b := range cfg.GenesisBlocks.Blocks {
		note(b.Address)
	}
	for a := range embeddedNames {
		note(a)
	}
	sum := map[types.ZenonTokenStandard]*big.Int{}
	add := func(z types.ZenonTokenStandard, v *big.Int) {
		if sum[z] == nil {
			sum[z] = new(big.Int)
		}
		sum[z].Add(sum[z], v)
	}
	for _, a := range addrs {
		bm, err := st.GetAccountStore(a).GetBalanceMap()
		if err != nil {
			c.Fail("C01 at genesis (%s): balances of %x: %v", tag, a.Bytes(), err)
			return
		}
		for z, v := range bm {
			if v.Sign() < 0 {
				c.Fail("C01 at genesis (%s): account %x holds the negative balance %v of token %x [%s]", tag, a.Bytes(), v, z[:], encodeCfg(cfg))
			}
			add(z, v)
		}
		pending, _ := st.GetAccountMailbox(a).GetUnreceivedAccountBlockHashes(100000)
		for _, h := range pending {
			if b, _ := st.GetAccountBlockByHash(h); b != nil {
				add(b.TokenStandard, b.Amount)
			}
		}
	}
	recorded, err := definition.GetTokenInfoList(st.GetAccountStore(types.TokenContract).Storage())
	if err != nil {
		c.Fail("C01 at genesis (%s): token list: %v", tag, err)
		return
	}
	known := map[types.ZenonTokenStandard]bool{}
	for _, t := range recorded {
		known[t.TokenStandard] = true
		s := sum[t.TokenStandard]
		if s == nil {
			s = new(big.Int)
		}
		kind := "fixed"
		if t.IsMintable {
			kind = "mintable"
		}
		if s.Cmp(t.TotalSupply) != 0 {
			c.Fail("C01 at genesis (%s): the chain started from an ACCEPTED genesis configuration records TotalSupply %v for the %s token %x (MaxSupply %v), the balances of all %d accounts + unreceived sends add up to %v [%s]", tag, t.TotalSupply, kind, t.TokenStandard[:], t.MaxSupply, len(addrs), s, encodeCfg(cfg))
		}
		if t.MaxSupply == nil || t.TotalSupply.Cmp(t.MaxSupply) > 0 {
			c.Fail("C01 at genesis (%s): recorded TotalSupply %v of token %x exceeds its MaxSupply %v [%s]", tag, t.TotalSupply, t.TokenStandard[:], t.MaxSupply, encodeCfg(cfg))
		}
		c.Hit("c01-genesis-token-checked:" + kind)
		if s.Sign() == 0 {
			c.Hit("c01-genesis-token-unheld:" + kind)
		}
	}
	for z, v := range sum {
		if !known[z] && v.Sign() != 0 {
			c.Fail("C01 at genesis (%s): accounts hold %v of token %x, for which the token contract records no supply [%s]", tag, v, z[:], encodeCfg(cfg))
		}
	}
	c.Hit("c01-genesis-checked")
}
