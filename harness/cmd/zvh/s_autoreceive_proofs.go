package main

import (
	"crypto/sha256"
	"encoding/base64"
	"fmt"
	"math/big"
	"strings"

	ecommon "github.com/ethereum/go-ethereum/common"
	ecrypto "github.com/ethereum/go-ethereum/crypto"

	g "github.com/zenon-network/go-zenon/chain/genesis/mock"
	"github.com/zenon-network/go-zenon/chain/nom"
	"github.com/zenon-network/go-zenon/common/crypto"
	"github.com/zenon-network/go-zenon/common/types"
	"github.com/zenon-network/go-zenon/vm/constants"
	"github.com/zenon-network/go-zenon/vm/embedded/definition"
	"github.com/zenon-network/go-zenon/vm/embedded/implementation"
)

// ---------------------------------------------------------------------------------------------------
// calls that carry a cryptographic proof (autoreceive stream, C09, quantifier "every send block ... that the network
// accepts"):
//
//   swap.RetrieveAssets, pillar.RegisterLegacy   a secp256k1 signature of a legacy key over the caller's address, checked when
//                                                the block is SENT; whether the key has an entry is state, looked up when the
//                                                call is RECEIVED
//   bridge.UnwrapToken / Halt / UpdateWrapRequest / ChangeTssECDSAPubKey   a signature of the bridge's TSS key over the
//                                                arguments (and the nonce), checked in the receive after the state lookups
//   htlc.Unlock                                  the preimage of the entry's hash lock
//
// Random bytes never pass the proof check, so a generator without real proofs only ever reaches the receive path behind the
// check with the one key / entry of the canonical call. Here every proof is REAL - made with keys anybody can make - and
// the key or entry it refers to is taken through its states:
//
//   absent      a fresh key (no entry), a second known key without entry, an unknown id
//   present     the genesis entry, a request / entry created by the history
//   consumed    the same call again: assets retrieved (entry kept with zero amounts), all legacy slots used (entry deleted),
//               request redeemed / revoked, nonce used, entry unlocked / reclaimed
//   foreign     a valid proof by the wrong key, for another address, by the replaced TSS key (the first two are refused when
//               sent: nothing to receive)
//   malformed   key material of the right length that is no curve point
//
// arWorld.reprove recomputes the proof of a call after a generator has changed its sender or its arguments (semantic and
// boundary generators, the boundary-integer sweep), so that the changed call is still accepted and received past the check.
// The scenario "proof-states" walks the states in a fixed order, two or more calls per momentum so that every call has a
// next call queued behind it. The monitors are those of s_autoreceive.go: no panic or error on the producer path, exactly
// one receive, applied or exactly refunded with unchanged storage, every inbox empty afterwards.
// ---------------------------------------------------------------------------------------------------

// arLegacyKey: a secp256k1 key pair in the formats of the legacy network (65-byte public key, base64)
type arLegacyKey struct {
	name string
	prv  []byte
	pub  string
}

var arSecp1 = arLegacyKey{name: "secp1", prv: g.Secp1PrvKey, pub: g.Secp1PubKeyB64}
var arSecp2 = arLegacyKey{name: "secp2", prv: g.Secp2PrvKey, pub: g.Secp2PubKeyB64}

func arFreshLegacyKey(c *Ctx, name string) arLegacyKey {
	for {
		b := make([]byte, 32)
		c.R.Read(b)
		k, err := ecrypto.ToECDSA(b)
		if err != nil {
			continue
		}
		return arLegacyKey{name: name, prv: b, pub: base64.StdEncoding.EncodeToString(ecrypto.FromECDSAPub(&k.PublicKey))}
	}
}

// compressed: the 33-byte form of the public key (base64), as the bridge stores its TSS key
func (k arLegacyKey) compressed() string {
	key, err := ecrypto.ToECDSA(k.prv)
	if err != nil {
		return ""
	}
	return base64.StdEncoding.EncodeToString(ecrypto.CompressPubkey(&key.PublicKey))
}

// arEcSign signs a 32-byte message hash with a secp256k1 key (base64 signature, the format of the bridge)
func arEcSign(prv []byte, hash []byte, err error) string {
	if err != nil {
		return ""
	}
	key, err := ecrypto.ToECDSA(prv)
	if err != nil {
		return ""
	}
	sig, err := ecrypto.Sign(hash, key)
	if err != nil {
		return ""
	}
	return base64.StdEncoding.EncodeToString(sig)
}

// pickLegacyKey: the genesis key (entry until it is consumed), the second known key (no entry), a fresh key, a fresh key used before
func (w *arWorld) pickLegacyKey() arLegacyKey {
	R := w.r.c.R
	switch k := R.Intn(6); {
	case k == 0:
		return arSecp1
	case k == 1:
		return arSecp2
	case k == 2 && len(w.legacyKeys) > 0:
		return w.legacyKeys[R.Intn(len(w.legacyKeys))]
	}
	key := arFreshLegacyKey(w.r.c, fmt.Sprintf("fresh%d", len(w.legacyKeys)))
	if len(w.legacyKeys) < 16 {
		w.legacyKeys = append(w.legacyKeys, key)
	}
	return key
}

// reprove recomputes the proof a call carries for its present sender and arguments. key = nil: swap / legacy-pillar calls
// keep their key when it is a known one and get a picked key otherwise.
func (w *arWorld) reprove(to types.Address, method string, s *arSpec, key *arLegacyKey) {
	if s == nil {
		return
	}
	legacy := func(i int, sign func(types.Address, []byte, string) (string, error)) {
		if len(s.args) != i+2 {
			return
		}
		k := key
		if k == nil {
			pk := w.pickLegacyKey()
			k = &pk
		}
		sig, err := sign(s.from, k.prv, k.pub)
		if err != nil {
			return
		}
		s.args[i], s.args[i+1] = k.pub, sig
		w.r.c.Hit("reproved-" + arContractName(to) + "." + method + "-" + strings.TrimRight(k.name, "0123456789"))
	}
	switch arContractName(to) + "." + method {
	case "swap.RetrieveAssets":
		legacy(0, implementation.SignRetrieveAssetsMessage)
	case "pillar.RegisterLegacy":
		legacy(5, implementation.SignLegacyPillarMessage)
	case "bridge.UnwrapToken":
		if len(s.args) != 8 {
			return
		}
		up := &definition.UnwrapTokenParam{}
		var ok [7]bool
		up.NetworkClass, ok[0] = s.args[0].(uint32)
		up.ChainId, ok[1] = s.args[1].(uint32)
		up.TransactionHash, ok[2] = s.args[2].(types.Hash)
		up.LogIndex, ok[3] = s.args[3].(uint32)
		up.ToAddress, ok[4] = s.args[4].(types.Address)
		up.TokenAddress, ok[5] = s.args[5].(string)
		up.Amount, ok[6] = s.args[6].(*big.Int)
		for _, o := range ok {
			if !o {
				return
			}
		}
		sig := ""
		if p := safely(func() {
			h, err := implementation.GetUnwrapTokenRequestMessage(up)
			sig = arEcSign(w.tssPrv(), h, err)
		}); p != "" || sig == "" {
			return
		}
		s.args[7] = sig
		tx := up.TransactionHash
		s.onAccept = func(h types.Hash) { w.unwrapTx = append(w.unwrapTx, tx) }
		w.r.c.Hit("reproved-bridge.UnwrapToken")
	}
}

// tssPrv: the private key of the bridge's present TSS key
func (w *arWorld) tssPrv() []byte {
	if w.tssKey != nil {
		return w.tssKey
	}
	kb, _ := base64.StdEncoding.DecodeString(arTssPriv)
	return kb
}

// ---------------------------------------------------------------------------------------------------
// scenario "proof-states"
// ---------------------------------------------------------------------------------------------------

type arProofCall struct {
	label, state string
	hash         types.Hash
}

type arProofs struct {
	w     *arWorld
	nth   int
	calls []arProofCall
}

// call delivers one proof-carrying call; state names the state of the key / entry the proof refers to
func (p *arProofs) call(state string, from, to types.Address, method string, tok types.ZenonTokenStandard, amount *big.Int, args ...interface{}) *nom.AccountBlock {
	w := p.w
	r := w.r
	if r.failed {
		return nil
	}
	if amount == nil {
		amount = big.NewInt(0)
	}
	label := arContractName(to) + "." + method
	call := w.pack(to, method, &arSpec{from: from, tok: tok, amount: amount, args: args}, "proof-"+state)
	if call == nil {
		return nil
	}
	p.nth++
	blk := r.deliver(call, []string{"tpl", "ext"}[p.nth%2])
	if blk == nil {
		r.c.Hit(fmt.Sprintf("proofs %s %s -> refused when sent", label, state))
		return nil
	}
	p.calls = append(p.calls, arProofCall{label: label, state: state, hash: blk.Hash})
	return blk
}

// steps: k producer events; then the outcome of every call delivered before is counted (coverage: which states were reached)
func (p *arProofs) steps(k int) bool {
	r := p.w.r
	for i := 0; i < k; i++ {
		if !r.step() {
			return false
		}
	}
	var rest []arProofCall
	for _, pc := range p.calls {
		rec := r.sends[pc.hash]
		if rec == nil || rec.answered == 0 {
			rest = append(rest, pc)
			continue
		}
		switch rec.status {
		case 1:
			r.c.Hit(fmt.Sprintf("proofs %s %s -> applied", pc.label, pc.state))
		default:
			r.c.Hit(fmt.Sprintf("proofs %s %s -> refunded (%s)", pc.label, pc.state, rec.retErr))
		}
	}
	p.calls = rest
	return !r.failed
}

func (p *arProofs) znn(a types.Address) *big.Int {
	b, err := p.w.r.n.Chain().GetFrontierAccountStore(a).GetBalance(types.ZnnTokenStandard)
	if err != nil || b == nil {
		return big.NewInt(0)
	}
	return b
}

func (w *arWorld) runProofStates() {
	r := w.r
	c := r.c
	p := &arProofs{w: w}
	znn, qsr := types.ZnnTokenStandard, types.QsrTokenStandard
	u1, u2, u3, u4 := g.User1.Address, g.User2.Address, g.User3.Address, g.User4.Address
	swap, pillar, bridge, htlc := types.SwapContract, types.PillarContract, types.BridgeContract, types.HtlcContract
	k1, k2, k3 := arFreshLegacyKey(c, "fresh-a"), arFreshLegacyKey(c, "fresh-b"), arFreshLegacyKey(c, "fresh-c")
	r.stateNote = func() string {
		return "scenario proof-states: every proof is real; the state of the key / entry it refers to is the generator name (gen=proof-<state>)"
	}

	// ---- swap.RetrieveAssets: the signature is checked when the block is sent, the entry is looked up when it is received
	retrieve := func(state string, from types.Address, key arLegacyKey, signFor types.Address, amount *big.Int) *nom.AccountBlock {
		sig, err := implementation.SignRetrieveAssetsMessage(signFor, key.prv, key.pub)
		if err != nil {
			return nil
		}
		return p.call(state, from, swap, definition.RetrieveAssetsMethodName, znn, amount, key.pub, sig)
	}
	// (the order of the calls of DIFFERENT accounts inside one momentum is not fixed: calls that depend on each other come from
	// one account - its blocks are received in the order of their heights - or in different momentums)
	retrieve("absent-fresh-key", u2, k1, u2, nil)
	retrieve("present-genesis-entry", u3, arSecp1, u3, nil)
	retrieve("consumed-entry-in-the-same-momentum", u3, arSecp1, u3, nil) // queued behind the call that empties the entry
	retrieve("absent-fresh-key", u4, k2, u4, nil)
	if !p.steps(1) {
		return
	}
	retrieve("consumed-entry", u3, arSecp1, u3, nil)
	retrieve("consumed-entry-other-caller", u2, arSecp1, u2, nil)
	retrieve("absent-known-key", u1, arSecp2, u1, nil)
	retrieve("absent-fresh-key-again", u2, k1, u2, nil)
	retrieve("absent-fresh-key", g.Pillar1.Address, k3, g.Pillar1.Address, nil)
	retrieve("foreign-signed-for-another-address", u3, k1, u2, nil)
	retrieve("absent-with-amount", u2, k2, u2, big.NewInt(1))
	{
		sig, _ := implementation.SignRetrieveAssetsMessage(u2, k2.prv, k2.pub)
		p.call("foreign-signed-by-another-key", u2, swap, definition.RetrieveAssetsMethodName, znn, nil, k1.pub, sig)
		notPoint := make([]byte, 65)
		notPoint[0] = 4
		c.R.Read(notPoint[1:])
		p.call("malformed-key-not-a-curve-point", u2, swap, definition.RetrieveAssetsMethodName, znn, nil, base64.StdEncoding.EncodeToString(notPoint), sig)
	}
	if !p.steps(2) {
		return
	}
	w.receiveAll(u3)

	// ---- pillar.RegisterLegacy: the same proof; the entry counts the slots left (3 in the mock genesis) and is deleted with the last
	sporkAddr := g.Spork.Address
	legacyReg := func(state string, from types.Address, key arLegacyKey, signFor types.Address) *nom.AccountBlock {
		sig, err := implementation.SignLegacyPillarMessage(signFor, key.prv, key.pub)
		if err != nil {
			return nil
		}
		return p.call(state, from, pillar, definition.LegacyRegisterMethodName, znn, new(big.Int).Set(constants.PillarStakeAmount),
			w.name("legacy"), from, from, uint8(0), uint8(100), key.pub, sig)
	}
	p.call("setup-deposit", sporkAddr, pillar, definition.DepositQsrMethodName, qsr, new(big.Int).Set(constants.PillarQsrStakeBaseAmount))
	legacyReg("absent-fresh-key", sporkAddr, k1, sporkAddr)
	legacyReg("present-genesis-entry", g.Pillar6.Address, arSecp1, g.Pillar6.Address)
	legacyReg("absent-known-key", g.Pillar7.Address, arSecp2, g.Pillar7.Address)
	if !p.steps(2) {
		return
	}
	w.receiveAll(sporkAddr) // the refunds
	w.receiveAll(g.Pillar7.Address)
	legacyReg("present-no-qsr-deposited", g.Pillar7.Address, arSecp1, g.Pillar7.Address)
	legacyReg("present-second-slot", g.Pillar4.Address, arSecp1, g.Pillar4.Address)
	legacyReg("foreign-signed-for-another-address", sporkAddr, arSecp1, g.Pillar7.Address)
	if !p.steps(2) {
		return
	}
	w.receiveAll(g.Pillar7.Address)
	legacyReg("present-last-slot", sporkAddr, arSecp1, sporkAddr)
	legacyReg("consumed-all-slots-used-in-the-same-momentum", sporkAddr, arSecp1, sporkAddr) // queued behind the call that deletes the entry
	legacyReg("consumed-or-last-slot", g.Pillar7.Address, arSecp1, g.Pillar7.Address)
	if !p.steps(2) {
		return
	}
	w.receiveAll(sporkAddr)
	w.receiveAll(g.Pillar7.Address)
	legacyReg("consumed-all-slots-used", sporkAddr, arSecp1, sporkAddr)
	// the ordinary registration next to it: no proof, not enough QSR deposited
	p.call("no-proof-no-qsr-deposited", g.Pillar7.Address, pillar, definition.RegisterMethodName, znn, new(big.Int).Set(constants.PillarStakeAmount),
		w.name("pillar"), g.Pillar7.Address, g.Pillar7.Address, uint8(0), uint8(100))
	if !p.steps(2) {
		return
	}
	w.receiveAll(sporkAddr)
	w.receiveAll(g.Pillar7.Address)

	// ---- htlc: the preimage
	if r.regime >= 3 {
		pre := make([]byte, 32)
		c.R.Read(pre)
		long := make([]byte, 255)
		c.R.Read(long)
		lock256 := sha256.Sum256(pre)
		create := func(state string, to types.Address, expires int64, hashType uint8, max uint8, lock []byte) types.Hash {
			if b := p.call(state, u1, htlc, definition.CreateHtlcMethodName, znn, zn(1), to, w.frontierTime()+expires, hashType, max, lock); b != nil {
				return b.Hash
			}
			return types.Hash{}
		}
		unlock := func(state string, from types.Address, id types.Hash, preimage []byte) {
			p.call(state, from, htlc, definition.UnlockHtlcMethodName, znn, nil, id, preimage)
		}
		reclaim := func(state string, id types.Hash) {
			p.call(state, u1, htlc, definition.ReclaimHtlcMethodName, znn, nil, id)
		}
		x := create("setup-sha256", u2, 3600, definition.HashTypeSHA256, 32, lock256[:])
		y := create("setup-sha3-long-preimage", u3, 3600, definition.HashTypeSHA3, 255, crypto.Hash(long))
		v := create("setup-expires-soon", u2, 45, definition.HashTypeSHA256, 32, lock256[:])
		if !p.steps(1) {
			return
		}
		var unknown types.Hash
		c.R.Read(unknown[:])
		unlock("absent-unknown-id", u2, unknown, pre)
		unlock("present", u2, x, pre)
		unlock("consumed-unlocked-in-the-same-momentum", u2, x, pre) // queued behind the unlock that deletes the entry
		unlock("foreign-preimage-of-another-entry", u3, y, pre)
		unlock("present-by-proxy", u4, y, long)
		if !p.steps(1) {
			return
		}
		p.call("setup-deny-proxy", u3, htlc, definition.DenyHtlcProxyUnlockMethodName, znn, nil)
		y2 := create("setup-proxy-denied", u3, 3600, definition.HashTypeSHA3, 255, crypto.Hash(long))
		reclaim("present-not-expired", v)
		if !p.steps(3) {
			return
		}
		unlock("present-proxy-denied", u4, y2, long)
		unlock("present-expired", u2, v, pre)
		if !p.steps(1) {
			return
		}
		unlock("present", u3, y2, long)
		reclaim("present-expired", v)
		reclaim("consumed-reclaimed-in-the-same-momentum", v)
		reclaim("consumed-unlocked", x)
		reclaim("absent-unknown-id", unknown)
		if !p.steps(2) {
			return
		}
	}

	// ---- bridge: signatures of the TSS key, checked in the receive
	if r.regime >= 2 {
		chainId := r.n.Chain().ChainIdentifier()
		bridgeInfo := func() *definition.BridgeInfoVariable {
			bi, err := definition.GetBridgeInfoVariable(r.n.Chain().GetFrontierAccountStore(bridge).Storage())
			if err != nil {
				return &definition.BridgeInfoVariable{}
			}
			return bi
		}
		unwrap := func(state string, tx types.Hash, log uint32, to types.Address, evm string, amount int64, signer []byte) {
			up := &definition.UnwrapTokenParam{NetworkClass: 2, ChainId: 123, TransactionHash: tx, LogIndex: log, ToAddress: to, TokenAddress: evm, Amount: big.NewInt(amount)}
			h, err := implementation.GetUnwrapTokenRequestMessage(up)
			p.call(state, u1, bridge, definition.UnwrapTokenMethodName, znn, nil, up.NetworkClass, up.ChainId, up.TransactionHash, up.LogIndex, up.ToAddress, up.TokenAddress, up.Amount, arEcSign(signer, h, err))
		}
		redeem := func(state string, tx types.Hash, log uint32) {
			p.call(state, u1, bridge, definition.RedeemUnwrapMethodName, znn, nil, tx, log)
		}
		admin := func(state, method string, args ...interface{}) {
			p.call(state, w.admin, bridge, method, znn, nil, args...)
		}
		var tx [6]types.Hash
		for i := range tx {
			c.R.Read(tx[i][:])
		}
		unwrap("absent", tx[0], 7, u2, arEvmAddr, 1500, w.tssPrv())
		unwrap("present-same-transaction-and-log", tx[0], 7, u2, arEvmAddr, 1500, w.tssPrv()) // queued behind the call that creates the request
		unwrap("absent-other-log-index", tx[0], 8, u3, arEvmAdr2, 2500, w.tssPrv())
		unwrap("foreign-signed-by-another-key", tx[1], 7, u2, arEvmAddr, 1500, k1.prv)
		unwrap("absent", tx[2], 7, u2, arEvmAdr2, 3500, w.tssPrv())
		if !p.steps(1) {
			return
		}
		redeem("present-before-the-redeem-delay", tx[0], 7)
		admin("present", definition.RevokeUnwrapRequestMethodName, tx[2], uint32(7))
		admin("consumed-revoked-in-the-same-momentum", definition.RevokeUnwrapRequestMethodName, tx[2], uint32(7))
		admin("absent", definition.RevokeUnwrapRequestMethodName, tx[3], uint32(7))
		if !p.steps(4) {
			return
		}
		redeem("present", tx[0], 7)
		redeem("consumed-redeemed-in-the-same-momentum", tx[0], 7) // queued behind the redeem
		redeem("present-owned-token", tx[0], 8)
		redeem("consumed-revoked", tx[2], 7)
		redeem("absent", tx[3], 7)
		if !p.steps(2) {
			return
		}
		redeem("consumed-redeemed", tx[0], 7)
		admin("consumed-redeemed", definition.RevokeUnwrapRequestMethodName, tx[0], uint32(7))
		// a wrap request and its signature
		if wrap := p.call("setup-wrap", u1, bridge, definition.WrapTokenMethodName, znn, zn(2), uint32(2), uint32(123), arEvmAdr2); wrap != nil {
			if !p.steps(1) {
				return
			}
			sig := strings.Repeat("A", 88)
			if req, err := definition.GetWrapTokenRequestById(r.n.Chain().GetFrontierAccountStore(bridge).Storage(), wrap.Hash); err == nil && req != nil {
				ca := ecommon.HexToAddress(arEvmNet)
				h, err := implementation.GetWrapTokenRequestMessage(req, &ca)
				sig = arEcSign(w.tssPrv(), h, err)
				p.call("foreign-signed-by-another-key", u3, bridge, definition.UpdateWrapRequestMethodName, znn, nil, wrap.Hash, arEcSign(k1.prv, h, err))
			}
			var unknown types.Hash
			c.R.Read(unknown[:])
			p.call("absent-unknown-id", u3, bridge, definition.UpdateWrapRequestMethodName, znn, nil, unknown, sig)
			p.call("present", u3, bridge, definition.UpdateWrapRequestMethodName, znn, nil, wrap.Hash, sig)
			p.call("present-signed-already", u3, bridge, definition.UpdateWrapRequestMethodName, znn, nil, wrap.Hash, sig)
			if !p.steps(1) {
				return
			}
		}
		// key rotation by the TSS participants themselves: old and new key sign (method, nonce, new key)
		admin("setup-allow-keygen", definition.SetAllowKeygenMethodName, true)
		if !p.steps(1) {
			return
		}
		newKey := arFreshLegacyKey(c, "tss-new")
		rotate := func(state string, nonce uint64, oldPrv, newPrv []byte) {
			h, err := implementation.GetChangePubKeyMessage(definition.ChangeTssECDSAPubKeyMethodName, definition.NoMClass, chainId, nonce, newKey.compressed())
			p.call(state, u3, bridge, definition.ChangeTssECDSAPubKeyMethodName, znn, nil, newKey.compressed(), arEcSign(oldPrv, h, err), arEcSign(newPrv, h, err))
		}
		nonce := bridgeInfo().TssNonce
		rotate("foreign-old-key-signature-by-another-key", nonce, k1.prv, newKey.prv)
		rotate("foreign-new-key-signature-by-another-key", nonce, w.tssPrv(), k1.prv)
		rotate("present", nonce, w.tssPrv(), newKey.prv)
		rotate("consumed-nonce-used-in-the-same-momentum", nonce, w.tssPrv(), newKey.prv) // queued behind the rotation
		if !p.steps(1) {
			return
		}
		oldPrv := w.tssPrv()
		if bridgeInfo().CompressedTssECDSAPubKey == newKey.compressed() {
			w.tssKey = newKey.prv
			c.Hit("proofs tss-key-rotated")
		}
		unwrap("foreign-signed-by-the-replaced-key", tx[4], 7, u2, arEvmAddr, 1500, oldPrv)
		unwrap("absent-signed-by-the-new-key", tx[4], 7, u2, arEvmAddr, 1500, w.tssPrv())
		// halting by signature: (method, nonce)
		halt := func(state string, nonce uint64, prv []byte) {
			h, err := implementation.GetBasicMethodMessage(definition.HaltMethodName, nonce, definition.NoMClass, chainId)
			p.call(state, u3, bridge, definition.HaltMethodName, znn, nil, arEcSign(prv, h, err))
		}
		nonce = bridgeInfo().TssNonce
		halt("foreign-signed-by-another-key", nonce, k1.prv)
		halt("present", nonce, w.tssPrv())
		halt("consumed-nonce-used-in-the-same-momentum", nonce, w.tssPrv()) // queued behind the halt
		if !p.steps(1) {
			return
		}
		unwrap("absent-while-halted", tx[5], 7, u2, arEvmAddr, 1500, w.tssPrv())
		halt("present-while-halted", bridgeInfo().TssNonce, w.tssPrv())
		if !p.steps(1) {
			return
		}
		admin("setup-unhalt", definition.UnhaltMethodName)
		if !p.steps(int(constants.MinUnhaltDurationInMomentums) + 2) {
			return
		}
		unwrap("absent-after-unhalt", tx[5], 7, u2, arEvmAddr, 1500, w.tssPrv())
		if !p.steps(1) {
			return
		}
		// key material of the right length that is no curve point
		if c.Args["nomalformed"] == "" {
			notPoint := make([]byte, constants.CompressedECDSAPubKeyLength)
			for ok := true; ok; { // (half of all x coordinates are on the curve)
				notPoint[0] = 2
				c.R.Read(notPoint[1:])
				_, err := ecrypto.DecompressPubkey(notPoint)
				ok = err == nil
			}
			bad := base64.StdEncoding.EncodeToString(notPoint)
			p.call("malformed-key-not-a-curve-point", u3, bridge, definition.ChangeTssECDSAPubKeyMethodName, znn, nil, bad, "", "")
			// a call queued behind it
			p.call("setup-metadata", u3, bridge, definition.SetBridgeMetadataMethodName, znn, nil, `{"after":"malformed key"}`)
			if !p.steps(2) {
				return
			}
		}
	}
	p.steps(1)
	c.Hit("proof-states-complete")
}
