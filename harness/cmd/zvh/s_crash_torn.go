package main

import (
	"fmt"
	"os"
	"path/filepath"
	"sort"

	"github.com/zenon-network/go-zenon/common/db"
)

// ---------------------------------------------------------------------------------------------------
// crash stream (C08), second family of crash images: process death INSIDE one leveldb write.
//
// goleveldb appends one journal record per Write call, but the record reaches the file in pieces: the journal
// writer cuts it into chunks (7-byte header: crc32, length, type first/middle/last/full) that never cross a
// 32 KiB block of the file, and hands every block that fills up to the file with its own write(2); the rest
// follows at Flush. A record of k blocks is therefore k (or k+1) system calls, and a process that dies between
// two of them - or whose last write is short (signal, disk full) - leaves a journal that ends inside the
// record: at a block boundary, inside a chunk, inside a chunk header. A file system that extends the file
// before the data is there adds a zero-filled or arbitrary tail.
//
// The property's sentence for these images: the node reopens its database (the real db.NewLevelDBManager
// must open the image - it is the FIRST thing that touches the image, as after a real restart), the store is
// exactly the state before the operation (the torn record vanishes) or after it, its bookkeeping is
// consistent, and re-delivering the operation reaches the crash-free state.
// ---------------------------------------------------------------------------------------------------

type tornCut struct {
	at   int64  // length of the journal that survives
	kind string // where the cut falls
	tail string // "" (plain truncation), "zeros", "garbage"
	tlen int    // length of the tail
}

// tornCuts chooses the cut points inside the byte range (start, end) that the operation appended to the journal.
func tornCuts(c *Ctx, start, end int64) []tornCut {
	if end-start < 2 {
		return nil
	}
	inside := func(x int64) bool { return x > start && x < end }
	var cuts []tornCut
	add := func(at int64, kind string) {
		if !inside(at) {
			return
		}
		for _, o := range cuts {
			if o.at == at {
				return
			}
		}
		cuts = append(cuts, tornCut{at: at, kind: kind})
	}
	// every 32 KiB block boundary inside the range = every point between two write(2) calls of the record
	var bounds []int64
	for b := (start/jBlock + 1) * jBlock; b < end; b += jBlock {
		if inside(b) {
			bounds = append(bounds, b)
		}
	}
	chosen := bounds
	if len(bounds) > 6 {
		// long records: the first and last boundaries and a sample in between
		chosen = []int64{bounds[0], bounds[1], bounds[len(bounds)-1]}
		for i := 0; i < 2; i++ {
			chosen = append(chosen, bounds[2+c.R.Intn(len(bounds)-3)])
		}
	}
	for _, b := range chosen {
		add(b, "block-boundary")
	}
	if len(chosen) > 0 {
		// the neighbourhood of one boundary: inside the 7-byte header of the chunk that opens the block, header complete
		// without a payload byte, the block write itself short, inside the chunk
		b := chosen[c.R.Intn(len(chosen))]
		add(b+1+int64(c.R.Intn(6)), "mid-header")
		add(b+7, "header-only")
		add(b-1-int64(c.R.Intn(3)), "short-of-block")
		add(b+8+int64(c.R.Intn(jBlock-16)), "mid-chunk")
	}
	// the first and the last chunk of the record, and arbitrary byte offsets
	switch c.R.Intn(3) {
	case 0:
		add(start+1+int64(c.R.Intn(6)), "mid-header-first")
	case 1:
		add(start+7, "header-only-first")
	default:
		add(start+8+int64(c.R.Intn(64)), "mid-chunk-first")
	}
	if c.R.Intn(2) == 0 {
		add(end-1, "last-byte-missing")
	} else {
		add(end-1-int64(c.R.Intn(40)), "mid-chunk-last")
	}
	add(start+1+c.R.Int63n(end-start-1), "arbitrary")
	sort.Slice(cuts, func(i, j int) bool { return cuts[i].at < cuts[j].at })
	// a sample of the cuts gets a tail the file system may leave behind: zeros or arbitrary bytes
	n := len(cuts)
	for i := 0; i < n; i++ {
		if c.R.Intn(5) != 0 {
			continue
		}
		t := cuts[i]
		room := int(jBlock - t.at%jBlock) // up to the end of the block
		switch c.R.Intn(4) {
		case 0:
			t.tlen = room
		case 1:
			t.tlen = 1 + c.R.Intn(room)
		case 2:
			t.tlen = 1 + c.R.Intn(16)
		default:
			t.tlen = room + c.R.Intn(2*jBlock) // into the following blocks
		}
		if c.R.Intn(2) == 0 {
			t.tail = "zeros"
		} else {
			t.tail = "garbage"
		}
		cuts = append(cuts, t)
	}
	return cuts
}

func tornImage(c *Ctx, live, journal string, t tornCut) (string, error) {
	img, err := crashImage(live, journal, t.at)
	if err != nil {
		return img, err
	}
	if t.tail != "" {
		tail := make([]byte, t.tlen)
		if t.tail == "garbage" {
			c.R.Read(tail)
		}
		f, err := os.OpenFile(filepath.Join(img, filepath.Base(journal)), os.O_WRONLY|os.O_APPEND, 0o644)
		if err != nil {
			return img, err
		}
		_, err = f.Write(tail)
		f.Close()
		if err != nil {
			return img, err
		}
	}
	return img, nil
}

// crashTornImages materialises the torn images of one operation whose journal bytes are (start, end]; recEnds are the
// end offsets of the operation's records (so the state a cut must leave is known: that of the last complete record).
// Returns false when a monitor failed.
func crashTornImages(c *Ctx, seq int, live, journal, opDesc string, start, end int64, before, after string,
	redo func(mm db.Manager) error) bool {
	cuts := tornCuts(c, start, end)
	blocks := (end-1)/jBlock - start/jBlock + 1
	if blocks > 1 {
		c.Hit("torn-op-record-spans-blocks")
		if blocks > 3 {
			c.Hit("torn-op-record-spans-4+-blocks")
		}
	}
	for _, t := range cuts {
		where := fmt.Sprintf("journal cut at byte %d (%s, %d bytes into the %d bytes of the operation's write%s)", t.at, t.kind, t.at-start, end-start,
			map[bool]string{true: fmt.Sprintf(", followed by %d bytes of %s", t.tlen, t.tail), false: ""}[t.tail != ""])
		img, err := tornImage(c, live, journal, t)
		if err != nil {
			os.RemoveAll(img)
			c.Fail("crash seq=%d: image: %v", seq, err)
			return false
		}
		// 1. the node restarts: the real manager is the first to open the image
		var fid string
		if p := safely(func() {
			mm := db.NewLevelDBManager(img)
			fid = idStr(db.GetFrontierIdentifier(mm.Frontier()))
			mm.Stop()
		}); p != "" {
			os.RemoveAll(img)
			c.Fail("crash seq=%d op=[%.200s]: process death inside a write, %s: the node cannot reopen its database: %s", seq, opDesc, where, firstLine(p))
			return false
		}
		c.Hit("torn-image")
		c.Hit("torn-" + t.kind)
		if t.tail != "" {
			c.Hit("torn-tail-" + t.tail)
		}
		// 2. exactly before or after
		raw, err := rawDump(img)
		if err != nil {
			os.RemoveAll(img)
			c.Fail("crash seq=%d op=[%.200s]: process death inside a write, %s: image does not open a second time: %v", seq, opDesc, where, err)
			return false
		}
		isBefore, isAfter := raw == before, raw == after
		if !isBefore && !isAfter {
			os.RemoveAll(img)
			c.Fail("crash seq=%d op=[%.200s]: process death inside a write, %s, leaves a store (frontier %s) that is neither the state before nor the state after the operation", seq, opDesc, where, fid)
			return false
		}
		if isBefore && !isAfter {
			c.Hit("torn-state-before")
		}
		// 3. continue on the recovered image: re-deliver the operation
		if isBefore && !isAfter && (t.kind == "block-boundary" || c.R.Intn(3) == 0) {
			var rerr error
			if p := safely(func() {
				mm := db.NewLevelDBManager(img)
				rerr = redo(mm)
				mm.Stop()
			}); p != "" {
				rerr = fmt.Errorf("panic: %s", firstLine(p))
			}
			raw2, derr := rawDump(img)
			if rerr != nil || derr != nil || raw2 != after {
				os.RemoveAll(img)
				c.Fail("crash seq=%d op=[%.200s]: re-delivery after process death inside a write, %s, does not reach the crash-free state (err=%v)", seq, opDesc, where, rerr)
				return false
			}
			c.Hit("torn-redelivered")
		}
		// 4. bookkeeping of the reopened store (frontier pointer, redo/undo records, rollback possible)
		if c.R.Intn(4) != 0 {
			os.RemoveAll(img)
			continue
		}
		if msg := imageConsistency(img); msg != "" {
			os.RemoveAll(img)
			c.Fail("crash seq=%d op=[%.200s]: process death inside a write, %s: %s", seq, opDesc, where, msg)
			return false
		}
		os.RemoveAll(img)
	}
	return true
}
