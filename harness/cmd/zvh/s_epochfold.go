package main

import (
	"fmt"
	"math/big"
	"os"
	"sort"
	"strings"
	"time"

	g "github.com/zenon-network/go-zenon/chain/genesis/mock"
	"github.com/zenon-network/go-zenon/chain/nom"
	"github.com/zenon-network/go-zenon/common/db"
	"github.com/zenon-network/go-zenon/common/types"
	"github.com/zenon-network/go-zenon/consensus"
	"github.com/zenon-network/go-zenon/consensus/storage"
	"github.com/zenon-network/go-zenon/vm/embedded/definition"
	"github.com/zenon-network/go-zenon/wallet"
	"github.com/zenon-network/go-zenon/zenon/mock"
)

// ---------------------------------------------------------------------------------------------------
// Stream `epoch-fold` (C02: "answer every ledger query identically ... with warm or cold caches, in one process run or across
// restarts", for the queries answered by the consensus statistics: api.PillarReader = the reader vm/supervisor.go
// newBlockContext hands to the VM for every account block and the RPC layer uses).
//
// One history = one real node (zenon/mock) on a compressed calendar: an epoch is 2..4 election ticks (periods), so that
// several epochs FINISH in the run and their points are compounded from SEVERAL period points while the node is running;
// the pillar weights change all the time (re-delegations, undelegations, ZNN transfers of backers), so the period points
// of one epoch differ from one another. Three warm instances follow the chain (the node's own, a listening instance on a
// database the harness holds, and - every other history - one that starts to listen late). At check points - the first
// momentums of every epoch (the epoch before has just been compounded), random heights, the end - everything a pillar
// reader can say is asked on every warm instance, on an instance re-opened on the held database (restart: empty LRU, stored
// bytes), and on a cold instance on an empty database:
//   - GetPillarWeights as of a momentum of EVERY tick so far (= the weights of every period point, not only the last),
//   - EpochStats of every epoch so far (finished and running), GetPillarDelegationsByEpoch of every epoch,
// asked twice on the warm instances (before and after the others computed); all answers must be identical. The weights
// of every stored period point are also decoded from the stored bytes (real Unmarshal) and must be what the warm instance
// that stored them answers. At the end the stored bytes of every period / epoch point go to the model (cs-pt-dec lines).
// ---------------------------------------------------------------------------------------------------

func efWeightsText(w map[string]*big.Int, err error) string {
	if err != nil {
		return "err"
	}
	names := make([]string, 0, len(w))
	for k := range w {
		names = append(names, k)
	}
	sort.Strings(names)
	ss := make([]string, len(names))
	for i, k := range names {
		ss[i] = k + "=" + w[k].String()
	}
	return strings.Join(ss, " ")
}

type efEnv struct {
	c        *Ctx
	z        mock.MockZenon
	cctx     *consensus.Context
	genesis  time.Time
	periods  uint64 // per epoch
	tickSec  int64
	changes  []string
	lastTick map[uint64]types.HashHeight // a momentum of every tick
}

func (e *efEnv) frontier() *nom.Momentum {
	m, err := e.z.Chain().GetFrontierMomentumStore().GetFrontierMomentum()
	if err != nil {
		panic(err)
	}
	return m
}

// answers: everything a pillar reader of the instance says, one entry per question
func (e *efEnv) answers(cs consensus.Consensus, curTick uint64) (keys []string, vals map[string]string) {
	vals = map[string]string{}
	put := func(k, v string) { keys = append(keys, k); vals[k] = v }
	for t := uint64(0); t < curTick; t++ {
		id, ok := e.lastTick[t+1]
		if !ok {
			continue
		}
		k := fmt.Sprintf("GetPillarWeights as of momentum %d (tick %d => period point %d, period %d of epoch %d)", id.Height, t+1, t, t%e.periods, t/e.periods)
		if p := safely(func() { put(k, efWeightsText(cs.FixedPillarReader(id).GetPillarWeights())) }); p != "" {
			put(k, "panic")
		}
	}
	r := cs.FrontierPillarReader()
	for ep := uint64(0); ep <= curTick/e.periods; ep++ {
		k := fmt.Sprintf("EpochStats(%d)", ep)
		if p := safely(func() { put(k, statsText(r.EpochStats(ep))) }); p != "" {
			put(k, "panic")
		}
		k = fmt.Sprintf("GetPillarDelegationsByEpoch(%d)", ep)
		if p := safely(func() {
			d, err := r.GetPillarDelegationsByEpoch(ep)
			if err != nil {
				put(k, "err")
				return
			}
			dn := make([]string, 0, len(d))
			for n := range d {
				dn = append(dn, n)
			}
			sort.Strings(dn)
			ds := make([]string, len(dn))
			for i, n := range dn {
				ds[i] = fmt.Sprintf("%s/%s/%s/%d", n, addrName(d[n].Producing), d[n].Weight, len(d[n].Backers))
			}
			put(k, strings.Join(ds, " "))
		}); p != "" {
			put(k, "panic")
		}
	}
	return
}

func (e *efEnv) weightChange() {
	c := e.c
	z := e.z
	backers := []*wallet.KeyPair{g.User1, g.User2, g.User3, g.User4, g.User5}
	names := []string{g.Pillar1Name, g.Pillar2Name, g.Pillar3Name}
	what := ""
	if p := safely(func() {
		switch k := c.R.Intn(10); {
		case k < 6:
			who := backers[c.R.Intn(len(backers))]
			name := names[c.R.Intn(len(names))]
			z.InsertSendBlock(&nom.AccountBlock{Address: who.Address, ToAddress: types.PillarContract,
				Data:          definition.ABIPillars.PackMethodPanic(definition.DelegateMethodName, name),
				TokenStandard: types.ZnnTokenStandard, Amount: big.NewInt(0)}, nil, mock.SkipVmChanges)
			what = fmt.Sprintf("%s delegates to %s", addrName(who.Address), name)
		case k < 7:
			who := backers[c.R.Intn(len(backers))]
			z.InsertSendBlock(&nom.AccountBlock{Address: who.Address, ToAddress: types.PillarContract,
				Data:          definition.ABIPillars.PackMethodPanic(definition.UndelegateMethodName),
				TokenStandard: types.ZnnTokenStandard, Amount: big.NewInt(0)}, nil, mock.SkipVmChanges)
			what = fmt.Sprintf("%s undelegates", addrName(who.Address))
		default:
			from := append(backers, g.Pillar1, g.Pillar2, g.Pillar3)[c.R.Intn(8)]
			bal, err := z.Chain().GetFrontierMomentumStore().GetAccountStore(from.Address).GetBalance(types.ZnnTokenStandard)
			if err != nil || bal == nil || bal.Sign() <= 0 {
				return
			}
			amount := new(big.Int).Div(new(big.Int).Mul(bal, big.NewInt(int64(1+c.R.Intn(4)))), big.NewInt(10))
			if amount.Sign() <= 0 {
				return
			}
			to := []*wallet.KeyPair{g.User6, g.User7, g.User8}[c.R.Intn(3)]
			z.InsertSendBlock(&nom.AccountBlock{Address: from.Address, ToAddress: to.Address,
				TokenStandard: types.ZnnTokenStandard, Amount: amount}, nil, mock.SkipVmChanges)
			what = fmt.Sprintf("%s sends %s to %s", addrName(from.Address), amount, addrName(to.Address))
		}
	}); p != "" {
		c.Hit("ef-weight-change-failed")
		return
	}
	if what != "" {
		e.changes = append(e.changes, fmt.Sprintf("%s (at height %d)", what, e.frontier().Height))
		c.Hit("ef-weight-change")
	}
}

func epochFoldHistory(c *Ctx, it int) {
	origEpoch := consensus.EpochDuration
	defer func() { consensus.EpochDuration = origEpoch }()
	periods := uint64(2 + c.R.Intn(3))
	if it%5 == 4 {
		periods = 1 // the degenerate calendar: every epoch is one period
	}
	t := &mockT{dir: os.TempDir()}
	tickSec := int64(600)
	z := mock.NewMockZenonWithCustomEpochDuration(t, time.Duration(int64(periods)*tickSec)*time.Second)
	defer func() {
		defer func() { recover() }()
		z.StopPanic()
	}()
	gm := z.Chain().GetGenesisMomentum()
	e := &efEnv{c: c, z: z, genesis: *gm.Timestamp, cctx: consensus.NewConsensusContext(*gm.Timestamp), periods: periods, tickSec: tickSec,
		lastTick: map[uint64]types.HashHeight{}}
	ch := z.Chain()
	// a listening instance on a database the harness can read and re-open
	kv := db.NewMemDB()
	mine := consensus.NewConsensus(kv, ch, true)
	if err := mine.Init(); err != nil {
		panic(err)
	}
	if err := mine.Start(); err != nil {
		panic(err)
	}
	defer func() { safely(func() { mine.Stop() }) }()
	warm := []struct {
		name string
		cs   consensus.Consensus
	}{{"the node's own consensus instance (followed the chain from genesis)", z.Consensus()}, {"a listening instance on a held database (from genesis)", mine}}
	perTick := uint64(e.cctx.NodeCount)
	epochs := uint64(2)
	if periods <= 2 {
		epochs = 3
	}
	target := periods*perTick*epochs + 3 + uint64(c.R.Intn(int(perTick)))
	lateAt := uint64(0)
	if it%2 == 1 {
		lateAt = perTick/2 + uint64(c.R.Intn(int(periods*perTick)))
	}
	failed := false
	check := func(why string) {
		if failed {
			return
		}
		f := e.frontier()
		curTick := e.cctx.ToTick(*f.Timestamp)
		type inst struct {
			name string
			keys []string
			vals map[string]string
		}
		var all []inst
		for _, w := range warm {
			k, v := e.answers(w.cs, curTick)
			all = append(all, inst{w.name + ", warm", k, v})
		}
		re := consensus.NewConsensus(kv, ch, true)
		k, v := e.answers(re, curTick)
		all = append(all, inst{"an instance re-opened on the held consensus database (restart: empty LRU, stored bytes)", k, v})
		cold := consensus.NewConsensus(db.NewMemDB(), ch, true)
		ck, cv := e.answers(cold, curTick)
		for _, w := range warm {
			k, v := e.answers(w.cs, curTick)
			all = append(all, inst{w.name + ", warm, asked again", k, v})
		}
		c.Hit("ef-checkpoint")
		c.Hit("ef-checkpoint-" + why)
		for _, in := range all {
			for _, q := range ck {
				c.Hit("ef-answer-compared")
				if in.vals[q] != cv[q] {
					c.Fail("epoch-fold: %s at frontier height %d (tick %d, period %d of epoch %d; epochs of %d periods; check point: %s): %s answers [%s]; a cold instance on an empty consensus database answers [%s] — same ledger, different answer. Weight changes of the history: %s",
						q, f.Height, curTick, curTick%periods, curTick/periods, periods, why, in.name, in.vals[q], cv[q], strings.Join(e.changes, "; "))
					failed = true
					return
				}
			}
		}
		// the stored bytes of every period point against what the instance that stored them answers
		for tk := uint64(0); tk < curTick; tk++ {
			raw, err := kv.Get(storage.CreatePointKey(storage.PrefixPeriodPoint, tk))
			if err != nil || len(raw) == 0 {
				continue
			}
			pt := &storage.Point{}
			if err := pt.Unmarshal(raw); err != nil {
				c.Fail("epoch-fold: the stored period point %d cannot be decoded: %v", tk, err)
				failed = true
				return
			}
			id, ok := e.lastTick[tk+1]
			if !ok {
				continue
			}
			w := map[string]*big.Int{}
			for n, d := range pt.Pillars {
				w[n] = d.Weight
			}
			got := efWeightsText(mine.FixedPillarReader(id).GetPillarWeights())
			c.Hit("ef-stored-period-point-vs-cache")
			if want := efWeightsText(w, nil); got != want {
				c.Fail("epoch-fold: period point %d (period %d of epoch %d, epochs of %d periods) at frontier height %d: the listening instance answers GetPillarWeights = [%s] from its cache, the bytes it stored for that point decode to [%s] — the cached point is no longer what was stored. Weight changes of the history: %s",
					tk, tk%periods, tk/periods, periods, f.Height, got, want, strings.Join(e.changes, "; "))
				failed = true
				return
			}
		}
	}
	prevEpoch := uint64(0)
	sinceEpoch := 0
	for {
		f := e.frontier()
		if f.Height >= target || failed {
			break
		}
		if c.R.Intn(9) == 0 {
			e.weightChange()
		}
		z.InsertNewMomentum()
		f = e.frontier()
		tick := e.cctx.ToTick(*f.Timestamp)
		e.lastTick[tick] = f.Identifier()
		if lateAt != 0 && f.Height == lateAt {
			late := consensus.NewConsensus(db.NewMemDB(), ch, true)
			if late.Init() == nil && late.Start() == nil {
				defer func() { safely(func() { late.Stop() }) }()
				warm = append(warm, struct {
					name string
					cs   consensus.Consensus
				}{fmt.Sprintf("an instance that started to listen at height %d on an empty database", lateAt), late})
				c.Hit("ef-late-listener")
			}
		}
		ep := tick / periods
		if ep != prevEpoch {
			prevEpoch, sinceEpoch = ep, 0
			c.Hit(fmt.Sprintf("ef-epoch-of-%d-periods-finished", periods))
		}
		sinceEpoch++
		switch {
		case ep > 0 && sinceEpoch <= 2:
			check("first momentums of an epoch")
		case ep > 0 && tick%periods == 0 && c.R.Intn(6) == 0:
			check("first period of an epoch")
		case c.R.Intn(40) == 0:
			check("random height")
		}
	}
	check("end of the history")
	// the stored bytes of the points for the model
	f := e.frontier()
	curTick := e.cctx.ToTick(*f.Timestamp)
	emit := func(prefix byte, n uint64) {
		for i := uint64(0); i < n; i++ {
			raw, err := kv.Get(storage.CreatePointKey(prefix, i))
			if err != nil || len(raw) == 0 {
				continue
			}
			pt := &storage.Point{}
			uerr := pt.Unmarshal(raw)
			c.Emit("cs-pt-dec %s | %s", hx(raw), csPointText(pt, uerr))
			c.Hit("ef-stored-point-to-model")
		}
	}
	emit(storage.PrefixPeriodPoint, curTick)
	emit(storage.PrefixEpochPoint, curTick/periods)
}

func init() {
	register("epoch-fold", func(c *Ctx) {
		for it := 0; it < c.N; it++ {
			if p := safely(func() { epochFoldHistory(c, it) }); p != "" {
				c.Fail("epoch-fold: history %d panicked: %s", it, p)
			}
		}
	})
}
