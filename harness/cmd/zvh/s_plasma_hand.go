package main

import (
	"encoding/hex"
	"fmt"
	"math/big"

	g "github.com/zenon-network/go-zenon/chain/genesis/mock"
	"github.com/zenon-network/go-zenon/chain/nom"
	"github.com/zenon-network/go-zenon/common"
	"github.com/zenon-network/go-zenon/common/types"
	"github.com/zenon-network/go-zenon/verifier"
	"github.com/zenon-network/go-zenon/vm"
	"github.com/zenon-network/go-zenon/vm/constants"
	"github.com/zenon-network/go-zenon/vm/vm_context"
	"github.com/zenon-network/go-zenon/vm/embedded/definition"
)

// ---------------------------------------------------------------------------------------------------
// plasma stream, second half (C12): blocks BUILT BY HAND (every field chosen by the harness, hashed and signed with the
// account's key; nothing is filled in by GenerateFromTemplate) and handed to Supervisor.ApplyBlock, over the product
//   fused-plasma claim   0 / what the block still needs after its PoW / base cost / available-1, available, available+1 /
//                        cap-PoW, cap-PoW+1, cap, cap+1 / huge / 2^64-PoW+base (sum wraps round to the base cost)
//   proof-of-work        none / really done for the remainder / really done for the whole base cost (-1, +1 plasma unit) /
//                        done for more than needed (the PoW cap, above the cap) / claimed but not done (a nonce that does not
//                        meet the difficulty; the SAME nonce first under the trivial difficulties 1 and 2, or after them)
//   account state        no QSR fused / about one block's worth / many / the per-account maximum; first block of the account
//                        or on top of confirmed and of unconfirmed blocks that already committed plasma
// For the first block of an account the data hash of the PoW depends on the address only: nonces that meet every difficulty
// a block can claim are precomputed (powHints); on later blocks the remainder is mined on the spot and the whole base cost
// only a few times per run (31.5 million hashes each).
// Every candidate yields a pow-check line (hash prefix computed by the harness, claimed difficulty | honoured?) and, when
// the plasma rule was reached, a plasma-check line with the claimed difficulty, both recomputed by the Lean model; the
// monitor states the property on every ACCEPTED block from independently read facts: the PoW claim is met by the hash,
// fused <= available, fused + PoW plasma >= base cost, <= cap (big-integer arithmetic: no wrap-around).
// ---------------------------------------------------------------------------------------------------

type plasmaRun struct {
	c     *Ctx
	n     *Node
	id    int
	inbox map[types.Address][]types.Hash
	fail  func(format string, a ...interface{})
	// per (account, previous hash): the nonce that is presented WITHOUT having been worked for
	fakeNonce map[string][8]byte
	// nonces mined in this history per (account, previous hash), with the difficulty they were mined for
	mined map[string][]minedNonce
	// s_plasma_methods.go: replay of the plasma contract's chain, tokens issued in the history
	ledger    *plasmaLedger
	ownTokens []types.ZenonTokenStandard
}

var plasmaFullMinesLeft = -1 // budget of whole-base-cost minings on non-first blocks per process (set on first use)

// the statement's "plasma earned by proof-of-work", from the constants (not vm.DifficultyToPlasma)
func ownPowPlasma(d uint64) uint64 {
	p := d / constants.PoWDifficultyPerPlasma
	if p > constants.MaxPoWPlasmaForAccountBlock {
		p = constants.MaxPoWPlasmaForAccountBlock
	}
	return p
}

type plasmaFacts struct {
	fusedQsr, committed, uncommitted *big.Int
	fusedPlasmaOfQsr                 uint64
	availI                           *big.Int
	av                               uint64
}

// plasmaFactsOf reads what the rule rests on, independently of vm.AvailablePlasma: QSR fused for acc and the plasma
// committed on its confirmed chain as of the acknowledged momentum `ma`, the plasma committed on the chain the block extends
func plasmaFactsOf(n *Node, acc types.Address, ma types.HashHeight, prev types.HashHeight) *plasmaFacts {
	maStore := n.Chain().GetMomentumStore(ma)
	accStore := n.Chain().GetAccountStore(acc, prev)
	if maStore == nil || accStore == nil {
		return nil
	}
	f := &plasmaFacts{}
	f.fusedQsr, _ = maStore.GetStakeBeneficialAmount(acc)
	f.committed, _ = maStore.GetAccountStore(acc).GetChainPlasma()
	f.uncommitted, _ = accStore.GetChainPlasma()
	if f.fusedQsr != nil && f.fusedQsr.Sign() > 0 {
		if f.fusedQsr.Cmp(big.NewInt(int64(constants.MaxFussedAmountForAccount))) >= 0 {
			f.fusedPlasmaOfQsr = constants.MaxFusionPlasmaForAccount
		} else {
			f.fusedPlasmaOfQsr = f.fusedQsr.Uint64() / constants.CostPerFusionUnit * constants.PlasmaPerFusionUnit
		}
	}
	f.availI = new(big.Int).Add(big.NewInt(int64(f.fusedPlasmaOfQsr)), f.committed)
	f.availI.Sub(f.availI, f.uncommitted)
	if f.availI.Sign() > 0 {
		f.av = f.availI.Uint64()
	}
	return f
}

func plasmaVerdict(err error) string {
	switch {
	case err == nil:
		return "ok"
	case err == constants.ErrNotEnoughPlasma:
		return "not-enough-plasma"
	case err == constants.ErrBlockPlasmaLimitReached:
		return "limit-reached"
	case err == constants.ErrNotEnoughTotalPlasma:
		return "not-enough-total"
	case err == constants.ErrVmRunPanic:
		return "vm-panic"
	case err == verifier.ErrABPoWInvalid:
		return "pow-invalid"
	}
	return "other"
}

type powChoice struct {
	name string
	// d: claimed difficulty as a function of the base cost and the fused part the block would honestly need; work: how the
	// nonce is obtained: "none" (zero nonce, no claim), "done" (meets d), "fake" (the account's unworked nonce)
	d    func(base uint64) uint64
	work string
}

const perPlasma = constants.PoWDifficultyPerPlasma

var plasmaPowChoices = []powChoice{
	{"none", func(base uint64) uint64 { return 0 }, "none"},
	{"remainder-1", func(base uint64) uint64 { return 1 * perPlasma }, "done"},
	{"remainder-20", func(base uint64) uint64 { return 20 * perPlasma }, "done"},
	{"remainder-20-odd", func(base uint64) uint64 { return 20*perPlasma + perPlasma - 1 }, "done"},
	{"remainder-10000", func(base uint64) uint64 { return 10000 * perPlasma }, "done"}, // first blocks only (precomputed nonce)
	{"full", func(base uint64) uint64 { return base * perPlasma }, "done"},
	{"full-1", func(base uint64) uint64 { return base*perPlasma - 1 }, "done"},
	{"full+1", func(base uint64) uint64 { return (base + 1) * perPlasma }, "done"},
	{"pow-cap", func(base uint64) uint64 { return constants.MaxDifficultyForAccountBlock }, "done"},
	{"above-pow-cap", func(base uint64) uint64 { return constants.MaxDifficultyForAccountBlock + 1 + perPlasma }, "done"},
	{"trivial-1", func(base uint64) uint64 { return 1 }, "fake"},
	{"trivial-2", func(base uint64) uint64 { return 2 }, "fake"},
	{"fake-full", func(base uint64) uint64 { return base * perPlasma }, "fake"},
	{"fake-pow-cap", func(base uint64) uint64 { return constants.MaxDifficultyForAccountBlock }, "fake"},
	{"fake-huge", func(base uint64) uint64 { return 1<<63 + 12345 }, "fake"},
	{"fake-remainder", func(base uint64) uint64 { return 20 * perPlasma }, "fake"},
}

var plasmaFusedChoices = []string{"zero", "needed", "needed-1", "base", "avail", "avail-1", "avail+1", "cap-pow", "cap-pow+1", "cap", "cap+1", "huge", "wrap-to-base", "wrap-to-zero", "one"}

func plasmaFusedValue(name string, base, powPlasma, av uint64) uint64 {
	const cap = constants.MaxPlasmaForAccountBlock
	switch name {
	case "zero":
		return 0
	case "one":
		return 1
	case "needed":
		if powPlasma >= base {
			return 0
		}
		return base - powPlasma
	case "needed-1":
		if powPlasma+1 >= base {
			return 0
		}
		return base - powPlasma - 1
	case "base":
		return base
	case "avail":
		return av
	case "avail-1":
		if av == 0 {
			return 0
		}
		return av - 1
	case "avail+1":
		return av + 1
	case "cap-pow":
		return cap - powPlasma
	case "cap-pow+1":
		return cap - powPlasma + 1
	case "cap":
		return cap
	case "cap+1":
		return cap + 1
	case "huge":
		return 1<<64 - 1 - 100000
	case "wrap-to-base": // fused + PoW plasma = base cost modulo 2^64
		return base - powPlasma // uint64 arithmetic: wraps when powPlasma > base
	case "wrap-to-zero":
		return -powPlasma
	}
	panic("fused choice " + name)
}

// nonceFor: the nonce the sender presents for (acc, prev) under the PoW choice; ok=false if the work cannot be afforded
func (pr *plasmaRun) nonceFor(acc types.Address, prev types.Hash, d uint64, work string, mayMineFull bool) (nonce [8]byte, ok bool) {
	key := acc.String() + prev.String()
	data := powDataHash(acc, prev)
	switch work {
	case "none":
		return nonce, true
	case "fake":
		if fn, have := pr.fakeNonce[key]; have {
			return fn, true
		}
		for { // a nonce that meets nothing beyond difficulty 3 (so that every claim above is unworked)
			pr.c.R.Read(nonce[:])
			if !powMeets(powH8(data, nonce), 4) {
				break
			}
		}
		pr.fakeNonce[key] = nonce
		return nonce, true
	}
	// really done
	if prev.IsZero() && d <= powHintDifficulty {
		if hn, have := powFirstBlockNonce(acc, false); have {
			return hn, true
		}
	}
	for _, m := range pr.mined[key] {
		if m.d >= d && powMeets(powH8(data, m.nonce), d) {
			return m.nonce, true
		}
	}
	dMine := d
	if d > 40000 {
		if plasmaFullMinesLeft < 0 {
			plasmaFullMinesLeft = 1
			if pr.c.Tier == "thorough" {
				plasmaFullMinesLeft = 6
			}
			if v, have := pr.c.Args["fullmines"]; have {
				fmt.Sscan(v, &plasmaFullMinesLeft)
			}
		}
		if !mayMineFull || plasmaFullMinesLeft == 0 || d > (constants.AccountBlockBasePlasma+1)*perPlasma {
			return nonce, false
		}
		plasmaFullMinesLeft--
		pr.c.Hit("hand-mined-whole-base-cost")
		dMine = (constants.AccountBlockBasePlasma + 1) * perPlasma // serves full-1, full and full+1 of a 21000-plasma block
	}
	nn, _, found := powMine(data, dMine, 0)
	if !found {
		return nonce, false
	}
	pr.mined[key] = append(pr.mined[key], minedNonce{dMine, nn})
	return nn, true
}

type minedNonce struct {
	d     uint64
	nonce [8]byte
}

// handBlock builds one block of acc on its current frontier, entirely by hand
func (pr *plasmaRun) handBlock(acc types.Address, kind int) (*nom.AccountBlock, types.HashHeight) {
	n := pr.n
	fm, _ := n.Chain().GetFrontierMomentumStore().GetFrontierMomentum()
	fr, _ := n.Chain().GetFrontierAccountStore(acc).Frontier()
	prev := types.ZeroHashHeight
	if fr != nil {
		prev = fr.Identifier()
	}
	b := &nom.AccountBlock{Version: 1, ChainIdentifier: n.Chain().ChainIdentifier(), Address: acc, Height: prev.Height + 1, PreviousHash: prev.Hash,
		MomentumAcknowledged: fm.Identifier(), Amount: big.NewInt(0)}
	switch {
	case kind == 0 && len(pr.inbox[acc]) > 0:
		b.BlockType = nom.BlockTypeUserReceive
		b.FromBlockHash = pr.inbox[acc][0]
		b.Amount = common.Big0
	case kind == 1:
		b.BlockType = nom.BlockTypeUserSend
		b.ToAddress = types.PillarContract
		b.Data = definition.ABIPillars.PackMethodPanic(definition.DelegateMethodName, g.Pillar1Name)
	case kind >= handDestKind0:
		// directed: destination x data length (handDestMatrix)
		k := kind - handDestKind0
		b.BlockType = nom.BlockTypeUserSend
		b.TokenStandard = types.ZnnTokenStandard
		b.ToAddress = handDest(acc, k/len(handDataLens))
		b.Data = make([]byte, handDataLens[k%len(handDataLens)])
		pr.c.R.Read(b.Data)
	default:
		b.BlockType = nom.BlockTypeUserSend
		// the destination of a plain send: an ordinary account, the zero address ("ToAddress can be null"), the sender itself
		b.ToAddress = handDest(acc, []int{0, 0, 1, 2}[pr.c.R.Intn(4)])
		b.TokenStandard = types.ZnnTokenStandard
		b.Data = make([]byte, []int{0, 0, 1, 7, 100}[pr.c.R.Intn(5)])
		pr.c.R.Read(b.Data)
	}
	return b, prev
}

// destinations of plain sends (the base cost of a send that calls no embedded method depends on its data length only)
const handDestKind0 = 100

var handDestNames = []string{"ordinary", "zero-address", "own-address"}
var handDataLens = []int{0, 1, 7, 1000, constants.MaxDataLength - 1, constants.MaxDataLength, constants.MaxDataLength + 1}

func handDest(acc types.Address, i int) types.Address {
	switch i {
	case 1:
		return types.ZeroAddress
	case 2:
		return acc
	}
	if acc == g.User2.Address {
		return g.User3.Address
	}
	return g.User2.Address
}

// handDestMatrix: hand-built plain sends of acc over destination {ordinary, zero address, own address} x data length
// {0, 1, 7, 1000, 16 KiB-1, 16 KiB, 16 KiB+1}, each first with one plasma unit less than the base cost of its type and data
// length (must be refused), then with exactly the base cost; `round` selects which data lengths this call tries (all
// destinations every time). The monitor of hand() judges every accepted block. newMomentum is called after an accepted
// block that used up more than half of the account's plasma.
func (pr *plasmaRun) handDestMatrix(acc types.Address, round int, newMomentum func() bool) {
	none := plasmaPowChoices[0]
	for d := range handDestNames {
		for j := 0; j < 3; j++ {
			li := (round + d + 3*j) % len(handDataLens)
			if j == 0 {
				li = 3 // 1000 bytes in every history
			}
			kind := handDestKind0 + d*len(handDataLens) + li
			if pr.hand(acc, kind, none, "needed-1") {
				pr.c.Hit("hand-dest-accepted-below-base:" + handDestNames[d])
			}
			if pr.hand(acc, kind, none, "needed") {
				pr.c.Hit(fmt.Sprintf("hand-dest-accepted:%s:%d", handDestNames[d], handDataLens[li]))
				if handDataLens[li] > 5000 && !newMomentum() {
					return
				}
			} else {
				pr.c.Hit(fmt.Sprintf("hand-dest-refused:%s:%d", handDestNames[d], handDataLens[li]))
			}
		}
	}
}

// baseMatrix: vm.GetBasePlasmaForAccountBlock itself over block type {send, receive} x destination {ordinary, zero address,
// own address, unknown address, every embedded contract with the selector of one of its methods} x data length {0, 1, 7,
// 1000, 16 KiB-1, 16 KiB, 16 KiB+1} for blocks of acc on its frontier: one plasma-base line each (type, cost of the called
// method or -, data length | the node's answer), recomputed by the Lean model basePlasmaChecked; monitor: the answer is the
// base cost the property names - by type, called method and data length only.
func (pr *plasmaRun) baseMatrix(acc types.Address) {
	c, n := pr.c, pr.n
	ch := n.Chain()
	fm, err := ch.GetFrontierMomentumStore().GetFrontierMomentum()
	if err != nil {
		return
	}
	ma := fm.Identifier()
	prev := ch.GetFrontierAccountStore(acc).Identifier()
	var ctx vm_context.AccountVmContext
	if p := safely(func() {
		ctx = vm_context.NewAccountContext(ch.GetMomentumStore(ma), ch.GetAccountStore(acc, prev), n.Z.Consensus().FixedPillarReader(ma))
	}); p != "" || ctx == nil {
		return
	}
	type dest struct {
		name string
		a    types.Address
		abi  *contractABI
	}
	var unknown types.Address
	c.R.Read(unknown[:])
	unknown[0] = 0 // a user address
	dests := []dest{{"ordinary", handDest(acc, 0), nil}, {"zero-address", types.ZeroAddress, nil}, {"own-address", acc, nil}, {"unknown-address", unknown, nil}}
	for i := range allContractABIs {
		dests = append(dests, dest{"embedded-" + embeddedNames[allContractABIs[i].addr][2:], allContractABIs[i].addr, &allContractABIs[i]})
	}
	for _, typ := range []string{"send", "recv"} {
		for _, d := range dests {
			lens := handDataLens
			if d.abi != nil {
				lens = []int{handDataLens[c.R.Intn(len(handDataLens))]} // one tail length per contract
			}
			for _, dl := range lens {
				b := &nom.AccountBlock{Version: 1, ChainIdentifier: ch.ChainIdentifier(), Address: acc, Height: prev.Height + 1, PreviousHash: prev.Hash,
					MomentumAcknowledged: ma, Amount: big.NewInt(0), ToAddress: d.a, BlockType: nom.BlockTypeUserSend}
				if typ == "recv" {
					b.BlockType = nom.BlockTypeUserReceive
					c.R.Read(b.FromBlockHash[:])
					if c.R.Intn(2) == 0 {
						b.ToAddress = types.ZeroAddress // the well-formed receive
					}
				}
				b.Data = make([]byte, dl)
				c.R.Read(b.Data)
				if d.abi != nil {
					names := sortedMethodNames(d.abi.abi)
					if len(names) == 0 {
						continue
					}
					m := d.abi.abi.Methods[names[c.R.Intn(len(names))]]
					b.Data = append(append([]byte{}, m.Id()...), b.Data...)
				}
				var real uint64
				var rerr error
				if p := safely(func() { real, rerr = vm.GetBasePlasmaForAccountBlock(ctx, b) }); p != "" {
					pr.fail("C12: GetBasePlasmaForAccountBlock panicked for a %s block to %s (%s) with %d data bytes: %s", typ, d.name, addrName(b.ToAddress), len(b.Data), firstLine300(p))
					continue
				}
				own, kind := ownBaseCost(n, b, ma)
				if kind == "embedded-unknown" {
					c.Hit("base-matrix-method-not-under-this-regime")
					continue
				}
				mc := "-"
				if kind == "embedded" {
					mc = fmt.Sprint(own)
				}
				obs := ""
				switch {
				case rerr == nil:
					obs = fmt.Sprintf("ok %d", real)
				case rerr == verifier.ErrABDataTooBig:
					obs = "too-big"
				default:
					c.Hit("base-matrix-other-error")
					continue
				}
				c.Emit("plasma-base %s %s %d | %s", typ, mc, len(b.Data), obs)
				c.Hit("base-matrix:" + typ + ":" + kind)
				c.Hit("base-matrix-dest:" + d.name)
				if rerr == nil && real != own {
					pr.fail("C12: the node prices a user %s block of %s addressed to %s (%s) that carries %d data bytes [%s] at %d plasma (vm.GetBasePlasmaForAccountBlock); the base cost of its type, data length and called method is %d: a block of this shape is accepted with total plasma %d",
						typ, addrName(acc), d.name, addrName(b.ToAddress), len(b.Data), kind, real, own, real)
				}
			}
		}
	}
}

// hand tries one (PoW choice, fused choice) for acc; returns true if the block was accepted (the frontier moved)
func (pr *plasmaRun) hand(acc types.Address, kind int, pc powChoice, fusedName string) bool {
	c, n := pr.c, pr.n
	b, prev := pr.handBlock(acc, kind)
	f := plasmaFactsOf(n, acc, b.MomentumAcknowledged, prev)
	if f == nil {
		return false
	}
	base, baseKind := ownBaseCost(n, b, b.MomentumAcknowledged)
	if baseKind == "embedded-unknown" {
		return false
	}
	d := pc.d(base)
	// the few whole-base-cost minings of a run are spent where precomputed nonces cannot reach: on top of an unconfirmed
	// block of the account that committed fused plasma
	nonce, ok := pr.nonceFor(acc, prev.Hash, d, pc.work, f.uncommitted.Cmp(f.committed) > 0)
	if !ok {
		c.Hit("hand-skip-unaffordable-work:" + pc.name)
		return false
	}
	powPlasma := ownPowPlasma(d)
	b.Difficulty, b.Nonce.Data = d, nonce
	b.FusedPlasma = plasmaFusedValue(fusedName, base, powPlasma, f.av)
	b.Hash = b.ComputeHash()
	kp := keyOf(acc)
	sig, _, pub, _ := kp.Signer(b.Hash.Bytes())
	b.Signature, b.PublicKey = sig, pub
	h8 := powH8(powDataHash(acc, prev.Hash), nonce)
	really := powMeets(h8, d)

	err := n.SubmitExternal(cloneBlock(b))
	v := plasmaVerdict(err)
	state := "first"
	if !prev.IsZero() {
		state = "later"
		if f.uncommitted.Cmp(f.committed) > 0 {
			state = "on-unconfirmed"
		}
	}
	c.Hit("hand-verdict-" + v)
	c.Hit(fmt.Sprintf("hand:%s:%s:%s", pc.work, state, v))
	if v == "other" {
		c.Hit("hand-other-error")
		return false
	}
	if baseKind == "send" && len(b.Data) > constants.MaxDataLength {
		// data above the 16 KiB limit has no base cost (the plasma rule is not reached): the block must never be accepted
		c.Hit("hand-data-too-big-" + v)
		if err == nil {
			pr.fail("C12: a hand-built send of %s to %s with %d data bytes (limit %d), FusedPlasma=%d, was accepted", addrName(acc), addrName(b.ToAddress), len(b.Data), constants.MaxDataLength, b.FusedPlasma)
			return true
		}
		return false
	}
	if d != 0 {
		c.Emit("pow-check %s %d | %v", hex.EncodeToString(h8[:]), d, v != "pow-invalid")
		if really {
			c.Hit("hand-pow-really-done")
		} else {
			c.Hit("hand-pow-not-done")
		}
	}
	if v != "pow-invalid" {
		c.Emit("plasma-check %s %s %s %d %d %d | %s", amt(f.fusedQsr), amt(f.committed), amt(f.uncommitted), b.FusedPlasma, d, base, v)
		if powPlasma >= base && powPlasma > 0 {
			c.Hit("hand-pow-pays-whole-base-cost:" + v)
			if new(big.Int).SetUint64(b.FusedPlasma).Cmp(f.availI) > 0 {
				c.Hit("hand-pow-pays-whole-base-cost-and-unbacked-fused-claim:" + v)
			}
		}
	}
	if err != nil {
		return false
	}
	// ---- the property, on the accepted block
	desc := fmt.Sprintf("hand-built %s block %s/%d (%s, %d data bytes; PoW choice %s, fused choice %s) Difficulty=%d Nonce=%x FusedPlasma=%d", state, addrName(acc), b.Height, baseKind, len(b.Data), pc.name, fusedName, d, nonce, b.FusedPlasma)
	if d != 0 && !really {
		pr.fail("C12: %s was accepted, but its nonce hashes to %x = %d, below the threshold 2^64-2^64/d = %d: the proof-of-work was not done", desc, h8, leU64(h8), powThreshold(d))
	}
	fusedI := new(big.Int).SetUint64(b.FusedPlasma)
	if fusedI.Cmp(f.availI) > 0 {
		pr.fail("C12: %s was accepted, but the QSR fused for the account (%s) provides %d plasma, %s are committed on the confirmed chain and %s on the chain the block extends: available %s < fused part %d (PoW plasma %d, base cost %d)", desc, amt(f.fusedQsr), f.fusedPlasmaOfQsr, amt(f.committed), amt(f.uncommitted), f.availI, b.FusedPlasma, powPlasma, base)
	}
	total := new(big.Int).Add(fusedI, new(big.Int).SetUint64(powPlasma))
	if total.Cmp(new(big.Int).SetUint64(base)) < 0 {
		pr.fail("C12: %s was accepted with total plasma %s (fused %d + PoW %d) below its base cost %d", desc, total, b.FusedPlasma, powPlasma, base)
	}
	if total.Cmp(big.NewInt(constants.MaxPlasmaForAccountBlock)) > 0 {
		pr.fail("C12: %s was accepted with total plasma %s (fused %d + PoW %d) above the per-block cap %d", desc, total, b.FusedPlasma, powPlasma, uint64(constants.MaxPlasmaForAccountBlock))
	}
	held, _ := n.Chain().GetFrontierAccountStore(acc).ByHash(b.Hash)
	if held == nil {
		pr.fail("hand-built block accepted but not found")
		return true
	}
	if held.BasePlasma != base || new(big.Int).SetUint64(held.TotalPlasma).Cmp(total) != 0 {
		pr.fail("C12: stored %s carries BasePlasma=%d TotalPlasma=%d, the computed values are %d and %s", desc, held.BasePlasma, held.TotalPlasma, base, total)
	}
	// the plasma the block committed is exactly its fused part
	after, _ := n.Chain().GetFrontierAccountStore(acc).GetChainPlasma()
	if after != nil && new(big.Int).Sub(after, f.uncommitted).Cmp(fusedI) != 0 {
		pr.fail("C12: %s raised the plasma committed on the account chain from %s to %s, its fused part is %d", desc, amt(f.uncommitted), amt(after), b.FusedPlasma)
	}
	if b.IsReceiveBlock() {
		pr.inbox[acc] = pr.inbox[acc][1:]
	}
	c.Hit("hand-accepted")
	return true
}

func leU64(h [8]byte) uint64 {
	var v uint64
	for i := 7; i >= 0; i-- {
		v = v<<8 | uint64(h[i])
	}
	return v
}

// handMatrix: a walk through the (PoW, fused) product for acc on its current frontier. `round` rotates which pairs come
// first so that over a run every pair is tried in every account state; a sample of `budget` pairs per call. The walk
// goes on after an accepted block (the next candidates then extend it: unconfirmed plasma).
func (pr *plasmaRun) handMatrix(acc types.Address, round, budget int) {
	c := pr.c
	type pair struct {
		p powChoice
		f string
	}
	var pairs []pair
	for _, p := range plasmaPowChoices {
		for _, f := range plasmaFusedChoices {
			pairs = append(pairs, pair{p, f})
		}
	}
	c.R.Shuffle(len(pairs), func(i, j int) { pairs[i], pairs[j] = pairs[j], pairs[i] })
	// directed head of the walk, in rotation: the unworked nonce under a trivial difficulty before / after the real claims;
	// PoW that pays for the whole block together with each kind of fused claim
	var head []pair
	byName := func(n string) powChoice {
		for _, p := range plasmaPowChoices {
			if p.name == n {
				return p
			}
		}
		panic(n)
	}
	switch round % 4 {
	case 0:
		head = []pair{{byName("trivial-1"), "zero"}, {byName("fake-full"), "zero"}, {byName("fake-pow-cap"), "zero"}, {byName("trivial-2"), "needed"}}
	case 1:
		head = []pair{{byName("fake-full"), "zero"}, {byName("trivial-1"), "needed-1"}, {byName("fake-full"), "zero"}, {byName("fake-remainder"), "needed"}}
	case 2:
		head = []pair{{byName("full"), "avail+1"}, {byName("full"), "huge"}, {byName("full+1"), "wrap-to-base"}, {byName("pow-cap"), "cap-pow+1"}, {byName("full"), "cap-pow+1"}}
	default:
		head = []pair{{byName("above-pow-cap"), "avail+1"}, {byName("pow-cap"), "wrap-to-zero"}, {byName("full"), "one"}, {byName("full-1"), "one"}, {byName("remainder-20"), "avail+1"}}
	}
	pairs = append(head, pairs...)
	kind := c.R.Intn(3)
	for i := 0; i < len(pairs) && i < budget; i++ {
		if pr.hand(acc, kind, pairs[i].p, pairs[i].f) {
			kind = c.R.Intn(3)
		}
	}
}
