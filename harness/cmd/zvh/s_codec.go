package main

// Stream `codec` (C13): hash pre-images, protobuf / JSON / RLP forms of account blocks and momentums.
//
//	ab-pre  <H(data)> <H(descSource)> <block>    | <bytes ComputeHash feeds to the hash function>
//	mom-pre <H(data)> <H(content)>    <momentum> | <…>
//	ab-pb   <block>     | <Serialize() bytes>           mom-pb <momentum> | <Serialize() bytes>
//	ab-depb <bytes>     | ok <block> / panic / err       (DeserializeAccountBlock on bytes the model also decodes)
//	amount-json <int>   | <String()> <StringToBigInt(String())>
//	amount-parse <hex of string> | <StringToBigInt>
//	nonce-json <8 bytes>| <hex text> <UnmarshalText result>
//
// Model-free monitors, per generated value: SHA3(pre-image as laid out in the statement) == ComputeHash();
// Deserialize(Serialize(x)), json.Unmarshal(json.Marshal(x)) and rlp decode(encode(x)) give back a value
// with identical fields and the same hash (for amounts >= 0; a nil amount counts as 0).

import (
	"bytes"
	"encoding/json"
	"fmt"
	"math/big"
	"os"
	"reflect"
	"runtime/debug"
	"strings"

	"github.com/ethereum/go-ethereum/rlp"
	"github.com/inconshreveable/log15"
	"google.golang.org/protobuf/encoding/protowire"

	"github.com/zenon-network/go-zenon/chain/nom"
	"github.com/zenon-network/go-zenon/common"
	"github.com/zenon-network/go-zenon/common/types"
)

// ---- generators -------------------------------------------------------------------------------------

func cRandBytes(c *Ctx, n int) []byte {
	b := make([]byte, n)
	c.R.Read(b)
	return b
}

func cRandHash(c *Ctx) (h types.Hash) {
	switch c.R.Intn(8) {
	case 0: // zero
	case 1:
		for i := range h {
			h[i] = 0xff
		}
	case 2:
		h[31] = byte(c.R.Intn(256))
	default:
		c.R.Read(h[:])
	}
	return
}

func cRandAddr(c *Ctx) (a types.Address) {
	switch c.R.Intn(8) {
	case 0:
	case 1:
		a = types.EmbeddedContracts[c.R.Intn(len(types.EmbeddedContracts))]
	case 2:
		for i := range a {
			a[i] = 0xff
		}
	default:
		c.R.Read(a[:])
		a[0] = byte(c.R.Intn(2))
	}
	return
}

func cRandZts(c *Ctx) (z types.ZenonTokenStandard) {
	switch c.R.Intn(6) {
	case 0:
	case 1:
		z = types.ZnnTokenStandard
	case 2:
		z = types.QsrTokenStandard
	default:
		c.R.Read(z[:])
	}
	return
}

var varintEdges = func() []uint64 {
	r := []uint64{0, 1, 2}
	for k := uint(7); k < 64; k += 7 {
		r = append(r, 1<<k-1, 1<<k, 1<<k+1)
	}
	r = append(r, 1<<63-1, 1<<63, 1<<64-2, 1<<64-1, 255, 256, 65535, 65536)
	return r
}()

func cRandU64(c *Ctx) uint64 {
	switch c.R.Intn(5) {
	case 0:
		return varintEdges[c.R.Intn(len(varintEdges))]
	case 1:
		return uint64(c.R.Intn(300))
	case 2:
		return c.R.Uint64() >> uint(c.R.Intn(64))
	case 3:
		return 0
	default:
		return c.R.Uint64()
	}
}

func pow2(k uint) *big.Int { return new(big.Int).Lsh(big.NewInt(1), k) }

// amounts: nil, 0, 1, byte/word boundaries, 2^255-1 (largest accepted), 2^255, 2^256-1, 2^256 (33 bytes), …
func cRandAmount(c *Ctx, allowOdd bool) *big.Int {
	switch c.R.Intn(10) {
	case 0:
		return big.NewInt(0)
	case 1:
		return big.NewInt(1)
	case 2:
		ks := []uint{8, 16, 64, 128, 248, 255, 256, 257, 264, 300}
		k := ks[c.R.Intn(len(ks))]
		return new(big.Int).Add(pow2(k), big.NewInt(int64(c.R.Intn(3))-1))
	case 3:
		return new(big.Int).Sub(pow2(255), big.NewInt(1))
	case 4:
		return new(big.Int).Sub(pow2(256), big.NewInt(1))
	case 5:
		return new(big.Int).SetUint64(c.R.Uint64())
	case 6:
		return new(big.Int).SetBytes(cRandBytes(c, 1+c.R.Intn(32)))
	case 7:
		if allowOdd {
			switch c.R.Intn(3) {
			case 0:
				return nil
			case 1:
				return new(big.Int).Neg(new(big.Int).SetBytes(cRandBytes(c, 1+c.R.Intn(34))))
			default:
				return new(big.Int).SetBytes(cRandBytes(c, 33+c.R.Intn(8)))
			}
		}
		return big.NewInt(int64(c.R.Intn(1000)))
	default:
		return new(big.Int).Mul(big.NewInt(int64(c.R.Intn(100000))), big.NewInt(100000000))
	}
}

func cRandData(c *Ctx) []byte {
	switch c.R.Intn(12) {
	case 0:
		return nil
	case 1:
		return []byte{}
	case 2:
		return []byte{byte(c.R.Intn(256))}
	case 3:
		ns := []int{4, 32, 36, 127, 128, 129, 255, 256}
		return cRandBytes(c, ns[c.R.Intn(len(ns))])
	case 4:
		ns := []int{16383, 16384, 16385, 20000}
		return cRandBytes(c, ns[c.R.Intn(len(ns))])
	case 5:
		return make([]byte, c.R.Intn(70)) // zeros
	default:
		return cRandBytes(c, c.R.Intn(200))
	}
}

func cRandBlock(c *Ctx, depth int, allowOdd bool) *nom.AccountBlock {
	b := &nom.AccountBlock{}
	b.Version = cRandU64(c)
	if c.R.Intn(2) == 0 {
		b.Version = 1
	}
	b.ChainIdentifier = cRandU64(c)
	switch c.R.Intn(8) {
	case 0:
		b.BlockType = cRandU64(c)
	default:
		b.BlockType = uint64(1 + c.R.Intn(5))
	}
	b.PreviousHash = cRandHash(c)
	b.Height = cRandU64(c)
	b.MomentumAcknowledged = types.HashHeight{Hash: cRandHash(c), Height: cRandU64(c)}
	b.Address = cRandAddr(c)
	b.ToAddress = cRandAddr(c)
	b.Amount = cRandAmount(c, allowOdd)
	b.TokenStandard = cRandZts(c)
	b.FromBlockHash = cRandHash(c)
	nd := 0
	if depth > 0 {
		switch {
		case b.BlockType == nom.BlockTypeContractReceive:
			nd = c.R.Intn(4)
		case c.R.Intn(6) == 0:
			nd = 1 + c.R.Intn(2)
		}
	}
	for i := 0; i < nd; i++ {
		b.DescendantBlocks = append(b.DescendantBlocks, cRandBlock(c, depth-1, allowOdd))
	}
	if nd == 0 && c.R.Intn(2) == 0 {
		b.DescendantBlocks = []*nom.AccountBlock{}
	}
	b.Data = cRandData(c)
	b.FusedPlasma = cRandU64(c)
	b.Difficulty = cRandU64(c)
	if c.R.Intn(3) != 0 {
		c.R.Read(b.Nonce.Data[:])
	}
	b.BasePlasma = cRandU64(c)
	b.TotalPlasma = cRandU64(c)
	b.ChangesHash = cRandHash(c)
	switch c.R.Intn(4) {
	case 0:
	case 1:
		b.PublicKey = cRandBytes(c, c.R.Intn(40))
	default:
		b.PublicKey = cRandBytes(c, 32)
	}
	switch c.R.Intn(4) {
	case 0:
	case 1:
		b.Signature = cRandBytes(c, c.R.Intn(140))
	default:
		b.Signature = cRandBytes(c, 64)
	}
	switch c.R.Intn(8) {
	case 0:
		b.Hash = cRandHash(c)
	default:
		b.Hash = safeABHash(b)
	}
	return b
}

// the generators must survive a panicking ComputeHash (the case itself then reports it)
func safeABHash(b *nom.AccountBlock) (h types.Hash) {
	defer func() { recover() }()
	return b.ComputeHash()
}
func safeMomHash(m *nom.Momentum) (h types.Hash) {
	defer func() { recover() }()
	return m.ComputeHash()
}

func cRandMomentum(c *Ctx) *nom.Momentum {
	m := &nom.Momentum{}
	m.Version = cRandU64(c)
	m.ChainIdentifier = cRandU64(c)
	m.PreviousHash = cRandHash(c)
	m.Height = cRandU64(c)
	m.TimestampUnix = cRandU64(c)
	m.Data = cRandData(c)
	n := 0
	switch c.R.Intn(5) {
	case 0:
	case 1:
		n = 1
	case 2:
		n = 100 + c.R.Intn(3) - 1
	default:
		n = c.R.Intn(12)
	}
	content := make([]*types.AccountHeader, n)
	for i := range content {
		content[i] = &types.AccountHeader{Address: cRandAddr(c), HashHeight: types.HashHeight{Hash: cRandHash(c), Height: cRandU64(c)}}
	}
	if c.R.Intn(2) == 0 || n == 0 {
		m.Content = content
		if n == 0 && c.R.Intn(2) == 0 {
			m.Content = nil
		}
	} else {
		// the order NewMomentumContent produces
		blocks := make([]*nom.AccountBlock, n)
		for i := range blocks {
			blocks[i] = &nom.AccountBlock{Address: content[i].Address, Hash: content[i].Hash, Height: content[i].Height}
		}
		m.Content = nom.NewMomentumContent(blocks)
	}
	m.ChangesHash = cRandHash(c)
	switch c.R.Intn(3) {
	case 0:
	default:
		m.PublicKey = cRandBytes(c, 32)
	}
	switch c.R.Intn(3) {
	case 0:
	default:
		m.Signature = cRandBytes(c, 64)
	}
	if c.R.Intn(8) == 0 {
		m.Hash = cRandHash(c)
	} else {
		m.Hash = safeMomHash(m)
	}
	return m
}

// ---- canonical token form ---------------------------------------------------------------------------

func amountTok(a *big.Int) string {
	if a == nil {
		return "nil"
	}
	return a.String()
}

func blockTokens(sb *strings.Builder, b *nom.AccountBlock) {
	fmt.Fprintf(sb, "%d %d %d %s %s %d %s %d %s %s %s %s %s %s %d %d %s %d %d %s %s %s %d",
		b.Version, b.ChainIdentifier, b.BlockType, hx(b.Hash[:]), hx(b.PreviousHash[:]), b.Height,
		hx(b.MomentumAcknowledged.Hash[:]), b.MomentumAcknowledged.Height, hx(b.Address[:]), hx(b.ToAddress[:]),
		amountTok(b.Amount), hx(b.TokenStandard[:]), hx(b.FromBlockHash[:]), hx(b.Data), b.FusedPlasma, b.Difficulty,
		hx(b.Nonce.Data[:]), b.BasePlasma, b.TotalPlasma, hx(b.ChangesHash[:]), hx(b.PublicKey), hx(b.Signature),
		len(b.DescendantBlocks))
	for _, d := range b.DescendantBlocks {
		sb.WriteByte(' ')
		blockTokens(sb, d)
	}
}

func blockStr(b *nom.AccountBlock) string {
	var sb strings.Builder
	blockTokens(&sb, b)
	return sb.String()
}

func momentumStr(m *nom.Momentum) string {
	var sb strings.Builder
	fmt.Fprintf(&sb, "%d %d %s %s %d %d %s %s %s %s %d", m.Version, m.ChainIdentifier, hx(m.Hash[:]), hx(m.PreviousHash[:]),
		m.Height, m.TimestampUnix, hx(m.Data), hx(m.ChangesHash[:]), hx(m.PublicKey), hx(m.Signature), len(m.Content))
	for _, h := range m.Content {
		fmt.Fprintf(&sb, " %s %s %d", hx(h.Address[:]), hx(h.Hash[:]), h.Height)
	}
	return sb.String()
}

// normalised form for "identical fields": a nil amount counts as 0 (every codec reads it as 0)
func blockNorm(b *nom.AccountBlock) string {
	return strings.ReplaceAll(" "+blockStr(b)+" ", " nil ", " 0 ")
}

// ---- the statement's pre-image, laid out with the same primitive helpers ------------------------------

func descSource(b *nom.AccountBlock) []byte {
	var src []byte
	for _, d := range b.DescendantBlocks {
		src = append(src, d.Hash.Bytes()...)
	}
	return src
}

// "version, chain id, type, previous hash, height, acknowledged momentum (hash, height), address, to-address,
// amount (32 bytes), token standard, from-hash, digest of descendant hashes, digest of data, fused plasma,
// difficulty, nonce"
func abPreimage(b *nom.AccountBlock) []byte {
	return common.JoinBytes(
		common.Uint64ToBytes(b.Version), common.Uint64ToBytes(b.ChainIdentifier), common.Uint64ToBytes(b.BlockType),
		b.PreviousHash.Bytes(), common.Uint64ToBytes(b.Height),
		b.MomentumAcknowledged.Hash.Bytes(), common.Uint64ToBytes(b.MomentumAcknowledged.Height),
		b.Address.Bytes(), b.ToAddress.Bytes(), common.BigIntToBytes(b.Amount), b.TokenStandard.Bytes(),
		b.FromBlockHash.Bytes(), types.NewHash(descSource(b)).Bytes(), types.NewHash(b.Data).Bytes(),
		common.Uint64ToBytes(b.FusedPlasma), common.Uint64ToBytes(b.Difficulty), b.Nonce.Data[:])
}

func contentSource(m *nom.Momentum) []byte {
	var src []byte
	for _, h := range m.Content {
		src = append(src, h.Address.Bytes()...)
		src = append(src, common.Uint64ToBytes(h.Height)...)
		src = append(src, h.Hash.Bytes()...)
	}
	return src
}

func momentumPreimage(m *nom.Momentum) []byte {
	return common.JoinBytes(
		common.Uint64ToBytes(m.Version), common.Uint64ToBytes(m.ChainIdentifier), m.PreviousHash.Bytes(),
		common.Uint64ToBytes(m.Height), common.Uint64ToBytes(m.TimestampUnix), types.NewHash(m.Data).Bytes(),
		types.NewHash(contentSource(m)).Bytes(), m.ChangesHash.Bytes())
}

// ---- round trips -------------------------------------------------------------------------------------

func cdGuard(f func() string) (res string) {
	defer func() {
		if r := recover(); r != nil {
			res = "panic"
		}
	}()
	return f()
}

func amountOK(b *nom.AccountBlock) bool {
	if b.Amount != nil && b.Amount.Sign() < 0 {
		return false
	}
	for _, d := range b.DescendantBlocks {
		if !amountOK(d) {
			return false
		}
	}
	return true
}

func short(s string) string {
	if len(s) > 700 {
		return s[:700] + "…"
	}
	return s
}

func abRoundTrips(c *Ctx, b *nom.AccountBlock) {
	want, wantHash := blockNorm(b), b.ComputeHash()
	check := func(codec string, back *nom.AccountBlock, err error) {
		if err != nil {
			c.Fail("account block does not survive %s: decode error %v :: %s", codec, err, short(want))
			return
		}
		if h := back.ComputeHash(); h != wantHash {
			c.Fail("account block hash changes through %s: %s -> %s :: %s", codec, wantHash, h, short(want))
		} else if got := blockNorm(back); got != want {
			c.Fail("account block fields change through %s: got %s :: want %s", codec, short(got), short(want))
		}
		c.Hit("ab-rt-" + codec)
	}
	if r := cdGuard(func() string {
		data, err := b.Serialize()
		if err != nil {
			check("protobuf", nil, err)
			return ""
		}
		back, err := nom.DeserializeAccountBlock(data)
		check("protobuf", back, err)
		return ""
	}); r == "panic" {
		c.Fail("account block protobuf round trip panics :: %s", short(want))
	}
	if r := cdGuard(func() string {
		data, err := json.Marshal(b)
		if err != nil {
			check("json", nil, err)
			return ""
		}
		back := new(nom.AccountBlock)
		err = json.Unmarshal(data, back)
		check("json", back, err)
		return ""
	}); r == "panic" {
		c.Fail("account block json round trip panics :: %s", short(want))
	}
	if r := cdGuard(func() string {
		data, err := rlp.EncodeToBytes(b)
		if err != nil {
			check("rlp", nil, err)
			return ""
		}
		back := new(nom.AccountBlock)
		err = rlp.DecodeBytes(data, back)
		check("rlp", back, err)
		return ""
	}); r == "panic" {
		c.Fail("account block rlp round trip panics :: %s", short(want))
	}
	codecJsonCase(c, b) // every JSON entry point, every field non-zero (s_codec_json.go)
}

func momentumRoundTrips(c *Ctx, m *nom.Momentum, blocks []*nom.AccountBlock) {
	want, wantHash := momentumStr(m), m.ComputeHash()
	check := func(codec string, back *nom.Momentum, err error) {
		if err != nil {
			c.Fail("momentum does not survive %s: decode error %v :: %s", codec, err, short(want))
			return
		}
		if h := back.ComputeHash(); h != wantHash {
			c.Fail("momentum hash changes through %s: %s -> %s :: %s", codec, wantHash, h, short(want))
		} else if got := momentumStr(back); got != want {
			c.Fail("momentum fields change through %s: got %s :: want %s", codec, short(got), short(want))
		}
		c.Hit("mom-rt-" + codec)
	}
	if r := cdGuard(func() string {
		data, err := m.Serialize()
		if err != nil {
			check("protobuf", nil, err)
			return ""
		}
		back, err := nom.DeserializeMomentum(data)
		check("protobuf", back, err)
		return ""
	}); r == "panic" {
		c.Fail("momentum protobuf round trip panics :: %s", short(want))
	}
	if r := cdGuard(func() string {
		data, err := json.Marshal(m)
		if err != nil {
			check("json", nil, err)
			return ""
		}
		back := new(nom.Momentum)
		err = json.Unmarshal(data, back)
		check("json", back, err)
		return ""
	}); r == "panic" {
		c.Fail("momentum json round trip panics :: %s", short(want))
	}
	// RLP is the p2p form: DetailedMomentum = momentum + its account blocks (protocol/peer.go SendBlocks / SendNewMomentum)
	if r := cdGuard(func() string {
		dm := &nom.DetailedMomentum{Momentum: m, AccountBlocks: blocks}
		data, err := rlp.EncodeToBytes(dm)
		if err != nil {
			check("rlp", nil, err)
			return ""
		}
		back := new(nom.DetailedMomentum)
		err = rlp.DecodeBytes(data, back)
		if err != nil {
			check("rlp", nil, err)
			return ""
		}
		check("rlp", back.Momentum, nil)
		if len(back.AccountBlocks) != len(blocks) {
			c.Fail("detailed momentum loses account blocks through rlp: %d -> %d", len(blocks), len(back.AccountBlocks))
			return ""
		}
		for i := range blocks {
			if blockNorm(blocks[i]) != blockNorm(back.AccountBlocks[i]) || blocks[i].ComputeHash() != back.AccountBlocks[i].ComputeHash() {
				c.Fail("account block inside a detailed momentum changes through rlp: got %s :: want %s",
					short(blockNorm(back.AccountBlocks[i])), short(blockNorm(blocks[i])))
			}
		}
		// a second encoding of the decoded value gives the same bytes
		data2, err := rlp.EncodeToBytes(back)
		if err != nil || !bytes.Equal(data, data2) {
			c.Fail("rlp(decode(rlp(m))) differs from rlp(m) for momentum %s", short(want))
		}
		return ""
	}); r == "panic" {
		c.Fail("detailed momentum rlp round trip panics :: %s", short(want))
	}
}

// ---- "the hash pins down every covered field": one-field alterations must change the hash ------------------

type abAlter struct {
	name string
	f    func(b *nom.AccountBlock)
}

var abAlterations = []abAlter{
	{"Version", func(b *nom.AccountBlock) { b.Version++ }},
	{"ChainIdentifier", func(b *nom.AccountBlock) { b.ChainIdentifier++ }},
	{"BlockType", func(b *nom.AccountBlock) { b.BlockType++ }},
	{"PreviousHash", func(b *nom.AccountBlock) { b.PreviousHash[0] ^= 1 }},
	{"Height", func(b *nom.AccountBlock) { b.Height++ }},
	{"MomentumAcknowledged.Hash", func(b *nom.AccountBlock) { b.MomentumAcknowledged.Hash[31] ^= 0x80 }},
	{"MomentumAcknowledged.Height", func(b *nom.AccountBlock) { b.MomentumAcknowledged.Height++ }},
	{"Address", func(b *nom.AccountBlock) { b.Address[19] ^= 1 }},
	{"ToAddress", func(b *nom.AccountBlock) { b.ToAddress[0] ^= 1 }},
	{"Amount", func(b *nom.AccountBlock) {
		if b.Amount == nil {
			b.Amount = big.NewInt(1)
		} else {
			b.Amount = new(big.Int).Add(b.Amount, big.NewInt(1))
		}
	}},
	{"Amount(x256)", func(b *nom.AccountBlock) {
		if b.Amount == nil || b.Amount.Sign() == 0 {
			b.Amount = big.NewInt(256)
		} else {
			b.Amount = new(big.Int).Lsh(b.Amount, 8)
		}
	}},
	{"TokenStandard", func(b *nom.AccountBlock) { b.TokenStandard[9] ^= 1 }},
	{"FromBlockHash", func(b *nom.AccountBlock) { b.FromBlockHash[16] ^= 1 }},
	{"DescendantBlocks(append)", func(b *nom.AccountBlock) {
		b.DescendantBlocks = append(b.DescendantBlocks, &nom.AccountBlock{})
	}},
	{"DescendantBlocks[0].Hash", func(b *nom.AccountBlock) {
		if len(b.DescendantBlocks) == 0 {
			b.DescendantBlocks = append(b.DescendantBlocks, &nom.AccountBlock{Hash: types.Hash{1}})
		} else {
			b.DescendantBlocks[0].Hash[5] ^= 1
		}
	}},
	{"Data(append 0)", func(b *nom.AccountBlock) { b.Data = append(append([]byte{}, b.Data...), 0) }},
	{"Data(flip)", func(b *nom.AccountBlock) {
		if len(b.Data) == 0 {
			b.Data = []byte{1}
		} else {
			b.Data = append([]byte{}, b.Data...)
			b.Data[len(b.Data)/2] ^= 1
		}
	}},
	{"FusedPlasma", func(b *nom.AccountBlock) { b.FusedPlasma++ }},
	{"Difficulty", func(b *nom.AccountBlock) { b.Difficulty++ }},
	{"Nonce", func(b *nom.AccountBlock) { b.Nonce.Data[7] ^= 1 }},
}

func abSensitivity(c *Ctx, b *nom.AccountBlock) {
	base := b.ComputeHash()
	for _, a := range abAlterations {
		v := b.Copy()
		a.f(v)
		if v.ComputeHash() == base {
			c.Fail("two account blocks that differ only in %s have the same hash %s :: %s", a.name, base, short(blockStr(b)))
		}
	}
	c.HitN("ab-one-field-alterations", len(abAlterations))
	if c.Stats["ab-one-field-alterations"]/len(abAlterations)%4 != 1 {
		return
	}
	reflectSensitivity(c, "account block", func() (interface{}, func() types.Hash) {
		v := b.Copy()
		return v, v.ComputeHash
	}, abUncoveredByStatement, short(blockStr(b)))
}

// reflection over every exported field of the struct, so that a field the harness has never heard of is
// altered too: a field that is not on the statement's list of uncovered fields must change the hash
var abUncoveredByStatement = map[string]bool{"Hash": true, "BasePlasma": true, "TotalPlasma": true, "ChangesHash": true,
	"PublicKey": true, "Signature": true}
var momUncoveredByStatement = map[string]bool{"Hash": true, "Timestamp": true, "PublicKey": true, "Signature": true}

// alterValue changes v (addressable) to some different value; false if the kind is not handled
func alterValue(v reflect.Value) bool {
	switch v.Kind() {
	case reflect.Uint64, reflect.Uint32, reflect.Uint8, reflect.Uint:
		v.SetUint(v.Uint() + 1)
		return true
	case reflect.Int64, reflect.Int:
		v.SetInt(v.Int() + 1)
		return true
	case reflect.Bool:
		v.SetBool(!v.Bool())
		return true
	case reflect.String:
		v.SetString(v.String() + "x")
		return true
	case reflect.Array:
		if v.Len() == 0 {
			return false
		}
		return alterValue(v.Index(v.Len() - 1))
	case reflect.Slice:
		nv := reflect.MakeSlice(v.Type(), 0, v.Len()+1)
		nv = reflect.AppendSlice(nv, v)
		el := reflect.New(v.Type().Elem()).Elem()
		if el.Kind() == reflect.Ptr {
			el.Set(reflect.New(el.Type().Elem()))
		} else if el.Kind() == reflect.Uint8 {
			el.SetUint(1)
		}
		v.Set(reflect.Append(nv, el))
		return true
	case reflect.Struct:
		for i := 0; i < v.NumField(); i++ {
			if v.Type().Field(i).PkgPath == "" && alterValue(v.Field(i)) {
				return true
			}
		}
		return false
	case reflect.Ptr:
		if v.Type() == reflect.TypeOf((*big.Int)(nil)) {
			old, _ := v.Interface().(*big.Int)
			if old == nil {
				old = big.NewInt(0)
			}
			v.Set(reflect.ValueOf(new(big.Int).Add(old, big.NewInt(1))))
			return true
		}
		if v.IsNil() {
			v.Set(reflect.New(v.Type().Elem()))
			return true
		}
		return alterValue(v.Elem())
	}
	return false
}

func reflectSensitivity(c *Ctx, what string, fresh func() (interface{}, func() types.Hash), uncovered map[string]bool, show string) {
	base, baseHash := fresh()
	h0 := baseHash()
	t := reflect.TypeOf(base).Elem()
	for i := 0; i < t.NumField(); i++ {
		f := t.Field(i)
		if f.PkgPath != "" {
			continue // unexported caches
		}
		v, hash := fresh()
		if !alterValue(reflect.ValueOf(v).Elem().Field(i)) {
			c.Fail("%s field %s of kind %s cannot be altered by the harness: extend alterValue", what, f.Name, f.Type)
			continue
		}
		same := hash() == h0
		if same && !uncovered[f.Name] {
			c.Fail("two %ss that differ only in %s have the same hash %s :: %s", what, f.Name, h0, show)
		}
		if !same && uncovered[f.Name] {
			c.Fail("%s field %s is on the statement's list of fields outside the hash but changes the hash :: %s", what, f.Name, show)
		}
		c.Hit(what + "-reflect-alterations")
	}
}

type momAlter struct {
	name string
	f    func(m *nom.Momentum)
}

var momAlterations = []momAlter{
	{"Version", func(m *nom.Momentum) { m.Version++ }},
	{"ChainIdentifier", func(m *nom.Momentum) { m.ChainIdentifier++ }},
	{"PreviousHash", func(m *nom.Momentum) { m.PreviousHash[3] ^= 1 }},
	{"Height", func(m *nom.Momentum) { m.Height++ }},
	{"TimestampUnix", func(m *nom.Momentum) { m.TimestampUnix++ }},
	{"Data", func(m *nom.Momentum) { m.Data = append(append([]byte{}, m.Data...), 7) }},
	{"Content(append)", func(m *nom.Momentum) { m.Content = append(m.Content, &types.AccountHeader{}) }},
	{"Content[last].Height", func(m *nom.Momentum) {
		if n := len(m.Content); n > 0 {
			h := *m.Content[n-1]
			h.Height++
			m.Content[n-1] = &h
		} else {
			m.Content = append(m.Content, &types.AccountHeader{HashHeight: types.HashHeight{Height: 1}})
		}
	}},
	{"Content[0].Address", func(m *nom.Momentum) {
		if n := len(m.Content); n > 0 {
			h := *m.Content[0]
			h.Address[1] ^= 1
			m.Content[0] = &h
		} else {
			m.Content = append(m.Content, &types.AccountHeader{Address: types.Address{0, 1}})
		}
	}},
	{"Content[0].Hash", func(m *nom.Momentum) {
		if n := len(m.Content); n > 0 {
			h := *m.Content[0]
			h.Hash[1] ^= 1
			m.Content[0] = &h
		} else {
			m.Content = append(m.Content, &types.AccountHeader{HashHeight: types.HashHeight{Hash: types.Hash{0, 1}}})
		}
	}},
	{"ChangesHash", func(m *nom.Momentum) { m.ChangesHash[31] ^= 1 }},
}

func momSensitivity(c *Ctx, m *nom.Momentum) {
	base := m.ComputeHash()
	for _, a := range momAlterations {
		v := *m
		v.Content = append(nom.MomentumContent{}, m.Content...)
		a.f(&v)
		if v.ComputeHash() == base {
			c.Fail("two momentums that differ only in %s have the same hash %s :: %s", a.name, base, short(momentumStr(m)))
		}
	}
	c.HitN("mom-one-field-alterations", len(momAlterations))
	if c.Stats["mom-one-field-alterations"]/len(momAlterations)%4 != 1 {
		return
	}
	reflectSensitivity(c, "momentum", func() (interface{}, func() types.Hash) {
		v := *m
		v.Content = append(nom.MomentumContent{}, m.Content...)
		v.Data = append([]byte{}, m.Data...)
		return &v, v.ComputeHash
	}, momUncoveredByStatement, short(momentumStr(m)))
}

// ---- the stream ---------------------------------------------------------------------------------------

func codecBlockCase(c *Ctx, b *nom.AccountBlock) {
	defer func() {
		if r := recover(); r != nil {
			c.Fail("account block operation panics (%v) :: %s", r, short(blockStr(b)))
		}
	}()
	pre := abPreimage(b)
	c.Emit("ab-pre %s %s %s | %s", hx(types.NewHash(b.Data).Bytes()), hx(types.NewHash(descSource(b)).Bytes()), blockStr(b), hx(pre))
	// monitor: the hash is SHA3 of exactly the statement's pre-image
	if got := cdGuard(func() string { return b.ComputeHash().String() }); got != types.NewHash(pre).String() {
		c.Fail("account block ComputeHash()=%s is not the hash %s of the pre-image layout of the statement :: %s",
			got, types.NewHash(pre), short(blockStr(b)))
	}
	c.Emit("ab-pb %s | %s", blockStr(b), cdGuard(func() string {
		data, err := b.Serialize()
		if err != nil {
			return "err"
		}
		return hx(data)
	}))
	c.Emit("ab-rlp %s | %s", blockStr(b), cdGuard(func() string {
		data, err := rlp.EncodeToBytes(b)
		if err != nil {
			return "err"
		}
		return hx(data)
	}))
	if data, err := rlp.EncodeToBytes(b); err == nil && len(data) < 6000 {
		codecRlpTree(c, data, "canonical")
		v, kind := rlpVariant(c, data)
		codecRlpTree(c, v, kind)
		codecRlpTyped(c, b, data)
	}
	if data, err := b.Serialize(); err == nil && len(data) < 6000 {
		codecDecodeBlock(c, data, "canonical")
		v, kind := wireVariant(c, data)
		codecDecodeBlock(c, v, kind)
	}
	switch {
	case b.Amount == nil:
		c.Hit("ab-amount-nil")
	case b.Amount.Sign() < 0:
		c.Hit("ab-amount-negative")
	case b.Amount.Sign() == 0:
		c.Hit("ab-amount-0")
	case b.Amount.BitLen() <= 255:
		c.Hit("ab-amount<2^255")
	case b.Amount.BitLen() <= 256:
		c.Hit("ab-amount<2^256")
	default:
		c.Hit("ab-amount>=2^256")
	}
	c.Hit(fmt.Sprintf("ab-type-%d", min(b.BlockType, 6)))
	c.Hit(fmt.Sprintf("ab-desc-%d", len(b.DescendantBlocks)))
	if len(b.Data) == 0 {
		c.Hit("ab-data-empty")
	} else if len(b.Data) >= 16384 {
		c.Hit("ab-data-long")
	}
	if amountOK(b) {
		abRoundTrips(c, b)
		abSensitivity(c, b)
	}
}

func codecMomentumCase(c *Ctx, m *nom.Momentum, blocks []*nom.AccountBlock) {
	defer func() {
		if r := recover(); r != nil {
			c.Fail("momentum operation panics (%v) :: %s", r, short(momentumStr(m)))
		}
	}()
	pre := momentumPreimage(m)
	c.Emit("mom-pre %s %s %s | %s", hx(types.NewHash(m.Data).Bytes()), hx(types.NewHash(contentSource(m)).Bytes()), momentumStr(m), hx(pre))
	if got := cdGuard(func() string { return m.ComputeHash().String() }); got != types.NewHash(pre).String() {
		c.Fail("momentum ComputeHash()=%s is not the hash %s of the pre-image layout of the statement :: %s",
			got, types.NewHash(pre), short(momentumStr(m)))
	}
	c.Emit("mom-pb %s | %s", momentumStr(m), cdGuard(func() string {
		data, err := m.Serialize()
		if err != nil {
			return "err"
		}
		return hx(data)
	}))
	{
		var sb strings.Builder
		sb.WriteString(momentumStr(m))
		fmt.Fprintf(&sb, " %d", len(blocks))
		for _, b := range blocks {
			sb.WriteByte(' ')
			blockTokens(&sb, b)
		}
		c.Emit("dm-rlp %s | %s", sb.String(), cdGuard(func() string {
			data, err := rlp.EncodeToBytes(&nom.DetailedMomentum{Momentum: m, AccountBlocks: blocks})
			if err != nil {
				return "err"
			}
			return hx(data)
		}))
	}
	if data, err := m.Serialize(); err == nil && len(data) < 6000 {
		codecDecodeMomentum(c, data, "canonical")
		v, kind := wireVariant(c, data)
		codecDecodeMomentum(c, v, kind)
	}
	c.Hit(fmt.Sprintf("mom-content-%s", bucket(len(m.Content))))
	momentumRoundTrips(c, m, blocks)
	codecJsonMomentumCase(c, m, blocks)
	momSensitivity(c, m)
}

func bucket(n int) string {
	switch {
	case n == 0:
		return "0"
	case n == 1:
		return "1"
	case n < 20:
		return "2..19"
	default:
		return ">=20"
	}
}

// ---- protobuf decoder on canonical and re-arranged wire forms -----------------------------------------------

type wireRec struct {
	num protowire.Number
	typ protowire.Type
	raw []byte // the whole record
}

func splitRecords(data []byte) ([]wireRec, bool) {
	var recs []wireRec
	for len(data) > 0 {
		num, typ, n := protowire.ConsumeField(data)
		if n < 0 {
			return nil, false
		}
		recs = append(recs, wireRec{num, typ, data[:n]})
		data = data[n:]
	}
	return recs, true
}

func joinRecords(recs []wireRec) []byte {
	var out []byte
	for _, r := range recs {
		out = append(out, r.raw...)
	}
	return out
}

// variants of a serialized message that stay inside the wire format the model covers (no groups)
func wireVariant(c *Ctx, data []byte) ([]byte, string) {
	recs, ok := splitRecords(data)
	if !ok || len(recs) == 0 {
		return data, "canonical"
	}
	switch c.R.Intn(9) {
	case 0: // shuffled record order
		c.R.Shuffle(len(recs), func(i, j int) { recs[i], recs[j] = recs[j], recs[i] })
		return joinRecords(recs), "shuffled"
	case 1: // one record twice (last scalar wins, messages merge, repeated appends)
		i := c.R.Intn(len(recs))
		recs = append(recs, recs[i])
		return joinRecords(recs), "duplicated"
	case 2: // one record dropped (nil sub-message / short field => panic in DeProto)
		i := c.R.Intn(len(recs))
		recs = append(recs[:i:i], recs[i+1:]...)
		return joinRecords(recs), "dropped"
	case 3: // truncated
		return data[:c.R.Intn(len(data))], "truncated"
	case 4: // unknown fields: varint, fixed32, fixed64, bytes with unused numbers
		var extra []byte
		extra = protowire.AppendTag(extra, protowire.Number(16+32*c.R.Intn(3)), protowire.VarintType)
		extra = protowire.AppendVarint(extra, cRandU64(c))
		extra = protowire.AppendTag(extra, 100, protowire.Fixed32Type)
		extra = protowire.AppendFixed32(extra, c.R.Uint32())
		extra = protowire.AppendTag(extra, 101, protowire.Fixed64Type)
		extra = protowire.AppendFixed64(extra, c.R.Uint64())
		extra = protowire.AppendTag(extra, 102, protowire.BytesType)
		extra = protowire.AppendBytes(extra, cRandBytes(c, c.R.Intn(5)))
		if c.R.Intn(2) == 0 {
			return append(extra, data...), "unknown-fields"
		}
		return append(append([]byte{}, data...), extra...), "unknown-fields"
	case 5: // a known field with the wrong wire type (skipped as unknown), then the real one or not
		i := c.R.Intn(len(recs))
		var extra []byte
		if recs[i].typ == protowire.VarintType {
			extra = protowire.AppendTag(extra, recs[i].num, protowire.BytesType)
			extra = protowire.AppendBytes(extra, cRandBytes(c, c.R.Intn(4)))
		} else {
			extra = protowire.AppendTag(extra, recs[i].num, protowire.VarintType)
			extra = protowire.AppendVarint(extra, cRandU64(c))
		}
		return append(append([]byte{}, data...), extra...), "wrong-wire-type"
	case 6: // a scalar overwritten by a later record, non-minimal varint
		var extra []byte
		extra = protowire.AppendTag(extra, 1, protowire.VarintType)
		v := cRandU64(c)
		extra = protowire.AppendVarint(extra, v)
		if c.R.Intn(2) == 0 && v < 128 {
			extra = append(extra[:len(extra)-1], byte(v)|0x80, 0x80, 0x00)
		}
		return append(append([]byte{}, data...), extra...), "overwritten"
	case 7: // a sub-message whose content has the wrong width (DeProto panics) or is empty
		var extra []byte
		nums := []protowire.Number{4, 5, 8, 9, 12, 21, 3}
		extra = protowire.AppendTag(extra, nums[c.R.Intn(len(nums))], protowire.BytesType)
		var inner []byte
		if c.R.Intn(3) != 0 {
			inner = protowire.AppendTag(inner, 1, protowire.BytesType)
			inner = protowire.AppendBytes(inner, cRandBytes(c, []int{0, 1, 19, 20, 21, 31, 32, 33}[c.R.Intn(8)]))
		}
		extra = protowire.AppendBytes(extra, inner)
		return append(append([]byte{}, data...), extra...), "sub-message"
	default: // 11-byte varint / field number 0
		if c.R.Intn(2) == 0 {
			return append(append([]byte{}, data...), 0x08, 0x80, 0x80, 0x80, 0x80, 0x80, 0x80, 0x80, 0x80, 0x80, 0x80, 0x01), "varint-overflow"
		}
		return append(append([]byte{}, data...), 0x00, 0x01), "field-number-0"
	}
}

func codecDecodeBlock(c *Ctx, data []byte, kind string) {
	res := cdGuard(func() string {
		b, err := nom.DeserializeAccountBlock(data)
		if err != nil {
			return "err"
		}
		return "ok " + blockStr(b)
	})
	c.Emit("ab-depb %s | %s", hx(data), res)
	c.Hit("ab-depb-" + kind + "-" + strings.SplitN(res, " ", 2)[0])
}

func codecDecodeMomentum(c *Ctx, data []byte, kind string) {
	res := cdGuard(func() string {
		m, err := nom.DeserializeMomentum(data)
		if err != nil {
			return "err"
		}
		return "ok " + momentumStr(m)
	})
	c.Emit("mom-depb %s | %s", hx(data), res)
	c.Hit("mom-depb-" + kind + "-" + strings.SplitN(res, " ", 2)[0])
}

// ---- generic RLP item trees (canonical form enforced) ---------------------------------------------------------

func rlpTree(data []byte, depth int) (string, []byte, error) {
	if depth > 64 {
		return "", nil, fmt.Errorf("too deep")
	}
	kind, content, rest, err := rlp.Split(data)
	if err != nil {
		return "", nil, err
	}
	if kind != rlp.List {
		return hx(content), rest, nil
	}
	var parts []string
	for len(content) > 0 {
		var s string
		s, content, err = rlpTree(content, depth+1)
		if err != nil {
			return "", nil, err
		}
		parts = append(parts, s)
	}
	return "[" + strings.Join(parts, ",") + "]", rest, nil
}

func codecRlpTree(c *Ctx, data []byte, kind string) {
	res := cdGuard(func() string {
		s, rest, err := rlpTree(data, 0)
		if err != nil || len(rest) != 0 {
			return "err"
		}
		return s
	})
	c.Emit("rlp-tree %s | %s", hx(data), res)
	if res == "err" {
		c.Hit("rlp-tree-" + kind + "-err")
	} else {
		c.Hit("rlp-tree-" + kind + "-ok")
	}
}

// non-canonical and damaged forms of an RLP encoding
func rlpVariant(c *Ctx, data []byte) ([]byte, string) {
	if len(data) == 0 {
		return data, "canonical"
	}
	switch c.R.Intn(8) {
	case 0:
		return data[:c.R.Intn(len(data))], "truncated"
	case 1:
		return append(append([]byte{}, data...), byte(c.R.Intn(256))), "trailing-byte"
	case 2: // a single byte below 0x80 written with a length prefix somewhere
		return append([]byte{0xc2, 0x81, byte(c.R.Intn(256))}, nil...), "prefixed-single-byte"
	case 3: // long form for a short string
		b := cRandBytes(c, c.R.Intn(56))
		return append([]byte{0xb8, byte(len(b))}, b...), "long-form-short-string"
	case 4: // leading zero in the length
		b := cRandBytes(c, 56+c.R.Intn(300))
		return append([]byte{0xb9, 0x00, byte(len(b))}, b...), "leading-zero-length"
	case 5: // long list form, correct and with small payload
		b := bytes.Repeat([]byte{0x01}, c.R.Intn(120))
		return append([]byte{0xf8, byte(len(b))}, b...), "long-list"
	case 6: // flip one byte
		v := append([]byte{}, data...)
		if len(v) > 400 {
			v = v[:400] // will mostly fail on length, still a fine case
		}
		v[c.R.Intn(len(v))] ^= byte(1 << uint(c.R.Intn(8)))
		return v, "bit-flip"
	default: // correct long string
		b := cRandBytes(c, 56+c.R.Intn(300))
		hd := []byte{0xb8, byte(len(b))}
		if len(b) > 255 {
			hd = []byte{0xb9, byte(len(b) >> 8), byte(len(b))}
		}
		return append(hd, b...), "long-string"
	}
}

// ---- JSON number / string forms -----------------------------------------------------------------------

func codecAmountText(c *Ctx, a *big.Int) {
	s := a.String()
	back := common.StringToBigInt(s)
	c.Emit("amount-json %s | %s %s", a.String(), s, back.String())
	if back.Cmp(a) != 0 {
		c.Fail("amount %s does not survive String()/StringToBigInt: %s", a, back)
	}
	c.Hit("amount-json")
}

var oddAmountStrings = []string{"", "0", "-0", "+0", "+5", "-5", "007", "1_000", "0x10", " 5", "5 ", "5.0", "1e3", "--5", "+-5", "-", "+",
	"٣", "١٢٣", "12a", "a", "<nil>", "0b1", "0o7", "00", "-007", "18446744073709551616", "５"}

func codecAmountParse(c *Ctx, s string) {
	c.Emit("amount-parse %s | %s", hx([]byte(s)), common.StringToBigInt(s).String())
	c.Hit("amount-parse")
}

func codecNonceText(c *Ctx, n nom.Nonce) {
	txt, _ := n.MarshalText()
	var back nom.Nonce
	err := back.UnmarshalText(txt)
	if err != nil {
		c.Emit("nonce-json %s | %s err", hx(n.Data[:]), txt)
		c.Fail("nonce %x does not survive MarshalText/UnmarshalText: %v", n.Data, err)
		return
	}
	c.Emit("nonce-json %s | %s ok %s", hx(n.Data[:]), txt, hx(back.Data[:]))
	if back != n {
		c.Fail("nonce %x changes through MarshalText/UnmarshalText: %x", n.Data, back.Data)
	}
	c.Hit("nonce-json")
}

func codecNonceParse(c *Ctx, s string) {
	var back nom.Nonce
	if err := back.UnmarshalText([]byte(s)); err != nil {
		c.Emit("nonce-parse %s | err", hx([]byte(s)))
		c.Hit("nonce-parse-err")
	} else {
		c.Emit("nonce-parse %s | ok %s", hx([]byte(s)), hx(back.Data[:]))
		c.Hit("nonce-parse-ok")
	}
}

func init() {
	register("codec", func(c *Ctx) {
		// many short-lived deep copies of blocks: collect less often
		defer debug.SetGCPercent(debug.SetGCPercent(1600))
		// common.DealWithErr logs and prints a stack trace to os.Stdout before it re-panics (BytesToZTSPanic in
		// DeProtoAccountBlock): keep that out of the trace; the stream writer already holds the real stdout
		log15.Root().SetHandler(log15.DiscardHandler())
		if devnull, err := os.OpenFile(os.DevNull, os.O_WRONLY, 0); err == nil {
			old := os.Stdout
			os.Stdout = devnull
			defer func() { os.Stdout = old; devnull.Close() }()
		}
		for _, s := range oddAmountStrings {
			codecAmountParse(c, s)
		}
		for _, s := range []string{"", "00", "0011223344556677", "0011223344556677ff", "00112233445566", "0011223344556G77", "AABBCCDDEEFF0011",
			"aAbBcCdDeEfF0011", "001122334455667", " 011223344556677", "0x11223344556677"} {
			codecNonceParse(c, s)
		}
		// fixed corner cases first
		zero := &nom.AccountBlock{}
		codecBlockCase(c, zero)
		codecJsonModel(c, zero)
		for _, a := range []*big.Int{nil, big.NewInt(0), big.NewInt(1), new(big.Int).Sub(pow2(255), big.NewInt(1)), pow2(255),
			new(big.Int).Sub(pow2(256), big.NewInt(1)), pow2(256), new(big.Int).Add(pow2(256), big.NewInt(1)), big.NewInt(-1)} {
			for bt := uint64(1); bt <= 5; bt++ {
				b := cRandBlock(c, 0, false)
				b.BlockType, b.Amount = bt, a
				b.Hash = safeABHash(b)
				codecBlockCase(c, b)
				codecJsonModel(c, b)
			}
		}
		codecMomentumCase(c, &nom.Momentum{}, nil)
		codecJsonModelMomentum(c, &nom.Momentum{})
		for i := 0; i < c.N; i++ {
			if i%2500 == 100 || (i == c.N-1 && c.N <= 100) {
				codecPublishNode(c) // a real node: blocks published through the JSON of the RPC are stored byte for byte
				log15.Root().SetHandler(log15.DiscardHandler())
			}
			switch {
			case i%5 == 4:
				m := cRandMomentum(c)
				var blocks []*nom.AccountBlock
				for k := c.R.Intn(3); k > 0; k-- {
					b := cRandBlock(c, 2, false)
					blocks = append(blocks, b)
				}
				codecMomentumCase(c, m, blocks)
				codecJsonModelMomentum(c, m)
			default:
				rb := cRandBlock(c, 3, i%4 == 3)
				codecBlockCase(c, rb)
				codecJsonModel(c, rb)
			}
			if i%3 == 0 {
				a := cRandAmount(c, true)
				if a == nil {
					a = big.NewInt(0)
				}
				codecAmountText(c, a)
				var n nom.Nonce
				if c.R.Intn(4) != 0 {
					c.R.Read(n.Data[:])
				}
				codecNonceText(c, n)
			}
			if i%16 == 0 {
				// digit strings with an occasional foreign character
				alphabet := "0123456789"
				if c.R.Intn(2) == 0 {
					alphabet = "0123456789+-_ xabAF."
				}
				l := c.R.Intn(12)
				bs := make([]byte, l)
				for k := range bs {
					bs[k] = alphabet[c.R.Intn(len(alphabet))]
				}
				codecAmountParse(c, string(bs))
				hexa := "0123456789abcdefABCDEF"
				if c.R.Intn(4) == 0 {
					hexa += "gG x"
				}
				l = 16
				if c.R.Intn(4) == 0 {
					l = 12 + c.R.Intn(8)
				}
				bs = make([]byte, l)
				for k := range bs {
					bs[k] = hexa[c.R.Intn(len(hexa))]
				}
				codecNonceParse(c, string(bs))
			}
		}
	})
}
