package main

import (
	"fmt"
	"go/ast"
	"go/token"
	"strings"
)

// Acceptance facts (C13, Model/Accept.lean): in the functions a delivered account block goes through before it is stored
// (vm/vm.go enoughPlasma / applyBlock / applySend / applyReceive, vm/supervisor.go ApplyBlock / applyBlock / packBlock,
// verifier/account_block.go every method), every place where a field of the delivered object `block` that the hash does not
// cover (Hash, BasePlasma, TotalPlasma, ChangesHash, PublicKey, Signature, DescendantBlocks) is ASSIGNED or READ, from the AST
// of the working tree, in source order:
//   acceptAssigns : (function, field, guard)   guard = the enclosing `if` conditions / `case` labels, innermost last
//   acceptUses    : (function, field, text)         text = the innermost enclosing comparison / call / assignment, normalised
// The model's per-field treatment table is pinned against both lists by `decide` (Props/C13Accept.lean).

var acceptFields = map[string]bool{"Hash": true, "BasePlasma": true, "TotalPlasma": true, "ChangesHash": true,
	"PublicKey": true, "Signature": true, "DescendantBlocks": true}

func acceptIsBlockSel(e ast.Expr) (string, bool) {
	sel, ok := e.(*ast.SelectorExpr)
	if !ok || !acceptFields[sel.Sel.Name] {
		return "", false
	}
	switch x := sel.X.(type) {
	case *ast.Ident:
		if x.Name == "block" {
			return sel.Sel.Name, true
		}
	case *ast.SelectorExpr: // abv.block.X, transaction.Block.X
		if x.Sel.Name == "block" || x.Sel.Name == "Block" {
			return sel.Sel.Name, true
		}
	}
	return "", false
}

func acceptScan(fset *token.FileSet, fname string, fd *ast.FuncDecl, assigns *[][3]string, uses *[][3]string) {
	var stack []ast.Node
	guards := func() string {
		var g []string
		for i, n := range stack {
			switch x := n.(type) {
			case *ast.IfStmt:
				// only when we are inside the body (not in the condition itself)
				if i+1 < len(stack) && stack[i+1] == ast.Node(x.Body) {
					g = append(g, exprStr(fset, x.Cond))
				}
			case *ast.CaseClause:
				var l []string
				for _, e := range x.List {
					l = append(l, exprStr(fset, e))
				}
				g = append(g, "case "+strings.Join(l, ", "))
			}
		}
		return strings.Join(g, " && ")
	}
	lhs := map[ast.Expr]bool{}
	ast.Inspect(fd.Body, func(n ast.Node) bool {
		if n == nil {
			stack = stack[:len(stack)-1]
			return true
		}
		stack = append(stack, n)
		switch x := n.(type) {
		case *ast.AssignStmt:
			for _, l := range x.Lhs {
				if f, ok := acceptIsBlockSel(l); ok {
					lhs[l] = true
					*assigns = append(*assigns, [3]string{fname, f, guards()})
				}
			}
		case *ast.SelectorExpr:
			if fld, ok := acceptIsBlockSel(x); ok && !lhs[x] {
				// innermost enclosing comparison / call / assignment
				text := exprStr(fset, x)
				for i := len(stack) - 2; i >= 0; i-- {
					switch p := stack[i].(type) {
					case *ast.BinaryExpr, *ast.AssignStmt, *ast.RangeStmt:
						if r, ok := p.(*ast.RangeStmt); ok {
							text = "range " + exprStr(fset, r.X)
						} else {
							text = exprStr(fset, p)
						}
						i = -1
					case *ast.CallExpr:
						// len(x) / x.Bytes() are part of a larger expression: keep climbing through them
						if id, ok := p.Fun.(*ast.Ident); ok && id.Name == "len" {
							continue
						}
						if s, ok := p.Fun.(*ast.SelectorExpr); ok && (s.Sel.Name == "Bytes" || s.Sel.Name == "IsZero") && len(p.Args) == 0 {
							if s.Sel.Name == "IsZero" {
								text = exprStr(fset, p)
								i = -1
							}
							continue
						}
						text = exprStr(fset, p)
						i = -1
					}
				}
				if k := len(*uses); k == 0 || (*uses)[k-1] != [3]string{fname, fld, text} {
					*uses = append(*uses, [3]string{fname, fld, text})
				}
			}
		}
		return true
	})
}

func init() {
	factGens = append(factGens, func(repo string) (*factFile, error) {
		f := newFactFile("Accept")
		var assigns [][3]string
		var uses [][3]string
		for _, file := range []struct {
			rel   string
			funcs [][2]string // receiver, name
		}{
			{"vm/supervisor.go", [][2]string{{"Supervisor", "ApplyBlock"}, {"Supervisor", "applyBlock"}, {"Supervisor", "packBlock"}}},
			{"vm/vm.go", [][2]string{{"", "enoughPlasma"}, {"VM", "applyBlock"}, {"VM", "applySend"}, {"VM", "applyReceive"}}},
			{"verifier/account_block.go", nil},
		} {
			fset, src, err := parseFile(repo, file.rel)
			if err != nil {
				return nil, err
			}
			if file.funcs == nil {
				for _, d := range src.Decls {
					if fd, ok := d.(*ast.FuncDecl); ok && fd.Body != nil {
						name := fd.Name.Name
						if r := recvTypeName(fd); r != "" {
							name = r + "." + name
						}
						acceptScan(fset, name, fd, &assigns, &uses)
					}
				}
				continue
			}
			for _, fn := range file.funcs {
				fd := findFunc(src, fn[0], fn[1])
				if fd == nil {
					return nil, fmt.Errorf("accept: %s: func (%s) %s not found", file.rel, fn[0], fn[1])
				}
				name := fn[1]
				if fn[0] != "" {
					name = fn[0] + "." + name
				}
				acceptScan(fset, name, fd, &assigns, &uses)
			}
		}
		f.raw("-- vm/supervisor.go, vm/vm.go, verifier/account_block.go (AST of the working tree): assignments to / reads of the\n")
		f.raw("-- fields of the delivered `block` that the hash does not cover\n")
		f.raw("def acceptAssigns : List (String × String × String) := [\n")
		for i, a := range assigns {
			sep := ","
			if i == len(assigns)-1 {
				sep = ""
			}
			f.raw("  (%s, %s, %s)%s\n", leanStr(a[0]), leanStr(a[1]), leanStr(a[2]), sep)
		}
		f.raw("]\n")
		f.raw("def acceptUses : List (String × String × String) := [\n")
		for i, a := range uses {
			sep := ","
			if i == len(uses)-1 {
				sep = ""
			}
			f.raw("  (%s, %s, %s)%s\n", leanStr(a[0]), leanStr(a[1]), leanStr(a[2]), sep)
		}
		f.raw("]\n")
		return f, nil
	})
}

func leanStr(s string) string { return fmt.Sprintf("%q", s) }
