package main

import (
	"fmt"
	"os"
	"strings"
	"sync"

	"github.com/inconshreveable/log15"
	"github.com/zenon-network/go-zenon/chain"
	"github.com/zenon-network/go-zenon/chain/nom"
	"github.com/zenon-network/go-zenon/common"
	"github.com/zenon-network/go-zenon/common/db"
	"github.com/zenon-network/go-zenon/common/types"
)

// C14 stream `pool-multi`: operation sequences on a real chain.NewAccountPool over 3-5 addresses, one or two of them
// contract addresses whose transactions are receives carrying 0-3 descendant sends (ONE transaction with several commits:
// the descendants have the lower heights, the receive is the last commit). Replayed on Model/PoolMulti.lean.
//
//	pm-new <K>
//	pm-add <addr> <force> <n> {<height> <hash> <prev> <type> <total> <base>}*n | <result> <obs>      commits in order, head last
//	                                                                            (pm-addR: the same, replayed on the repaired rule)
//	pm-insert <n> {<addr> <height> <hash> <prev> <type>}*n                     | <obs>               momentum confirming n blocks
//	pm-delete <K> {<keep>}*K                                                   | <obs>               momentum rollback
//	pm-offer <limit> <order a.b.c>                                             | <addr>:<hash>,...   filterBlocksToCommit of the pools in that address order
//
// <obs> = per address "<frontier height>:<hash> <uncommitted hashes|->" joined by ';', then " # " and the identifiers
// <addr>:<height>:<hash> (in first-seen order) for which GetPatch answers.

type pmAcct struct {
	addr      types.Address
	contract  bool
	confirmed []*nom.AccountBlock
	history   []db.DB // history[i] holds confirmed[:i]
}

type pmTx struct {
	ai      int
	commits []*nom.AccountBlock // descendants then head
}

func (t *pmTx) head() *nom.AccountBlock { return t.commits[len(t.commits)-1] }

type pmSeen struct {
	ai int
	id types.HashHeight
}

type pmSeq struct {
	c         *Ctx
	accts     []*pmAcct
	stable    *poolStable
	pool      chain.AccountPool
	lock      sync.Mutex
	seen      []pmSeen
	seenSet   map[pmSeen]bool
	txs       []*pmTx
	byCommit  map[pmSeen]*pmTx
	momentums [][]int // per inserted momentum: blocks confirmed per address
	limit     int
}

// pmAddOp: "pm-add" is replayed on the model of the code as it is, "pm-addR" on the model of the repaired competitor rule
// (candidate fix of FDF1); VERIF_POOL_REPAIRED=1 selects the latter
var pmAddOp = map[bool]string{false: "pm-add", true: "pm-addR"}[os.Getenv("VERIF_POOL_REPAIRED") != ""]

func ownPrev(b *nom.AccountBlock) types.HashHeight {
	return types.HashHeight{Hash: b.PreviousHash, Height: b.Height - 1}
}

func newPmSeq(c *Ctx) *pmSeq {
	s := &pmSeq{c: c, stable: &poolStable{dbs: map[types.Address]db.DB{}}, seenSet: map[pmSeen]bool{}, byCommit: map[pmSeen]*pmTx{}}
	k := 3 + c.R.Intn(3)
	nc := 1 + c.R.Intn(2)
	for i := 0; i < k; i++ {
		a := &pmAcct{addr: idxAddress(13, i), contract: i < nc, history: []db.DB{db.NewMemDB()}}
		s.stable.dbs[a.addr] = a.history[0]
		s.accts = append(s.accts, a)
	}
	s.pool = chain.NewAccountPool(s.stable)
	c.Emit("pm-new %d", k)
	return s
}

func (s *pmSeq) note(ai int, id types.HashHeight) {
	k := pmSeen{ai, id}
	if !s.seenSet[k] {
		s.seenSet[k] = true
		s.seen = append(s.seen, k)
	}
}

func (a *pmAcct) stableId() types.HashHeight {
	if len(a.confirmed) == 0 {
		return types.ZeroHashHeight
	}
	return a.confirmed[len(a.confirmed)-1].Identifier()
}

// observe: the observation string and the uncommitted blocks per address; runs the model-free monitors of the
// single-chain, confirmed-never-displaced and atomic-transaction clauses
func (s *pmSeq) observe(op string) (string, [][]*nom.AccountBlock) {
	uncs := make([][]*nom.AccountBlock, len(s.accts))
	parts := make([]string, len(s.accts))
	for ai, a := range s.accts {
		var unc []*nom.AccountBlock
		out := guard(func() string {
			unc = s.pool.GetUncommittedAccountBlocksByAddress(a.addr)
			fr := s.pool.GetFrontierAccountStore(a.addr)
			id := fr.Identifier()
			hs := make([]string, len(unc))
			for i, b := range unc {
				if b == nil {
					hs[i] = "nil"
				} else {
					hs[i] = s8(b.Hash)
				}
			}
			u := "-"
			if len(hs) > 0 {
				u = strings.Join(hs, ",")
			}
			// monitor: a confirmed block is never displaced
			for _, cb := range a.confirmed {
				got, err := fr.ByHeight(cb.Height)
				if err != nil || got == nil || got.Hash != cb.Hash {
					s.c.Fail("pool-multi after %s: address %d: the frontier store shows %v at confirmed height %d, the confirmed block is %s", op, ai, got, cb.Height, s8(cb.Hash))
					break
				}
			}
			return fmt.Sprintf("%d:%s %s", id.Height, s8(id.Hash), u)
		})
		if out == "panic" {
			s.c.Fail("pool-multi after %s: reading the pool of address %d panics", op, ai)
		}
		parts[ai] = out
		uncs[ai] = unc
		// monitor: one chain extending the last confirmed block (heights consecutive, links by hash)
		prev := a.stableId()
		for i, b := range unc {
			if b == nil || ownPrev(b) != prev {
				s.c.Fail("pool-multi after %s: address %d: uncommitted block %d does not extend its predecessor %d:%s (%d confirmed blocks)", op, ai, i, prev.Height, s8(prev.Hash), len(a.confirmed))
				break
			}
			prev = b.Identifier()
		}
	}
	// GetPatch for every identifier ever used
	listed := map[pmSeen]bool{}
	for ai, unc := range uncs {
		for _, b := range unc {
			if b != nil {
				listed[pmSeen{ai, b.Identifier()}] = true
			}
		}
	}
	answering := map[pmSeen]bool{}
	pstr := []string{}
	for _, k := range s.seen {
		var p db.Patch
		if pn := safely(func() { p = s.pool.GetPatch(s.accts[k.ai].addr, k.id) }); pn != "" {
			s.c.Fail("pool-multi after %s: GetPatch(%d, %d:%s) panics", op, k.ai, k.id.Height, s8(k.id.Hash))
			break
		}
		if p != nil {
			answering[k] = true
			pstr = append(pstr, fmt.Sprintf("%d:%d:%s", k.ai, k.id.Height, s8(k.id.Hash)))
		}
		// monitor: in the pool = on the uncommitted chain of the address
		if (p != nil) != listed[k] {
			s.c.Fail("pool-multi after %s: GetPatch(address %d, %d:%s) answers %v but the block is %s the address's uncommitted chain: only the blocks of that chain are in the pool", op, k.ai, k.id.Height, s8(k.id.Hash),
				map[bool]string{true: "a patch", false: "nil"}[p != nil], map[bool]string{true: "on", false: "not on"}[listed[k]])
			break
		}
	}
	// monitor: a transaction is in the pool entirely or not at all (listing and GetPatch), its commits contiguous and in order
	for _, t := range s.txs {
		nl, np := 0, 0
		for _, b := range t.commits {
			k := pmSeen{t.ai, b.Identifier()}
			if listed[k] {
				nl++
			}
			if answering[k] {
				np++
			}
		}
		if (nl != 0 && nl != len(t.commits)) || (np != 0 && np != len(t.commits)) {
			s.c.Fail("pool-multi after %s: address %d: the transaction with head %d:%s and %d commits is in the pool in part: %d of its blocks are on the uncommitted chain, GetPatch answers for %d", op, t.ai, t.head().Height, s8(t.head().Hash), len(t.commits), nl, np)
			break
		}
		if nl == len(t.commits) {
			pos := -1
			for i, b := range uncs[t.ai] {
				if b != nil && b.Hash == t.commits[0].Hash {
					pos = i
				}
			}
			for i, b := range t.commits {
				if pos < 0 || pos+i >= len(uncs[t.ai]) || uncs[t.ai][pos+i] == nil || uncs[t.ai][pos+i].Hash != b.Hash {
					s.c.Fail("pool-multi after %s: address %d: the commits of the transaction with head %d:%s are not contiguous on the uncommitted chain", op, t.ai, t.head().Height, s8(t.head().Hash))
					break
				}
			}
		}
	}
	p := "-"
	if len(pstr) > 0 {
		p = strings.Join(pstr, ",")
	}
	return strings.Join(parts, ";") + " # " + p, uncs
}

// the pooled transactions of an address, from the listing
func (s *pmSeq) pooledTxs(ai int, unc []*nom.AccountBlock) []*pmTx {
	out := []*pmTx{}
	for _, b := range unc {
		if b == nil || b.BlockType == nom.BlockTypeContractSend {
			continue
		}
		if t := s.byCommit[pmSeen{ai, b.Identifier()}]; t != nil && t.head().Hash == b.Hash {
			out = append(out, t)
		}
	}
	return out
}

func (s *pmSeq) mkBlock(ai int, height uint64, prev types.Hash, typ uint64) *nom.AccountBlock {
	c := s.c
	b := &nom.AccountBlock{Address: s.accts[ai].addr, Height: height, PreviousHash: prev, Hash: h4(c), BlockType: typ}
	if !s.accts[ai].contract {
		switch c.R.Intn(4) {
		case 0:
			b.TotalPlasma, b.BasePlasma = 21000, 21000
		case 1:
			b.TotalPlasma, b.BasePlasma = 42000, 21000
		case 2:
			b.TotalPlasma, b.BasePlasma = uint64(21000*(1+c.R.Intn(4))), 21000+68*uint64(c.R.Intn(3))
		default:
			b.TotalPlasma, b.BasePlasma = randPlasmaIn(c, 10500000), 21000
		}
	}
	return b
}

// a transaction whose first commit has the given height and previous hash; k descendants (contract addresses only)
func (s *pmSeq) mkTx(ai int, height uint64, prev types.Hash, k int) *pmTx {
	t := &pmTx{ai: ai}
	if !s.accts[ai].contract {
		k = 0
	}
	desc := make([]*nom.AccountBlock, k)
	for i := range desc {
		desc[i] = s.mkBlock(ai, height, prev, nom.BlockTypeContractSend)
		height, prev = height+1, desc[i].Hash
	}
	typ := uint64(nom.BlockTypeUserSend + s.c.R.Intn(2))
	if s.accts[ai].contract {
		typ = nom.BlockTypeContractReceive
	}
	head := s.mkBlock(ai, height, prev, typ)
	head.DescendantBlocks = desc
	t.commits = append(append(t.commits, desc...), head)
	return t
}

func (s *pmSeq) register(t *pmTx) {
	s.txs = append(s.txs, t)
	for _, b := range t.commits {
		s.byCommit[pmSeen{t.ai, b.Identifier()}] = t
	}
}

func hashesOf(bs []*nom.AccountBlock) string {
	hs := make([]string, len(bs))
	for i, b := range bs {
		if b == nil {
			hs[i] = "nil"
		} else {
			hs[i] = s8(b.Hash)
		}
	}
	return strings.Join(hs, ",")
}

// add offers the transaction; rival = the pooled transaction it competes with as a whole (same Previous(), other head), if any
func (s *pmSeq) add(t *pmTx, force bool, fresh bool, rival *pmTx, kind string) {
	a := s.accts[t.ai]
	_, before := s.observe("pre-add")
	for _, b := range t.commits {
		s.note(t.ai, b.Identifier())
	}
	if fresh {
		s.register(t)
	}
	head := t.head()
	tx := &nom.AccountBlockTransaction{Block: head, Changes: db.NewPatch()}
	res := guard(func() string {
		if force {
			return poolErr(s.pool.ForceAddAccountBlockTransaction(&s.lock, tx))
		}
		return poolErr(s.pool.AddAccountBlockTransaction(&s.lock, tx))
	})
	op := fmt.Sprintf("add(address %d force=%v %s: %d commits at heights %d..%d, head %s plasma %d/%d)", t.ai, force, kind, len(t.commits), t.commits[0].Height, head.Height, s8(head.Hash), head.TotalPlasma, head.BasePlasma)
	obs, after := s.observe(op)
	f := 0
	if force {
		f = 1
	}
	args := []string{}
	for _, b := range t.commits {
		args = append(args, fmt.Sprint(b.Height), s8(b.Hash), s8(b.PreviousHash), fmt.Sprint(b.BlockType), fmt.Sprint(b.TotalPlasma), fmt.Sprint(b.BasePlasma))
	}
	s.c.Emit("%s %d %d %d %s | %s %s", pmAddOp, t.ai, f, len(t.commits), strings.Join(args, " "), res, obs)
	s.c.Hit("add-" + kind + "-" + res)
	if len(t.commits) > 1 {
		s.c.Hit("add-multi-" + res)
	}
	if res == "panic" {
		s.c.Fail("pool-multi %s panics", op)
	}
	// monitor: an accepted transaction at or below the confirmed height is the confirmed block
	if res == "ok" && head.Height >= 1 && int(head.Height) <= len(a.confirmed) && a.confirmed[head.Height-1].Hash != head.Hash {
		s.c.Fail("pool-multi %s accepted at confirmed height %d where %s is confirmed", op, head.Height, s8(a.confirmed[head.Height-1].Hash))
	}
	// monitor: the operation left every other address alone
	for ai := range s.accts {
		if ai != t.ai && hashesOf(before[ai]) != hashesOf(after[ai]) {
			s.c.Fail("pool-multi %s changed the pool of address %d: %s -> %s", op, ai, hashesOf(before[ai]), hashesOf(after[ai]))
		}
	}
	// monitor: between two transactions competing for the same place (same Previous()) the winner is chosen by the rule
	// on their head blocks - higher plasma ratio, then smaller hash - whatever the arrival order; a forced one always wins
	if rival != nil {
		want := "ok"
		if !force {
			want = prioStatement(head, rival.head())
		}
		s.c.Hit(fmt.Sprintf("rival-%dv%d-%s", imin(len(t.commits), 2), imin(len(rival.commits), 2), want))
		pos := -1
		for i, b := range before[t.ai] {
			if b != nil && b.Hash == rival.commits[0].Hash {
				pos = i
			}
		}
		wantList := hashesOf(before[t.ai])
		if want == "ok" && pos >= 0 {
			wantList = hashesOf(append(append([]*nom.AccountBlock{}, before[t.ai][:pos]...), t.commits...))
		}
		if (res == "ok") != (want == "ok") || hashesOf(after[t.ai]) != wantList {
			s.c.Fail("pool-multi winner-by-rule: %s competes with the pooled transaction of %d commits (head %s plasma %d/%d, same Previous()): result %s, pool [%s] -> [%s]; the rule on the head blocks (forced, else higher plasma ratio, then smaller hash) gives %s, pool [%s]",
				op, len(rival.commits), s8(rival.head().Hash), rival.head().TotalPlasma, rival.head().BasePlasma, res, hashesOf(before[t.ai]), hashesOf(after[t.ai]), want, wantList)
		}
	}
}

// insert: the chain stores a momentum confirming content[ai] for every address, then notifies the pool
func (s *pmSeq) insert(content [][]*nom.AccountBlock, kind string) {
	_, before := s.observe("pre-insert")
	args := []string{}
	n := 0
	counts := make([]int, len(s.accts))
	for ai, nb := range content {
		a := s.accts[ai]
		cur := a.history[len(a.history)-1]
		for _, b := range nb {
			next := cur.Snapshot()
			cp := *b
			cp.DescendantBlocks = nil
			data, err := cp.Serialize()
			common.DealWithErr(err)
			common.DealWithErr(db.SetFrontier(next, b.Identifier(), data))
			a.confirmed = append(a.confirmed, b)
			a.history = append(a.history, next)
			s.note(ai, b.Identifier())
			cur = next
			args = append(args, fmt.Sprint(ai), fmt.Sprint(b.Height), s8(b.Hash), s8(b.PreviousHash), fmt.Sprint(b.BlockType))
			n++
		}
		counts[ai] = len(nb)
		s.stable.dbs[a.addr] = cur
	}
	s.momentums = append(s.momentums, counts)
	res := guard(func() string {
		s.pool.(poolMomentumListener).InsertMomentum(&nom.DetailedMomentum{Momentum: &nom.Momentum{}})
		return "ok"
	})
	op := fmt.Sprintf("insert-momentum(%s, %d blocks)", kind, n)
	if res == "panic" {
		s.c.Fail("pool-multi %s panics", op)
	}
	obs, after := s.observe(op)
	s.c.Emit("pm-insert %d %s | %s", n, strings.Join(args, " "), obs)
	s.c.Hit("insert-" + kind)
	// monitor: per address the pool holds exactly the previously pooled blocks that were not confirmed and still link
	for ai, a := range s.accts {
		want := []*nom.AccountBlock{}
		for _, b := range before[ai] {
			if b != nil && int(b.Height) > len(a.confirmed) {
				want = append(want, b)
			}
		}
		if len(want) > 0 {
			if t := s.byCommit[pmSeen{ai, want[0].Identifier()}]; t != nil && t.commits[0].Hash != want[0].Hash {
				// the momentum confirmed a part of a transaction: no chain does that (a momentum carries a receive with all
				// its descendants); compared with the model only
				s.c.Hit("insert-cuts-transaction")
				continue
			}
			if ownPrev(want[0]) != a.stableId() {
				want = nil
				s.c.Hit("insert-unlinks-address")
			} else {
				s.c.Hit("insert-keeps-address")
			}
		}
		if hashesOf(want) != hashesOf(after[ai]) {
			s.c.Fail("pool-multi after %s: address %d holds [%s], the previously pooled blocks [%s] that were not confirmed (%d confirmed now) and still link are [%s]", op, ai, hashesOf(after[ai]), hashesOf(before[ai]), len(a.confirmed), hashesOf(want))
		}
		if kind == "offered" && hashesOf(after[ai]) != hashesOf(before[ai][counts[ai]:]) {
			s.c.Fail("pool-multi after %s: address %d: the momentum carried exactly the content the pool offered, yet the pool went from [%s] to [%s] (%d of its blocks were in the content)", op, ai, hashesOf(before[ai]), hashesOf(after[ai]), counts[ai])
		}
	}
}

func (s *pmSeq) delete(nm int) {
	for ; nm > 0 && len(s.momentums) > 0; nm-- {
		counts := s.momentums[len(s.momentums)-1]
		s.momentums = s.momentums[:len(s.momentums)-1]
		for ai, a := range s.accts {
			keep := len(a.confirmed) - counts[ai]
			a.confirmed = a.confirmed[:keep]
			a.history = a.history[:keep+1]
			s.stable.dbs[a.addr] = a.history[keep]
		}
	}
	s.pool.(poolMomentumListener).DeleteMomentum(nil)
	obs, after := s.observe("delete-momentum")
	keeps := make([]string, len(s.accts))
	for ai, a := range s.accts {
		keeps[ai] = fmt.Sprint(len(a.confirmed))
		if len(after[ai]) != 0 {
			s.c.Fail("pool-multi after delete-momentum: address %d still holds [%s]", ai, hashesOf(after[ai]))
		}
	}
	s.c.Emit("pm-delete %d %s | %s", len(s.accts), strings.Join(keeps, " "), obs)
	s.c.Hit("delete")
}

// checkContent: the sentences of the content clause on one answer of the real GetNewMomentumContent (model-free)
func (s *pmSeq) checkContent(content []*nom.AccountBlock, uncs [][]*nom.AccountBlock, total int) [][]*nom.AccountBlock {
	idx := map[types.Address]int{}
	for ai, a := range s.accts {
		idx[a.addr] = ai
	}
	per := make([][]*nom.AccountBlock, len(s.accts))
	if len(content) > s.limit {
		s.c.Fail("pool-multi content: %d blocks offered for one momentum, the limit is %d", len(content), s.limit)
	}
	if total <= s.limit && len(content) != total {
		s.c.Fail("pool-multi content: %d blocks pooled, limit %d, but %d offered", total, s.limit, len(content))
	}
	for _, b := range content {
		ai, ok := idx[b.Address]
		if !ok {
			s.c.Fail("pool-multi content: a block of an unknown address is offered")
			return nil
		}
		i := len(per[ai])
		if i >= len(uncs[ai]) || uncs[ai][i] == nil || uncs[ai][i].Hash != b.Hash {
			s.c.Fail("pool-multi content: address %d: the offered blocks [%s ...] are not a prefix of its pooled chain [%s]", ai, hashesOf(append(per[ai], b)), hashesOf(uncs[ai]))
			return nil
		}
		per[ai] = append(per[ai], b)
	}
	for ai, bs := range per {
		if n := len(bs); n > 0 && n < len(uncs[ai]) {
			if t := s.byCommit[pmSeen{ai, uncs[ai][n].Identifier()}]; t != nil && t.commits[0].Hash != uncs[ai][n].Hash {
				s.c.Fail("pool-multi content: address %d: the offered content splits a contract's batch: %d blocks of the pooled chain [%s] offered, block %d belongs to the transaction with head %s (limit %d, %d offered in all)", ai, n, hashesOf(uncs[ai]), n+1, s8(t.head().Hash), s.limit, len(content))
			}
		}
	}
	return per
}

// offer: the content clause. The real GetNewMomentumContent (accounts in Go map order) is judged by monitors; the model
// is compared on filterBlocksToCommit of the same pools concatenated in a generated address order.
func (s *pmSeq) offer() {
	_, uncs := s.observe("pre-offer")
	total := 0
	for _, u := range uncs {
		total += len(u)
	}
	for call := 0; call < 6; call++ {
		var content []*nom.AccountBlock
		if res := guard(func() string { content = s.pool.GetNewMomentumContent(); return "ok" }); res != "ok" {
			s.c.Fail("pool-multi content: GetNewMomentumContent panics")
			return
		}
		s.checkContent(content, uncs, total)
		if len(content) < total {
			s.c.Hit("content-limit-bites")
		}
	}
	// GetAllUncommittedAccountBlocks lists every pooled block once, grouped by address
	var all []*nom.AccountBlock
	guard(func() string { all = s.pool.GetAllUncommittedAccountBlocks(); return "ok" })
	if len(all) != total {
		s.c.Fail("pool-multi content: GetAllUncommittedAccountBlocks lists %d blocks, the addresses hold %d", len(all), total)
	}
	order := s.c.R.Perm(len(s.accts))
	var cat []*nom.AccountBlock
	os := make([]string, len(order))
	for i, ai := range order {
		cat = append(cat, uncs[ai]...)
		os[i] = fmt.Sprint(ai)
	}
	got := chain.FilterBlocksToCommitVerif(cat)
	idx := map[types.Address]int{}
	for ai, a := range s.accts {
		idx[a.addr] = ai
	}
	gs := make([]string, len(got))
	for i, b := range got {
		gs[i] = fmt.Sprintf("%d:%s", idx[b.Address], s8(b.Hash))
	}
	g := "-"
	if len(gs) > 0 {
		g = strings.Join(gs, ",")
	}
	s.c.Emit("pm-offer %d %s | %s", s.limit, strings.Join(os, "."), g)
	s.c.Hit("offer")
}

func init() {
	register("pool-multi", func(c *Ctx) {
		log15.Root().SetHandler(log15.DiscardHandler())
		orig := chain.MaxAccountBlocksInMomentum
		defer func() { chain.MaxAccountBlocksInMomentum = orig }()
		for q := 0; q < c.N; q++ {
			s := newPmSeq(c)
			s.limit = orig
			if c.R.Intn(4) != 0 {
				s.limit = 3 + c.R.Intn(8)
			}
			chain.MaxAccountBlocksInMomentum = s.limit
			steps := 8 + c.R.Intn(30)
			for i := 0; i < steps; i++ {
				_, uncs := s.observe("generator")
				ai := c.R.Intn(len(s.accts))
				a := s.accts[ai]
				unc := uncs[ai]
				chainBlocks := append(append([]*nom.AccountBlock{}, a.confirmed...), unc...)
				hashAt := func(h int) types.Hash {
					if h <= 0 || h > len(chainBlocks) || chainBlocks[h-1] == nil {
						return types.ZeroHash
					}
					return chainBlocks[h-1].Hash
				}
				top := len(chainBlocks)
				pooled := s.pooledTxs(ai, unc)
				switch r := c.R.Intn(100); {
				case r < 36 || top == 0: // on top
					s.add(s.mkTx(ai, uint64(top+1), hashAt(top), c.R.Intn(4)), c.R.Intn(10) == 0, true, nil, "top")
				case r < 56 && len(pooled) > 0: // a transaction competing with a pooled transaction as a whole
					old := pooled[c.R.Intn(len(pooled))]
					k := 0
					if c.R.Intn(2) == 0 {
						k = c.R.Intn(4)
					}
					t := s.mkTx(ai, old.commits[0].Height, old.commits[0].PreviousHash, k)
					switch c.R.Intn(4) {
					case 0:
						t.head().TotalPlasma, t.head().BasePlasma = old.head().TotalPlasma, old.head().BasePlasma
					case 1:
						if !a.contract {
							t.head().TotalPlasma, t.head().BasePlasma = old.head().TotalPlasma+21000, old.head().BasePlasma
						}
					}
					s.add(t, c.R.Intn(5) == 0, true, old, "rival")
				case r < 62 && len(pooled) > 0: // a block that names an inner commit of a pooled transaction as its previous
					old := pooled[c.R.Intn(len(pooled))]
					if len(old.commits) < 2 {
						continue
					}
					i := c.R.Intn(len(old.commits) - 1)
					s.add(s.mkTx(ai, old.commits[i].Height+1, old.commits[i].Hash, 0), c.R.Intn(2) == 0, true, nil, "inner")
				case r < 67: // already there: a pooled transaction, a confirmed block, an inner commit offered on its own
					b := chainBlocks[c.R.Intn(top)]
					if t := s.byCommit[pmSeen{ai, b.Identifier()}]; t != nil && c.R.Intn(3) != 0 {
						s.add(t, c.R.Intn(4) == 0, false, nil, "again")
					} else {
						cp := *b
						cp.DescendantBlocks = nil
						s.add(&pmTx{ai: ai, commits: []*nom.AccountBlock{&cp}}, c.R.Intn(4) == 0, false, nil, "again-block")
					}
				case r < 73 && len(a.confirmed) > 0: // competitor at or across the confirmed height
					h := 1 + c.R.Intn(len(a.confirmed))
					t := s.mkTx(ai, uint64(h), hashAt(h-1), c.R.Intn(3))
					t.head().TotalPlasma = 10500000
					s.add(t, c.R.Intn(2) == 0, true, nil, "confirmed")
				case r < 78: // does not link
					switch c.R.Intn(3) {
					case 0:
						s.add(s.mkTx(ai, uint64(top+2+c.R.Intn(3)), hashAt(top), c.R.Intn(3)), c.R.Intn(3) == 0, true, nil, "gap")
					case 1:
						h := 1 + c.R.Intn(top+1)
						s.add(s.mkTx(ai, uint64(h), h4(c), c.R.Intn(3)), c.R.Intn(3) == 0, true, nil, "wrongprev")
					default:
						s.add(s.mkTx(ai, 0, hashAt(top), 0), c.R.Intn(3) == 0, true, nil, "height0")
					}
				case r < 90: // momentum over several addresses
					content := make([][]*nom.AccountBlock, len(s.accts))
					for bi, b := range s.accts {
						ptx := s.pooledTxs(bi, uncs[bi])
						switch m := c.R.Intn(10); {
						case m < 4 && len(ptx) > 0: // confirms a prefix of whole transactions
							for _, t := range ptx[:1+c.R.Intn(len(ptx))] {
								content[bi] = append(content[bi], t.commits...)
							}
						case m < 6: // confirms a competitor of the first pooled transaction (maybe one more on top)
							base := len(b.confirmed)
							ph := types.ZeroHash
							if base > 0 {
								ph = b.confirmed[base-1].Hash
							}
							t := s.mkTx(bi, uint64(base+1), ph, c.R.Intn(3))
							content[bi] = append(content[bi], t.commits...)
							if c.R.Intn(3) == 0 {
								t2 := s.mkTx(bi, t.head().Height+1, t.head().Hash, c.R.Intn(2))
								content[bi] = append(content[bi], t2.commits...)
							}
						case m < 7 && len(uncs[bi]) > 1 && c.R.Intn(3) == 0: // cuts anywhere (also inside a transaction)
							content[bi] = append(content[bi], uncs[bi][:1+c.R.Intn(len(uncs[bi])-1)]...)
						}
					}
					s.insert(content, "mixed")
				case r < 94: // momentum carrying exactly the content the pool offers
					var offered []*nom.AccountBlock
					guard(func() string { offered = s.pool.GetNewMomentumContent(); return "ok" })
					total := 0
					for _, u := range uncs {
						total += len(u)
					}
					if per := s.checkContent(offered, uncs, total); per != nil {
						s.insert(per, "offered")
					}
				default: // momentum rollback
					if len(s.momentums) > 0 {
						s.delete(1 + c.R.Intn(2))
					}
				}
				if c.R.Intn(4) == 0 {
					s.offer()
				}
			}
		}
	})
}
