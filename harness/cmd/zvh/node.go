package main

import (
	"fmt"
	"math/big"
	"os"
	"reflect"
	"sort"
	"strings"
	"time"

	"github.com/inconshreveable/log15"

	"github.com/zenon-network/go-zenon/chain"
	g "github.com/zenon-network/go-zenon/chain/genesis/mock"
	"github.com/zenon-network/go-zenon/chain/nom"
	"github.com/zenon-network/go-zenon/common"
	"github.com/zenon-network/go-zenon/common/types"
	"github.com/zenon-network/go-zenon/vm"
	"github.com/zenon-network/go-zenon/vm/abi"
	"github.com/zenon-network/go-zenon/vm/embedded/definition"
	"github.com/zenon-network/go-zenon/wallet"
	"github.com/zenon-network/go-zenon/zenon/mock"
)

// ---------------------------------------------------------------------------------------------------
// A real single-node chain (package zenon/mock: real chain, consensus, supervisor, 8 producing pillars over a
// leveldb directory) driven in-process, plus helpers shared by the ledger/contract/verify streams.
// ---------------------------------------------------------------------------------------------------

type hT struct{ dirs []string }

func (t *hT) Fatalf(format string, args ...interface{}) {
	panic(fmt.Sprintf("FATALF: "+format, args...))
}
func (t *hT) TempDir() string {
	d, err := os.MkdirTemp("", "zvnode")
	if err != nil {
		panic(err)
	}
	t.dirs = append(t.dirs, d)
	return d
}
func (t *hT) Cleanup() {
	for _, d := range t.dirs {
		os.RemoveAll(d)
	}
	t.dirs = nil
}

var origSporkIds = [3]types.Hash{}
var sporkIdsSaved bool

func silenceLoggers() {
	for _, l := range append(mock.AllLoggers, common.ConsensusLogger) {
		l.SetHandler(log15.DiscardHandler())
	}
}

type Node struct {
	Z   mock.MockZenon
	Sup *vm.Supervisor
	T   *hT
	// names for addresses in output
	names map[types.Address]string
	// OnMomentum is called for every momentum produced through Momentum(), right after its insertion
	OnMomentum func(dm *nom.DetailedMomentum)
}

func NewNode() *Node {
	if !sporkIdsSaved {
		origSporkIds = [3]types.Hash{types.AcceleratorSpork.SporkId, types.HtlcSpork.SporkId, types.BridgeAndLiquiditySpork.SporkId}
		sporkIdsSaved = true
	}
	types.AcceleratorSpork.SporkId, types.HtlcSpork.SporkId, types.BridgeAndLiquiditySpork.SporkId = origSporkIds[0], origSporkIds[1], origSporkIds[2]
	t := &hT{}
	z := mock.NewMockZenon(t)
	silenceLoggers()
	n := &Node{Z: z, T: t, Sup: vm.NewSupervisor(z.Chain(), z.Consensus()), names: map[types.Address]string{}}
	return n
}

func (n *Node) Stop() {
	safely(func() { n.Z.StopPanic() })
	silenceLoggers()
	n.T.Cleanup()
}

func (n *Node) Chain() chain.Chain { return n.Z.Chain() }

func keyOf(addr types.Address) *wallet.KeyPair {
	for _, kp := range g.AllKeyPairs {
		if kp.Address == addr {
			return kp
		}
	}
	return nil
}

// Submit builds, signs and inserts a user block from a template through the real supervisor and chain.
func (n *Node) Submit(template *nom.AccountBlock) (blk *nom.AccountBlock, err error) {
	kp := keyOf(template.Address)
	if kp == nil {
		return nil, fmt.Errorf("no key for %v", template.Address)
	}
	if p := safely(func() {
		var tx *nom.AccountBlockTransaction
		tx, err = n.Sup.GenerateFromTemplate(template, kp.Signer)
		if err != nil {
			return
		}
		ins := n.Chain().AcquireInsert("zvh")
		err = n.Chain().AddAccountBlockTransaction(ins, tx)
		ins.Unlock()
		if err == nil {
			blk = tx.Block
		}
	}); p != "" {
		return nil, fmt.Errorf("panic: %s", p)
	}
	return blk, err
}

// SubmitExternal delivers a fully formed block the way gossip does: ApplyBlock then insertion.
func (n *Node) SubmitExternal(block *nom.AccountBlock) (err error) {
	if p := safely(func() {
		var tx *nom.AccountBlockTransaction
		tx, err = n.Sup.ApplyBlock(block)
		if err != nil {
			return
		}
		ins := n.Chain().AcquireInsert("zvh")
		err = n.Chain().AddAccountBlockTransaction(ins, tx)
		ins.Unlock()
	}); p != "" {
		return fmt.Errorf("panic: %s", p)
	}
	return err
}

// Momentum produces the next momentum with the elected pillar and returns it with its account blocks.
func (n *Node) Momentum() (dm *nom.DetailedMomentum, err error) {
	before := n.Chain().GetFrontierMomentumStore().Identifier()
	if p := safely(func() { n.Z.InsertNewMomentum() }); p != "" {
		return nil, fmt.Errorf("panic: %s", p)
	}
	store := n.Chain().GetFrontierMomentumStore()
	if store.Identifier() == before {
		return nil, fmt.Errorf("no momentum produced")
	}
	m, err := store.GetFrontierMomentum()
	if err != nil {
		return nil, err
	}
	dm, err = store.PrefetchMomentum(m)
	if err == nil && n.OnMomentum != nil {
		n.OnMomentum(dm)
	}
	return dm, err
}

// MomentumWithoutContractPhase produces the next momentum from the pool's content as pillar/worker_momentum.go does, signed by
// the pillar elected for the next slot, WITHOUT the producer's contract phase (no auto-receives are generated before or after):
// the sends it confirms stay unanswered in the contracts' inboxes until a later producer answers them.
func (n *Node) MomentumWithoutContractPhase() (dm *nom.DetailedMomentum, err error) {
	if p := safely(func() {
		ch := n.Chain()
		prev, e := ch.GetFrontierMomentumStore().GetFrontierMomentum()
		if e != nil {
			err = e
			return
		}
		tsec := int64(prev.TimestampUnix) + 10
		exp, e := n.Z.Consensus().GetMomentumProducer(time.Unix(tsec, 0))
		if e != nil || exp == nil {
			err = fmt.Errorf("no producer for the next slot: %v", e)
			return
		}
		kp := keyOf(*exp)
		if kp == nil {
			err = fmt.Errorf("no key for the elected pillar")
			return
		}
		ins := ch.AcquireInsert("zvh manual momentum")
		defer ins.Unlock()
		blocks := ch.GetNewMomentumContent()
		m := &nom.Momentum{ChainIdentifier: ch.ChainIdentifier(), PreviousHash: prev.Hash, Height: prev.Height + 1,
			TimestampUnix: uint64(tsec), Content: nom.NewMomentumContent(blocks), Version: 1}
		m.EnsureCache()
		tx, e := n.Sup.GenerateMomentum(&nom.DetailedMomentum{Momentum: m, AccountBlocks: blocks}, kp.Signer)
		if e != nil {
			err = e
			return
		}
		if e := ch.AddMomentumTransaction(ins, tx); e != nil {
			err = e
			return
		}
		st := ch.GetFrontierMomentumStore()
		fm, e := st.GetFrontierMomentum()
		if e != nil {
			err = e
			return
		}
		dm, err = st.PrefetchMomentum(fm)
	}); p != "" {
		return nil, fmt.Errorf("panic: %s", p)
	}
	if err == nil && n.OnMomentum != nil {
		n.OnMomentum(dm)
	}
	return dm, err
}

func (n *Node) Height() uint64 { return n.Chain().GetFrontierMomentumStore().Identifier().Height }

// ActivateSpork creates and activates a spork with the genesis spork key and binds it to the implemented spork.
func (n *Node) ActivateSpork(target *types.ImplementedSpork, name string) error {
	if _, err := n.Submit(&nom.AccountBlock{BlockType: nom.BlockTypeUserSend, Address: g.Spork.Address, ToAddress: types.SporkContract,
		Data: definition.ABISpork.PackMethodPanic(definition.SporkCreateMethodName, name, "verif "+name)}); err != nil {
		return err
	}
	if _, err := n.Momentum(); err != nil {
		return err
	}
	if _, err := n.Momentum(); err != nil {
		return err
	}
	sporks, err := n.Chain().GetFrontierMomentumStore().GetAllDefinedSporks()
	if err != nil {
		return err
	}
	var id types.Hash
	for _, s := range sporks {
		if s.Name == name {
			id = s.Id
		}
	}
	if id.IsZero() {
		return fmt.Errorf("spork %s not created", name)
	}
	if _, err := n.Submit(&nom.AccountBlock{BlockType: nom.BlockTypeUserSend, Address: g.Spork.Address, ToAddress: types.SporkContract,
		Data: definition.ABISpork.PackMethodPanic(definition.SporkActivateMethodName, id)}); err != nil {
		return err
	}
	target.SporkId = id
	types.ImplementedSporksMap[id] = true
	for i := 0; i < 10; i++ {
		if _, err := n.Momentum(); err != nil {
			return err
		}
	}
	return nil
}

// ---------------------------------------------------------------------------------------------------
// naming / canonical printing
// ---------------------------------------------------------------------------------------------------

var embeddedNames = map[types.Address]string{
	types.PillarContract: "C.pillar", types.PlasmaContract: "C.plasma", types.StakeContract: "C.stake",
	types.SporkContract: "C.spork", types.TokenContract: "C.token", types.SentinelContract: "C.sentinel",
	types.SwapContract: "C.swap", types.LiquidityContract: "C.liquidity", types.AcceleratorContract: "C.accelerator",
	types.HtlcContract: "C.htlc", types.BridgeContract: "C.bridge",
}

func addrName(a types.Address) string {
	if s, ok := embeddedNames[a]; ok {
		return s
	}
	for i, kp := range g.AllKeyPairs {
		if kp.Address == a {
			switch {
			case i < 8:
				return fmt.Sprintf("P%d", i+1)
			case i < 18:
				return fmt.Sprintf("U%d", i-7)
			default:
				return "SPORK"
			}
		}
	}
	return "A." + hx(a[:])
}

func tokName(t types.ZenonTokenStandard) string {
	switch t {
	case types.ZnnTokenStandard:
		return "ZNN"
	case types.QsrTokenStandard:
		return "QSR"
	case types.ZeroTokenStandard:
		return "ZERO"
	}
	return "T." + hx(t[:])
}

func h8(h types.Hash) string {
	if h.IsZero() {
		return "-"
	}
	return hx(h[:8])
}

func amt(a *big.Int) string {
	if a == nil {
		return "0"
	}
	return a.String()
}

// ---------------------------------------------------------------------------------------------------
// generic ABI argument generation (used for calls to every embedded method)
// ---------------------------------------------------------------------------------------------------

type argPool struct {
	addrs  []types.Address
	tokens []types.ZenonTokenStandard
	hashes []types.Hash
	names  []string
}

func (c *Ctx) genBig() *big.Int {
	switch c.R.Intn(11) {
	case 9, 10: // 0, 1, 2, the neighbours of 2^k (k = 7 ... 256) and of the amount bounds of vm/constants
		b := arBoundaryInts[c.R.Intn(len(arBoundaryInts))]
		if b.BitLen() > 256 {
			b = new(big.Int).Sub(bigPow2(256), big.NewInt(1))
		}
		return new(big.Int).Set(b)
	case 0:
		return big.NewInt(0)
	case 1:
		return big.NewInt(1)
	case 2:
		return big.NewInt(int64(c.R.Intn(1000)))
	case 3:
		return new(big.Int).Mul(big.NewInt(int64(1+c.R.Intn(20000))), big.NewInt(g.Zexp))
	case 4:
		return new(big.Int).SetUint64(1 << 63)
	case 5:
		return new(big.Int).Sub(new(big.Int).Lsh(big.NewInt(1), 255), big.NewInt(1))
	case 6:
		return new(big.Int).Sub(new(big.Int).Lsh(big.NewInt(1), 256), big.NewInt(1))
	case 7:
		return new(big.Int).SetUint64(c.R.Uint64())
	default:
		return new(big.Int).Mul(big.NewInt(int64(1+c.R.Intn(100))), big.NewInt(g.Zexp))
	}
}

func (c *Ctx) genString(pool *argPool) string {
	switch c.R.Intn(7) {
	case 0:
		return ""
	case 1:
		if len(pool.names) > 0 {
			return pool.names[c.R.Intn(len(pool.names))]
		}
		return "name"
	case 2:
		return strings.Repeat("x", 1+c.R.Intn(300))
	case 3:
		return "TEST-pillar-" + fmt.Sprint(c.R.Intn(4))
	case 4:
		return "zenon.network"
	case 5:
		return "TOK" + fmt.Sprint(c.R.Intn(5))
	default:
		b := make([]byte, 1+c.R.Intn(12))
		for i := range b {
			b[i] = "abcXYZ019-._ "[c.R.Intn(13)]
		}
		return string(b)
	}
}

func (c *Ctx) genArg(t abi.Type, pool *argPool) reflect.Value {
	switch t.T {
	case abi.UintTy, abi.IntTy:
		switch t.Kind {
		case reflect.Ptr: // *big.Int
			return reflect.ValueOf(c.genBig())
		default:
			v := reflect.New(t.Type).Elem()
			var x uint64
			switch c.R.Intn(5) {
			case 0:
				x = 0
			case 1:
				x = 1
			case 2:
				x = uint64(c.R.Intn(200))
			case 3:
				x = ^uint64(0)
			default:
				x = c.R.Uint64()
			}
			if t.T == abi.UintTy {
				v.SetUint(x & (^uint64(0) >> uint(64-t.Size)))
			} else {
				v.SetInt(int64(x) >> uint(64-t.Size))
			}
			return v
		}
	case abi.BoolTy:
		return reflect.ValueOf(c.R.Intn(2) == 0)
	case abi.StringTy:
		return reflect.ValueOf(c.genString(pool))
	case abi.AddressTy:
		return reflect.ValueOf(pool.addrs[c.R.Intn(len(pool.addrs))])
	case abi.TokenStandardTy:
		return reflect.ValueOf(pool.tokens[c.R.Intn(len(pool.tokens))])
	case abi.HashTy:
		if len(pool.hashes) > 0 && c.R.Intn(4) != 0 {
			return reflect.ValueOf(pool.hashes[c.R.Intn(len(pool.hashes))])
		}
		var h types.Hash
		c.R.Read(h[:])
		return reflect.ValueOf(h)
	case abi.BytesTy:
		b := make([]byte, c.R.Intn(70))
		c.R.Read(b)
		return reflect.ValueOf(b)
	case abi.FixedBytesTy:
		v := reflect.New(t.Type).Elem()
		for i := 0; i < v.Len(); i++ {
			v.Index(i).SetUint(uint64(c.R.Intn(256)))
		}
		return v
	case abi.SliceTy:
		n := c.R.Intn(4)
		v := reflect.MakeSlice(t.Type, n, n)
		for i := 0; i < n; i++ {
			v.Index(i).Set(c.genArg(*t.Elem, pool))
		}
		return v
	case abi.ArrayTy:
		v := reflect.New(t.Type).Elem()
		for i := 0; i < v.Len(); i++ {
			v.Index(i).Set(c.genArg(*t.Elem, pool))
		}
		return v
	}
	panic(fmt.Sprintf("genArg: unsupported abi type %v", t))
}

// genCall packs a call to `method` of `contract` with generated arguments.
func (c *Ctx) genCall(contract abi.ABIContract, method string, pool *argPool) (data []byte, err error) {
	m := contract.Methods[method]
	args := make([]interface{}, len(m.Inputs))
	for i, in := range m.Inputs {
		args[i] = c.genArg(in.Type, pool).Interface()
	}
	if p := safely(func() { data, err = contract.PackMethod(method, args...) }); p != "" {
		return nil, fmt.Errorf("pack panic: %s", p)
	}
	return data, err
}

type contractABI struct {
	addr types.Address
	abi  abi.ABIContract
}

var allContractABIs = []contractABI{
	{types.PlasmaContract, definition.ABIPlasma},
	{types.PillarContract, definition.ABIPillars},
	{types.TokenContract, definition.ABIToken},
	{types.SentinelContract, definition.ABISentinel},
	{types.SwapContract, definition.ABISwap},
	{types.StakeContract, definition.ABIStake},
	{types.SporkContract, definition.ABISpork},
	{types.LiquidityContract, definition.ABILiquidity},
	{types.AcceleratorContract, definition.ABIAccelerator},
	{types.HtlcContract, definition.ABIHtlc},
	{types.BridgeContract, definition.ABIBridge},
}

func sortedMethodNames(a abi.ABIContract) []string {
	names := make([]string, 0, len(a.Methods))
	for k := range a.Methods {
		names = append(names, k)
	}
	sort.Strings(names)
	return names
}
