package main

import (
	"fmt"
	"math/big"

	g "github.com/zenon-network/go-zenon/chain/genesis/mock"
	"github.com/zenon-network/go-zenon/chain/nom"
	"github.com/zenon-network/go-zenon/common/types"
	"github.com/zenon-network/go-zenon/vm/constants"
	"github.com/zenon-network/go-zenon/vm/embedded"
	"github.com/zenon-network/go-zenon/vm/embedded/definition"
)

// ---------------------------------------------------------------------------------------------------
// plasma stream (C12), base cost of the CALLED CONTRACT METHOD and "plasma only from fused QSR".
//
// 1. The cost of an embedded method is taken from a REVIEWED table of kinds (hand-written below; its twin is
//    `reviewedClasses` of lean/ZenonVerif/Model/Pow.lean, which a theorem compares with the regenerated method tables and
//    which the driver uses to answer the plasma-method / plasma-call lines - so the two hand-written tables cannot drift
//    apart unnoticed): simple (2.5 base costs, storage only), withdraw (3.5, the receive answers with one descendant send),
//    double (4.5, two), two-simple (pillar registration), reward (CollectReward of pillar/sentinel/stake: 6 in the origin
//    table, 2.5 in the later ones). ownBaseCost (s_plasma.go) prices embedded calls with it, NOT with the method's GetPlasma,
//    so every monitor of the stream (accepted only with total >= base, base-1 refused, base-cost matrix) judges the real
//    node against the review.
// 2. methodSweep: once per process the real GetEmbeddedMethod(...).GetPlasma of every method under all 8 spork regimes
//    (plasma-method lines + monitor); per history every method resolvable under the node's regime is called by the richest
//    account with generated arguments carrying exactly cost-1 and cost fused plasma (through the real supervisor, not
//    inserted): cost-1 must be refused for too little total plasma (the plasma rule comes first in the VM, whatever the
//    arguments), cost must not be (plasma-call lines + monitor).
// 3. Behaviour: on every momentum every contract receive block is looked at together with the user send it answers: a
//    receive that answers with k descendant sends which are not the refund of a failed call was caused by a call whose
//    recorded base cost must be that of a withdraw (k >= 1) / double withdraw (k >= 2) method (reviewed exceptions below),
//    and the call's recorded total plasma must reach the reviewed cost. Directed successful calls of the token, pillar,
//    sentinel, stake and plasma contracts (issue, mint, burn, deposit/withdraw QSR, stake, delegate/undelegate, cancel fuse)
//    carry exactly cost-1 (must be refused) and cost.
// 4. Ledger of the plasma contract, replayed from its account chain on every momentum without reading its storage: a Fuse
//    call credits its beneficiary iff it carried QSR, at least the minimum, and was not refunded; anything else sent with a
//    Fuse call must come back as a refund descendant; CancelFuse debits what its descendant pays. The fused amount the node
//    records for the tracked accounts (GetStakeBeneficialAmount, what vm.AvailablePlasma uses) must equal genesis + replay,
//    the QSR balance of the contract must move by exactly the replayed amounts and it must hold no other token.
// ---------------------------------------------------------------------------------------------------

var plasmaClassOf = map[string]string{
	"accelerator.AddPhase": "simple", "accelerator.CreateProject": "simple", "accelerator.Donate": "simple",
	"accelerator.Update": "withdraw", "accelerator.UpdatePhase": "simple", "accelerator.VoteByName": "simple",
	"accelerator.VoteByProdAddress": "simple",
	"bridge.ChangeAdministrator":    "simple", "bridge.ChangeTssECDSAPubKey": "simple", "bridge.Emergency": "simple", "bridge.Halt": "simple",
	"bridge.NominateGuardians": "simple", "bridge.ProposeAdministrator": "simple", "bridge.Redeem": "withdraw",
	"bridge.RemoveNetwork": "simple", "bridge.RemoveTokenPair": "simple", "bridge.RevokeUnwrapRequest": "simple",
	"bridge.SetAllowKeyGen": "simple", "bridge.SetBridgeMetadata": "simple", "bridge.SetNetwork": "simple",
	"bridge.SetNetworkMetadata": "simple", "bridge.SetOrchestratorInfo": "simple", "bridge.SetTokenPair": "simple",
	"bridge.Unhalt": "simple", "bridge.UnwrapToken": "simple", "bridge.UpdateWrapRequest": "simple", "bridge.WrapToken": "simple",
	"htlc.AllowProxyUnlock": "simple", "htlc.Create": "simple", "htlc.DenyProxyUnlock": "simple", "htlc.Reclaim": "withdraw", "htlc.Unlock": "withdraw",
	"liquidity.BurnZnn": "simple", "liquidity.CancelLiquidityStake": "withdraw", "liquidity.ChangeAdministrator": "simple",
	"liquidity.CollectReward": "double", "liquidity.Donate": "simple", "liquidity.Emergency": "simple", "liquidity.Fund": "simple",
	"liquidity.LiquidityStake": "simple", "liquidity.NominateGuardians": "simple", "liquidity.ProposeAdministrator": "simple",
	"liquidity.SetAdditionalReward": "simple", "liquidity.SetIsHalted": "simple", "liquidity.SetTokenTuple": "simple",
	"liquidity.UnlockLiquidityStakeEntries": "simple", "liquidity.Update": "simple",
	"pillar.CollectReward": "reward", "pillar.Delegate": "simple", "pillar.DepositQsr": "simple", "pillar.Register": "two-simple",
	"pillar.RegisterLegacy": "two-simple", "pillar.Revoke": "withdraw", "pillar.Undelegate": "simple", "pillar.Update": "simple",
	"pillar.UpdatePillar": "simple", "pillar.WithdrawQsr": "withdraw",
	"plasma.CancelFuse": "withdraw", "plasma.Fuse": "simple",
	"sentinel.CollectReward": "reward", "sentinel.DepositQsr": "simple", "sentinel.Register": "simple", "sentinel.Revoke": "double",
	"sentinel.Update": "simple", "sentinel.WithdrawQsr": "withdraw",
	"spork.ActivateSpork": "simple", "spork.CreateSpork": "simple",
	"stake.Cancel": "withdraw", "stake.CollectReward": "reward", "stake.Stake": "simple", "stake.Update": "simple",
	"swap.RetrieveAssets": "double",
	"token.Burn":          "simple", "token.IssueToken": "withdraw", "token.Mint": "withdraw", "token.UpdateToken": "simple",
}

// methods whose successful receive may answer with more descendant sends than their kind pays for, in the UNCHANGED tree
// (reviewed: protocol calls of the momentum producer or of the administrator/spork address, calls into the token contract
// that are not payouts to the caller, and the reward collection, "not called enough to cause issues" - common.go)
var plasmaDescendantExceptions = map[string]bool{
	"pillar.CollectReward": true, "sentinel.CollectReward": true, "stake.CollectReward": true,
	"bridge.WrapToken": true, "liquidity.Fund": true, "liquidity.BurnZnn": true, "liquidity.Update": true, "accelerator.Update": true,
	"pillar.Update": true, "sentinel.Update": true, "stake.Update": true,
}

const (
	plasmaCostSimple   = 21000 * 5 / 2
	plasmaCostWithdraw = 21000 * 7 / 2
	plasmaCostDouble   = 21000 * 9 / 2
)

// reviewedPlasmaCost: cost of contract.Method under a spork regime (accelerator + 2*bridge + 4*htlc) by its reviewed kind
func reviewedPlasmaCost(regime int, name string) (uint64, bool) {
	switch plasmaClassOf[name] {
	case "simple":
		return plasmaCostSimple, true
	case "withdraw":
		return plasmaCostWithdraw, true
	case "double":
		return plasmaCostDouble, true
	case "two-simple":
		return 2 * plasmaCostSimple, true
	case "reward":
		if regime != 0 {
			return plasmaCostSimple, true
		}
		return plasmaCostSimple + plasmaCostWithdraw, true
	}
	return 0, false
}

// embeddedMethodName: contract.Method named by the selector in data, from the ABI alone
func embeddedMethodName(to types.Address, data []byte) string {
	if len(data) < 4 {
		return ""
	}
	for i := range allContractABIs {
		if allContractABIs[i].addr != to {
			continue
		}
		var name string
		safely(func() {
			if m, err := allContractABIs[i].abi.MethodById(data[:4]); err == nil && m != nil {
				name = m.Name
			}
		})
		if name == "" {
			return ""
		}
		return embeddedNames[to][2:] + "." + name
	}
	return ""
}

func regimeOf(ctx *regimeCtx) int {
	r := 0
	if ctx.acc {
		r |= 1
	}
	if ctx.bridge {
		r |= 2
	}
	if ctx.htlc {
		r |= 4
	}
	return r
}

func (pr *plasmaRun) regimeAt(ma types.HashHeight) *regimeCtx {
	ctx := &regimeCtx{}
	if st := pr.n.Chain().GetMomentumStore(ma); st != nil {
		ctx.acc, _ = st.IsSporkActive(types.AcceleratorSpork)
		ctx.bridge, _ = st.IsSporkActive(types.BridgeAndLiquiditySpork)
		ctx.htlc, _ = st.IsSporkActive(types.HtlcSpork)
	}
	return ctx
}

var plasmaMethodTableDone bool

// methodTableSweep: every method the real GetEmbeddedMethod resolves under each of the 8 regimes, priced by its GetPlasma
func methodTableSweep(c *Ctx) {
	if plasmaMethodTableDone {
		return
	}
	plasmaMethodTableDone = true
	for regime := 0; regime < 8; regime++ {
		ctx := &regimeCtx{acc: regime&1 != 0, bridge: regime&2 != 0, htlc: regime&4 != 0}
		for _, ca := range allContractABIs {
			for _, mn := range sortedMethodNames(ca.abi) {
				m := ca.abi.Methods[mn]
				method, err := embedded.GetEmbeddedMethod(ctx, ca.addr, m.Id())
				if err != nil {
					continue
				}
				name := embeddedNames[ca.addr][2:] + "." + mn
				real, perr := method.GetPlasma(&constants.AlphanetPlasmaTable)
				if perr != nil {
					c.Fail("C12: GetPlasma of %s under spork regime %d fails: %v", name, regime, perr)
					continue
				}
				c.Emit("plasma-method %d %s | ok %d", regime, name, real)
				c.Hit("method-table-row")
				want, ok := reviewedPlasmaCost(regime, name)
				switch {
				case !ok:
					c.Fail("C12: the embedded method %s (resolved by GetEmbeddedMethod under spork regime %d, priced at %d plasma) has no reviewed plasma kind: a call of it cannot be checked against the base cost of the called method", name, regime, real)
				case real != want:
					c.Fail("C12: a call of %s under spork regime %d (accelerator=%v bridge=%v htlc=%v) is priced at %d plasma by the method's GetPlasma; the base cost of a %s method is %d: a user block calling it is accepted with total plasma %d", name, regime, ctx.acc, ctx.bridge, ctx.htlc, real, plasmaClassOf[name], want, real)
				}
			}
		}
	}
}

// methodCallMatrix: every method resolvable under the node's regime, called by acc with generated arguments and exactly
// cost-1 / cost fused plasma through the real supervisor (nothing is inserted)
func (pr *plasmaRun) methodCallMatrix(acc types.Address) {
	c, n := pr.c, pr.n
	fm, err := n.Chain().GetFrontierMomentumStore().GetFrontierMomentum()
	if err != nil {
		return
	}
	ma := fm.Identifier()
	ctx := pr.regimeAt(ma)
	regime := regimeOf(ctx)
	kp := keyOf(acc)
	pool := &argPool{addrs: []types.Address{acc, g.User2.Address, g.User6.Address}, tokens: []types.ZenonTokenStandard{types.ZnnTokenStandard, types.QsrTokenStandard},
		hashes: []types.Hash{fm.Hash}, names: []string{g.Pillar1Name, "abc"}}
	for _, ca := range allContractABIs {
		for _, mn := range sortedMethodNames(ca.abi) {
			m := ca.abi.Methods[mn]
			if _, err := embedded.GetEmbeddedMethod(ctx, ca.addr, m.Id()); err != nil {
				continue
			}
			name := embeddedNames[ca.addr][2:] + "." + mn
			cost, ok := reviewedPlasmaCost(regime, name)
			if !ok {
				continue // reported by the table sweep
			}
			data, derr := c.genCall(ca.abi, mn, pool)
			if derr != nil || len(data) < 4 {
				data = append(append([]byte{}, m.Id()...), make([]byte, 32*len(m.Inputs))...)
			}
			prev := n.Chain().GetFrontierAccountStore(acc).Identifier()
			f := plasmaFactsOf(n, acc, ma, prev)
			if f == nil || f.av < cost {
				c.Hit("method-call-not-enough-plasma-owned")
				continue
			}
			for _, fused := range []uint64{cost - 1, cost} {
				tpl := &nom.AccountBlock{BlockType: nom.BlockTypeUserSend, Address: acc, ToAddress: ca.addr, TokenStandard: types.ZnnTokenStandard, Amount: big.NewInt(0),
					Data: data, FusedPlasma: fused, MomentumAcknowledged: ma}
				var gerr error
				if p := safely(func() { _, gerr = n.Sup.GenerateFromTemplate(tpl, kp.Signer) }); p != "" {
					gerr = fmt.Errorf("panic: %s", firstLine300(p))
				}
				obs := "paid"
				if gerr == constants.ErrNotEnoughTotalPlasma {
					obs = "not-enough-total"
				} else if gerr == constants.ErrNotEnoughPlasma || gerr == constants.ErrBlockPlasmaLimitReached {
					c.Hit("method-call-other-plasma-error")
					continue
				}
				c.Emit("plasma-call %d %s %d | %s", regime, name, fused, obs)
				c.Hit("method-call:" + embeddedNames[ca.addr][2:] + ":" + obs)
				switch {
				case fused < cost && obs == "paid":
					pr.fail("C12: a call of %s (a %s method, base cost %d plasma) by %s carrying total plasma %d (fused %d, no proof-of-work) is not refused for too little plasma (outcome: %v)", name, plasmaClassOf[name], cost, addrName(acc), fused, fused, gerr)
				case fused >= cost && obs != "paid":
					pr.fail("C12: a call of %s (a %s method, base cost %d plasma) by %s carrying total plasma %d (fused %d, which the account owns) is refused for too little total plasma", name, plasmaClassOf[name], cost, addrName(acc), fused, fused)
				}
			}
		}
	}
}

// isRefundOf: the single descendant of a failed call (vm.rollbackEmbedded): what was sent goes back to the sender
func isRefundOf(send *nom.AccountBlock, r *nom.AccountBlock) bool {
	if len(r.DescendantBlocks) != 1 || send.Amount == nil || send.Amount.Sign() <= 0 {
		return false
	}
	d := r.DescendantBlocks[0]
	return d.ToAddress == send.Address && d.TokenStandard == send.TokenStandard && d.Amount != nil && d.Amount.Cmp(send.Amount) == 0 && len(d.Data) == 0
}

// onMomentum: behaviour monitor (3) over the momentum's contract receive blocks, then the plasma contract's ledger (4)
func (pr *plasmaRun) onMomentum(dm *nom.DetailedMomentum) {
	c, n := pr.c, pr.n
	st := n.Chain().GetFrontierMomentumStore()
	for _, r := range dm.AccountBlocks {
		if r.BlockType != nom.BlockTypeContractReceive {
			continue
		}
		send, err := st.GetAccountBlockByHash(r.FromBlockHash)
		if err != nil || send == nil || send.BlockType != nom.BlockTypeUserSend {
			continue
		}
		name := embeddedMethodName(send.ToAddress, send.Data)
		if name == "" {
			continue
		}
		k := len(r.DescendantBlocks)
		refund := isRefundOf(send, r)
		regime := regimeOf(pr.regimeAt(send.MomentumAcknowledged))
		if cost, ok := reviewedPlasmaCost(regime, name); ok && send.TotalPlasma < cost {
			pr.fail("C12: the call %s/%d of %s (a %s method, base cost %d) was accepted and confirmed with total plasma %d (recorded base cost %d)", addrName(send.Address), send.Height, name, plasmaClassOf[name], cost, send.TotalPlasma, send.BasePlasma)
		}
		if refund || k == 0 {
			c.Hit(fmt.Sprintf("receive-answers:%s:%s", name, map[bool]string{true: "refund", false: "0"}[refund]))
			continue
		}
		c.Hit(fmt.Sprintf("receive-answers:%s:%d", name, k))
		if plasmaDescendantExceptions[name] {
			continue
		}
		need := uint64(plasmaCostWithdraw)
		if k >= 2 {
			need = plasmaCostDouble
		}
		if send.BasePlasma < need {
			pr.fail("C12: the embedded receive of %s (call %s/%d) answered with %d descendant send block(s) that are not a refund, so %s is a %s method with base cost >= %d; the call was priced at base cost %d and accepted with total plasma %d",
				name, addrName(send.Address), send.Height, k, name, map[bool]string{false: "withdraw", true: "double-withdraw"}[k >= 2], need, send.BasePlasma, send.TotalPlasma)
		}
	}
	pr.ledgerScan()
}

type fuseEntry struct {
	ben    types.Address
	amount *big.Int
}

type plasmaLedger struct {
	seen     uint64 // height of the plasma contract's confirmed chain already replayed
	entries  map[types.Hash]fuseEntry
	base     map[types.Address]*big.Int // fused amounts at the start of the history (genesis)
	delta    map[types.Address]*big.Int
	qsrBase  *big.Int
	qsrDelta *big.Int
	unknown  bool                                  // a cancel of an entry the replay has not seen succeeded (genesis entry): per-account figures are no longer known
	at       map[uint64]map[types.Address]*big.Int // replayed fused QSR per momentum height
	tracked  []types.Address
}

func (pr *plasmaRun) ledgerInit(tracked []types.Address) {
	st := pr.n.Chain().GetFrontierMomentumStore()
	l := &plasmaLedger{entries: map[types.Hash]fuseEntry{}, base: map[types.Address]*big.Int{}, delta: map[types.Address]*big.Int{}, qsrDelta: big.NewInt(0),
		at: map[uint64]map[types.Address]*big.Int{}, tracked: tracked}
	for _, a := range tracked {
		v, _ := st.GetStakeBeneficialAmount(a)
		if v == nil {
			v = big.NewInt(0)
		}
		l.base[a] = new(big.Int).Set(v)
		l.delta[a] = big.NewInt(0)
	}
	cs := st.GetAccountStore(types.PlasmaContract)
	if fr, _ := cs.Frontier(); fr != nil {
		l.seen = fr.Height
	}
	l.qsrBase, _ = cs.GetBalance(types.QsrTokenStandard)
	if l.qsrBase == nil {
		l.qsrBase = big.NewInt(0)
	}
	pr.ledger = l
}

// replayedFused: QSR fused for acc as of the momentum of height h according to the replay (nil = not known)
func (pr *plasmaRun) replayedFused(acc types.Address, h uint64) *big.Int {
	if pr.ledger == nil || pr.ledger.unknown {
		return nil
	}
	if m, ok := pr.ledger.at[h]; ok {
		return m[acc]
	}
	return nil
}

func (pr *plasmaRun) ledgerScan() {
	l, c, n := pr.ledger, pr.c, pr.n
	if l == nil {
		return
	}
	st := n.Chain().GetFrontierMomentumStore()
	cs := st.GetAccountStore(types.PlasmaContract)
	fr, _ := cs.Frontier()
	top := l.seen
	if fr != nil {
		top = fr.Height
	}
	for h := l.seen + 1; h <= top; h++ {
		r, err := cs.ByHeight(h)
		if err != nil || r == nil {
			pr.fail("ledger replay: plasma contract block %d unreadable: %v", h, err)
			return
		}
		if r.BlockType != nom.BlockTypeContractReceive {
			continue
		}
		send, err := st.GetAccountBlockByHash(r.FromBlockHash)
		if err != nil || send == nil {
			pr.fail("ledger replay: send block of plasma contract receive %d not found", h)
			return
		}
		name := embeddedMethodName(send.ToAddress, send.Data)
		refund := isRefundOf(send, r)
		sentSomething := send.Amount != nil && send.Amount.Sign() > 0
		switch name {
		case "plasma.Fuse":
			ben := new(types.Address)
			if err := definition.ABIPlasma.UnpackMethod(ben, definition.FuseMethodName, send.Data); err != nil {
				ben = nil
			}
			benName := "?"
			if ben != nil {
				benName = addrName(*ben)
			}
			isQsr := send.TokenStandard == types.QsrTokenStandard
			enough := send.Amount != nil && send.Amount.Cmp(big.NewInt(10*g.Zexp)) >= 0
			c.Hit(fmt.Sprintf("ledger-fuse:%s:%s:%s", map[bool]string{true: "qsr", false: "other-token"}[isQsr], map[bool]string{true: "at-least-min", false: "below-min"}[enough], map[bool]string{true: "refunded", false: "kept"}[refund]))
			if refund {
				continue
			}
			if !sentSomething {
				continue // nothing sent, nothing to give back, nothing credited
			}
			if !isQsr || !enough || ben == nil {
				pr.fail("C12: the plasma contract kept %s %s sent with the Fuse call %s/%d (beneficiary %s) instead of refunding it: plasma is backed by fused QSR only (at least 10 QSR per call); the receive block %d has %d descendant(s)",
					amt(send.Amount), tokName(send.TokenStandard), addrName(send.Address), send.Height, benName, h, len(r.DescendantBlocks))
				continue
			}
			l.entries[send.Hash] = fuseEntry{*ben, new(big.Int).Set(send.Amount)}
			if d, ok := l.delta[*ben]; ok {
				d.Add(d, send.Amount)
			}
			l.qsrDelta.Add(l.qsrDelta, send.Amount)
		case "plasma.CancelFuse":
			if refund {
				continue
			}
			if len(r.DescendantBlocks) == 0 {
				continue // the cancel failed (not due, not found)
			}
			id := new(types.Hash)
			if err := definition.ABIPlasma.UnpackMethod(id, definition.CancelFuseMethodName, send.Data); err != nil {
				id = nil
			}
			d := r.DescendantBlocks[0]
			var e fuseEntry
			known := false
			if id != nil {
				e, known = l.entries[*id]
			}
			if len(r.DescendantBlocks) != 1 || d.TokenStandard != types.QsrTokenStandard || d.ToAddress != send.Address {
				pr.fail("C12: CancelFuse %s/%d was answered with %d descendants (first: %s %s to %s); a cancelled fusion pays its QSR back to the caller once", addrName(send.Address), send.Height, len(r.DescendantBlocks), amt(d.Amount), tokName(d.TokenStandard), addrName(d.ToAddress))
				continue
			}
			l.qsrDelta.Sub(l.qsrDelta, d.Amount)
			if !known {
				l.unknown = true
				c.Hit("ledger-cancel-of-unreplayed-entry")
				continue
			}
			if d.Amount.Cmp(e.amount) != 0 {
				pr.fail("C12: CancelFuse of the fusion %s (%s QSR for %s) paid %s QSR", h8(*id), amt(e.amount), addrName(e.ben), amt(d.Amount))
			}
			delete(l.entries, *id)
			if dd, ok := l.delta[e.ben]; ok {
				dd.Sub(dd, e.amount)
			}
		default:
			// not a method of the plasma contract: the call fails; whatever it carried must go back
			if sentSomething && !refund {
				pr.fail("C12: the plasma contract kept %s %s sent with a call that names none of its methods (%s/%d)", amt(send.Amount), tokName(send.TokenStandard), addrName(send.Address), send.Height)
			}
		}
	}
	l.seen = top
	// the recorded figures
	height := st.Identifier().Height
	snap := map[types.Address]*big.Int{}
	for _, a := range l.tracked {
		want := new(big.Int).Add(l.base[a], l.delta[a])
		snap[a] = want
		if l.unknown {
			continue
		}
		real, _ := st.GetStakeBeneficialAmount(a)
		if real == nil {
			real = big.NewInt(0)
		}
		if real.Cmp(want) != 0 {
			pr.fail("C12: the node records %s as fused for %s (GetStakeBeneficialAmount at momentum %d, the figure vm.AvailablePlasma turns into %d plasma); the QSR really fused for it is %s (genesis %s + what the Fuse / CancelFuse receives of the plasma contract's chain moved: %s)",
				amt(real), addrName(a), height, fusedQsrToPlasma(real), amt(want), amt(l.base[a]), l.delta[a].String())
		}
	}
	l.at[height] = snap
	qsr, _ := cs.GetBalance(types.QsrTokenStandard)
	if qsr == nil {
		qsr = big.NewInt(0)
	}
	if want := new(big.Int).Add(l.qsrBase, l.qsrDelta); qsr.Cmp(want) != 0 {
		pr.fail("C12: the QSR balance of the plasma contract is %s at momentum %d; genesis %s + fused - cancelled QSR of its receives gives %s: fusion entries are not backed by QSR", amt(qsr), height, amt(l.qsrBase), amt(want))
	}
	for _, ts := range append([]types.ZenonTokenStandard{types.ZnnTokenStandard}, pr.ownTokens...) {
		if b, _ := cs.GetBalance(ts); b != nil && b.Sign() != 0 {
			pr.fail("C12: the plasma contract holds %s %s at momentum %d: only QSR can be fused", amt(b), tokName(ts), height)
		}
	}
	c.Hit("ledger-scan")
}

func fusedQsrToPlasma(q *big.Int) uint64 {
	if q == nil || q.Sign() <= 0 {
		return 0
	}
	if q.Cmp(big.NewInt(5000*g.Zexp)) >= 0 {
		return 5000 * 2100
	}
	return q.Uint64() / uint64(g.Zexp) * 2100
}

// fuseVariant: a Fuse call of `from` for ben with every token the sender holds x amounts below / at / above the minimum
func (pr *plasmaRun) fuseVariant(from, ben types.Address) {
	c, n := pr.c, pr.n
	toks := append([]types.ZenonTokenStandard{types.ZnnTokenStandard, types.QsrTokenStandard, types.ZeroTokenStandard}, pr.ownTokens...)
	ts := toks[c.R.Intn(len(toks))]
	min := big.NewInt(10 * g.Zexp)
	am := new(big.Int).Set(min)
	switch c.R.Intn(7) {
	case 0:
		am.Sub(am, big.NewInt(1))
	case 1:
		am.Add(am, big.NewInt(1))
	case 2:
		am.SetInt64(1)
	case 3:
		am.Mul(am, big.NewInt(int64(2+c.R.Intn(50))))
	case 4:
		am.SetInt64(0)
	}
	b, err := n.Submit(&nom.AccountBlock{BlockType: nom.BlockTypeUserSend, Address: from, ToAddress: types.PlasmaContract, TokenStandard: ts, Amount: am,
		Data: definition.ABIPlasma.PackMethodPanic(definition.FuseMethodName, ben)})
	kind := "other-token"
	if ts == types.QsrTokenStandard {
		kind = "qsr"
	}
	rel := "at-least-min"
	if am.Cmp(min) < 0 {
		rel = "below-min"
	}
	outcome := "refused"
	if err == nil && b != nil {
		outcome = "accepted" // judged by the ledger replay once the contract has received it
	}
	c.Hit("fuse-variant:" + kind + ":" + rel + ":" + outcome)
}

// directedCalls: successful calls of several contracts by the rich account with exactly cost-1 (must be refused) and cost
// fused plasma; stage 0 before the first momentums of the history, stage 1 after the contracts have answered
func (pr *plasmaRun) directedCalls(rich types.Address, stage int) {
	c, n := pr.c, pr.n
	call := func(to types.Address, ts types.ZenonTokenStandard, amount *big.Int, data []byte) *nom.AccountBlock {
		name := embeddedMethodName(to, data)
		fm, _ := n.Chain().GetFrontierMomentumStore().GetFrontierMomentum()
		regime := regimeOf(pr.regimeAt(fm.Identifier()))
		cost, ok := reviewedPlasmaCost(regime, name)
		if !ok {
			return nil
		}
		var res *nom.AccountBlock
		for _, fused := range []uint64{cost - 1, cost} {
			b, err := n.Submit(&nom.AccountBlock{BlockType: nom.BlockTypeUserSend, Address: rich, ToAddress: to, TokenStandard: ts, Amount: new(big.Int).Set(amount), Data: data, FusedPlasma: fused})
			switch {
			case err == nil && fused < cost:
				pr.fail("C12: the call %s/%d of %s (a %s method, base cost %d plasma) carrying total plasma %d (fused, no proof-of-work) was accepted", addrName(rich), b.Height, name, plasmaClassOf[name], cost, fused)
				c.Hit("directed-call:" + name + ":underpaid-accepted")
				return b
			case err == nil:
				c.Hit("directed-call:" + name + ":accepted")
				res = b
			case fused < cost && err == constants.ErrNotEnoughTotalPlasma:
				c.Hit("directed-call:" + name + ":underpaid-refused")
			case fused >= cost && err == constants.ErrNotEnoughTotalPlasma:
				pr.fail("C12: the call of %s (a %s method, base cost %d plasma) by %s carrying total plasma %d is refused for too little total plasma", name, plasmaClassOf[name], cost, addrName(rich), fused)
			default:
				c.Hit("directed-call:" + name + ":other-error")
			}
		}
		return res
	}
	one := big.NewInt(g.Zexp)
	zero := big.NewInt(0)
	switch stage {
	case 0:
		if b := call(types.TokenContract, types.ZnnTokenStandard, constants.TokenIssueAmount, definition.ABIToken.PackMethodPanic(definition.IssueMethodName,
			"plasma-token", "PLT", "", big.NewInt(100000*g.Zexp), big.NewInt(1000000*g.Zexp), uint8(8), true, true, false)); b != nil {
			pr.ownTokens = append(pr.ownTokens, types.NewZenonTokenStandard(b.Hash.Bytes()))
		}
		call(types.PillarContract, types.QsrTokenStandard, new(big.Int).Mul(one, big.NewInt(int64(1+c.R.Intn(5)))), definition.ABIPillars.PackMethodPanic(definition.DepositQsrMethodName))
		call(types.SentinelContract, types.QsrTokenStandard, new(big.Int).Mul(one, big.NewInt(int64(1+c.R.Intn(5)))), definition.ABISentinel.PackMethodPanic(definition.DepositQsrMethodName))
		call(types.StakeContract, types.ZnnTokenStandard, one, definition.ABIStake.PackMethodPanic(definition.StakeMethodName, int64(constants.StakeTimeMinSec)))
		call(types.PillarContract, types.ZnnTokenStandard, zero, definition.ABIPillars.PackMethodPanic(definition.DelegateMethodName, g.Pillar1Name))
	case 1:
		// receive what the contracts sent (the issued token)
		if hs, err := n.Chain().GetFrontierMomentumStore().GetAccountMailbox(rich).GetUnreceivedAccountBlockHashes(16); err == nil {
			for _, h := range hs {
				if _, err := n.Submit(&nom.AccountBlock{BlockType: nom.BlockTypeUserReceive, Address: rich, FromBlockHash: h}); err == nil {
					c.Hit("directed-receive")
				}
			}
		}
		if len(pr.ownTokens) > 0 {
			call(types.TokenContract, types.ZnnTokenStandard, zero, definition.ABIToken.PackMethodPanic(definition.MintMethodName, pr.ownTokens[0], big.NewInt(5*g.Zexp), g.User2.Address))
			call(types.TokenContract, pr.ownTokens[0], big.NewInt(3*g.Zexp), definition.ABIToken.PackMethodPanic(definition.BurnMethodName))
		}
		call(types.PillarContract, types.ZnnTokenStandard, zero, definition.ABIPillars.PackMethodPanic(definition.WithdrawQsrMethodName))
		call(types.SentinelContract, types.ZnnTokenStandard, zero, definition.ABISentinel.PackMethodPanic(definition.WithdrawQsrMethodName))
		call(types.PillarContract, types.ZnnTokenStandard, zero, definition.ABIPillars.PackMethodPanic(definition.UndelegateMethodName))
	}
}
