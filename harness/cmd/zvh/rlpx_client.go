package main

// A remote peer as the network sees it: TCP to a real p2p.Server on loopback, the RLPx encryption handshake (initiator side,
// written out here from the wire format — the node's own receiver code is the other end), then frames through the node
// package's frame codec (p2p.NewFrameRWVerif). The peer speaks RAW devp2p: base-protocol messages (codes 0x00–0x0f:
// handshake, disconnect, ping, pong, …) and sub-protocol messages (eth: code + 16) with any payload, at any moment.

import (
	"bytes"
	"crypto/ecdsa"
	"crypto/elliptic"
	"crypto/rand"
	"fmt"
	"io"
	"net"
	"sync"
	"time"

	"github.com/ethereum/go-ethereum/crypto"
	"github.com/ethereum/go-ethereum/crypto/ecies"
	"github.com/ethereum/go-ethereum/rlp"
	"golang.org/x/crypto/sha3"

	"github.com/zenon-network/go-zenon/p2p"
	"github.com/zenon-network/go-zenon/p2p/discover"
)

const (
	rlpxSigLen      = 65
	rlpxPubLen      = 64
	rlpxShaLen      = 32
	rlpxAuthMsgLen  = rlpxSigLen + rlpxShaLen + rlpxPubLen + rlpxShaLen + 1
	rlpxAuthRespLen = rlpxPubLen + rlpxShaLen + 1
	rlpxEciesBytes  = 65 + 16 + 32
	rlpxSskLen      = 16

	baseHandshakeMsg = 0x00
	baseDiscMsg      = 0x01
	basePingMsg      = 0x02
	basePongMsg      = 0x03
	baseProtoLen     = 16 // the first sub-protocol starts here
)

// same RLP shape as p2p.protoHandshake
type baseHandshake struct {
	Version    uint64
	Name       string
	Caps       []p2p.Cap
	ListenPort uint64
	ID         discover.NodeID
}

func xorBytes(a, b []byte) []byte {
	out := make([]byte, len(a))
	for i := range a {
		out[i] = a[i] ^ b[i]
	}
	return out
}

func pub64(pub *ecdsa.PublicKey) []byte { return elliptic.Marshal(pub.Curve, pub.X, pub.Y)[1:] }

// rlpxInitiate runs the initiator side of the encryption handshake on conn and returns the frame reader/writer.
func rlpxInitiate(conn io.ReadWriter, prv *ecdsa.PrivateKey, remote *ecdsa.PublicKey) (p2p.MsgReadWriter, error) {
	remotePub := ecies.ImportECDSAPublic(remote)
	initNonce := make([]byte, rlpxShaLen)
	if _, err := rand.Read(initNonce); err != nil {
		return nil, err
	}
	randPriv, err := ecies.GenerateKey(rand.Reader, crypto.S256(), nil)
	if err != nil {
		return nil, err
	}
	token, err := ecies.ImportECDSA(prv).GenerateShared(remotePub, rlpxSskLen, rlpxSskLen)
	if err != nil {
		return nil, err
	}
	signature, err := crypto.Sign(xorBytes(token, initNonce), randPriv.ExportECDSA())
	if err != nil {
		return nil, err
	}
	msg := make([]byte, rlpxAuthMsgLen)
	n := copy(msg, signature)
	n += copy(msg[n:], crypto.Keccak256(pub64(randPriv.PublicKey.ExportECDSA())))
	n += copy(msg[n:], pub64(&prv.PublicKey))
	n += copy(msg[n:], initNonce)
	msg[n] = 0
	auth, err := ecies.Encrypt(rand.Reader, remotePub, msg, nil, nil)
	if err != nil {
		return nil, err
	}
	if _, err := conn.Write(auth); err != nil {
		return nil, err
	}
	resp := make([]byte, rlpxAuthRespLen+rlpxEciesBytes)
	if _, err := io.ReadFull(conn, resp); err != nil {
		return nil, err
	}
	plain, err := ecies.ImportECDSA(prv).Decrypt(resp, nil, nil)
	if err != nil {
		return nil, fmt.Errorf("auth response: %v", err)
	}
	respNonce := plain[rlpxPubLen : rlpxPubLen+rlpxShaLen]
	x, y := elliptic.Unmarshal(crypto.S256(), append([]byte{0x04}, plain[:rlpxPubLen]...))
	if x == nil {
		return nil, fmt.Errorf("auth response: bad ephemeral key")
	}
	remoteRandom := ecies.ImportECDSAPublic(&ecdsa.PublicKey{Curve: crypto.S256(), X: x, Y: y})
	ecdhe, err := randPriv.GenerateShared(remoteRandom, rlpxSskLen, rlpxSskLen)
	if err != nil {
		return nil, err
	}
	shared := crypto.Keccak256(ecdhe, crypto.Keccak256(respNonce, initNonce))
	aesSecret := crypto.Keccak256(ecdhe, shared)
	macSecret := crypto.Keccak256(ecdhe, aesSecret)
	egress := sha3.New256()
	egress.Write(xorBytes(macSecret, respNonce))
	egress.Write(auth)
	ingress := sha3.New256()
	ingress.Write(xorBytes(macSecret, initNonce))
	ingress.Write(resp)
	return p2p.NewFrameRWVerif(conn, aesSecret, macSecret, egress, ingress), nil
}

// rawPeer is one connection of a scripted remote peer.
type rawPeer struct {
	name string
	key  *ecdsa.PrivateKey
	id   discover.NodeID
	fd   net.Conn
	rw   p2p.MsgReadWriter
	wmu  sync.Mutex

	mu       sync.Mutex
	closed   bool   // the connection ended (disconnect message or read error)
	discWhy  string // "disc <reason>" when the node sent a disconnect message, else the read error
	closedAt time.Time
	pongs    int
	gone     chan struct{} // closed when the read loop ends

	// onMsg receives every message that is not handled here (sub-protocol messages, codes ≥ 16, with the offset removed;
	// base-protocol messages other than ping/pong/disconnect with code+1000)
	onMsg func(code uint64, payload []byte)
}

// dialRaw connects, runs both handshakes (encryption, devp2p) and starts the read loop. hs == nil: the ordinary handshake
// offering eth/61.
func dialRaw(name string, addr string, nodeKey *ecdsa.PublicKey, hs *baseHandshake) (*rawPeer, error) {
	p, err := dialRawNoHandshake(name, addr, nodeKey)
	if err != nil {
		return nil, err
	}
	if hs == nil {
		hs = &baseHandshake{Version: 4, Name: name, Caps: []p2p.Cap{{Name: "eth", Version: 61}}, ID: p.id}
	}
	if err := p.send(baseHandshakeMsg, mustRlp(hs)); err != nil {
		p.fd.Close()
		return nil, fmt.Errorf("write handshake: %v", err)
	}
	p.fd.SetReadDeadline(time.Now().Add(10 * time.Second))
	m, err := p.rw.ReadMsg()
	if err != nil {
		p.fd.Close()
		return nil, fmt.Errorf("read handshake: %v", err)
	}
	pay, _ := io.ReadAll(m.Payload)
	if m.Code != baseHandshakeMsg {
		p.fd.Close()
		if m.Code == baseDiscMsg {
			return nil, fmt.Errorf("node answered the handshake with disconnect %x", pay)
		}
		return nil, fmt.Errorf("node answered the handshake with code %d", m.Code)
	}
	p.fd.SetReadDeadline(time.Time{})
	return p, nil
}

// dialRawNoHandshake: TCP + encryption handshake only; the caller sends whatever it wants as the first message.
func dialRawNoHandshake(name string, addr string, nodeKey *ecdsa.PublicKey) (*rawPeer, error) {
	key, err := crypto.GenerateKey()
	if err != nil {
		return nil, err
	}
	fd, err := net.DialTimeout("tcp", addr, 5*time.Second)
	if err != nil {
		return nil, err
	}
	fd.SetDeadline(time.Now().Add(10 * time.Second))
	rw, err := rlpxInitiate(fd, key, nodeKey)
	if err != nil {
		fd.Close()
		return nil, fmt.Errorf("encryption handshake: %v", err)
	}
	fd.SetDeadline(time.Time{})
	return &rawPeer{name: name, key: key, id: discover.PubkeyID(&key.PublicKey), fd: fd, rw: rw, gone: make(chan struct{})}, nil
}

func (p *rawPeer) send(code uint64, payload []byte) error {
	return p.sendSized(code, uint32(len(payload)), payload)
}

func (p *rawPeer) sendSized(code uint64, size uint32, payload []byte) error {
	p.wmu.Lock()
	defer p.wmu.Unlock()
	p.fd.SetWriteDeadline(time.Now().Add(10 * time.Second))
	return p.rw.WriteMsg(p2p.Msg{Code: code, Size: size, Payload: bytes.NewReader(payload)})
}

// sendEth sends a sub-protocol message (eth is the only sub-protocol, it starts at 16).
func (p *rawPeer) sendEth(code uint64, payload []byte) error {
	return p.send(code+baseProtoLen, payload)
}

// start runs the read loop: pings are answered, pongs counted, a disconnect message or a read error ends the connection.
func (p *rawPeer) start() {
	go func() {
		defer close(p.gone)
		for {
			m, err := p.rw.ReadMsg()
			if err != nil {
				p.end(fmt.Sprintf("read: %v", err))
				return
			}
			pay, _ := io.ReadAll(m.Payload)
			switch {
			case m.Code == basePingMsg:
				go p.send(basePongMsg, []byte{0xc0})
			case m.Code == basePongMsg:
				p.mu.Lock()
				p.pongs++
				p.mu.Unlock()
			case m.Code == baseDiscMsg:
				var reason []uint64
				why := fmt.Sprintf("disc %x", pay)
				if rlp.DecodeBytes(pay, &reason) == nil && len(reason) == 1 {
					why = fmt.Sprintf("disc %d", reason[0])
				}
				p.end(why)
				return
			case m.Code < baseProtoLen:
				if p.onMsg != nil {
					p.onMsg(m.Code+1000, pay)
				}
			default:
				if p.onMsg != nil {
					p.onMsg(m.Code-baseProtoLen, pay)
				}
			}
		}
	}()
}

func (p *rawPeer) end(why string) {
	p.mu.Lock()
	if !p.closed {
		p.closed, p.discWhy, p.closedAt = true, why, time.Now()
	}
	p.mu.Unlock()
	p.fd.Close()
}

func (p *rawPeer) close() { p.end("closed by the peer itself") }

func (p *rawPeer) dropped() (bool, string) {
	p.mu.Lock()
	defer p.mu.Unlock()
	return p.closed, p.discWhy
}

// pingPong: does the node answer a devp2p ping of this peer within d?
func (p *rawPeer) pingPong(d time.Duration) bool {
	p.mu.Lock()
	before := p.pongs
	p.mu.Unlock()
	if p.send(basePingMsg, []byte{0xc0}) != nil {
		return false
	}
	deadline := time.Now().Add(d)
	for time.Now().Before(deadline) {
		p.mu.Lock()
		n, closed := p.pongs, p.closed
		p.mu.Unlock()
		if n > before {
			return true
		}
		if closed {
			return false
		}
		time.Sleep(2 * time.Millisecond)
	}
	return false
}

// waitGone: the connection ended within d.
func (p *rawPeer) waitGone(d time.Duration) bool {
	select {
	case <-p.gone:
		return true
	case <-time.After(d):
		return false
	}
}
