package main

import (
	"bytes"
	"encoding/binary"
	"encoding/hex"
	"fmt"
	"os"
	"sort"
	"strings"
	"time"

	"github.com/syndtr/goleveldb/leveldb"

	"github.com/zenon-network/go-zenon/common/db"
	"github.com/zenon-network/go-zenon/common/types"
)

// ---------------------------------------------------------------------------------------------------
// vdb stream: random operation sequences over a real db.NewLevelDBManager (and db.NewMemDB roots):
// commit on the frontier / on a stale parent, pop, open view at any id (current chain, abandoned, unknown),
// get / has / scan / put / delete / snapshot / changes / apply / subset through views.
// Every read is (a) printed for the Lean model and (b) checked by a model-free shadow: the harness keeps,
// per committed version, the plain map the store had when that version was the frontier (the property's
// sentence), and per open view an overlay of its own writes.
// Scans are taken as the store's iterator delivers them (no entry is filtered out by the harness: since 522bff7 the
// delete-enabled iterator skips deleted entries itself) and are checked twice: against the view's own Get/Has on
// every candidate key (vdbScanAgreesWithReads — no key that Get/Has report present may be missing, no key they
// report absent may be listed, at the frontier and at every historical view alike), and against the shadow.
// ---------------------------------------------------------------------------------------------------

func hx(b []byte) string {
	if len(b) == 0 {
		return "-"
	}
	return hex.EncodeToString(b)
}

type vCommit struct {
	id, prev types.HashHeight
}

func (c *vCommit) Identifier() types.HashHeight { return c.id }
func (c *vCommit) Previous() types.HashHeight   { return c.prev }
func (c *vCommit) Serialize() ([]byte, error) {
	return append([]byte("entry"), c.id.Hash[:8]...), nil
}

type vTx struct {
	commits []db.Commit
	patch   db.Patch
}

func (t *vTx) GetCommits() []db.Commit { return t.commits }
func (t *vTx) StealChanges() db.Patch  { return t.patch }

type kvOp struct {
	del  bool
	k, v []byte
}

type shadow map[string][]byte // logical contents: key -> value (value may be empty, never nil)

func (s shadow) clone() shadow {
	r := make(shadow, len(s))
	for k, v := range s {
		r[k] = v
	}
	return r
}

type vView struct {
	name    string
	d       db.DB
	parent  *vView
	base    shadow            // for roots: contents at open time (the statement's "state as of X")
	writes  map[string][]byte // own writes; nil value = deleted
	prefix  []byte            // subset views: prefix relative to parent
	isSub   bool
	version string
	hist    bool // root opened at a commit below the frontier (served through the rollback overlay)
}

// logical lookup through the view chain (the property's sentence, not the store's code)
func (v *vView) lookup(k []byte) ([]byte, bool) {
	if v.isSub {
		return v.parent.lookup(append(append([]byte{}, v.prefix...), k...))
	}
	if w, ok := v.writes[string(k)]; ok {
		if w == nil {
			return nil, false
		}
		return w, true
	}
	if v.parent != nil {
		return v.parent.lookup(k)
	}
	val, ok := v.base[string(k)]
	return val, ok
}
func (v *vView) root() *vView {
	for v.parent != nil {
		v = v.parent
	}
	return v
}
func (v *vView) write(k, val []byte, del bool) {
	if v.isSub {
		v.parent.write(append(append([]byte{}, v.prefix...), k...), val, del)
		return
	}
	if del {
		v.writes[string(k)] = nil
	} else {
		if val == nil {
			val = []byte{}
		}
		v.writes[string(k)] = val
	}
}
func (v *vView) keys(acc map[string]bool) {
	if v.isSub {
		tmp := map[string]bool{}
		v.parent.keys(tmp)
		for k := range tmp {
			if strings.HasPrefix(k, string(v.prefix)) {
				acc[k[len(v.prefix):]] = true
			}
		}
		return
	}
	for k := range v.writes {
		acc[k] = true
	}
	if v.parent != nil {
		v.parent.keys(acc)
	} else {
		for k := range v.base {
			acc[k] = true
		}
	}
}

// absPrefix: for a Subset window (possibly nested) the prefix its keys carry in the layer it looks into
func (v *vView) absPrefix() []byte {
	pre := []byte{}
	for v.isSub {
		pre = append(append([]byte{}, v.prefix...), pre...)
		v = v.parent
	}
	return pre
}

// rootPrefix: the prefix the keys of this view carry in the coordinates of its root (all Subset windows on the way up,
// through snapshots as well)
func (v *vView) rootPrefix() []byte {
	pre := []byte{}
	for ; v != nil; v = v.parent {
		if v.isSub {
			pre = append(append([]byte{}, v.prefix...), pre...)
		}
	}
	return pre
}

// vdbScanAgreesWithReads is the model-free, shadow-free half of "a view at X shows the state as of X" for ordered
// scans: the scan of view v under prefix p must list exactly the keys that Get/Has OF THE SAME VIEW report present
// (with the value Get returns), in key order. `universe` is only a set of candidate keys (every key the sequence
// ever generated, in the coordinates of the root); it carries no expectation.
func vdbScanAgreesWithReads(c *Ctx, tag string, v *vView, p []byte, entries [][2][]byte, universe map[string]bool) bool {
	listed := map[string]bool{}
	for i, e := range entries {
		k, val := e[0], e[1]
		listed[string(k)] = true
		if !bytes.HasPrefix(k, p) {
			c.Fail("%s: view %s@%s scan %s lists key %s, which is not under the prefix", tag, v.name, v.version, hx(p), hx(k))
			return false
		}
		if i > 0 && bytes.Compare(entries[i-1][0], k) >= 0 {
			c.Fail("%s: view %s@%s scan %s is not in strictly ascending key order: %s before %s", tag, v.name, v.version, hx(p), hx(entries[i-1][0]), hx(k))
			return false
		}
		got, gerr := v.d.Get(k)
		has, _ := v.d.Has(k)
		if gerr == leveldb.ErrNotFound || !has {
			c.Fail("%s: view %s@%s scan %s lists key %s (value %s), but Get/Has of the same view report the key absent (get err=%v, has=%v) — a scan must not show a key that does not exist as of that commit", tag, v.name, v.version, hx(p), hx(k), hx(val), gerr, has)
			return false
		}
		if gerr != nil || !bytes.Equal(got, val) {
			c.Fail("%s: view %s@%s scan %s lists key %s with value %s, Get of the same view returns (%s,%v)", tag, v.name, v.version, hx(p), hx(k), hx(val), hx(got), gerr)
			return false
		}
	}
	pre := v.rootPrefix()
	cands := make([]string, 0, len(universe))
	for u := range universe {
		if bytes.HasPrefix([]byte(u), pre) {
			cands = append(cands, u[len(pre):])
		}
	}
	sort.Strings(cands) // deterministic report
	for _, u := range cands {
		k := []byte(u)
		if !bytes.HasPrefix(k, p) || listed[string(k)] {
			continue
		}
		if !vdbVisible(pre, p, k) {
			continue
		}
		has, _ := v.d.Has(k)
		got, gerr := v.d.Get(k)
		if has || gerr == nil {
			if v.root().hist && len(got) == 0 {
				tag += " historical-scan-drops-empty-valued-keys" // the shape of former finding F3b (fixed by 734ff49)
			}
			c.Fail("%s: view %s@%s scan %s = [%s] misses key %s, which Get/Has of the same view report present (value %s, has=%v) — a scan must show every key that exists as of that commit", tag, v.name, v.version, hx(p), entriesString(entries), hx(k), hx(got), has)
			return false
		}
	}
	return true
}

func entriesString(entries [][2][]byte) string {
	if len(entries) == 0 {
		return "empty"
	}
	parts := make([]string, len(entries))
	for i, e := range entries {
		parts[i] = hx(e[0]) + "=" + hx(e[1])
	}
	return strings.Join(parts, ",")
}

// vdbScanAgreesWithShadow: the scan against the state as of the commit the view was opened at (plus own writes)
func vdbScanAgreesWithShadow(c *Ctx, tag string, v *vView, p []byte, entries [][2][]byte) bool {
	keys := map[string]bool{}
	v.keys(keys)
	pre := v.rootPrefix()
	var ks []string
	for k := range keys {
		if bytes.HasPrefix([]byte(k), p) {
			if !vdbVisible(pre, p, []byte(k)) {
				continue
			}
			if _, ok := v.lookup([]byte(k)); ok {
				ks = append(ks, k)
			}
		}
	}
	sort.Strings(ks)
	ok := len(ks) == len(entries)
	for i := 0; ok && i < len(ks); i++ {
		val, _ := v.lookup([]byte(ks[i]))
		if ks[i] != string(entries[i][0]) || !bytes.Equal(val, entries[i][1]) {
			ok = false
		}
	}
	if !ok {
		var w []string
		for _, k := range ks {
			val, _ := v.lookup([]byte(k))
			w = append(w, hx([]byte(k))+"="+hx(val))
		}
		ws := strings.Join(w, ",")
		if ws == "" {
			ws = "empty"
		}
		c.Fail("%s: view %s@%s scan %s = [%s], state as of that commit (plus own writes) gives [%s]", tag, v.name, v.version, hx(p), entriesString(entries), ws)
	}
	return ok
}

// vdbScanCoverage counts the inputs the two repaired defects needed: a scan of a historical view that lists a key
// holding the empty value inherited from the viewed version (734ff49), and a scan over a region where a key known to
// the sequence is absent at the view (deleted / created later / rolled back: 522bff7).
func vdbScanCoverage(c *Ctx, v *vView, p []byte, entries [][2][]byte, universe map[string]bool) {
	if v.root().hist {
		c.Hit("scan-historical")
	}
	for _, e := range entries {
		if len(e[1]) == 0 {
			c.Hit("scan-lists-empty-value")
			if v.root().hist {
				c.Hit("scan-historical-lists-empty-value")
			}
			break
		}
	}
	pre := v.rootPrefix()
	for u := range universe {
		if bytes.HasPrefix([]byte(u), pre) && bytes.HasPrefix([]byte(u)[len(pre):], p) {
			if _, ok := v.lookup([]byte(u)[len(pre):]); !ok {
				c.Hit("scan-over-absent-key")
				break
			}
		}
	}
}

func userKey(k []byte) bool { return len(k) > 0 && k[0] >= 3 }

// vdbVisible: is key k (in the coordinates of a view whose Subset windows add up to the prefix `pre`) an entry a scan
// under prefix p is compared on? Only the scan of EVERYTHING (empty prefix) in the coordinates of a manager's root
// shows the store's own bookkeeping entries (first byte 0, 1, 2): those are left out, on both sides of every
// comparison. The empty key is an ordinary key; inside a Subset window every relative key is one.
func vdbVisible(pre, p, k []byte) bool {
	if len(pre) == 0 && len(p) == 0 {
		return len(k) == 0 || k[0] >= 3
	}
	return true
}

// scanView: the ordered scan of view v under prefix p exactly as the store's iterator delivers it (minus the
// bookkeeping entries, see vdbVisible)
func scanView(v *vView, p []byte) (string, [][2][]byte, error) {
	it := v.d.NewIterator(p)
	defer it.Release()
	pre := v.rootPrefix()
	var out [][2][]byte
	var sb strings.Builder
	for it.Next() {
		k := append([]byte{}, it.Key()...)
		val := append([]byte{}, it.Value()...)
		if !vdbVisible(pre, p, k) {
			continue
		}
		out = append(out, [2][]byte{k, val})
		if sb.Len() > 0 {
			sb.WriteByte(',')
		}
		sb.WriteString(hx(k) + "=" + hx(val))
	}
	if sb.Len() == 0 {
		sb.WriteString("empty")
	}
	return sb.String(), out, it.Error()
}

// emitScan prints a scan for the Lean model. `vdb-scanu` = the scan of everything in root coordinates with the
// bookkeeping entries left out (the model applies the same filter); every other scan is printed in full.
// The empty key / empty prefix / empty value are all printed as "-" (hex of a non-empty string is never "-").
func emitScan(c *Ctx, v *vView, p []byte, got string) {
	if len(v.rootPrefix()) == 0 && len(p) == 0 {
		c.Emit("vdb-scanu %s %s | %s", v.name, hx(p), got)
	} else {
		c.Emit("vdb-scan %s %s | %s", v.name, hx(p), got)
	}
}

// Key alphabets of the generators, by the coordinates the key is used in.
// Root coordinates (first byte 0..2 belongs to the store's bookkeeping): the EMPTY key, single bytes incl. the internal
// prefix bytes of the leveldb layout (frontierByte 0x55, patchByte 0x66, rollbackByte 0x77 and their neighbours) and
// 0xff, 0xff runs, keys that extend those; else the dense small alphabet (3|4)·{00,01,03,04,ff}* whose members are
// prefixes of one another.
var vdbRootSingles = [][]byte{{3}, {4}, {0x54}, {0x55}, {0x56}, {0x66}, {0x77}, {0xff}, {0xff, 0xff}, {0x55, 0}, {0x55, 0x55}, {0x54, 0xff}, {0xff, 0}, {0x66, 0, 0, 0, 0, 0, 0, 0, 1}, {0x77, 0, 0, 0, 0, 0, 0, 0, 1}}

// Relative coordinates inside a Subset(p) window: the EMPTY key (= the record stored under the bare prefix p), 0x00 and
// 0xff runs, single bytes incl. 0, 1, 2, keys that are prefixes of one another.
var vdbRelSingles = [][]byte{{0}, {0, 0}, {0, 0, 0}, {0xff}, {0xff, 0xff}, {1}, {2}, {0, 0xff}, {0xff, 0}, {0x55}, {3}, {4}}

func vdbKeyAt(c *Ctx, pre []byte) []byte {
	if len(pre) == 0 {
		switch c.R.Intn(10) {
		case 0:
			return []byte{}
		case 1:
			return append([]byte{}, vdbRootSingles[c.R.Intn(len(vdbRootSingles))]...)
		default:
			return vdbKey(c)
		}
	}
	switch c.R.Intn(10) {
	case 0, 1:
		return []byte{}
	case 2, 3:
		return append([]byte{}, vdbRelSingles[c.R.Intn(len(vdbRelSingles))]...)
	case 4, 5:
		return vdbKey(c)[1:] // tails over {00,01,03,04,ff}, length 0..3
	default:
		return vdbKey(c)
	}
}

// vdbPrefixAt: scan / Subset prefixes: the empty prefix, a prefix equal to a key the sequence generated (prefix == key),
// a proper prefix of such a key, else the random short prefixes.
func vdbPrefixAt(c *Ctx, pre []byte, universe map[string]bool, allowEmpty bool) []byte {
	r := c.R.Intn(10)
	if r < 2 && allowEmpty {
		return []byte{}
	}
	if r < 5 && len(universe) > 0 {
		var cands []string
		for u := range universe {
			if bytes.HasPrefix([]byte(u), pre) && (allowEmpty || len(u) > len(pre)) {
				cands = append(cands, u[len(pre):])
			}
		}
		if len(cands) > 0 {
			sort.Strings(cands)
			k := []byte(cands[c.R.Intn(len(cands))])
			if r == 4 && len(k) > 1 {
				k = k[:1+c.R.Intn(len(k)-1)]
			}
			return k
		}
	}
	if len(pre) > 0 && r < 8 {
		k := vdbKeyAt(c, pre)
		if len(k) > 0 || allowEmpty {
			return k
		}
	}
	return vdbPrefix(c)
}

var vdbKeyAlphabet = []byte{0, 1, 3, 4, 255}

func vdbKey(c *Ctx) []byte {
	n := c.R.Intn(4)
	k := []byte{byte(3 + c.R.Intn(2))}
	for i := 0; i < n; i++ {
		k = append(k, vdbKeyAlphabet[c.R.Intn(len(vdbKeyAlphabet))])
	}
	return k
}
func vdbVal(c *Ctx) []byte {
	switch c.R.Intn(6) {
	case 0:
		return []byte{}
	case 1:
		return []byte{0}
	case 2:
		return []byte{byte(c.R.Intn(3))}
	default:
		n := 1 + c.R.Intn(4)
		v := make([]byte, n)
		for i := range v {
			v[i] = byte(c.R.Intn(4))
		}
		return v
	}
}
func vdbPrefix(c *Ctx) []byte {
	switch c.R.Intn(4) {
	case 0:
		return []byte{byte(3 + c.R.Intn(2))}
	case 1:
		return []byte{byte(3 + c.R.Intn(2)), vdbKeyAlphabet[c.R.Intn(len(vdbKeyAlphabet))]}
	case 2:
		return vdbKey(c)
	default:
		return []byte{byte(3 + c.R.Intn(3))}
	}
}

func scanDB(d db.DB, prefix []byte) (string, [][2][]byte, error) {
	it := d.NewIterator(prefix)
	defer it.Release()
	var out [][2][]byte
	var sb strings.Builder
	for it.Next() {
		// every entry the iterator delivers is an entry of the scan (deleted entries are skipped by the store's own
		// delete-enabled iterator; if one shows up here, with a nil value, it is printed and the monitors see it)
		k := append([]byte{}, it.Key()...)
		v := append([]byte{}, it.Value()...)
		if len(prefix) == 0 && !userKey(k) {
			continue
		}
		out = append(out, [2][]byte{k, v})
		if sb.Len() > 0 {
			sb.WriteByte(',')
		}
		sb.WriteString(hx(k) + "=" + hx(v))
	}
	if sb.Len() == 0 {
		sb.WriteString("empty")
	}
	return sb.String(), out, it.Error()
}

func patchOps(p db.Patch) []kvOp {
	var ops []kvOp
	p.Replay(&opCollector{&ops})
	return ops
}

type opCollector struct{ ops *[]kvOp }

func (o *opCollector) Put(k, v []byte) {
	*o.ops = append(*o.ops, kvOp{k: append([]byte{}, k...), v: append([]byte{}, v...)})
}
func (o *opCollector) Delete(k []byte) {
	*o.ops = append(*o.ops, kvOp{del: true, k: append([]byte{}, k...)})
}

func opsString(ops []kvOp, userOnly bool) string {
	var parts []string
	for _, o := range ops {
		if userOnly && !userKey(o.k) {
			continue
		}
		if o.del {
			parts = append(parts, "d:"+hx(o.k))
		} else {
			parts = append(parts, "p:"+hx(o.k)+"="+hx(o.v))
		}
	}
	if len(parts) == 0 {
		return "none"
	}
	return strings.Join(parts, ",")
}

func idStr(id types.HashHeight) string {
	return fmt.Sprintf("%d:%s", id.Height, hex.EncodeToString(id.Hash[:8]))
}

func safely(f func()) (panicked string) {
	defer func() {
		if r := recover(); r != nil {
			panicked = fmt.Sprint(r)
		}
	}()
	f()
	return ""
}

func init() {
	register("vdb", func(c *Ctx) {
		for seq := 0; seq < c.N; seq++ {
			vdbSequence(c, seq)
			if seq%40 == 7 {
				vdbDeepCache(c, seq)
			}
			if seq%40 == 27 || (seq == 3 && c.N < 40) {
				vdbDeepOrders(c, seq)
			}
			if seq%25 == 3 {
				vdbTwoWriters(c, seq)
			}
			if seq%40 == 0 {
				vdbDirectedScans(c, seq)
			}
			if seq%10 == 5 {
				vdbDirectedPrefixKeys(c, seq)
			}
		}
	})
}

func vdbSequence(c *Ctx, seq int) {
	dir, err := os.MkdirTemp("", "zvdb")
	if err != nil {
		panic(err)
	}
	defer os.RemoveAll(dir)
	m := db.NewLevelDBManager(dir)
	defer func() { safely(func() { m.Stop() }) }()
	c.Emit("vdb-reset")

	nops := 30 + c.R.Intn(40)
	deep := c.R.Intn(8) == 0 // occasionally long chains to cross the cache-distance constant
	if deep && c.Tier == "thorough" {
		nops = 500
	}
	chain := []types.HashHeight{}          // current chain ids (height i+1 at index i)
	specs := map[string]shadow{"0:": {}}   // version -> contents when it was the frontier
	abandoned := []types.HashHeight{}      // popped ids
	views := []*vView{}
	counter := uint64(seq) << 32
	newHash := func() types.Hash {
		counter++
		var h types.Hash
		binary.BigEndian.PutUint64(h[:8], counter)
		h[31] = 1
		return h
	}
	frontierID := func() types.HashHeight {
		if len(chain) == 0 {
			return types.ZeroHashHeight
		}
		return chain[len(chain)-1]
	}
	verKey := func(id types.HashHeight) string {
		if id.IsZero() {
			return "0:"
		}
		return idStr(id)
	}
	universe := map[string]bool{} // every key this sequence generated (candidate keys for the scan monitor)
	// keyFor: a key in the coordinates of view v (nil = the coordinates of the manager's root: commits), recorded in
	// the universe in root coordinates
	keyFor := func(v *vView) []byte {
		pre := []byte{}
		if v != nil {
			pre = v.rootPrefix()
		}
		k := vdbKeyAt(c, pre)
		universe[string(pre)+string(k)] = true
		if len(k) == 0 {
			c.Hit("key-empty")
			if len(pre) > 0 {
				c.Hit("key-empty-in-subset")
			}
		}
		return k
	}
	genOpsFor := func(v *vView) []kvOp {
		n := c.R.Intn(5)
		ops := make([]kvOp, 0, n)
		for i := 0; i < n; i++ {
			if c.R.Intn(4) == 0 {
				ops = append(ops, kvOp{del: true, k: keyFor(v)})
			} else {
				ops = append(ops, kvOp{k: keyFor(v), v: vdbVal(c)})
			}
		}
		return ops
	}
	genOps := func() []kvOp { return genOpsFor(nil) }
	mkPatch := func(ops []kvOp) db.Patch {
		p := db.NewPatch()
		for _, o := range ops {
			if o.del {
				p.Delete(o.k)
			} else {
				p.Put(o.k, o.v)
			}
		}
		return p
	}
	checkView := func(v *vView, what string) {
		// full comparison of a view against its shadow (statement level): every known key + ordered scan of everything
		keys := map[string]bool{}
		v.keys(keys)
		ks := make([]string, 0, len(keys))
		for k := range keys {
			ks = append(ks, k)
		}
		sort.Strings(ks)
		for _, k := range ks {
			val, ok := v.lookup([]byte(k))
			got, gerr := v.d.Get([]byte(k))
			has, _ := v.d.Has([]byte(k))
			if ok {
				if gerr != nil || !bytes.Equal(got, val) || !has {
					c.Fail("vdb seq=%d %s: view %s@%s key %s: store says (%s,%v,has=%v), state as of that commit has value %s", seq, what, v.name, v.version, hx([]byte(k)), hx(got), gerr, has, hx(val))
					return
				}
			} else if gerr != leveldb.ErrNotFound || has {
				c.Fail("vdb seq=%d %s: view %s@%s key %s: store says (%s,%v,has=%v), key does not exist as of that commit", seq, what, v.name, v.version, hx([]byte(k)), hx(got), gerr, has)
				return
			}
		}
		if v.isSub {
			return
		}
		// ordered scan of everything: against the view's own Get/Has (every known key was just read above and
		// agreed with the state as of the commit), then against that state
		_, entries, _ := scanView(v, nil)
		tag := fmt.Sprintf("vdb seq=%d %s", seq, what)
		if !vdbScanAgreesWithReads(c, tag, v, nil, entries, universe) {
			return
		}
		vdbScanAgreesWithShadow(c, tag, v, nil, entries)
	}

	popHeavy := c.Args["mix"] == "pop"
	for step := 0; step < nops; step++ {
		r := c.R.Intn(100)
		if popHeavy {
			// reorganisation mix: commit 30%, pop 25%, open view 20%, the rest reads/writes; no stale-parent commits
			switch x := c.R.Intn(100); {
			case x < 30:
				r = 0
			case x < 55:
				r = 30
			case x < 75:
				r = 40
			default:
				r = 60
			}
		}
		switch {
		case r < 22: // commit on the frontier
			prev := frontierID()
			id := types.HashHeight{Height: prev.Height + 1, Hash: newHash()}
			ops := genOps()
			var aerr error
			p := safely(func() {
				aerr = m.Add(&vTx{commits: []db.Commit{&vCommit{id: id, prev: prev}}, patch: mkPatch(ops)})
			})
			res := "ok"
			if p != "" {
				res = "panic"
			} else if aerr != nil {
				res = "err"
			}
			c.Emit("vdb-add %s %s %s | %s", verKey(prev), idStr(id), opsString(ops, false), res)
			c.Hit("add-frontier")
			if res == "ok" {
				ns := specs[verKey(prev)].clone()
				for _, o := range ops {
					if o.del {
						delete(ns, string(o.k))
					} else {
						ns[string(o.k)] = o.v
					}
				}
				specs[idStr(id)] = ns
				chain = append(chain, id)
			} else {
				c.Fail("vdb seq=%d: commit %s on the current frontier %s refused (%s)", seq, idStr(id), verKey(prev), res)
			}
		case r < 28 && len(chain) >= 2: // commit on a stale parent: must be refused, store unchanged
			pi := c.R.Intn(len(chain) - 1)
			prev := chain[pi]
			id := types.HashHeight{Height: prev.Height + 1, Hash: newHash()}
			ops := genOps()
			if len(ops) == 0 {
				ops = []kvOp{{k: keyFor(nil), v: []byte{9}}}
			}
			var aerr error
			p := safely(func() {
				aerr = m.Add(&vTx{commits: []db.Commit{&vCommit{id: id, prev: prev}}, patch: mkPatch(ops)})
			})
			res := "ok"
			if p != "" {
				res = "panic"
			} else if aerr != nil {
				res = "err"
			}
			c.Emit("vdb-add %s %s %s | %s", verKey(prev), idStr(id), opsString(ops, false), res)
			c.Hit("add-stale")
			if res == "panic" {
				c.Fail("vdb seq=%d: commit %s on stale parent %s (frontier is %s) panicked", seq, idStr(id), idStr(prev), idStr(frontierID()))
			}
			// store must be unchanged: frontier id and contents
			f := m.Frontier()
			if got := db.GetFrontierIdentifier(f); got != frontierID() {
				c.Fail("vdb seq=%d: commit %s on stale parent %s was not refused: the frontier identifier became %s, expected %s unchanged", seq, idStr(id), idStr(prev), idStr(got), idStr(frontierID()))
				// resynchronise the harness bookkeeping is impossible: stop this sequence
				return
			}
			fv := &vView{name: "f", d: f, base: specs[verKey(frontierID())], writes: map[string][]byte{}, version: verKey(frontierID())}
			checkView(fv, "after stale-parent commit")
			if len(c.Fails) > 0 && strings.Contains(c.Fails[len(c.Fails)-1], fmt.Sprintf("seq=%d", seq)) {
				return
			}
		case r < 38 && len(chain) >= 1: // pop
			var perr error
			p := safely(func() { perr = m.Pop() })
			res := "ok"
			if p != "" {
				res = "panic"
			} else if perr != nil {
				res = "err"
			}
			c.Emit("vdb-pop | %s", res)
			c.Hit("pop")
			if res == "ok" {
				abandoned = append(abandoned, chain[len(chain)-1])
				chain = chain[:len(chain)-1]
			} else {
				c.Fail("vdb seq=%d: pop of frontier %s failed: %s", seq, idStr(frontierID()), res)
				return
			}
		case r < 52: // open a view
			var id types.HashHeight
			kind := c.R.Intn(10)
			switch {
			case kind < 5 && len(chain) > 0:
				id = chain[c.R.Intn(len(chain))]
				c.Hit("view-historical")
			case kind < 6 && len(abandoned) > 0:
				id = abandoned[c.R.Intn(len(abandoned))]
				c.Hit("view-abandoned")
			case kind < 7 && len(chain) > 0:
				id = chain[c.R.Intn(len(chain))]
				id.Height += uint64(1 + c.R.Intn(3)) // right hash, wrong height
				c.Hit("view-wrong-height")
			case kind < 8:
				id = types.HashHeight{Height: uint64(1 + c.R.Intn(5)), Hash: newHash()}
				c.Hit("view-unknown")
			case kind < 9:
				id = types.ZeroHashHeight
				c.Hit("view-zero")
			default:
				id = frontierID()
				c.Hit("view-frontier")
			}
			name := fmt.Sprintf("v%d", len(views))
			var d db.DB
			p := safely(func() { d = m.Get(id) })
			onChain := id.IsZero()
			for _, x := range chain {
				if x == id {
					onChain = true
				}
			}
			res := "ok"
			if p != "" {
				res = "panic"
			} else if d == nil {
				res = "nil"
			}
			c.Emit("vdb-view %s %s | %s", name, verKey(id), res)
			if onChain && res != "ok" {
				c.Fail("vdb seq=%d: view at %s (on the current chain) could not be opened: %s", seq, verKey(id), res)
			}
			if !onChain && res == "ok" {
				c.Fail("vdb seq=%d: view at %s, which is not a commit of the current chain, was served", seq, verKey(id))
			}
			if res == "ok" {
				var base shadow
				if id.IsZero() {
					base = shadow{}
				} else {
					base = specs[idStr(id)]
				}
				if base == nil {
					base = shadow{}
				}
				v := &vView{name: name, d: d, base: base.clone(), writes: map[string][]byte{}, version: verKey(id), hist: !id.IsZero() && id != frontierID()}
				views = append(views, v)
				if onChain && !id.IsZero() {
					if got := db.GetFrontierIdentifier(d); got != id {
						c.Fail("vdb seq=%d: view at %s reports frontier identifier %s", seq, idStr(id), idStr(got))
					}
				}
				checkView(v, "at open")
			} else {
				views = append(views, nil)
			}
		case r < 54: // fresh in-memory root
			name := fmt.Sprintf("v%d", len(views))
			c.Emit("vdb-memroot %s | ok", name)
			views = append(views, &vView{name: name, d: db.NewMemDB(), base: shadow{}, writes: map[string][]byte{}, version: "mem"})
			c.Hit("memroot")
		default:
			if len(views) == 0 {
				continue
			}
			v := views[c.R.Intn(len(views))]
			if v == nil {
				continue
			}
			q := c.R.Intn(100)
			switch {
			case q < 25: // get
				k := keyFor(v)
				got, gerr := v.d.Get(k)
				res := "notfound"
				if gerr == nil {
					res = "val:" + hx(got)
				} else if gerr != leveldb.ErrNotFound {
					res = "error"
				}
				c.Emit("vdb-get %s %s | %s", v.name, hx(k), res)
				want, ok := v.lookup(k)
				if ok != (gerr == nil) || (ok && !bytes.Equal(want, got)) {
					c.Fail("vdb seq=%d: view %s@%s get %s = %s, state as of that commit (plus own writes): present=%v value=%s", seq, v.name, v.version, hx(k), res, ok, hx(want))
				}
				c.Hit("get-" + res[:3])
			case q < 35: // has
				k := keyFor(v)
				has, _ := v.d.Has(k)
				c.Emit("vdb-has %s %s | %v", v.name, hx(k), has)
				_, ok := v.lookup(k)
				if ok != has {
					c.Fail("vdb seq=%d: view %s@%s has %s = %v, state as of that commit (plus own writes): present=%v", seq, v.name, v.version, hx(k), has, ok)
				}
				c.Hit("has")
			case q < 50: // scan
				p := vdbPrefixAt(c, v.rootPrefix(), universe, true)
				got, entries, _ := scanView(v, p)
				emitScan(c, v, p, got)
				if len(p) == 0 {
					c.Hit("scan-empty-prefix")
				}
				if _, ok := universe[string(v.rootPrefix())+string(p)]; ok {
					c.Hit("scan-prefix-is-a-key")
				}
				if len(entries) > 0 && len(entries[0][0]) == 0 {
					c.Hit("scan-lists-empty-key")
					if !v.isSub && (v.parent != nil || v.hist) {
						c.Hit("scan-layered-view-lists-empty-key")
					}
				}
				tag := fmt.Sprintf("vdb seq=%d", seq)
				if vdbScanAgreesWithReads(c, tag, v, p, entries, universe) {
					vdbScanAgreesWithShadow(c, tag, v, p, entries)
				}
				vdbScanCoverage(c, v, p, entries, universe)
				c.Hit("scan")
				if len(entries) > 1 {
					c.Hit("scan-multi")
				}
			case q < 65: // put
				k, val := keyFor(v), vdbVal(c)
				err := v.d.Put(k, val)
				c.Emit("vdb-put %s %s %s | %v", v.name, hx(k), hx(val), err == nil)
				v.write(k, val, false)
				c.Hit("put")
			case q < 72: // delete
				k := keyFor(v)
				err := v.d.Delete(k)
				c.Emit("vdb-del %s %s | %v", v.name, hx(k), err == nil)
				v.write(k, nil, true)
				c.Hit("del")
			case q < 80: // snapshot
				name := fmt.Sprintf("v%d", len(views))
				d := v.d.Snapshot()
				c.Emit("vdb-snap %s %s | ok", v.name, name)
				views = append(views, &vView{name: name, d: d, parent: v, writes: map[string][]byte{}, version: v.version + "+snap"})
				c.Hit("snapshot")
			case q < 86: // subset
				name := fmt.Sprintf("v%d", len(views))
				p := vdbPrefixAt(c, v.rootPrefix(), universe, c.R.Intn(3) == 0)
				d := v.d.Subset(p)
				c.Emit("vdb-subset %s %s %s | ok", v.name, name, hx(p))
				views = append(views, &vView{name: name, d: d, parent: v, isSub: true, prefix: p, version: v.version + "+sub"})
				c.Hit("subset")
			case q < 93: // changes: must replay to exactly the view's own writes
				var ch db.Patch
				var cerr error
				p := safely(func() { ch, cerr = v.d.Changes() })
				if p != "" || cerr != nil {
					c.Emit("vdb-changes %s | error", v.name)
					c.Hit("changes-error")
					continue
				}
				ops := patchOps(ch)
				c.Emit("vdb-changes %s | %s", v.name, opsString(ops, false))
				c.Hit("changes")
				{
					// statement: the change set replays to exactly those writes (for a Subset window: the writes of the
					// layer it looks into that fall under its prefix, with the prefix removed)
					owner, pre := v, []byte{}
					for owner.isSub {
						pre = append(append([]byte{}, owner.prefix...), pre...)
						owner = owner.parent
					}
					var want []string
					ks := make([]string, 0, len(owner.writes))
					for k := range owner.writes {
						if bytes.HasPrefix([]byte(k), pre) {
							ks = append(ks, k)
						}
					}
					sort.Strings(ks)
					for _, k := range ks {
						kk := []byte(k)[len(pre):]
						if owner.writes[k] == nil {
							want = append(want, "d:"+hx(kk))
						} else {
							want = append(want, "p:"+hx(kk)+"="+hx(owner.writes[k]))
						}
					}
					w := strings.Join(want, ",")
					if w == "" {
						w = "none"
					}
					if w != opsString(ops, false) {
						c.Fail("vdb seq=%d: view %s change set is [%s], its writes are [%s]", seq, v.name, opsString(ops, false), w)
					}
				}
			default: // apply a patch through the view
				ops := genOpsFor(v)
				err := v.d.Apply(mkPatch(ops))
				c.Emit("vdb-apply %s %s | %v", v.name, opsString(ops, false), err == nil)
				for _, o := range ops {
					v.write(o.k, o.v, o.del)
				}
				c.Hit("apply")
			}
		}
		// every few steps re-validate all open root views in full: earlier views must be unaffected by later commits/pops
		if step%7 == 6 {
			for _, v := range views {
				if v != nil && v.parent == nil {
					before := len(c.Fails)
					checkView(v, "revalidation after later operations")
					if len(c.Fails) > before {
						return
					}
				}
			}
			c.Hit("revalidate")
		}
	}
}

// vdbDeepCache: a view far below the frontier (beyond maximumCacheHeightDifference, so its overlay goes to the second
// cache level), then a branch switch at the frontier, then the view again — every read must still be the state as of X.
func vdbDeepCache(c *Ctx, seq int) {
	dir, err := os.MkdirTemp("", "zvdb")
	if err != nil {
		panic(err)
	}
	defer os.RemoveAll(dir)
	m := db.NewLevelDBManager(dir)
	defer func() { safely(func() { m.Stop() }) }()
	_, _, maxDiff := db.CacheConstantsVerif()
	c.Emit("vdb-reset")
	counter := uint64(seq)<<32 | 1<<30
	newHash := func() types.Hash {
		counter++
		var h types.Hash
		binary.BigEndian.PutUint64(h[:8], counter)
		h[31] = 1
		return h
	}
	var chain []types.HashHeight
	specs := map[string]shadow{"0:": {}}
	universe := map[string]bool{}
	commit := func(ops []kvOp) bool {
		for _, o := range ops {
			universe[string(o.k)] = true
		}
		prev := types.ZeroHashHeight
		pk := "0:"
		if len(chain) > 0 {
			prev = chain[len(chain)-1]
			pk = idStr(prev)
		}
		id := types.HashHeight{Height: prev.Height + 1, Hash: newHash()}
		p := db.NewPatch()
		for _, o := range ops {
			if o.del {
				p.Delete(o.k)
			} else {
				p.Put(o.k, o.v)
			}
		}
		if err := m.Add(&vTx{commits: []db.Commit{&vCommit{id: id, prev: prev}}, patch: p}); err != nil {
			c.Fail("vdb deep seq=%d: commit refused: %v", seq, err)
			return false
		}
		c.Emit("vdb-add %s %s %s | ok", pk, idStr(id), opsString(ops, false))
		ns := specs[pk].clone()
		for _, o := range ops {
			if o.del {
				delete(ns, string(o.k))
			} else {
				ns[string(o.k)] = o.v
			}
		}
		specs[idStr(id)] = ns
		chain = append(chain, id)
		return true
	}
	genOps := func() []kvOp {
		n := 1 + c.R.Intn(3)
		ops := make([]kvOp, 0, n)
		for i := 0; i < n; i++ {
			if c.R.Intn(5) == 0 {
				ops = append(ops, kvOp{del: true, k: vdbKey(c)})
			} else {
				// mostly non-empty values; every fourth put may write the empty value (deep views must list those keys too)
				val := vdbVal(c)
				if c.R.Intn(4) != 0 {
					val = append(val, 1)
				}
				ops = append(ops, kvOp{k: vdbKey(c), v: val})
			}
		}
		return ops
	}
	depth := maxDiff + 5 + c.R.Intn(30)
	for i := 0; i < depth; i++ {
		if !commit(genOps()) {
			return
		}
	}
	nviews := 0
	check := func(x types.HashHeight, what string) bool {
		d := m.Get(x)
		name := fmt.Sprintf("d%d", nviews)
		nviews++
		if d == nil {
			c.Emit("vdb-view %s %s | nil", name, idStr(x))
			c.Fail("vdb deep seq=%d: view at %s (on the chain, %d below the frontier) could not be opened", seq, idStr(x), len(chain)-int(x.Height))
			return false
		}
		c.Emit("vdb-view %s %s | ok", name, idStr(x))
		v := &vView{name: name, d: d, base: specs[idStr(x)].clone(), writes: map[string][]byte{}, version: idStr(x), hist: true}
		_, entries, _ := scanDB(d, nil)
		for _, pfx := range [][]byte{{3}, {4}} {
			g1, _, _ := scanDB(d, pfx)
			c.Emit("vdb-scan %s %s | %s", name, hx(pfx), g1)
		}
		keys := map[string]bool{}
		v.keys(keys)
		ks := make([]string, 0, len(keys))
		for k := range keys {
			ks = append(ks, k)
		}
		sort.Strings(ks)
		for _, k := range ks {
			val, ok := v.lookup([]byte(k))
			gv, gerr := d.Get([]byte(k))
			has, _ := d.Has([]byte(k))
			if ok != (gerr == nil) || ok != has || (ok && !bytes.Equal(gv, val)) {
				c.Fail("vdb deep seq=%d %s: view at %s (%d commits below the frontier) key %s: store says (%s,%v,has=%v), state as of that commit: present=%v value=%s", seq, what, idStr(x), len(chain)-int(x.Height), hx([]byte(k)), hx(gv), gerr, has, ok, hx(val))
				return false
			}
		}
		tag := fmt.Sprintf("vdb deep seq=%d %s", seq, what)
		if !vdbScanAgreesWithReads(c, tag, v, nil, entries, universe) || !vdbScanAgreesWithShadow(c, tag, v, nil, entries) {
			return false
		}
		vdbScanCoverage(c, v, nil, entries, universe)
		return true
	}
	early := chain[c.R.Intn(4)]
	near := chain[len(chain)-3]
	if !check(early, "before the switch") || !check(near, "before the switch") {
		return
	}
	// branch switch of depth 1..3 at the frontier
	k := 1 + c.R.Intn(3)
	for i := 0; i < k; i++ {
		if err := m.Pop(); err != nil {
			c.Fail("vdb deep seq=%d: pop failed: %v", seq, err)
			return
		}
		c.Emit("vdb-pop | ok")
		chain = chain[:len(chain)-1]
	}
	for i := 0; i < k+c.R.Intn(2); i++ {
		if !commit(genOps()) {
			return
		}
	}
	if !check(early, "after a branch switch at the frontier") || !check(chain[len(chain)-k-2], "after a branch switch at the frontier") {
		return
	}
	c.Hit("deep-cache-scenario")
}

// vdbDeepOrders: the ORDER families of the two levels of the rollback-overlay cache around maximumCacheHeightDifference (C07: a view
// returns the state as of its commit "regardless of the cache state"). An overlay that is cached for X is tagged with the frontier T
// of the moment; the next open of X extends it from T to the new frontier and files it again - in the first level while X is less
// than maximumCacheHeightDifference commits below the frontier, in the second level from then on. The scenario grows ONE chain
// across the boundary and opens a few identifiers X near its bottom two or three times each, at depths (d1 < d2 < d3) drawn around
// the boundary:
//
//	near→far        d1 < max ≤ d2          (first-level entry re-opened once the frontier is max ahead)
//	far→far         max ≤ d1 < d2          (second open at that depth: second-level hit)
//	near→near→far   d1 < d2 < max ≤ d3
//	twice-at-once   the same X opened twice at one frontier, at or beyond the boundary
//
// with the frontier advancing between the opens; then the frontier advances once more and EVERY identifier that played a part is
// opened: every former frontier T (the tag of some cached entry) and its neighbours T-1, T+1 - none of them opened before, so
// nothing of theirs is in the first level -, every X and its neighbours, the frontier. Each view is validated in full (every key of
// the universe by Get and Has, the full scan against reads and shadow, two prefix scans for the Lean model).
func vdbDeepOrders(c *Ctx, seq int) {
	dir, err := os.MkdirTemp("", "zvdb")
	if err != nil {
		panic(err)
	}
	defer os.RemoveAll(dir)
	m := db.NewLevelDBManager(dir)
	defer func() { safely(func() { m.Stop() }) }()
	_, _, maxDiff := db.CacheConstantsVerif()
	c.Emit("vdb-reset")
	counter := uint64(seq)<<32 | 1<<30 | 1<<28
	newHash := func() types.Hash {
		counter++
		var h types.Hash
		binary.BigEndian.PutUint64(h[:8], counter)
		h[31] = 1
		return h
	}
	var chain []types.HashHeight
	specs := map[string]shadow{"0:": {}}
	universe := map[string]bool{}
	commit := func() bool {
		n := 1 + c.R.Intn(3)
		ops := make([]kvOp, 0, n)
		for i := 0; i < n; i++ {
			if c.R.Intn(5) == 0 {
				ops = append(ops, kvOp{del: true, k: vdbKey(c)})
			} else {
				val := vdbVal(c)
				if c.R.Intn(4) != 0 {
					val = append(val, 1)
				}
				ops = append(ops, kvOp{k: vdbKey(c), v: val})
			}
		}
		for _, o := range ops {
			universe[string(o.k)] = true
		}
		prev := types.ZeroHashHeight
		pk := "0:"
		if len(chain) > 0 {
			prev = chain[len(chain)-1]
			pk = idStr(prev)
		}
		id := types.HashHeight{Height: prev.Height + 1, Hash: newHash()}
		p := db.NewPatch()
		for _, o := range ops {
			if o.del {
				p.Delete(o.k)
			} else {
				p.Put(o.k, o.v)
			}
		}
		if err := m.Add(&vTx{commits: []db.Commit{&vCommit{id: id, prev: prev}}, patch: p}); err != nil {
			c.Fail("vdb deep-orders seq=%d: commit refused: %v", seq, err)
			return false
		}
		c.Emit("vdb-add %s %s %s | ok", pk, idStr(id), opsString(ops, false))
		ns := specs[pk].clone()
		for _, o := range ops {
			if o.del {
				delete(ns, string(o.k))
			} else {
				ns[string(o.k)] = o.v
			}
		}
		specs[idStr(id)] = ns
		chain = append(chain, id)
		return true
	}
	var story []string // the opens so far
	planned := 0       // how many of them belong to the plan (set when the sweep starts)
	nviews := 0
	check := func(height int, what string) bool {
		x := chain[height-1]
		F := len(chain)
		story = append(story, fmt.Sprintf("Get(%d) at frontier %d", height, F))
		if len(story) > planned+8 && planned > 0 {
			// (keeps the opens of the plan and the last eight of the sweep)
			story = append(append([]string{}, story[:planned]...), story[len(story)-8:]...)
		}
		var d db.DB
		pn := safely(func() { d = m.Get(x) })
		name := fmt.Sprintf("o%d", nviews)
		nviews++
		if d == nil {
			c.Emit("vdb-view %s %s | nil", name, idStr(x))
			c.Fail("vdb deep-orders seq=%d %s: view at height %d (%d below the frontier %d) could not be opened (panic=%s); opens so far: %s", seq, what, height, F-height, F, firstLine(pn), strings.Join(story, ", "))
			return false
		}
		c.Emit("vdb-view %s %s | ok", name, idStr(x))
		if got := db.GetFrontierIdentifier(d); got != x {
			c.Fail("vdb deep-orders seq=%d %s: the view opened at %s (height %d, frontier %d) identifies itself as %s; opens so far: %s", seq, what, idStr(x), height, F, idStr(got), strings.Join(story, ", "))
			return false
		}
		v := &vView{name: name, d: d, base: specs[idStr(x)].clone(), writes: map[string][]byte{}, version: idStr(x), hist: height < F}
		_, entries, _ := scanDB(d, nil)
		for _, pfx := range [][]byte{{3}, {4}} {
			g1, _, _ := scanDB(d, pfx)
			c.Emit("vdb-scan %s %s | %s", name, hx(pfx), g1)
		}
		ks := make([]string, 0, len(universe))
		for k := range universe {
			ks = append(ks, k)
		}
		sort.Strings(ks)
		for _, k := range ks {
			val, ok := v.lookup([]byte(k))
			gv, gerr := d.Get([]byte(k))
			has, _ := d.Has([]byte(k))
			if ok != (gerr == nil) || ok != has || (ok && !bytes.Equal(gv, val)) {
				c.Fail("vdb deep-orders seq=%d %s: view at height %d (%s, %d commits below the frontier %d) key %s: store says (%s,%v,has=%v), state as of that commit: present=%v value=%s; opens so far: %s",
					seq, what, height, idStr(x), F-height, F, hx([]byte(k)), hx(gv), gerr, has, ok, hx(val), strings.Join(story, ", "))
				return false
			}
		}
		tag := fmt.Sprintf("vdb deep-orders seq=%d %s (view at height %d, frontier %d; opens so far: %s)", seq, what, height, F, strings.Join(story, ", "))
		if !vdbScanAgreesWithReads(c, tag, v, nil, entries, universe) || !vdbScanAgreesWithShadow(c, tag, v, nil, entries) {
			return false
		}
		return true
	}
	// the plan: targets near the bottom, the depths at which each is opened
	type open struct {
		at, height int // frontier height at which `height` is opened
		fam        string
		twice      bool
	}
	var plan []open
	ntargets := 2 + c.R.Intn(2)
	fams := []string{"near-far", "far-far", "near-near-far", "twice-at-once"}
	last := 0
	for i := 0; i < ntargets; i++ {
		h := 1 + 3*i + c.R.Intn(3)
		fam := fams[(seq/40+i)%len(fams)]
		var ds []int
		switch fam {
		case "near-far":
			d1 := maxDiff - 1 - c.R.Intn(4)
			d2 := maxDiff + c.R.Intn(4)
			ds = []int{d1, d2}
			if c.R.Intn(2) == 0 {
				ds = append(ds, d2+1+c.R.Intn(5))
			}
		case "far-far":
			d1 := maxDiff + c.R.Intn(3)
			d2 := d1 + 1 + c.R.Intn(4)
			ds = []int{d1, d2}
			if c.R.Intn(2) == 0 {
				ds = append(ds, d2+1+c.R.Intn(5))
			}
		case "near-near-far":
			d2 := maxDiff - 1 - c.R.Intn(3)
			ds = []int{d2 - 1 - c.R.Intn(25), d2, maxDiff + c.R.Intn(3)}
		default:
			d1 := maxDiff + c.R.Intn(2)
			ds = []int{d1, d1, d1 + 1 + c.R.Intn(4)}
		}
		for j, d := range ds {
			plan = append(plan, open{at: h + d, height: h, fam: fam, twice: j > 0 && ds[j-1] == d})
			if h+d > last {
				last = h + d
			}
		}
		c.Hit("deep-orders-" + fam)
	}
	sort.SliceStable(plan, func(i, j int) bool { return plan[i].at < plan[j].at })
	tags := map[int]bool{}    // former frontiers: the tags of cached entries
	targets := map[int]bool{} // the identifiers that were opened
	for _, o := range plan {
		for len(chain) < o.at {
			if !commit() {
				return
			}
		}
		if !check(o.height, fmt.Sprintf("family %s, open at depth %d (boundary %d)", o.fam, o.at-o.height, maxDiff)) {
			return
		}
		tags[o.at], targets[o.height] = true, true
		c.Hit("deep-orders-opens")
		if o.at-o.height >= maxDiff {
			c.Hit("deep-orders-opens-beyond-boundary")
		}
	}
	planned = len(story)
	// the frontier advances once more, then every identifier that played a part is opened
	for i := 1 + c.R.Intn(4); i > 0; i-- {
		if !commit() {
			return
		}
	}
	sweep := map[int]string{}
	for t := range tags {
		for _, h := range []int{t, t - 1, t + 1} {
			if h >= 1 && h <= len(chain) && sweep[h] == "" {
				sweep[h] = fmt.Sprintf("former frontier %d", t)
				if h != t {
					sweep[h] = fmt.Sprintf("neighbour of the former frontier %d", t)
				}
			}
		}
	}
	for x := range targets {
		// (the deep views are the expensive ones for the model: the identifier itself, and one neighbour for one target in two)
		for _, h := range []int{x, x - 1 + 2*c.R.Intn(2)} {
			if h >= 1 && h <= len(chain) && sweep[h] == "" && (h == x || c.R.Intn(2) == 0) {
				sweep[h] = fmt.Sprintf("the identifier %d that was opened before (or its neighbour)", x)
			}
		}
	}
	sweep[len(chain)] = "the frontier"
	hs := make([]int, 0, len(sweep))
	for h := range sweep {
		hs = append(hs, h)
	}
	sort.Ints(hs)
	if c.R.Intn(2) == 0 { // either direction
		for i, j := 0, len(hs)-1; i < j; i, j = i+1, j-1 {
			hs[i], hs[j] = hs[j], hs[i]
		}
	}
	for _, h := range hs {
		if !check(h, "sweep: "+sweep[h]) {
			return
		}
		c.Hit("deep-orders-sweep-views")
	}
	// …and the former frontiers once more (now with a first-level entry of their own)
	for t := range tags {
		if c.R.Intn(3) == 0 {
			if !check(t, "second sweep") {
				return
			}
		}
	}
	c.Hit("deep-orders-scenario")
}

// vdbDirectedScans delivers, on every run, the family of inputs around the two repaired scan defects (former findings
// F3b / 734ff49 and 522bff7), with random keys and values:
//   X   = commit 1: kE := "" (the empty value), kO := one byte, kD := value, kS := value
//   X+1 = commit 2: delete kD, create kN, and one of {keep kE, delete kE, overwrite kE with a non-empty value}
//   (X+2 … a few random commits, sometimes)
// then: the view at X (below the frontier) must list kE with the empty value, kO, kD and kS and must not list kN; the
// view at the frontier likewise for its own state; a snapshot of the historical view with own writes (an empty value
// written, a key deleted through it) scans as it reads; after popping back to X the frontier — whose raw key space
// now holds a deleted entry for kN — must not list kN, and neither must a view opened on it, nor after re-creating and
// popping again. Every read is emitted for the Lean model and checked by the scan monitors.
func vdbDirectedScans(c *Ctx, seq int) {
	dir, err := os.MkdirTemp("", "zvdb")
	if err != nil {
		panic(err)
	}
	defer os.RemoveAll(dir)
	m := db.NewLevelDBManager(dir)
	defer func() { safely(func() { m.Stop() }) }()
	c.Emit("vdb-reset")
	counter := uint64(seq)<<32 | 1<<29
	newHash := func() types.Hash {
		counter++
		var h types.Hash
		binary.BigEndian.PutUint64(h[:8], counter)
		h[31] = 1
		return h
	}
	var chain []types.HashHeight
	specs := map[string]shadow{"0:": {}}
	universe := map[string]bool{}
	verKey := func() string {
		if len(chain) == 0 {
			return "0:"
		}
		return idStr(chain[len(chain)-1])
	}
	commit := func(ops []kvOp) bool {
		for _, o := range ops {
			universe[string(o.k)] = true
		}
		prev := types.ZeroHashHeight
		if len(chain) > 0 {
			prev = chain[len(chain)-1]
		}
		pk := verKey()
		id := types.HashHeight{Height: prev.Height + 1, Hash: newHash()}
		p := db.NewPatch()
		for _, o := range ops {
			if o.del {
				p.Delete(o.k)
			} else {
				p.Put(o.k, o.v)
			}
		}
		if err := m.Add(&vTx{commits: []db.Commit{&vCommit{id: id, prev: prev}}, patch: p}); err != nil {
			c.Emit("vdb-add %s %s %s | err", pk, idStr(id), opsString(ops, false))
			c.Fail("vdb directed seq=%d: commit on the frontier refused: %v", seq, err)
			return false
		}
		c.Emit("vdb-add %s %s %s | ok", pk, idStr(id), opsString(ops, false))
		ns := specs[pk].clone()
		for _, o := range ops {
			if o.del {
				delete(ns, string(o.k))
			} else {
				ns[string(o.k)] = o.v
			}
		}
		specs[idStr(id)] = ns
		chain = append(chain, id)
		return true
	}
	pop := func() bool {
		if err := m.Pop(); err != nil {
			c.Emit("vdb-pop | err")
			c.Fail("vdb directed seq=%d: pop of the frontier failed: %v", seq, err)
			return false
		}
		c.Emit("vdb-pop | ok")
		chain = chain[:len(chain)-1]
		return true
	}
	nviews := 0
	// reads every candidate key and scans the prefixes through the view; false = a monitor failed
	exercise := func(v *vView, what string) bool {
		tag := fmt.Sprintf("vdb directed seq=%d %s", seq, what)
		pre := v.rootPrefix()
		var ks []string
		for u := range universe {
			if bytes.HasPrefix([]byte(u), pre) {
				ks = append(ks, u[len(pre):])
			}
		}
		sort.Strings(ks)
		for _, ku := range ks {
			k := []byte(ku)
			got, gerr := v.d.Get(k)
			has, _ := v.d.Has(k)
			res := "notfound"
			if gerr == nil {
				res = "val:" + hx(got)
			} else if gerr != leveldb.ErrNotFound {
				res = "error"
			}
			c.Emit("vdb-get %s %s | %s", v.name, hx(k), res)
			c.Emit("vdb-has %s %s | %v", v.name, hx(k), has)
			want, ok := v.lookup(k)
			if ok != (gerr == nil) || ok != has || (ok && !bytes.Equal(want, got)) {
				c.Fail("%s: view %s@%s key %s: store says (%s, has=%v), state as of that commit (plus own writes): present=%v value=%s", tag, v.name, v.version, hx(k), res, has, ok, hx(want))
				return false
			}
		}
		prefixes := [][]byte{{3}, {4}}
		if len(ks) > 0 {
			k := []byte(ks[c.R.Intn(len(ks))])
			prefixes = append(prefixes, k, k[:1+c.R.Intn(len(k))])
		}
		for _, p := range prefixes {
			got, entries, _ := scanDB(v.d, p)
			c.Emit("vdb-scan %s %s | %s", v.name, hx(p), got)
			if !vdbScanAgreesWithReads(c, tag, v, p, entries, universe) || !vdbScanAgreesWithShadow(c, tag, v, p, entries) {
				return false
			}
			vdbScanCoverage(c, v, p, entries, universe)
		}
		return true
	}
	open := func(id types.HashHeight, what string) *vView {
		name := fmt.Sprintf("s%d", nviews)
		nviews++
		d := m.Get(id)
		if d == nil {
			c.Emit("vdb-view %s %s | nil", name, idStr(id))
			c.Fail("vdb directed seq=%d %s: view at %s (on the current chain) could not be opened", seq, what, idStr(id))
			return nil
		}
		c.Emit("vdb-view %s %s | ok", name, idStr(id))
		return &vView{name: name, d: d, base: specs[idStr(id)].clone(), writes: map[string][]byte{}, version: idStr(id), hist: id != chain[len(chain)-1]}
	}
	// distinct keys under one first byte, so that they interleave in key order
	first := byte(3 + c.R.Intn(2))
	var keys [][]byte
	for len(keys) < 6 {
		k := append([]byte{first}, vdbKey(c)[1:]...)
		if len(keys)%2 == 1 {
			k = append(k, byte(len(keys)))
		}
		dup := false
		for _, x := range keys {
			if bytes.Equal(x, k) {
				dup = true
			}
		}
		if !dup {
			keys = append(keys, k)
		}
	}
	kE, kO, kD, kS, kN, kW := keys[0], keys[1], keys[2], keys[3], keys[4], keys[5]
	nonEmpty := func() []byte { return append(vdbVal(c), byte(1+c.R.Intn(3))) }
	if !commit([]kvOp{{k: kE, v: []byte{}}, {k: kO, v: []byte{byte(c.R.Intn(2))}}, {k: kD, v: nonEmpty()}, {k: kS, v: nonEmpty()}}) {
		return
	}
	x := chain[0]
	ops2 := []kvOp{{del: true, k: kD}, {k: kN, v: vdbVal(c)}}
	switch c.R.Intn(3) {
	case 0:
		ops2 = append(ops2, kvOp{del: true, k: kE})
	case 1:
		ops2 = append(ops2, kvOp{k: kE, v: nonEmpty()})
	}
	if !commit(ops2) {
		return
	}
	for i := c.R.Intn(3); i > 0; i-- {
		var ops []kvOp
		for j := c.R.Intn(3); j >= 0; j-- {
			k := keys[c.R.Intn(len(keys)-1)]
			if c.R.Intn(3) == 0 {
				ops = append(ops, kvOp{del: true, k: k})
			} else {
				ops = append(ops, kvOp{k: k, v: vdbVal(c)})
			}
		}
		if !commit(ops) {
			return
		}
	}
	// the view at X, below the frontier, and the frontier
	vx := open(x, "view below the frontier")
	if vx == nil || !exercise(vx, "view below the frontier") {
		return
	}
	vf := open(chain[len(chain)-1], "view at the frontier")
	if vf == nil || !exercise(vf, "view at the frontier") {
		return
	}
	// a snapshot of the historical view with own writes: an empty value written, a key deleted, a key created
	{
		name := fmt.Sprintf("s%d", nviews)
		nviews++
		sd := vx.d.Snapshot()
		c.Emit("vdb-snap %s %s | ok", vx.name, name)
		sv := &vView{name: name, d: sd, parent: vx, writes: map[string][]byte{}, version: vx.version + "+snap"}
		universe[string(kW)] = true
		for _, o := range []kvOp{{k: kS, v: []byte{}}, {del: true, k: kO}, {k: kW, v: vdbVal(c)}} {
			if o.del {
				e := sd.Delete(o.k)
				c.Emit("vdb-del %s %s | %v", name, hx(o.k), e == nil)
			} else {
				e := sd.Put(o.k, o.v)
				c.Emit("vdb-put %s %s %s | %v", name, hx(o.k), hx(o.v), e == nil)
			}
			sv.write(o.k, o.v, o.del)
		}
		if !exercise(sv, "snapshot with own writes over the view below the frontier") {
			return
		}
		// … and a Subset window onto it
		pfx := []byte{first}
		name2 := fmt.Sprintf("s%d", nviews)
		nviews++
		ud := sd.Subset(pfx)
		c.Emit("vdb-subset %s %s %s | ok", name, name2, hx(pfx))
		uv := &vView{name: name2, d: ud, parent: sv, isSub: true, prefix: pfx, version: sv.version + "+sub"}
		tag := fmt.Sprintf("vdb directed seq=%d subset of the snapshot", seq)
		for _, p := range [][]byte{kE[1:], {0}, {1}, {3}, {4}, {255}} {
			if len(p) == 0 {
				continue
			}
			got, entries, _ := scanDB(ud, p)
			c.Emit("vdb-scan %s %s | %s", name2, hx(p), got)
			if !vdbScanAgreesWithReads(c, tag, uv, p, entries, universe) || !vdbScanAgreesWithShadow(c, tag, uv, p, entries) {
				return
			}
		}
	}
	// roll back to X: the frontier's raw key space now holds deleted entries for everything created after X
	for len(chain) > 1 {
		if !pop() {
			return
		}
	}
	vp := open(x, "frontier after rolling back to it")
	if vp == nil || !exercise(vp, "frontier after rolling back to it") {
		return
	}
	// the earlier view at X still reads and scans the same
	if !exercise(vx, "view opened below the frontier, after the rollback made it the frontier") {
		return
	}
	// commit on top again (kN stays deleted, another key created), look at X from below the new frontier; pop once more
	if !commit([]kvOp{{k: kW, v: vdbVal(c)}, {k: kE, v: nonEmpty()}}) {
		return
	}
	vy := open(x, "view below the new frontier")
	if vy == nil || !exercise(vy, "view below the new frontier") {
		return
	}
	vg := open(chain[len(chain)-1], "new frontier")
	if vg == nil || !exercise(vg, "new frontier") {
		return
	}
	if !pop() {
		return
	}
	vz := open(x, "frontier after the second rollback")
	if vz == nil || !exercise(vz, "frontier after the second rollback") {
		return
	}
	c.Hit("directed-scan-scenario")
}

// gatedPatch lets the harness stop a commit at the points where ldbManager.Add calls into the patch:
// Replay is called (by RollbackPatch) after the parent view was opened and before the manager's lock is taken,
// Dump is called while the lock is held, right before the write.
type gatedPatch struct {
	db.Patch
	onDump   func()
	onReplay func()
}

func (g *gatedPatch) Dump() []byte {
	if g.onDump != nil {
		f := g.onDump
		g.onDump = nil
		f()
	}
	return g.Patch.Dump()
}
func (g *gatedPatch) Replay(r db.PatchReplayer) error {
	if g.onReplay != nil {
		f := g.onReplay
		g.onReplay = nil
		f()
	}
	return g.Patch.Replay(r)
}

// vdbTwoWriters: two commits on the SAME parent issued concurrently, with the first one held while it owns the
// manager's lock (inside Dump, right before its write). Whatever the interleaving, exactly one of them may be applied:
// afterwards the frontier is one of the two, and the store holds exactly that commit's keys on top of the parent.
func vdbTwoWriters(c *Ctx, seq int) {
	dir, err := os.MkdirTemp("", "zvdb")
	if err != nil {
		panic(err)
	}
	defer os.RemoveAll(dir)
	m := db.NewLevelDBManager(dir)
	defer func() { safely(func() { m.Stop() }) }()
	mk := func(h uint64, tag byte) types.HashHeight {
		var hash types.Hash
		binary.BigEndian.PutUint64(hash[:8], uint64(seq)<<32|uint64(tag)<<16|h)
		hash[31] = 2
		return types.HashHeight{Height: h, Hash: hash}
	}
	base := db.NewPatch()
	base.Put([]byte{3, 1}, []byte{1})
	root := mk(1, 0)
	if err := m.Add(&vTx{commits: []db.Commit{&vCommit{id: root, prev: types.ZeroHashHeight}}, patch: base}); err != nil {
		c.Fail("vdb writers seq=%d: %v", seq, err)
		return
	}
	ida, idb := mk(2, 1), mk(2, 2)
	pa, pb := db.NewPatch(), db.NewPatch()
	pa.Put([]byte{3, 0xa}, []byte{0xa})
	pb.Put([]byte{3, 0xb}, []byte{0xb})
	hold, inLock, bReady := make(chan struct{}), make(chan struct{}), make(chan struct{})
	ga := &gatedPatch{Patch: pa, onDump: func() { close(inLock); <-hold }}
	// writer B has opened its parent view and is about to look at the frontier / take the lock when A gets going
	gb := &gatedPatch{Patch: pb, onReplay: func() { close(bReady); <-inLock }}
	done := make(chan error, 2)
	go func() { done <- m.Add(&vTx{commits: []db.Commit{&vCommit{id: idb, prev: root}}, patch: gb}) }()
	<-bReady
	go func() { done <- m.Add(&vTx{commits: []db.Commit{&vCommit{id: ida, prev: root}}, patch: ga}) }()
	<-inLock // writer A is accepted and about to write, holding the lock; writer B resumes now
	time.Sleep(time.Duration(20+c.R.Intn(40)) * time.Millisecond)
	close(hold)
	<-done
	<-done
	f := m.Frontier()
	fid := db.GetFrontierIdentifier(f)
	_, ha := f.Get([]byte{3, 0xa})
	_, hb := f.Get([]byte{3, 0xb})
	hasA, hasB := ha == nil, hb == nil
	c.Hit("two-writers")
	switch {
	case fid == ida && hasA && !hasB:
	case fid == idb && hasB && !hasA:
	default:
		c.Fail("vdb writers seq=%d: two commits on the same parent issued concurrently: frontier is %s (A=%s B=%s) and the store holds A's key=%v B's key=%v — a commit on a parent that is no longer the frontier was applied", seq, idStr(fid), idStr(ida), idStr(idb), hasA, hasB)
		return
	}
	// the view at the parent still shows the parent's state
	if v := m.Get(root); v != nil {
		if _, e := v.Get([]byte{3, 0xa}); e == nil {
			c.Fail("vdb writers seq=%d: view at the parent shows the key written by a later commit", seq)
		}
		if _, e := v.Get([]byte{3, 0xb}); e == nil {
			c.Fail("vdb writers seq=%d: view at the parent shows the key written by a later commit", seq)
		}
	}
}

// ---------------------------------------------------------------------------------------------------
// vdbDirectedPrefixKeys: the family of keys around one prefix p — the record stored under the bare prefix (the EMPTY
// key of Subset(p); for p = "" the empty key of the store itself), p·00, p·00·00, p·ff, p·ff·ff, p·01 and the keys next
// to p on both sides — present / absent at commit X, then overwritten / deleted / created / re-created / kept at X+1
// (and by a third commit), and again through the upper layer of every kind of layered view:
//   the view at X below the frontier (rollback overlay over the frontier), the frontier,
//   Subset(p) of each, Subset(p).Snapshot() with the empty key overwritten / deleted / created / deleted-and-re-created
//   in the snapshot, Snapshot() with p written the same way and Subset(p) of that, a snapshot of the snapshot;
//   the same after popping back to X.
// Every view is read on every candidate key and scanned under the empty prefix, under p (prefix == key), under the
// members of the family and, inside the windows, under "", 00, 00·00, ff. Each scan is emitted for the Lean model and
// checked by the two scan monitors (against Get/Has of the same view incl. strict key order; against the state as of the commit).
// ---------------------------------------------------------------------------------------------------

type vdbRig struct {
	c        *Ctx
	seq      int
	what     string
	m        db.Manager
	chain    []types.HashHeight
	specs    map[string]shadow
	universe map[string]bool
	counter  uint64
	nviews   int
	vprefix  string
}

func (r *vdbRig) verKey() string {
	if len(r.chain) == 0 {
		return "0:"
	}
	return idStr(r.chain[len(r.chain)-1])
}

func (r *vdbRig) commit(ops []kvOp) bool {
	c := r.c
	for _, o := range ops {
		r.universe[string(o.k)] = true
	}
	prev := types.ZeroHashHeight
	if len(r.chain) > 0 {
		prev = r.chain[len(r.chain)-1]
	}
	pk := r.verKey()
	r.counter++
	var h types.Hash
	binary.BigEndian.PutUint64(h[:8], r.counter)
	h[31] = 1
	id := types.HashHeight{Height: prev.Height + 1, Hash: h}
	p := db.NewPatch()
	for _, o := range ops {
		if o.del {
			p.Delete(o.k)
		} else {
			p.Put(o.k, o.v)
		}
	}
	var aerr error
	if pn := safely(func() { aerr = r.m.Add(&vTx{commits: []db.Commit{&vCommit{id: id, prev: prev}}, patch: p}) }); pn != "" || aerr != nil {
		c.Emit("vdb-add %s %s %s | err", pk, idStr(id), opsString(ops, false))
		c.Fail("%s seq=%d: commit [%s] on the frontier %s refused: %v %s", r.what, r.seq, opsString(ops, false), pk, aerr, pn)
		return false
	}
	c.Emit("vdb-add %s %s %s | ok", pk, idStr(id), opsString(ops, false))
	ns := r.specs[pk].clone()
	for _, o := range ops {
		if o.del {
			delete(ns, string(o.k))
		} else {
			ns[string(o.k)] = o.v
		}
	}
	r.specs[idStr(id)] = ns
	r.chain = append(r.chain, id)
	return true
}

func (r *vdbRig) pop() bool {
	var perr error
	if pn := safely(func() { perr = r.m.Pop() }); pn != "" || perr != nil {
		r.c.Emit("vdb-pop | err")
		r.c.Fail("%s seq=%d: pop of the frontier %s failed: %v %s", r.what, r.seq, r.verKey(), perr, pn)
		return false
	}
	r.c.Emit("vdb-pop | ok")
	r.chain = r.chain[:len(r.chain)-1]
	return true
}

func (r *vdbRig) newName() string {
	r.nviews++
	return fmt.Sprintf("%s%d", r.vprefix, r.nviews-1)
}

func (r *vdbRig) open(id types.HashHeight) *vView {
	name := r.newName()
	var d db.DB
	safely(func() { d = r.m.Get(id) })
	if d == nil {
		r.c.Emit("vdb-view %s %s | nil", name, idStr(id))
		r.c.Fail("%s seq=%d: view at %s (on the current chain) could not be opened", r.what, r.seq, idStr(id))
		return nil
	}
	r.c.Emit("vdb-view %s %s | ok", name, idStr(id))
	return &vView{name: name, d: d, base: r.specs[idStr(id)].clone(), writes: map[string][]byte{}, version: idStr(id), hist: id != r.chain[len(r.chain)-1]}
}

func (r *vdbRig) snapshot(v *vView) *vView {
	name := r.newName()
	d := v.d.Snapshot()
	r.c.Emit("vdb-snap %s %s | ok", v.name, name)
	return &vView{name: name, d: d, parent: v, writes: map[string][]byte{}, version: v.version + "+snap"}
}

func (r *vdbRig) subset(v *vView, p []byte) *vView {
	name := r.newName()
	d := v.d.Subset(p)
	r.c.Emit("vdb-subset %s %s %s | ok", v.name, name, hx(p))
	return &vView{name: name, d: d, parent: v, isSub: true, prefix: append([]byte{}, p...), version: v.version + "+sub"}
}

func (r *vdbRig) write(v *vView, o kvOp) {
	r.universe[string(v.rootPrefix())+string(o.k)] = true
	if o.del {
		e := v.d.Delete(o.k)
		r.c.Emit("vdb-del %s %s | %v", v.name, hx(o.k), e == nil)
	} else {
		e := v.d.Put(o.k, o.v)
		r.c.Emit("vdb-put %s %s %s | %v", v.name, hx(o.k), hx(o.v), e == nil)
	}
	v.write(o.k, o.v, o.del)
}

// exercise: Get + Has of every candidate key of the view, then the scans; false = a monitor failed
func (r *vdbRig) exercise(v *vView, what string, prefixes [][]byte) bool {
	c := r.c
	tag := fmt.Sprintf("%s seq=%d %s", r.what, r.seq, what)
	pre := v.rootPrefix()
	var ks []string
	for u := range r.universe {
		if bytes.HasPrefix([]byte(u), pre) {
			ks = append(ks, u[len(pre):])
		}
	}
	sort.Strings(ks)
	for _, ku := range ks {
		k := []byte(ku)
		got, gerr := v.d.Get(k)
		has, _ := v.d.Has(k)
		res := "notfound"
		if gerr == nil {
			res = "val:" + hx(got)
		} else if gerr != leveldb.ErrNotFound {
			res = "error"
		}
		c.Emit("vdb-get %s %s | %s", v.name, hx(k), res)
		c.Emit("vdb-has %s %s | %v", v.name, hx(k), has)
		want, ok := v.lookup(k)
		if ok != (gerr == nil) || ok != has || (ok && !bytes.Equal(want, got)) {
			c.Fail("%s: view %s@%s key %s: store says (%s, has=%v), state as of that commit (plus own writes): present=%v value=%s", tag, v.name, v.version, hx(k), res, has, ok, hx(want))
			return false
		}
	}
	seen := map[string]bool{}
	for _, p := range prefixes {
		if seen[string(p)] {
			continue
		}
		seen[string(p)] = true
		got, entries, _ := scanView(v, p)
		emitScan(c, v, p, got)
		if !vdbScanAgreesWithReads(c, tag, v, p, entries, r.universe) || !vdbScanAgreesWithShadow(c, tag, v, p, entries) {
			return false
		}
		vdbScanCoverage(c, v, p, entries, r.universe)
		if len(entries) > 0 && len(entries[0][0]) == 0 {
			c.Hit("scan-lists-empty-key")
			if !v.isSub && (v.parent != nil || v.hist) {
				c.Hit("scan-layered-view-lists-empty-key")
			}
		}
		if len(p) == 0 {
			c.Hit("scan-empty-prefix")
		}
	}
	return true
}

func vdbDirectedPrefixKeys(c *Ctx, seq int) {
	dir, err := os.MkdirTemp("", "zvdb")
	if err != nil {
		panic(err)
	}
	defer os.RemoveAll(dir)
	m := db.NewLevelDBManager(dir)
	defer func() { safely(func() { m.Stop() }) }()
	c.Emit("vdb-reset")
	r := &vdbRig{c: c, seq: seq, what: "vdb prefix-keys", m: m, specs: map[string]shadow{"0:": {}}, universe: map[string]bool{},
		counter: uint64(seq)<<32 | 1<<28, vprefix: "k"}

	// the prefix p, in root coordinates
	var p []byte
	switch c.R.Intn(8) {
	case 0, 1:
		p = []byte{} // the store's own empty key
	case 2:
		p = []byte{byte(3 + c.R.Intn(2))}
	case 3:
		p = append([]byte{}, vdbRootSingles[c.R.Intn(len(vdbRootSingles))]...)
	case 4:
		p = []byte{byte(3 + c.R.Intn(2)), []byte{0, 0xff}[c.R.Intn(2)]}
	default:
		p = vdbKey(c)
	}
	join := func(a []byte, b ...byte) []byte { return append(append([]byte{}, a...), b...) }
	family := [][]byte{p, join(p, 0), join(p, 0, 0), join(p, 0xff), join(p, 0xff, 0xff), join(p, 1), join(p, 0, 0xff), join(p, byte(3+c.R.Intn(2)))}
	if len(p) > 0 {
		last := p[len(p)-1]
		if last > 0 && (len(p) > 1 || last > 3) {
			family = append(family, join(p[:len(p)-1], last-1), join(p[:len(p)-1], last-1, 0xff)) // just below p
		}
		if last < 0xff {
			family = append(family, join(p[:len(p)-1], last+1)) // just above everything under p
		}
		if len(p) > 1 {
			family = append(family, join(p[:len(p)-1])) // the parent prefix
		}
	}
	if len(p) == 0 {
		family = append(family, []byte{3}, []byte{3, 0}, []byte{0x55}, []byte{0xff, 0})
	}
	rootOK := func(k []byte) bool { return len(k) == 0 || k[0] >= 3 }
	{
		f := family[:0]
		seen := map[string]bool{}
		for _, k := range family {
			if rootOK(k) && !seen[string(k)] {
				seen[string(k)] = true
				f = append(f, k)
			}
		}
		family = f
	}
	for _, k := range family {
		r.universe[string(k)] = true
	}
	nonEmpty := func() []byte { return append(vdbVal(c), byte(1+c.R.Intn(3))) }
	val := func() []byte {
		if c.R.Intn(5) == 0 {
			return []byte{}
		}
		return nonEmpty()
	}
	// commit X: p present (3 of 4 runs), the others present with probability 2/3
	var ops []kvOp
	pAtX := c.R.Intn(4) != 0
	for i, k := range family {
		if (i == 0 && pAtX) || (i > 0 && c.R.Intn(3) != 0) {
			ops = append(ops, kvOp{k: k, v: val()})
		}
	}
	if len(ops) == 0 {
		ops = append(ops, kvOp{k: family[len(family)-1], v: nonEmpty()})
	}
	if !r.commit(ops) {
		return
	}
	x := r.chain[0]
	// commit X+1: p overwritten / deleted / created / kept; the others at random
	ops = nil
	switch c.R.Intn(4) {
	case 0, 1:
		ops = append(ops, kvOp{k: p, v: nonEmpty()}) // overwrite, or create when absent at X
	case 2:
		ops = append(ops, kvOp{del: true, k: p})
	}
	for _, k := range family[1:] {
		switch c.R.Intn(4) {
		case 0:
			ops = append(ops, kvOp{k: k, v: val()})
		case 1:
			ops = append(ops, kvOp{del: true, k: k})
		}
	}
	if !r.commit(ops) {
		return
	}
	// sometimes a third commit that re-creates / deletes p again
	if c.R.Intn(2) == 0 {
		ops = nil
		if c.R.Intn(2) == 0 {
			ops = append(ops, kvOp{k: p, v: val()})
		} else {
			ops = append(ops, kvOp{del: true, k: p})
		}
		ops = append(ops, kvOp{k: family[c.R.Intn(len(family))], v: val()})
		if !r.commit(ops) {
			return
		}
	}

	rootPrefixes := [][]byte{{}, p, join(p, 0), join(p, 0xff), join(p, 0, 0)}
	if len(p) > 1 {
		rootPrefixes = append(rootPrefixes, p[:len(p)-1])
	}
	if len(p) == 0 {
		rootPrefixes = append(rootPrefixes, []byte{3}, []byte{0xff})
	}
	{
		f := rootPrefixes[:0]
		for _, k := range rootPrefixes {
			if rootOK(k) {
				f = append(f, k)
			}
		}
		rootPrefixes = f
	}
	relPrefixes := [][]byte{{}, {0}, {0, 0}, {0xff}, {0xff, 0xff}, {1}}
	relSingles := vdbRelSingles
	if len(p) == 0 {
		// Subset("") is the identity window: its coordinates are the root's, where 0..2 lead the bookkeeping entries
		relPrefixes, relSingles = rootPrefixes, vdbRootSingles
	}
	// the modes in which the bare-prefix record is written through the upper layer of a layered view
	writeMode := func(v *vView, k []byte, mode int) {
		switch mode {
		case 0: // overwrite (or create)
			r.write(v, kvOp{k: k, v: nonEmpty()})
		case 1: // delete
			r.write(v, kvOp{del: true, k: k})
		case 2: // delete, then re-create
			r.write(v, kvOp{del: true, k: k})
			r.write(v, kvOp{k: k, v: val()})
		case 3: // the empty value
			r.write(v, kvOp{k: k, v: []byte{}})
		default: // not written in this layer; a sibling is
		}
	}
	layered := func(base *vView, what string) bool {
		if !r.exercise(base, what, rootPrefixes) {
			return false
		}
		// the window onto p
		sub := r.subset(base, p)
		if !r.exercise(sub, what+", Subset(p)", relPrefixes) {
			return false
		}
		// Subset(p).Snapshot(): the empty key in the snapshot's own layer
		ss := r.snapshot(sub)
		writeMode(ss, []byte{}, c.R.Intn(5))
		if c.R.Intn(2) == 0 {
			r.write(ss, kvOp{k: relSingles[c.R.Intn(len(relSingles))], v: val()})
		}
		if !r.exercise(ss, what+", Subset(p).Snapshot() with own writes", relPrefixes) {
			return false
		}
		// a snapshot of that snapshot, the empty key written once more (three layers)
		s3 := r.snapshot(ss)
		writeMode(s3, []byte{}, c.R.Intn(5))
		if !r.exercise(s3, what+", Subset(p).Snapshot().Snapshot() with own writes", relPrefixes) {
			return false
		}
		// Snapshot() with p written through it, and the window onto p of that
		sn := r.snapshot(base)
		writeMode(sn, p, c.R.Intn(5))
		if c.R.Intn(2) == 0 {
			r.write(sn, kvOp{del: c.R.Intn(2) == 0, k: family[c.R.Intn(len(family))], v: val()})
		}
		if !r.exercise(sn, what+", Snapshot() with own writes", rootPrefixes) {
			return false
		}
		sns := r.subset(sn, p)
		if !r.exercise(sns, what+", Snapshot().Subset(p)", relPrefixes) {
			return false
		}
		// the earlier views are not disturbed by the writes of their descendants
		return r.exercise(sub, what+", Subset(p) after writes through its snapshots", relPrefixes[:2])
	}

	vx := r.open(x)
	if vx == nil || !layered(vx, "view below the frontier") {
		return
	}
	vf := r.open(r.chain[len(r.chain)-1])
	if vf == nil || !layered(vf, "view at the frontier") {
		return
	}
	// pop back to X; the frontier's raw key space now holds deleted entries for what was created after X
	for len(r.chain) > 1 {
		if !r.pop() {
			return
		}
	}
	vp := r.open(x)
	if vp == nil || !layered(vp, "frontier after rolling back to it") {
		return
	}
	if !r.exercise(vx, "view opened below the frontier, after the rollback made it the frontier", rootPrefixes) {
		return
	}
	// a new commit on top that changes p again; X from below the new frontier
	if !r.commit([]kvOp{{k: p, v: nonEmpty()}, {k: family[c.R.Intn(len(family))], v: val()}}) {
		return
	}
	vy := r.open(x)
	if vy == nil || !layered(vy, "view below the new frontier") {
		return
	}
	c.Hit("directed-prefix-keys-scenario")
	if len(p) == 0 {
		c.Hit("directed-prefix-keys-scenario-empty-root-key")
	}
}
