package main

import (
	"fmt"
	"go/ast"
	"go/parser"
	"go/token"
	"os"
	"path/filepath"
	"sort"
	"strings"
)

// nondetSites: AST scan of the packages that decide what a block does to the ledger for sources of
// node-local nondeterminism: wall clock, random numbers, environment, goroutine starts, select statements.
// (map iteration order is covered by the two-node sync stream, not by this scan.)
func init() {
	factGens = append(factGens, func(repo string) (*factFile, error) {
		pkgs := []string{"vm", "vm/vm_context", "vm/embedded", "vm/embedded/implementation", "vm/embedded/definition", "vm/abi", "vm/constants",
			"verifier", "chain", "chain/account", "chain/account/mailbox", "chain/momentum", "chain/nom", "chain/store", "chain/genesis",
			"consensus", "consensus/storage", "common/db", "common/types"}
		var sites []string
		// globalRand: every reference (call or function value) to a package-level function of math/rand, math/rand/v2 or
		// crypto/rand in these packages, under whatever name the file imports the package. Only the constructors of a
		// locally seeded generator (rand.New, rand.NewSource, ...) and the type names are exempt: the process-wide generator
		// is shared with every other goroutine of the node, so a value drawn from it is not a function of the ledger.
		var globalRand []string
		randCtor := map[string]bool{"New": true, "NewSource": true, "NewZipf": true, "NewPCG": true, "NewChaCha8": true,
			"Rand": true, "Source": true, "Source64": true, "Zipf": true, "PCG": true, "ChaCha8": true}
		for _, pk := range pkgs {
			dir := filepath.Join(repo, pk)
			ents, err := os.ReadDir(dir)
			if err != nil {
				return nil, err
			}
			for _, e := range ents {
				name := e.Name()
				if e.IsDir() || !strings.HasSuffix(name, ".go") || strings.HasSuffix(name, "_test.go") || strings.HasSuffix(name, "_verif.go") || strings.HasSuffix(name, ".pb.go") {
					continue
				}
				fset := token.NewFileSet()
				f, err := parser.ParseFile(fset, filepath.Join(dir, name), nil, 0)
				if err != nil {
					return nil, err
				}
				// local names of the random-number packages in this file (import aliases included)
				randPkg := map[string]string{}
				for _, im := range f.Imports {
					path := strings.Trim(im.Path.Value, "\"`")
					if path != "math/rand" && path != "math/rand/v2" && path != "crypto/rand" {
						continue
					}
					local := "rand"
					if im.Name != nil {
						local = im.Name.Name
					}
					randPkg[local] = path
				}
				var fn string
				ast.Inspect(f, func(n ast.Node) bool {
					switch x := n.(type) {
					case *ast.SelectorExpr:
						if id, ok := x.X.(*ast.Ident); ok && id.Obj == nil {
							if path, isRand := randPkg[id.Name]; isRand && (path == "crypto/rand" || !randCtor[x.Sel.Name]) {
								globalRand = append(globalRand, fmt.Sprintf("%s/%s:%s:%s.%s", pk, name, fn, path, x.Sel.Name))
							}
						}
					case *ast.FuncDecl:
						fn = x.Name.Name
						if x.Recv != nil && len(x.Recv.List) > 0 {
							t := x.Recv.List[0].Type
							if st, ok := t.(*ast.StarExpr); ok {
								t = st.X
							}
							if id, ok := t.(*ast.Ident); ok {
								fn = id.Name + "." + fn
							}
						}
					case *ast.CallExpr:
						if sel, ok := x.Fun.(*ast.SelectorExpr); ok {
							if id, ok := sel.X.(*ast.Ident); ok {
								full := id.Name + "." + sel.Sel.Name
								_, isRand := randPkg[id.Name]
								if isRand && id.Obj == nil {
									full = "rand." + sel.Sel.Name
								}
								switch {
								case full == "time.Now" || full == "time.Since" || full == "time.Until",
									isRand && id.Obj == nil,
									full == "os.Getenv" || full == "os.Hostname" || full == "os.Getpid",
									full == "runtime.NumCPU" || full == "runtime.NumGoroutine":
									sites = append(sites, fmt.Sprintf("%s/%s:%s:%s", pk, name, fn, full))
								}
							}
						}
					case *ast.GoStmt:
						sites = append(sites, fmt.Sprintf("%s/%s:%s:go", pk, name, fn))
					case *ast.SelectStmt:
						sites = append(sites, fmt.Sprintf("%s/%s:%s:select", pk, name, fn))
					}
					return true
				})
			}
		}
		sort.Strings(sites)
		sort.Strings(globalRand)
		f := newFactFile("Nondet")
		f.raw("-- sources of node-local nondeterminism in the packages that decide the effect of blocks\n")
		f.strList("nondetSites", sites)
		f.raw("-- references to the PROCESS-WIDE random generators (package-level functions of math/rand, math/rand/v2, crypto/rand)\n")
		f.strList("globalRandSites", globalRand)
		return f, nil
	})
}
