package main

import (
	"fmt"
	"math/big"
	"sort"
	"strings"
	"time"

	"github.com/zenon-network/go-zenon/chain"
	g "github.com/zenon-network/go-zenon/chain/genesis/mock"
	"github.com/zenon-network/go-zenon/chain/nom"
	"github.com/zenon-network/go-zenon/chain/store"
	"github.com/zenon-network/go-zenon/common/types"
	"github.com/zenon-network/go-zenon/vm"
	"github.com/zenon-network/go-zenon/vm/constants"
	"github.com/zenon-network/go-zenon/vm/embedded/definition"
)

// ---------------------------------------------------------------------------------------------------
// plasma-reorg stream (C12): plasma accounting ACROSS REORGANISATIONS AND POOL OPERATIONS.
//
// Per history a producing node builds a trunk (fusions for accounts without genesis plasma, blocks paid with them) and a
// branch A on which more QSR is fused (a fusion whose receive sits in A's last momentum, a fusion for another beneficiary),
// trunk fusions are cancelled and the accounts publish blocks paid with fused plasma - confirmed by A's momentums and,
// at A's tip, UNCONFIRMED ones (1-3 per account, acknowledging A's tip, an older momentum of A or of the trunk). A follower
// (second real node behind protocol.ChainBridge) receives trunk + A by InsertChain and the unconfirmed blocks by gossip.
// Then the producer abandons the upper 1-3 momentums (chain.RollbackTo), the pooled blocks arrive again (gossip
// re-delivery, before and in between the new momentums), and a longer branch B is built on which the fusions differ:
// the same QSR fused for ANOTHER beneficiary, trunk fusions cancelled, nothing fused at all; the accounts keep publishing.
// The follower receives B through InsertChain (the bridge rolls back and inserts the side chain), the pooled blocks arrive
// once more, and the follower produces one momentum from its own pool the way a pillar does.
//
// Model-free monitor, after EVERY operation and on both nodes, for every block of the tracked accounts that the ledger
// confirms or the unconfirmed pool holds - the sentence of the property, with every figure computed by the harness from the
// chain the block is NOW on (nothing is asked of vm.AvailablePlasma, GetStakeBeneficialAmount or the chain-plasma counters):
//   - the block's acknowledged momentum is a momentum of this chain (otherwise nothing is fused for it "as of" it);
//   - fused plasma <= plasma of the QSR fused for the account as of that momentum - the replay of the Fuse / CancelFuse
//     receives of the plasma contract's account chain confirmed up to it, plus the genesis entries of the genesis config -
//     minus the fused plasma of the account's earlier blocks which that momentum does not confirm (pooled ones and ones
//     confirmed above it);
//   - fused + proof-of-work plasma >= the base cost, <= the per-block cap, the proof-of-work claim is met by the nonce.
// Counters: the fused QSR the node records for the account (what AvailablePlasma reads) equals the replay at the frontier;
// the account's chain-plasma counter in the ledger equals the sum of the FusedPlasma of its confirmed blocks, the one of
// the pool's frontier store that sum + the pooled blocks; after the reorganisation every tracked figure of the producer and
// of the reorganised follower equals that of a FRESH node which was only ever fed the adopted chain (and the follower's
// whole ledger key space is byte-equal to the fresh node's).
//
// Correspondence (plasma-avail lines): the real vm.AvailablePlasma(momentum store of height h, frontier account store) for
// h = frontier, frontier-1, frontier-2 and the fork point, after every operation, against the Lean model availableOnChain
// fed with the replayed receives (height:delta) and the account's blocks (confirmation height or pooled : fused plasma);
// theorem available_history_free / available_same_on_agreeing_chains: nothing but the chain at h and the blocks
// unconfirmed as of h enters.
// ---------------------------------------------------------------------------------------------------

func init() {
	register("plasma-reorg", func(c *Ctx) {
		for i := 0; i < c.N; i++ {
			plasmaReorgHistory(c, i)
		}
	})
}

type prFuseEv struct {
	height uint64
	ben    types.Address
	delta  *big.Int
}

// prGenesisFused: QSR fused for a by the genesis config
func prGenesisFused(a types.Address) *big.Int {
	sum := big.NewInt(0)
	if g.EmbeddedGenesis.PlasmaConfig != nil {
		for _, e := range g.EmbeddedGenesis.PlasmaConfig.Fusions {
			if e.Beneficiary == a && e.Amount != nil {
				sum.Add(sum, e.Amount)
			}
		}
	}
	return sum
}

// prReplay: the Fuse / CancelFuse receives of the plasma contract's confirmed account chain on the chain `st` is the frontier
// of, with the height of the momentum that confirms each (stateless: recomputed from the ledger on every call).
// unknown = a cancel of an entry the replay has not seen (a genesis entry) succeeded.
func prReplay(st store.Momentum) (evs []prFuseEv, unknown bool, problem string) {
	cs := st.GetAccountStore(types.PlasmaContract)
	fr, _ := cs.Frontier()
	if fr == nil {
		return nil, false, ""
	}
	entries := map[types.Hash]fuseEntry{}
	for h := uint64(1); h <= fr.Height; h++ {
		r, err := cs.ByHeight(h)
		if err != nil || r == nil {
			return nil, false, fmt.Sprintf("plasma contract block %d unreadable: %v", h, err)
		}
		if r.BlockType != nom.BlockTypeContractReceive {
			continue
		}
		send, err := st.GetAccountBlockByHash(r.FromBlockHash)
		if err != nil || send == nil {
			return nil, false, fmt.Sprintf("send block of plasma contract receive %d not found", h)
		}
		conf, err := st.GetBlockConfirmationHeight(r.Hash)
		if err != nil || conf == 0 {
			return nil, false, fmt.Sprintf("plasma contract receive %d has no confirmation height: %v", h, err)
		}
		refund := isRefundOf(send, r)
		switch embeddedMethodName(send.ToAddress, send.Data) {
		case "plasma.Fuse":
			ben := new(types.Address)
			if err := definition.ABIPlasma.UnpackMethod(ben, definition.FuseMethodName, send.Data); err != nil {
				continue
			}
			if refund || send.Amount == nil || send.TokenStandard != types.QsrTokenStandard || send.Amount.Cmp(big.NewInt(10*g.Zexp)) < 0 {
				continue // judged by the ledger replay of the plasma stream
			}
			entries[send.Hash] = fuseEntry{*ben, new(big.Int).Set(send.Amount)}
			evs = append(evs, prFuseEv{conf, *ben, new(big.Int).Set(send.Amount)})
		case "plasma.CancelFuse":
			if refund || len(r.DescendantBlocks) == 0 {
				continue
			}
			id := new(types.Hash)
			if err := definition.ABIPlasma.UnpackMethod(id, definition.CancelFuseMethodName, send.Data); err != nil {
				continue
			}
			e, known := entries[*id]
			if !known {
				unknown = true
				continue
			}
			delete(entries, *id)
			evs = append(evs, prFuseEv{conf, e.ben, new(big.Int).Neg(e.amount)})
		}
	}
	return evs, unknown, ""
}

func prFusedAt(evs []prFuseEv, a types.Address, h uint64) *big.Int {
	sum := prGenesisFused(a)
	for _, e := range evs {
		if e.ben == a && e.height <= h {
			sum.Add(sum, e.delta)
		}
	}
	return sum
}

// prNode: a chain under audit (the producer's or a follower's)
type prNode struct {
	c       *Ctx
	name    string
	ch      chain.Chain
	id      int
	tracked []types.Address
	fork    uint64 // height of the fork point once known (plasma-avail lines are asked there too)
	stop    bool   // a monitor failed on this node: one report per history is enough
}

func (p *prNode) fail(where, format string, a ...interface{}) {
	p.c.Fail("plasma-reorg run=%d node=%s h=%d after %s: %s", p.id, p.name, p.ch.GetFrontierMomentumStore().Identifier().Height, where, fmt.Sprintf(format, a...))
	p.stop = true
}

type prBlk struct {
	b         *nom.AccountBlock
	confirmed bool
	conf      uint64
}

// audit: the property's sentence on every confirmed / pooled block of the tracked accounts + counters + plasma-avail lines
func (p *prNode) audit(where string) {
	if p.stop {
		return
	}
	c, ch := p.c, p.ch
	if pn := safely(func() { p.auditInner(where) }); pn != "" {
		p.fail(where, "panic while reading the ledger / pool: %s", firstLine300(pn))
	}
	_, _ = c, ch
}

func (p *prNode) auditInner(where string) {
	c, ch := p.c, p.ch
	st := ch.GetFrontierMomentumStore()
	H := st.Identifier().Height
	evs, unknown, problem := prReplay(st)
	if problem != "" {
		p.fail(where, "replay of the plasma contract's chain: %s", problem)
		return
	}
	if unknown {
		c.Hit("audit-skipped-unknown-entry")
		return
	}
	capI := new(big.Int).SetUint64(constants.MaxPlasmaForAccountBlock)
	for _, acc := range p.tracked {
		// 1. what the node records as fused vs the replay
		want := prFusedAt(evs, acc, H)
		real, _ := st.GetStakeBeneficialAmount(acc)
		if real == nil {
			real = big.NewInt(0)
		}
		if real.Cmp(want) != 0 {
			p.fail(where, "C12: the node records %s QSR as fused for %s at its frontier momentum %d (GetStakeBeneficialAmount, the figure vm.AvailablePlasma turns into %d plasma); the Fuse / CancelFuse receives of the plasma contract's chain ON THIS CHAIN (+ genesis %s) give %s",
				amt(real), addrName(acc), H, fusedQsrToPlasma(real), amt(prGenesisFused(acc)), amt(want))
			return
		}
		// 2. the account's blocks: ledger, then pool
		as := st.GetAccountStore(acc)
		var blocks []prBlk
		if fr, _ := as.Frontier(); fr != nil {
			for h := uint64(1); h <= fr.Height; h++ {
				b, err := as.ByHeight(h)
				if err != nil || b == nil {
					p.fail(where, "confirmed block %s/%d unreadable: %v", addrName(acc), h, err)
					return
				}
				conf, err := st.GetBlockConfirmationHeight(b.Hash)
				if err != nil || conf == 0 {
					p.fail(where, "confirmed block %s/%d has no confirmation height: %v", addrName(acc), h, err)
					return
				}
				blocks = append(blocks, prBlk{b, true, conf})
			}
		}
		nConfirmed := len(blocks)
		for _, b := range ch.GetUncommittedAccountBlocksByAddress(acc) {
			blocks = append(blocks, prBlk{b, false, 0})
		}
		sumConfirmed, sumAll := big.NewInt(0), big.NewInt(0)
		for i, x := range blocks {
			b := x.b
			f := new(big.Int).SetUint64(b.FusedPlasma)
			sumAll.Add(sumAll, f)
			if x.confirmed {
				sumConfirmed.Add(sumConfirmed, f)
			}
			if i+1 != int(b.Height) {
				p.fail(where, "the blocks of %s do not form a chain: position %d holds height %d (%d confirmed)", addrName(acc), i+1, b.Height, nConfirmed)
				return
			}
			place := "sits in the unconfirmed pool"
			if x.confirmed {
				place = fmt.Sprintf("is confirmed by momentum %d", x.conf)
				if x.conf == 1 {
					continue // genesis block
				}
			}
			ma := b.MomentumAcknowledged
			m, _ := st.GetMomentumByHeight(ma.Height)
			onChain := m != nil && m.Hash == ma.Hash
			avail := big.NewInt(0)
			fusedQsr := big.NewInt(0)
			used := big.NewInt(0)
			if onChain {
				fusedQsr = prFusedAt(evs, acc, ma.Height)
				for _, e := range blocks[:i] {
					if e.confirmed && e.conf <= ma.Height {
						continue
					}
					used.Add(used, new(big.Int).SetUint64(e.b.FusedPlasma))
				}
				avail.Sub(new(big.Int).SetUint64(fusedQsrToPlasma(fusedQsr)), used)
				if avail.Sign() < 0 {
					avail.SetInt64(0)
				}
				c.Hit("audit-block-ack-on-chain")
			} else {
				c.Hit("audit-block-ack-NOT-on-chain")
			}
			if f.Cmp(avail) > 0 {
				if !onChain {
					p.fail(where, "C12: block %s/%d (hash %s, fused plasma %d, difficulty %d) %s, but the momentum it acknowledges (%d %s) is not a momentum of the chain the node is on (height %d holds %s): the fusion it was paid with exists on an abandoned branch only - on this chain %s QSR are fused for the account at the frontier (%d plasma)",
						addrName(acc), b.Height, h8(b.Hash), b.FusedPlasma, b.Difficulty, place, ma.Height, h8(ma.Hash), ma.Height, momHashOrNone(m), amt(want), fusedQsrToPlasma(want))
				} else {
					p.fail(where, "C12: block %s/%d (hash %s, difficulty %d) %s with fused plasma %d; as of the momentum it acknowledges (%d) the QSR fused for the account ON THIS CHAIN is %s = %d plasma (replay of the plasma contract's receives + genesis), %s of it are committed to the account's earlier blocks that momentum does not confirm: %s available",
						addrName(acc), b.Height, h8(b.Hash), b.Difficulty, place, b.FusedPlasma, ma.Height, amt(fusedQsr), fusedQsrToPlasma(fusedQsr), used.String(), avail.String())
				}
				return
			}
			total := new(big.Int).Add(f, new(big.Int).SetUint64(ownPowPlasma(b.Difficulty)))
			base, kind := ownBaseCostOn(ch, b, ma)
			if kind != "embedded-unknown" && total.Cmp(new(big.Int).SetUint64(base)) < 0 {
				p.fail(where, "C12: block %s/%d (%s, %d data bytes) %s with total plasma %s below its base cost %d", addrName(acc), b.Height, kind, len(b.Data), place, total.String(), base)
				return
			}
			if total.Cmp(capI) > 0 {
				p.fail(where, "C12: block %s/%d %s with total plasma %s above the per-block cap %d", addrName(acc), b.Height, place, total.String(), constants.MaxPlasmaForAccountBlock)
				return
			}
			if b.Difficulty > 0 && !powMeets(powH8(powDataHash(b.Address, b.PreviousHash), b.Nonce.Data), b.Difficulty) {
				p.fail(where, "C12: block %s/%d %s with a proof-of-work claim of difficulty %d which its nonce does not meet", addrName(acc), b.Height, place, b.Difficulty)
				return
			}
			c.Hit("audit-block-ok")
		}
		// 3. the chain-plasma counters
		cp, _ := as.GetChainPlasma()
		if cp == nil || cp.Cmp(sumConfirmed) != 0 {
			p.fail(where, "C12: the chain-plasma counter of %s in the ledger (momentum %d) is %s; the FusedPlasma of its %d confirmed blocks on this chain add up to %s: the difference is plasma the account can spend again / has lost",
				addrName(acc), H, amt(cp), nConfirmed, sumConfirmed.String())
			return
		}
		pp, _ := ch.GetFrontierAccountStore(acc).GetChainPlasma()
		if pp == nil || pp.Cmp(sumAll) != 0 {
			p.fail(where, "C12: the chain-plasma counter of %s on top of its unconfirmed blocks is %s; the FusedPlasma of its %d confirmed + %d pooled blocks add up to %s",
				addrName(acc), amt(pp), nConfirmed, len(blocks)-nConfirmed, sumAll.String())
			return
		}
		// 4. correspondence: the real AvailablePlasma against the model fed from the chain
		var evTok, blkTok []string
		for _, e := range evs {
			if e.ben == acc {
				evTok = append(evTok, fmt.Sprintf("%d:%s", e.height, e.delta.String()))
			}
		}
		for _, x := range blocks {
			if x.confirmed {
				blkTok = append(blkTok, fmt.Sprintf("c%d:%d", x.conf, x.b.FusedPlasma))
			} else {
				blkTok = append(blkTok, fmt.Sprintf("p:%d", x.b.FusedPlasma))
			}
		}
		hs := map[uint64]bool{H: true}
		for _, d := range []uint64{1, 2} {
			if H > d {
				hs[H-d] = true
			}
		}
		if p.fork > 0 && p.fork <= H {
			hs[p.fork] = true
		}
		var hl []uint64
		for h := range hs {
			hl = append(hl, h)
		}
		sort.Slice(hl, func(i, j int) bool { return hl[i] < hl[j] })
		for _, h := range hl {
			m, _ := st.GetMomentumByHeight(h)
			if m == nil {
				continue
			}
			ms := ch.GetMomentumStore(m.Identifier())
			if ms == nil {
				continue
			}
			obs := ""
			if a, err := vm.AvailablePlasma(ms, ch.GetFrontierAccountStore(acc)); err != nil {
				obs = "neg"
			} else {
				obs = fmt.Sprintf("ok %d", a)
			}
			c.Emit("plasma-avail %s %s %d %s | %s", amt(prGenesisFused(acc)), dashJoin(evTok), h, dashJoin(blkTok), obs)
			c.Hit("plasma-avail-line")
		}
	}
	c.Hit("audit")
}

func dashJoin(s []string) string {
	if len(s) == 0 {
		return "-"
	}
	return strings.Join(s, ",")
}

func momHashOrNone(m *nom.Momentum) string {
	if m == nil {
		return "nothing"
	}
	return h8(m.Hash)
}

// prFigures: the tracked figures of a chain at its frontier, for the comparison with a fresh node
func prFigures(ch chain.Chain, tracked []types.Address) []string {
	st := ch.GetFrontierMomentumStore()
	var out []string
	for _, a := range tracked {
		q, _ := st.GetStakeBeneficialAmount(a)
		cp, _ := st.GetAccountStore(a).GetChainPlasma()
		fr := st.GetAccountStore(a).Identifier()
		out = append(out, fmt.Sprintf("%s: fused-qsr=%s chain-plasma=%s height=%d", addrName(a), amt(q), amt(cp), fr.Height))
	}
	return out
}

// followerProduce: the follower produces the next momentum from the content of ITS pool, as pillar/worker_momentum.go does
func followerProduce(f *zFollower) (dm *nom.DetailedMomentum, err error) {
	if p := safely(func() {
		prev, e := f.ch.GetFrontierMomentumStore().GetFrontierMomentum()
		if e != nil {
			err = e
			return
		}
		tsec := int64(prev.TimestampUnix) + 10
		exp, e := f.cons.GetMomentumProducer(time.Unix(tsec, 0))
		if e != nil || exp == nil {
			err = fmt.Errorf("no producer for the next slot: %v", e)
			return
		}
		kp := keyOf(*exp)
		if kp == nil {
			err = fmt.Errorf("no key for the elected pillar")
			return
		}
		ins := f.ch.AcquireInsert("zvh follower momentum")
		defer ins.Unlock()
		blocks := f.ch.GetNewMomentumContent()
		m := &nom.Momentum{ChainIdentifier: f.ch.ChainIdentifier(), PreviousHash: prev.Hash, Height: prev.Height + 1,
			TimestampUnix: uint64(tsec), Content: nom.NewMomentumContent(blocks), Version: 1}
		m.EnsureCache()
		tx, e := f.sup.GenerateMomentum(&nom.DetailedMomentum{Momentum: m, AccountBlocks: blocks}, kp.Signer)
		if e != nil {
			err = e
			return
		}
		if e := f.ch.AddMomentumTransaction(ins, tx); e != nil {
			err = e
			return
		}
		dm = &nom.DetailedMomentum{Momentum: m, AccountBlocks: blocks}
	}); p != "" {
		return nil, fmt.Errorf("panic: %s", firstLine300(p))
	}
	return dm, err
}

func plasmaReorgHistory(c *Ctx, id int) {
	origExp := constants.FuseExpiration
	defer func() { constants.FuseExpiration = origExp }()
	constants.FuseExpiration = uint64(1 + c.R.Intn(3))
	a := NewNode()
	defer a.Stop()
	f, err := newZFollower("")
	if err != nil {
		c.Fail("plasma-reorg run=%d: follower cannot be opened: %v", id, err)
		return
	}
	defer f.Destroy()
	rich := g.User1.Address
	poor := []types.Address{g.User6.Address, g.User7.Address, g.User8.Address, g.User9.Address}
	tracked := append(append([]types.Address{}, poor...), rich, g.User2.Address)
	A := &prNode{c: c, name: "producer", ch: a.Chain(), id: id, tracked: tracked}
	F := &prNode{c: c, name: "follower", ch: f.ch, id: id, tracked: tracked}
	harnessFail := func(format string, x ...interface{}) {
		c.Fail("plasma-reorg run=%d h=%d: %s", id, a.Height(), fmt.Sprintf(format, x...))
	}
	mom := func(where string) bool {
		if _, err := a.Momentum(); err != nil {
			harnessFail("momentum: %v", err)
			return false
		}
		A.audit(where)
		return !A.stop
	}
	type fusion struct {
		id  types.Hash
		ben types.Address
		at  uint64
	}
	var fusions []fusion
	fuse := func(ben types.Address, units int64, tag string) bool {
		b, err := a.Submit(&nom.AccountBlock{BlockType: nom.BlockTypeUserSend, Address: rich, ToAddress: types.PlasmaContract, TokenStandard: types.QsrTokenStandard,
			Amount: new(big.Int).Mul(big.NewInt(units), big.NewInt(g.Zexp)), Data: definition.ABIPlasma.PackMethodPanic(definition.FuseMethodName, ben)})
		if err != nil {
			c.Hit("fuse-refused-" + tag)
			return false
		}
		fusions = append(fusions, fusion{b.Hash, ben, a.Height()})
		c.Hit("fuse-" + tag)
		return true
	}
	cancel := func(tag string) {
		// a fusion made at least FuseExpiration + 2 momentums ago (its receive is one momentum later than its send)
		var ok []int
		for i, fu := range fusions {
			if a.Height() >= fu.at+constants.FuseExpiration+2 {
				ok = append(ok, i)
			}
		}
		if len(ok) == 0 {
			return
		}
		i := ok[c.R.Intn(len(ok))]
		if _, err := a.Submit(&nom.AccountBlock{BlockType: nom.BlockTypeUserSend, Address: rich, ToAddress: types.PlasmaContract,
			Data: definition.ABIPlasma.PackMethodPanic(definition.CancelFuseMethodName, fusions[i].id)}); err == nil {
			c.Hit("cancel-" + tag)
			fusions = append(fusions[:i], fusions[i+1:]...)
		}
	}
	// pay: acc publishes a block paid with fused plasma (no proof-of-work) on the producer; ack: 0 = frontier momentum, k = k below
	pay := func(acc types.Address, ackBelow uint64, tag string) *nom.AccountBlock {
		tpl := &nom.AccountBlock{BlockType: nom.BlockTypeUserSend, Address: acc, ToAddress: g.User2.Address, TokenStandard: types.ZnnTokenStandard, Amount: big.NewInt(0)}
		if c.R.Intn(3) == 0 {
			tpl.Data = make([]byte, 1+c.R.Intn(40))
			c.R.Read(tpl.Data)
		}
		st := a.Chain().GetFrontierMomentumStore()
		fm, _ := st.GetFrontierMomentum()
		ma := fm.Identifier()
		if ackBelow > 0 && fm.Height > ackBelow {
			h := fm.Height - ackBelow
			if fr, _ := a.Chain().GetFrontierAccountStore(acc).Frontier(); fr != nil && fr.MomentumAcknowledged.Height > h {
				h = fr.MomentumAcknowledged.Height
			}
			if m, _ := st.GetMomentumByHeight(h); m != nil {
				ma = m.Identifier()
			}
		}
		tpl.MomentumAcknowledged = ma
		base, _ := ownBaseCostOn(a.Chain(), tpl, ma)
		switch c.R.Intn(4) {
		case 0:
			tpl.FusedPlasma = base + uint64(c.R.Intn(3000))
		case 1:
			tpl.FusedPlasma = base + 2100
		default:
			tpl.FusedPlasma = base
		}
		b, err := a.Submit(tpl)
		if err != nil {
			c.Hit("pay-refused-" + tag)
			return nil
		}
		c.Hit("pay-accepted-" + tag)
		return b
	}
	redeliver := func(blocks []*nom.AccountBlock, where string) {
		for _, b := range blocks {
			err := a.SubmitExternal(cloneBlock(b))
			if err == nil {
				c.Hit("redelivered-accepted-" + where)
			} else {
				c.Hit("redelivered-refused-" + where)
			}
		}
		A.audit("re-delivery of the blocks pooled before the rollback (" + where + ")")
	}

	// ---- trunk ------------------------------------------------------------------------------------------------
	for _, p := range poor {
		a.Submit(&nom.AccountBlock{BlockType: nom.BlockTypeUserSend, Address: rich, ToAddress: p, TokenStandard: types.ZnnTokenStandard, Amount: big.NewInt(1000)})
	}
	directed := poor[id%len(poor)] // gets its (additional) fusion in branch A's last momentum
	other := poor[(id+1)%len(poor)]
	for k, p := range poor {
		units := []int64{0, 10, 20, 40, 100}[c.R.Intn(5)]
		if p == directed {
			units = []int64{0, 0, 10}[(id/len(poor)+k)%3]
		}
		if units > 0 {
			fuse(p, units, "trunk")
		}
	}
	if !mom("trunk") || !mom("trunk") {
		return
	}
	for _, p := range poor {
		if c.R.Intn(2) == 0 {
			pay(p, 0, "trunk")
		}
	}
	for i := 0; i < 2+c.R.Intn(3); i++ {
		if c.R.Intn(3) == 0 {
			pay(poor[c.R.Intn(len(poor))], uint64(c.R.Intn(2)), "trunk")
		}
		if !mom("trunk") {
			return
		}
	}
	forkH := a.Height()
	if _, err := f.InsertChain(serveChain(a, 2, forkH)); err != nil {
		harnessFail("the follower refuses the producer's trunk: %v", err)
		return
	}
	F.audit("InsertChain of the trunk")

	// ---- branch A ---------------------------------------------------------------------------------------------
	lenA := 2 + c.R.Intn(2)
	benAmount := []int64{10, 20, 30}[c.R.Intn(3)]
	for i := 0; i < lenA; i++ {
		if i == 0 {
			fuse(other, benAmount, "A-beneficiary") // on B the same QSR is fused for another account
		}
		if i == lenA-2 {
			fuse(directed, []int64{10, 20, 21, 40}[c.R.Intn(4)], "A-directed") // its receive sits in A's last momentum
		}
		if c.R.Intn(3) == 0 {
			cancel("A")
		}
		if c.R.Intn(2) == 0 {
			fuse(poor[c.R.Intn(len(poor))], []int64{10, 15, 40}[c.R.Intn(3)], "A")
		}
		for _, p := range poor {
			if c.R.Intn(3) == 0 {
				pay(p, uint64(c.R.Intn(3)), "A-confirmed")
			}
		}
		if !mom("branch A") {
			return
		}
	}
	tipA := a.Height()
	branchA := serveChain(a, forkH+1, tipA)
	// the unconfirmed blocks at A's tip
	var pooled []*nom.AccountBlock
	for _, p := range append([]types.Address{directed, other}, poor...) {
		for k := 0; k < 1+c.R.Intn(2); k++ {
			if b := pay(p, []uint64{0, 0, 1, 2, 3, 5}[c.R.Intn(6)], "A-pooled"); b != nil {
				pooled = append(pooled, cloneBlock(b))
			}
		}
	}
	A.audit("branch A, blocks pooled")
	if A.stop {
		return
	}
	if _, err := f.InsertChain(branchA); err != nil {
		harnessFail("the follower refuses the producer's branch A: %v", err)
		return
	}
	for _, b := range pooled {
		if err := f.Gossip([]*nom.AccountBlock{cloneBlock(b)}); err != nil {
			c.Hit("follower-gossip-refused")
		} else {
			c.Hit("follower-gossip-pooled")
		}
	}
	F.audit("branch A + gossip of the unconfirmed blocks")

	// ---- the producer abandons the upper k momentums ----------------------------------------------------------
	k := uint64(1 + c.R.Intn(3))
	target, _ := a.Chain().GetFrontierMomentumStore().GetMomentumByHeight(tipA - k)
	if target == nil {
		harnessFail("no momentum at height %d", tipA-k)
		return
	}
	var rerr error
	if p := safely(func() {
		ins := a.Chain().AcquireInsert("zvh plasma-reorg")
		rerr = a.Chain().RollbackTo(ins, target.Identifier())
		ins.Unlock()
	}); p != "" || rerr != nil {
		harnessFail("RollbackTo %d: %v %s", target.Height, rerr, firstLine300(p))
		return
	}
	c.Hit(fmt.Sprintf("rollback-by-%d", k))
	A.fork, F.fork = target.Height, target.Height
	// the fusions made above the target are gone
	kept := fusions[:0]
	for _, fu := range fusions {
		if fu.at < target.Height {
			kept = append(kept, fu)
		}
	}
	fusions = kept
	A.audit(fmt.Sprintf("chain.RollbackTo from height %d to %d", tipA, target.Height))
	if A.stop {
		return
	}
	if c.R.Intn(2) == 0 {
		redeliver(pooled, "right after the rollback")
	}

	// ---- branch B: longer, with other fusions -----------------------------------------------------------------
	lenB := int(k) + 1 + c.R.Intn(2)
	for i := 0; i < lenB && !A.stop; i++ {
		if i == 0 {
			switch c.R.Intn(3) {
			case 0:
				fuse(poor[(id+2)%len(poor)], benAmount, "B-other-beneficiary")
			case 1:
				fuse(directed, 10, "B-directed-less")
			}
		}
		if c.R.Intn(2) == 0 {
			cancel("B")
		}
		for _, p := range poor {
			if c.R.Intn(3) == 0 {
				pay(p, uint64(c.R.Intn(3)), "B")
			}
		}
		if !mom(fmt.Sprintf("momentum %d of branch B (rolled back from %d to %d before)", i+1, tipA, target.Height)) {
			return
		}
		if c.R.Intn(2) == 0 {
			redeliver(pooled, "between the momentums of branch B")
		}
	}
	if A.stop {
		return
	}
	tipB := a.Height()
	branchB := serveChain(a, target.Height+1, tipB)

	// ---- the follower is handed the longer side chain ---------------------------------------------------------
	if _, err := f.InsertChain(branchB); err != nil || f.Height() != tipB {
		harnessFail("the follower (on branch A, height %d, %d gossiped blocks in its pool) does not adopt the longer branch B (%d momentums from height %d): %v", tipA, len(pooled), len(branchB), target.Height+1, err)
		return
	}
	c.Hit("follower-reorganised")
	F.audit(fmt.Sprintf("InsertChain of the longer side chain B (%d momentums from height %d; the node was on branch A at height %d)", len(branchB), target.Height+1, tipA))
	// a node that was only ever fed the adopted chain
	ref, err := newZFollower("")
	if err != nil {
		harnessFail("reference follower cannot be opened: %v", err)
		return
	}
	defer ref.Destroy()
	if _, err := ref.InsertChain(serveChain(a, 2, tipB)); err != nil || ref.Height() != tipB {
		harnessFail("a fresh follower refuses the adopted chain: %v", err)
		return
	}
	want := prFigures(ref.ch, tracked)
	for _, x := range []*prNode{A, F} {
		got := prFigures(x.ch, tracked)
		for i := range want {
			if got[i] != want[i] {
				x.fail("the reorganisation", "C12: plasma figures differ from those of a fresh node that was fed only the adopted chain: this node has [%s], the fresh node [%s]", got[i], want[i])
				break
			}
		}
	}
	if !F.stop {
		if x, y := f.StateDigest(), ref.StateDigest(); x != y {
			F.fail("the reorganisation", "C12: the ledger key space of the reorganised follower (%s) differs from that of a fresh node fed only the adopted chain (%s): chain-plasma counters / fusion entries of the abandoned branch survive", x, y)
		} else {
			c.Hit("follower-equals-fresh-node")
		}
	}
	if F.stop {
		return
	}
	// gossip arrives again, then the follower produces a momentum from its own pool
	for _, b := range pooled {
		if err := f.Gossip([]*nom.AccountBlock{cloneBlock(b)}); err != nil {
			c.Hit("follower-regossip-refused")
		} else {
			c.Hit("follower-regossip-accepted")
		}
	}
	F.audit("gossip of the formerly pooled blocks after the reorganisation")
	if F.stop {
		return
	}
	// the accounts publish on the follower, against the adopted chain
	for _, p := range poor {
		for k := 0; k < c.R.Intn(3); k++ {
			tpl := &nom.AccountBlock{BlockType: nom.BlockTypeUserSend, Address: p, ToAddress: g.User2.Address, TokenStandard: types.ZnnTokenStandard, Amount: big.NewInt(0)}
			var perr error
			if pn := safely(func() {
				tx, e := f.sup.GenerateFromTemplate(tpl, keyOf(p).Signer)
				if e != nil {
					perr = e
					return
				}
				ins := f.ch.AcquireInsert("zvh plasma-reorg publish")
				perr = f.ch.AddAccountBlockTransaction(ins, tx)
				ins.Unlock()
			}); pn != "" {
				perr = fmt.Errorf("panic")
			}
			if perr == nil {
				c.Hit("follower-publish-accepted")
			} else {
				c.Hit("follower-publish-refused")
			}
		}
	}
	F.audit("blocks published on the follower after the reorganisation")
	if F.stop {
		return
	}
	if dm, err := followerProduce(f); err != nil {
		c.Hit("follower-produce-failed")
	} else {
		c.HitN("follower-produced-blocks", len(dm.AccountBlocks))
		c.Hit("follower-produced")
		F.audit("a momentum the follower produced from its own pool after the reorganisation")
	}
	c.Hit("history")
}
