package main

import (
	"bytes"
	"encoding/base64"
	"encoding/hex"
	"fmt"
	"math/big"
	"math/rand"
	"strings"

	ecrypto "github.com/ethereum/go-ethereum/crypto"
	"golang.org/x/crypto/sha3"

	"github.com/zenon-network/go-zenon/common/types"
	"github.com/zenon-network/go-zenon/vm/embedded/definition"
	"github.com/zenon-network/go-zenon/vm/embedded/implementation"
)

// ---------------------------------------------------------------------------------------------------
// contract stream (C10), bridge: the harness's OWN statement of what the TSS key signs for an unwrap request.
// Nothing in this file calls the bridge implementation to build a message: the encoding is written out from the
// documented layout (seven 32-byte big-endian words: network class, chain id, transaction hash, log index,
// destination address (the 20 address bytes as a number), foreign token address (20 bytes, left padded), amount —
// every integer at FULL width), hashed with SHA3-256 (network class 1) or keccak256 wrapped in the
// "\x19Ethereum Signed Message:\n32" envelope (network class 2). The signature oracle of the replay and of the
// monitors is "the 65-byte signature recovers the configured TSS key from THIS hash".
// ---------------------------------------------------------------------------------------------------

var two256 = new(big.Int).Lsh(big.NewInt(1), 256)

func word256(x *big.Int) ([]byte, bool) {
	if x == nil || x.Sign() < 0 || x.Cmp(two256) >= 0 {
		return nil, false
	}
	w := make([]byte, 32)
	b := x.Bytes()
	copy(w[32-len(b):], b)
	return w, true
}

func hexAddr20(s string) ([]byte, bool) {
	if len(s) >= 2 && s[0] == '0' && (s[1] == 'x' || s[1] == 'X') {
		s = s[2:]
	}
	if len(s) != 40 {
		return nil, false
	}
	b, err := hex.DecodeString(s)
	if err != nil {
		return nil, false
	}
	return b, true
}

// unwrapPacked: the byte string that is hashed (224 bytes), false when a field cannot be encoded
func unwrapPacked(p *definition.UnwrapTokenParam) ([]byte, bool) {
	ta, ok := hexAddr20(p.TokenAddress)
	if !ok {
		return nil, false
	}
	am, ok := word256(p.Amount)
	if !ok {
		return nil, false
	}
	var out []byte
	u32 := func(v uint32) {
		w := make([]byte, 32)
		w[28], w[29], w[30], w[31] = byte(v>>24), byte(v>>16), byte(v>>8), byte(v)
		out = append(out, w...)
	}
	left := func(b []byte) {
		w := make([]byte, 32)
		copy(w[32-len(b):], b)
		out = append(out, w...)
	}
	u32(p.NetworkClass)
	u32(p.ChainId)
	left(p.TransactionHash[:])
	u32(p.LogIndex)
	left(p.ToAddress[:])
	left(ta)
	out = append(out, am...)
	return out, true
}

// unwrapHashIndep: the hash the TSS key signs for exactly these fields; false = no such message (unsupported class / field)
func unwrapHashIndep(p *definition.UnwrapTokenParam) ([]byte, bool) {
	packed, ok := unwrapPacked(p)
	if !ok {
		return nil, false
	}
	switch p.NetworkClass {
	case 1:
		h := sha3.Sum256(packed)
		return h[:], true
	case 2:
		k := sha3.NewLegacyKeccak256()
		k.Write(packed)
		inner := k.Sum(nil)
		k = sha3.NewLegacyKeccak256()
		k.Write([]byte("\x19Ethereum Signed Message:\n32"))
		k.Write(inner)
		return k.Sum(nil), true
	}
	return nil, false
}

// sigRecovers: the base64 signature (65 bytes r|s|v) recovers the base64 uncompressed public key from the hash
func sigRecovers(hash []byte, pubKeyB64, sigB64 string) bool {
	pub, err := base64.StdEncoding.DecodeString(pubKeyB64)
	if err != nil || len(pub) != 65 {
		return false
	}
	sig, err := base64.StdEncoding.DecodeString(sigB64)
	if err != nil || len(sig) != 65 {
		return false
	}
	rec, err := ecrypto.Ecrecover(hash, sig)
	return err == nil && bytes.Equal(rec, pub)
}

// unwrapSigOkIndep: is the request's signature the TSS key's signature of exactly the request's fields
func unwrapSigOkIndep(p *definition.UnwrapTokenParam, tssDecompressedB64 string) bool {
	h, ok := unwrapHashIndep(p)
	return ok && sigRecovers(h, tssDecompressedB64, p.Signature)
}

func unwrapFields(p *definition.UnwrapTokenParam) string {
	return fmt.Sprintf("{class=%d chain=%d tx=%s log=%d to=%s token=%s amount=%s}", p.NetworkClass, p.ChainId, hx(p.TransactionHash[:]), p.LogIndex,
		addrName(p.ToAddress), strings.ToLower(p.TokenAddress), p.Amount.String())
}

func sameUnwrapFields(a, b *definition.UnwrapTokenParam) bool {
	ta, oka := hexAddr20(a.TokenAddress)
	tb, okb := hexAddr20(b.TokenAddress)
	return a.NetworkClass == b.NetworkClass && a.ChainId == b.ChainId && a.TransactionHash == b.TransactionHash && a.LogIndex == b.LogIndex &&
		a.ToAddress == b.ToAddress && oka && okb && bytes.Equal(ta, tb) && a.Amount.Cmp(b.Amount) == 0
}

func copyUnwrap(p *definition.UnwrapTokenParam) *definition.UnwrapTokenParam {
	q := *p
	q.Amount = new(big.Int).Set(p.Amount)
	return &q
}

func pw2(k uint) *big.Int { return new(big.Int).Lsh(big.NewInt(1), k) }

// unwrapBoundaryAmount: amounts at and beyond the widths of the machine integers: 2^64-1, 2^64, 2^64+a, a + k*2^64,
// next to 2^63 / 2^127 / 2^128 / 2^192 / 2^255, 2^255-1 (the largest token supply) and 2^256-1 (the largest ABI value)
func unwrapBoundaryAmount(R *rand.Rand, a *big.Int) (*big.Int, string) {
	add := func(x, y *big.Int) *big.Int { return new(big.Int).Add(x, y) }
	sub1 := func(x *big.Int) *big.Int { return new(big.Int).Sub(x, big.NewInt(1)) }
	switch R.Intn(12) {
	case 0:
		return sub1(pw2(64)), "2^64-1"
	case 1:
		return pw2(64), "2^64"
	case 2:
		return add(pw2(64), a), "2^64+a"
	case 3:
		k := []*big.Int{big.NewInt(2), big.NewInt(3), big.NewInt(int64(1 + R.Intn(1000))), pw2(32), pw2(63), pw2(64), pw2(128), pw2(190)}[R.Intn(8)]
		return add(a, new(big.Int).Mul(k, pw2(64))), "a+k*2^64"
	case 4:
		return add(pw2(63), big.NewInt(int64(R.Intn(3))-1)), "2^63+-1"
	case 5:
		return add(pw2(128), big.NewInt(int64(R.Intn(3))-1)), "2^128+-1"
	case 6:
		return add(pw2(127), a), "2^127+a"
	case 7:
		return add(pw2(192), a), "2^192+a"
	case 8:
		return sub1(pw2(255)), "2^255-1"
	case 9:
		return add(pw2(255), a), "2^255+a"
	case 10:
		return sub1(pw2(256)), "2^256-1"
	default:
		return add(pw2(uint(65+R.Intn(190))), a), "2^k+a"
	}
}

// unwrapMutations: every request that differs from p in exactly ONE field of the signed message. altTokens: other foreign
// token addresses; altTo: other destination addresses; nets: other (class, chain id) values to present.
type unwrapMutation struct {
	name string
	p    *definition.UnwrapTokenParam
}

func unwrapMutations(R *rand.Rand, p *definition.UnwrapTokenParam, altTokens []string, altTo []types.Address, nets [][2]uint32) []unwrapMutation {
	var out []unwrapMutation
	mut := func(name string, f func(q *definition.UnwrapTokenParam)) {
		q := copyUnwrap(p)
		f(q)
		if q.Amount.Sign() > 0 && q.Amount.Cmp(two256) < 0 && !sameUnwrapFields(p, q) {
			out = append(out, unwrapMutation{name, q})
		}
	}
	for _, nc := range nets {
		nc := nc
		if nc[0] != p.NetworkClass && nc[1] == p.ChainId {
			mut("network-class", func(q *definition.UnwrapTokenParam) { q.NetworkClass = nc[0] })
		}
		if nc[0] == p.NetworkClass && nc[1] != p.ChainId {
			mut("chain-id", func(q *definition.UnwrapTokenParam) { q.ChainId = nc[1] })
		}
	}
	mut("tx-hash-bit", func(q *definition.UnwrapTokenParam) { q.TransactionHash[R.Intn(32)] ^= 1 << uint(R.Intn(8)) })
	mut("tx-hash-first-byte", func(q *definition.UnwrapTokenParam) { q.TransactionHash[0] ^= 0x80 })
	mut("tx-hash-last-byte", func(q *definition.UnwrapTokenParam) { q.TransactionHash[31] ^= 1 })
	mut("log-index+1", func(q *definition.UnwrapTokenParam) { q.LogIndex++ })
	mut("log-index+2^16", func(q *definition.UnwrapTokenParam) { q.LogIndex += 1 << 16 })
	mut("log-index+2^31", func(q *definition.UnwrapTokenParam) { q.LogIndex += 1 << 31 })
	for _, a := range altTo {
		a := a
		mut("to-address", func(q *definition.UnwrapTokenParam) { q.ToAddress = a })
	}
	mut("to-address-first-byte", func(q *definition.UnwrapTokenParam) { q.ToAddress[0] ^= 1 })
	mut("to-address-last-byte", func(q *definition.UnwrapTokenParam) { q.ToAddress[19] ^= 1 })
	for _, t := range altTokens {
		t := t
		mut("token-address", func(q *definition.UnwrapTokenParam) { q.TokenAddress = t })
	}
	for _, k := range []uint{0, 1, 8, 31, 32, 63, 64, 65, 96, 127, 128, 192, 254, 255} {
		k := k
		mut(fmt.Sprintf("amount+2^%d", k), func(q *definition.UnwrapTokenParam) { q.Amount.Add(q.Amount, pw2(k)) })
		mut(fmt.Sprintf("amount-2^%d", k), func(q *definition.UnwrapTokenParam) { q.Amount.Sub(q.Amount, pw2(k)) })
	}
	mut("amount+k*2^64", func(q *definition.UnwrapTokenParam) {
		q.Amount.Add(q.Amount, new(big.Int).Mul(big.NewInt(int64(2+R.Intn(1000))), pw2(64)))
	})
	for _, w := range []uint{8, 16, 32, 63, 64, 128} {
		w := w
		mut(fmt.Sprintf("amount-mod-2^%d", w), func(q *definition.UnwrapTokenParam) { q.Amount.Mod(q.Amount, pw2(w)) })
	}
	mut("amount*2", func(q *definition.UnwrapTokenParam) { q.Amount.Lsh(q.Amount, 1) })
	return out
}

func mutClass(name string) string {
	for _, f := range []string{"amount", "tx-hash", "log-index", "to-address"} {
		if strings.HasPrefix(name, f) {
			return f
		}
	}
	return name
}

// unwrapMessageSweep: model-free monitor of the message the REAL code verifies (implementation.GetUnwrapTokenRequestMessage),
// evaluated as a function: (a) binding - a request that differs in one field from another has a different message (else the
// signature of one verifies for the other); (b) it is the hash of the documented encoding of exactly these fields. Returns a
// description of the first violation, or "".
func unwrapMessageSweep(R *rand.Rand, n int, tokens []string, tos []types.Address, hit func(string)) string {
	nets := [][2]uint32{{1, 123}, {2, 123}, {2, 124}, {1, 124}, {2, 1}, {1, 1}, {2, 1 << 31}, {2, 0xffffffff}}
	for i := 0; i < n; i++ {
		net := nets[R.Intn(len(nets))]
		p := &definition.UnwrapTokenParam{NetworkClass: net[0], ChainId: net[1], LogIndex: []uint32{0, 1, 2, 77, 255, 256, 65535, 65536, 1<<31 - 1, 1 << 31, 0xffffffff}[R.Intn(11)],
			ToAddress: tos[R.Intn(len(tos))], TokenAddress: tokens[R.Intn(len(tokens))]}
		R.Read(p.TransactionHash[:])
		a := big.NewInt(1 + R.Int63n(4000000000000))
		kind := "below-2^64"
		if i%2 == 1 {
			a, kind = unwrapBoundaryAmount(R, a)
		}
		p.Amount = a
		real, err := implementation.GetUnwrapTokenRequestMessage(p)
		own, ok := unwrapHashIndep(p)
		if err != nil || !ok {
			return fmt.Sprintf("no message for the encodable request %s: real err=%v, own ok=%v", unwrapFields(p), err, ok)
		}
		if !bytes.Equal(real, own) {
			return fmt.Sprintf("the message the contract verifies for the unwrap request %s is %s, the hash of the documented encoding of exactly these fields (full-width integers) is %s",
				unwrapFields(p), hx(real), hx(own))
		}
		hit("unwrap-message-amount-" + kind)
		for _, m := range unwrapMutations(R, p, tokens, tos, nets) {
			rm, err := implementation.GetUnwrapTokenRequestMessage(m.p)
			if err != nil {
				continue
			}
			if bytes.Equal(rm, real) {
				return fmt.Sprintf("signature not bound to the request: the contract verifies the SAME message %s for %s and for %s (mutation %s): a TSS signature for one is accepted for the other",
					hx(real), unwrapFields(p), unwrapFields(m.p), m.name)
			}
			hit("unwrap-message-distinct-" + mutClass(m.name))
		}
	}
	return ""
}
