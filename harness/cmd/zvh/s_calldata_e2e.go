package main

// calldata stream, END-TO-END part (C13, T4: "the call data of embedded-contract calls is stored in a single
// canonical encoding").
//
// The first part of the stream (s_calldata.go) calls ValidateSendBlock directly. Here the same family of call data —
// NON-canonical encodings of arguments the method accepts: dirty padding in address / uintN / intN / bool / bytesN
// words, trailing bytes and words, dirty padding behind a dynamic tail, relocated tails and unusual offsets, and the
// hostile mutations of the abi stream (abiHostileOne) that still decode — is put into a complete send block of a
// funded account, HASHED AND SIGNED BY THE OWNER OVER EXACTLY THOSE BYTES (what a sloppy or hostile wallet sends), and
// delivered to real nodes over every path a block takes:
//
//	gossip      ChainBridge.AddAccountBlocks on a follower
//	publish     Supervisor.ApplyBlock + Chain.AddAccountBlockTransaction on the producing node (RPC publishRawTransaction)
//	in-momentum ChainBridge.InsertChain on a second follower: the producer's next momentum, re-made by its pillar key so
//	            that its content lists the non-canonical block in place of the honest one
//	confirmed   if the producing node took the block, its own next momentum confirms it and goes to the followers
//
// Statement, checked on the node's own store after every delivery (model-free): the block is refused, or whatever the
// node now holds for that account height (pool or ledger) carries call data that is a fixed point of unpack->pack of
// the method's ABI and a hash that is the hash of the stored content. At the end of every history the same is checked
// for EVERY send block to an embedded contract in the ledgers of all three nodes.

import (
	"bytes"
	"fmt"
	"math/big"

	g "github.com/zenon-network/go-zenon/chain/genesis/mock"
	"github.com/zenon-network/go-zenon/chain"
	"github.com/zenon-network/go-zenon/chain/nom"
	"github.com/zenon-network/go-zenon/common/types"
	"github.com/zenon-network/go-zenon/verifier"
	"github.com/zenon-network/go-zenon/vm/abi"
	"github.com/zenon-network/go-zenon/vm/embedded"
)

// cdMoreVariants: further value-preserving re-arrangements on top of cdVariants: EVERY narrow static word dirtied (not
// only the first one), in several ways (one bit, the whole padding set to ff, the byte next to the value), bool words
// with a dirty high byte, all head offsets of dynamic arguments re-pointed to relocated copies.
func cdMoreVariants(c *Ctx, args abi.Arguments, d []byte) []cdVariant {
	var out []cdVariant
	body := d[4:]
	clone := func() []byte { return append([]byte{}, d...) }
	if len(body) == 0 {
		// a method without arguments: anything behind the selector
		out = append(out, cdVariant{"trailing-bytes-after-selector", append(clone(), cRandBytes(c, 1+c.R.Intn(40))...)})
		out = append(out, cdVariant{"trailing-zero-word-after-selector", append(clone(), make([]byte, 32)...)})
		out = append(out, cdVariant{"trailing-zero-byte-after-selector", append(clone(), 0)})
	}
	idx := 0
	for _, a := range args {
		if a.Type.T == abi.ArrayTy {
			idx += a.Type.Size
			continue
		}
		if (idx+1)*32 > len(body) {
			break
		}
		n, left := cdSignificant(a.Type)
		if a.Type.T == abi.BoolTy {
			n, left = 1, false
		}
		if n > 0 && n < 32 {
			w := 4 + idx*32
			padFrom, padTo := w, w+32-n // right-aligned value: padding in front
			if left {
				padFrom, padTo = w+n, w+32
			}
			v := clone()
			v[padFrom+c.R.Intn(padTo-padFrom)] ^= byte(1 << uint(c.R.Intn(8)))
			out = append(out, cdVariant{"dirty-padding-bit-" + a.Type.String(), v})
			v = clone()
			for i := padFrom; i < padTo; i++ {
				v[i] = 0xff
			}
			out = append(out, cdVariant{"dirty-padding-ff-" + a.Type.String(), v})
			v = clone()
			if left {
				v[padFrom] ^= 0x01
			} else {
				v[padTo-1] ^= 0x01
			}
			out = append(out, cdVariant{"dirty-padding-adjacent-" + a.Type.String(), v})
		}
		idx++
	}
	// every dynamic argument relocated: copies of all tails appended, all offsets re-pointed (non-minimal offsets, the
	// original tails stay behind as dead bytes)
	{
		v := clone()
		idx, moved := 0, 0
		for _, a := range args {
			if a.Type.T == abi.ArrayTy {
				idx += a.Type.Size
				continue
			}
			if (a.Type.T == abi.StringTy || a.Type.T == abi.BytesTy) && (idx+1)*32 <= len(body) {
				off := new(big.Int).SetBytes(body[idx*32 : idx*32+32])
				if off.IsInt64() && int(off.Int64())+32 <= len(body) {
					o := int(off.Int64())
					l := new(big.Int).SetBytes(body[o : o+32])
					if l.IsInt64() {
						padded := (int(l.Int64()) + 31) / 32 * 32
						if o+32+padded <= len(body) {
							if c.R.Intn(2) == 0 {
								v = append(v, make([]byte, 32*c.R.Intn(3))...) // a gap before the copy
							}
							copy(v[4+idx*32:4+idx*32+32], abi.PaddedBigBytes(big.NewInt(int64(len(v)-4)), 32))
							v = append(v, body[o:o+32+padded]...)
							moved++
						}
					}
				}
			}
			idx++
		}
		if moved > 0 {
			out = append(out, cdVariant{"all-tails-relocated", v})
		}
	}
	return out
}

type cdMethodIndex map[string]embedded.MethodVerif // contract ‖ selector

func cdIndexMethods(ms []embedded.MethodVerif) cdMethodIndex {
	idx := cdMethodIndex{}
	for _, me := range ms {
		if am, ok := me.ABI.Methods[me.Name]; ok {
			idx[string(me.Contract[:])+string(am.Id())] = me
		}
	}
	return idx
}

// cdCanonicalProblem: "" if block (a send block to an embedded contract) carries canonical call data and a hash that is
// the hash of its content; otherwise what is wrong
func cdCanonicalProblem(idx cdMethodIndex, b *nom.AccountBlock) string {
	if b == nil || !types.IsEmbeddedAddress(b.ToAddress) || b.BlockType != nom.BlockTypeUserSend {
		return ""
	}
	if b.ComputeHash() != b.Hash {
		return fmt.Sprintf("the stored hash %s is not the hash of the stored content (%s)", h8(b.Hash), h8(b.ComputeHash()))
	}
	if len(b.Data) < 4 {
		return ""
	}
	me, ok := idx[string(b.ToAddress[:])+string(b.Data[:4])]
	if !ok {
		return ""
	}
	am := me.ABI.Methods[me.Name]
	re, _, err := cdRepack(am, b.Data)
	if err != nil {
		return fmt.Sprintf("the stored call data %x of %s.%s does not decode (%v)", b.Data, addrName(b.ToAddress), me.Name, err)
	}
	if !bytes.Equal(re, b.Data) {
		return fmt.Sprintf("the stored call data of %s.%s is not in canonical form: stored %x, canonical encoding of the same arguments %x", addrName(b.ToAddress), me.Name, b.Data, re)
	}
	return ""
}

func calldataE2E(c *Ctx, id int, methods []embedded.MethodVerif) {
	origGate := verifier.ReceiverMismatchEnforcementHeight
	defer func() { verifier.ReceiverMismatchEnforcementHeight = origGate }()
	idx := cdIndexMethods(methods)
	a := NewNode()
	defer a.Stop()
	f, err := newZFollower("")
	if err != nil {
		c.Fail("calldata-e2e run=%d: %v", id, err)
		return
	}
	defer f.Destroy()
	f2, err := newZFollower("")
	if err != nil {
		c.Fail("calldata-e2e run=%d: %v", id, err)
		return
	}
	defer f2.Destroy()
	fail := func(format string, args ...interface{}) {
		c.Fail("calldata-e2e run=%d h=%d: %s", id, a.Height(), fmt.Sprintf(format, args...))
	}
	deliverHonest := func(to *zFollower) error {
		st := a.Chain().GetFrontierMomentumStore()
		var batch []*nom.DetailedMomentum
		for h := to.Height() + 1; h <= a.Height(); h++ {
			m, _ := st.GetMomentumByHeight(h)
			dm, err := st.PrefetchMomentum(m)
			if err != nil {
				return err
			}
			batch = append(batch, dm)
		}
		if len(batch) == 0 {
			return nil
		}
		_, err := to.InsertChain(batch)
		return err
	}
	// every third history runs under the later regimes too (accelerator / htlc methods exist only then)
	if id%3 == 2 {
		if err := a.ActivateSpork(types.AcceleratorSpork, "spork-accelerator"); err != nil {
			fail("spork: %v", err)
			return
		}
		if err := a.ActivateSpork(types.HtlcSpork, "spork-htlc"); err != nil {
			fail("spork: %v", err)
			return
		}
		c.Hit("e2e-history-with-sporks")
		for _, fo := range []*zFollower{f, f2} {
			if err := deliverHonest(fo); err != nil {
				fail("a follower refuses the producer's honest momentums: %v", err)
				return
			}
		}
	}
	users := []types.Address{g.User1.Address, g.User2.Address, g.User3.Address}
	// held: what node `ch` holds for (address, height) of the hostile block v, and for its hash
	checkHeld := func(ch chain.Chain, who, path string, me embedded.MethodVerif, kind string, v *nom.AccountBlock, res string) bool {
		st := ch.GetFrontierAccountStore(v.Address)
		byHash, _ := st.ByHash(v.Hash)
		byHeight, _ := st.ByHeight(v.Height)
		ok := true
		for _, hb := range []*nom.AccountBlock{byHash, byHeight} {
			if hb == nil {
				continue
			}
			if p := cdCanonicalProblem(idx, hb); p != "" {
				fail("C13 call data: a send block of %s to %s.%s with %s call data %x, hashed and signed by the owner over these bytes, delivered by %s to %s was %s, and the node now holds block %s/%d %s: %s",
					addrName(v.Address), addrName(me.Contract), me.Name, kind, v.Data, path, who, res, addrName(hb.Address), hb.Height, h8(hb.Hash), p)
				ok = false
				break
			}
		}
		if res == "accepted" && byHash == nil && byHeight == nil {
			fail("C13 call data: %s reports the block delivered by %s as accepted but holds nothing for %s/%d", who, path, addrName(v.Address), v.Height)
			ok = false
		}
		return ok
	}
	rounds := 5 + c.R.Intn(4)
	for r := 0; r < rounds; r++ {
		// 1. a call the producing node accepts in its canonical form (the block is generated, not inserted)
		var me embedded.MethodVerif
		var am abi.Method
		var canonical []byte
		var honest *nom.AccountBlock
		from := users[c.R.Intn(len(users))]
		kp := keyOf(from)
		for try := 0; try < 120 && honest == nil; try++ {
			me = methods[c.R.Intn(len(methods))]
			var ok bool
			if am, ok = me.ABI.Methods[me.Name]; !ok {
				continue
			}
			if len(am.Inputs) == 0 && c.R.Intn(8) != 0 {
				continue // a method without arguments has one encoding only (anything behind the selector is refused)
			}
			args := make([]interface{}, len(am.Inputs))
			bad := false
			for k, in := range am.Inputs {
				v, err := genABIValue(c, in.Type)
				if err != nil {
					bad = true
					break
				}
				args[k] = v
			}
			if bad {
				continue
			}
			data, err := me.ABI.PackMethod(me.Name, args...)
			if err != nil {
				continue
			}
			for _, fi := range c.R.Perm(len(cdFunds)) {
				blk := &nom.AccountBlock{Version: 1, ChainIdentifier: 1, BlockType: nom.BlockTypeUserSend, Height: 2, Address: from, ToAddress: me.Contract,
					Amount: new(big.Int).Set(cdFunds[fi].amount), TokenStandard: cdFunds[fi].zts, Data: append([]byte{}, data...)}
				if guard(func() string {
					if err := me.Method.ValidateSendBlock(blk); err != nil {
						return "err"
					}
					return "ok"
				}) != "ok" {
					continue
				}
				var tx *nom.AccountBlockTransaction
				var gerr error
				if p := safely(func() {
					tx, gerr = a.Sup.GenerateFromTemplate(&nom.AccountBlock{BlockType: nom.BlockTypeUserSend, Address: from, ToAddress: me.Contract,
						Amount: new(big.Int).Set(cdFunds[fi].amount), TokenStandard: cdFunds[fi].zts, Data: append([]byte{}, data...)}, kp.Signer)
				}); p == "" && gerr == nil && tx != nil {
					honest, canonical = tx.Block, tx.Block.Data
				}
				break
			}
		}
		if honest == nil {
			c.Hit("e2e-no-acceptable-call")
			continue
		}
		key := addrName(me.Contract) + "." + me.Name
		c.Hit("e2e-call-" + key)
		// 2. non-canonical forms of it that the method itself lets through and re-encodes
		cands := append(cdVariants(c, am.Inputs, canonical)[1:], cdMoreVariants(c, am.Inputs, canonical)...)
		for k := 0; k < 6; k++ {
			cands = append(cands, cdVariant{"hostile-mutation", abiHostileOne(c, am, canonical)})
		}
		var usable []cdVariant
		for _, v := range cands {
			blk := honest.Copy()
			blk.Data = append([]byte{}, v.data...)
			if guard(func() string {
				if err := me.Method.ValidateSendBlock(blk); err != nil {
					return "err"
				}
				return "ok"
			}) == "ok" && !bytes.Equal(blk.Data, v.data) {
				usable = append(usable, v)
			}
		}
		if len(usable) == 0 {
			c.Hit("e2e-no-noncanonical-form")
		}
		c.R.Shuffle(len(usable), func(i, j int) { usable[i], usable[j] = usable[j], usable[i] })
		if len(usable) > 3 {
			usable = usable[:3]
		}
		producerTook := false
		var lastHostile *nom.AccountBlock
		var lastKind string
		for _, v := range usable {
			hb := honest.Copy()
			hb.Data = append([]byte{}, v.data...)
			hb.Hash = hb.ComputeHash()
			hb.Signature = kp.Sign(hb.Hash.Bytes())
			if hb = rewireBlock(hb); hb == nil {
				continue
			}
			lastHostile, lastKind = hb, v.kind
			// gossip to the first follower
			res := "accepted"
			if err := f.Gossip([]*nom.AccountBlock{rewireBlock(hb)}); err != nil {
				res = "rejected"
			}
			c.Emit("calldata-e2e %s %s gossip | %s", key, v.kind, res)
			c.Hit("e2e-gossip-" + res)
			c.Hit("e2e-kind-" + v.kind)
			if !checkHeld(f.ch, "a follower", "gossip (ChainBridge.AddAccountBlocks)", me, v.kind, hb, res) {
				return
			}
			// published on the producing node
			if !producerTook {
				res = "accepted"
				if err := a.SubmitExternal(rewireBlock(hb)); err != nil {
					res = "rejected"
				}
				c.Emit("calldata-e2e %s %s publish | %s", key, v.kind, res)
				c.Hit("e2e-publish-" + res)
				if !checkHeld(a.Chain(), "the producing node", "publish (Supervisor.ApplyBlock + AddAccountBlockTransaction)", me, v.kind, hb, res) {
					return
				}
				if res == "accepted" {
					producerTook = true
				}
			}
		}
		// 3. the honest block (unless the producer holds a block at that height already) and the next momentum
		if !producerTook {
			if _, err := a.Submit(&nom.AccountBlock{BlockType: nom.BlockTypeUserSend, Address: from, ToAddress: me.Contract,
				Amount: new(big.Int).Set(honest.Amount), TokenStandard: honest.TokenStandard, Data: append([]byte{}, canonical...)}); err != nil {
				c.Hit("e2e-honest-refused")
			}
		}
		if _, err := a.Momentum(); err != nil {
			fail("momentum: %v", err)
			return
		}
		H := a.Height()
		// in-momentum: the second follower gets momentum H re-made by its producer so that it lists the non-canonical block
		if lastHostile != nil && !producerTook && f2.Height() == H-1 {
			st := a.Chain().GetFrontierMomentumStore()
			m, _ := st.GetMomentumByHeight(H)
			dm, perr := st.PrefetchMomentum(m)
			if pk := keyOf(m.Producer()); perr == nil && pk != nil {
				blocks := make([]*nom.AccountBlock, 0, len(dm.AccountBlocks)+1)
				replaced := false
				for _, b := range dm.AccountBlocks {
					if b.Address == lastHostile.Address && b.Height == lastHostile.Height {
						blocks = append(blocks, lastHostile)
						replaced = true
					} else {
						blocks = append(blocks, b)
					}
				}
				if !replaced {
					blocks = append(blocks, lastHostile)
				}
				vm := cloneMomentum(m)
				vm.Content = nom.NewMomentumContent(blocks)
				vm.Hash = vm.ComputeHash()
				vm.Signature = pk.Sign(vm.Hash.Bytes())
				if vm = rewireMomentum(vm); vm != nil {
					res := "accepted"
					if _, err := f2.InsertChain([]*nom.DetailedMomentum{{Momentum: vm, AccountBlocks: blocks}}); err != nil {
						res = "rejected"
					}
					c.Emit("calldata-e2e %s %s in-momentum | %s", key, lastKind, res)
					c.Hit("e2e-in-momentum-" + res)
					if !checkHeld(f2.ch, "a follower", "a momentum that lists it (ChainBridge.InsertChain)", me, lastKind, lastHostile, res) {
						return
					}
				}
			}
		}
		// the contract answers; everything goes to the followers honestly
		if _, err := a.Momentum(); err != nil {
			fail("momentum: %v", err)
			return
		}
		for _, fo := range []*zFollower{f, f2} {
			if err := deliverHonest(fo); err != nil {
				if producerTook {
					break // reported already
				}
				fail("a follower refuses the producer's honest momentums after non-canonical call data was delivered to it: %v", err)
				return
			}
		}
		if producerTook && lastHostile != nil {
			// confirmed by the producer's own momentum
			for _, n := range []struct {
				who string
				ch  chain.Chain
			}{{"the producing node", a.Chain()}, {"a follower", f.ch}, {"a second follower", f2.ch}} {
				if cb, _ := n.ch.GetFrontierMomentumStore().GetAccountBlockByHash(lastHostile.Hash); cb != nil {
					if p := cdCanonicalProblem(idx, cb); p != "" {
						fail("C13 call data: the confirmed ledger of %s holds block %s/%d %s: %s", n.who, addrName(cb.Address), cb.Height, h8(cb.Hash), p)
						return
					}
				}
			}
		}
		c.Hit("e2e-round")
	}
	// 4. every send block to an embedded contract in the three ledgers
	for _, n := range []struct {
		who string
		ch  chain.Chain
	}{{"the producing node", a.Chain()}, {"a follower", f.ch}, {"a second follower", f2.ch}} {
		for _, u := range append(append([]types.Address{}, users...), g.Spork.Address) {
			st := n.ch.GetFrontierAccountStore(u)
			fr, _ := st.Frontier()
			if fr == nil {
				continue
			}
			for h := uint64(1); h <= fr.Height; h++ {
				b, _ := st.ByHeight(h)
				if p := cdCanonicalProblem(idx, b); p != "" {
					fail("C13 call data: the ledger of %s holds block %s/%d %s: %s", n.who, addrName(u), h, h8(b.Hash), p)
					return
				}
				if b != nil && types.IsEmbeddedAddress(b.ToAddress) {
					c.Hit("e2e-ledger-embedded-send-checked")
				}
			}
		}
	}
	c.Hit("e2e-history")
}
