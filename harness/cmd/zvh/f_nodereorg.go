package main

// Facts for the node-level model with reorganisations (lean/ZenonVerif/Model/NodeReorg.lean, pinned in
// lean/ZenonVerif/Props/C06Reorg.lean): the shape of chainBridge.InsertChain around its side-chain branch — the skip loop's two
// tests, the top-level order (side-chain `if`, THEN the insert loop), every statement of the side-chain branch in source order
// with what it returns (link test, window test, greater-height test, the RollbackTo call and its arguments), that every error
// test of the insert loop ends in a return (the loop does not go on after a failed momentum) and what it returns — and
// AddMomentumTransaction's refusal of a momentum that is not on top of the frontier. AST of the working tree; a construct that
// is not found yields an empty value (the pinning theorem fails), not an extractor error.

import (
	"go/ast"
	"go/parser"
	"go/token"
	"path/filepath"
	"strings"
)

// one line per statement: `if <init; ><cond> => <what the body does>` for an if whose body is a single return/break/continue
// (possibly behind log calls), else the statement's source text with white space collapsed
func nrStmt(fset *token.FileSet, st ast.Stmt) string {
	squash := func(s string) string { return strings.Join(strings.Fields(s), " ") }
	if is, ok := st.(*ast.IfStmt); ok && is.Else == nil {
		head := exprStr(fset, is.Cond)
		if is.Init != nil {
			head = exprStr(fset, is.Init) + "; " + head
		}
		var last ast.Stmt
		for _, b := range is.Body.List {
			if es, ok := b.(*ast.ExprStmt); ok {
				if ce, ok := es.X.(*ast.CallExpr); ok && strings.HasPrefix(exprStr(fset, ce.Fun), "log.") {
					continue
				}
			}
			if last != nil {
				return squash("if " + head + " => …")
			}
			last = b
		}
		switch x := last.(type) {
		case *ast.ReturnStmt:
			rs := make([]string, len(x.Results))
			for i, e := range x.Results {
				rs[i] = exprStr(fset, e)
				if ce, ok := e.(*ast.CallExpr); ok && len(ce.Args) > 0 { // errors.Errorf("text", args…): the text only
					rs[i] = exprStr(fset, ce.Fun) + "(" + exprStr(fset, ce.Args[0]) + ")"
				}
			}
			return squash("if " + head + " => return " + strings.Join(rs, ", "))
		case *ast.BranchStmt:
			return squash("if " + head + " => " + x.Tok.String())
		}
		return squash("if " + head + " => …")
	}
	return squash(exprStr(fset, st))
}

func init() {
	factGens = append(factGens, func(repo string) (*factFile, error) {
		f := newFactFile("NodeReorg")
		fset := token.NewFileSet()
		cb, err := parser.ParseFile(fset, filepath.Join(repo, "protocol", "chain_bridge.go"), nil, 0)
		if err != nil {
			return nil, err
		}
		ic := findDecl(cb, "chainBridge", "InsertChain")
		skip, top, side, loopErr := []string{}, []string{}, []string{}, []string{}
		rollbackCalls, rollbackInSide := 0, 0
		if ic != nil {
			ast.Inspect(ic.Body, func(n ast.Node) bool {
				if ce, ok := n.(*ast.CallExpr); ok && exprStr(fset, ce.Fun) == "c.chain.RollbackTo" {
					rollbackCalls++
				}
				return true
			})
			for _, st := range ic.Body.List {
				switch x := st.(type) {
				case *ast.ForStmt: // the skip loop
					top = append(top, "for "+exprStr(fset, x.Cond))
					for _, b := range x.Body.List {
						skip = append(skip, nrStmt(fset, b))
					}
				case *ast.RangeStmt:
					top = append(top, "range "+exprStr(fset, x.X))
					// every `if … err != nil` of the insert loop (at any depth): does its body end in a return, and of what
					ast.Inspect(x.Body, func(n ast.Node) bool {
						is, ok := n.(*ast.IfStmt)
						if !ok || !strings.Contains(exprStr(fset, is.Cond), "err != nil") {
							return true
						}
						what := "no-return"
						if len(is.Body.List) > 0 {
							if r, ok := is.Body.List[len(is.Body.List)-1].(*ast.ReturnStmt); ok && len(r.Results) == 2 {
								what = "return " + exprStr(fset, r.Results[0]) + ", " + exprStr(fset, r.Results[1])
							}
						}
						loopErr = append(loopErr, what)
						return true
					})
				case *ast.IfStmt:
					cond := exprStr(fset, x.Cond)
					if cond == "head.Previous() != ourFrontier.Identifier()" {
						top = append(top, "if "+cond)
						for _, b := range x.Body.List {
							side = append(side, nrStmt(fset, b))
						}
						ast.Inspect(x.Body, func(n ast.Node) bool {
							if ce, ok := n.(*ast.CallExpr); ok && exprStr(fset, ce.Fun) == "c.chain.RollbackTo" {
								rollbackInSide++
							}
							return true
						})
					} else {
						top = append(top, nrStmt(fset, x))
					}
				case *ast.ReturnStmt:
					top = append(top, nrStmt(fset, x))
				}
			}
		}
		f.raw("-- protocol/chain_bridge.go InsertChain: the body of the skip loop\n")
		f.strList("nrSkipLoop", skip)
		f.raw("-- InsertChain: its top-level loops, ifs and returns in source order (the side-chain if stands before the insert loop)\n")
		f.strList("nrTopLevel", top)
		f.raw("-- InsertChain: the statements of the side-chain branch in source order\n")
		f.strList("nrSideBranch", side)
		f.raw("def nrRollbackCalls : Nat := %d   -- calls of c.chain.RollbackTo in InsertChain\n", rollbackCalls)
		f.raw("def nrRollbackCallsInSideBranch : Nat := %d   -- of which inside the side-chain branch\n", rollbackInSide)
		f.raw("-- InsertChain: what every `err != nil` test inside the insert loop ends with\n")
		f.strList("nrLoopErrBranches", loopErr)

		// ---- chain/momentum_pool.go AddMomentumTransaction: only on top of the frontier -----------------------------------
		mp, err := parser.ParseFile(fset, filepath.Join(repo, "chain", "momentum_pool.go"), nil, 0)
		if err != nil {
			return nil, err
		}
		prevTests := []string{}
		addBefore := false
		if am := findDecl(mp, "momentumPool", "AddMomentumTransaction"); am != nil {
			sawAdd := false
			for _, st := range am.Body.List {
				if is, ok := st.(*ast.IfStmt); ok {
					if strings.Contains(exprStr(fset, is.Cond), "Previous()") {
						prevTests = append(prevTests, nrStmt(fset, is))
						addBefore = addBefore || sawAdd
					}
					if is.Init != nil && strings.Contains(exprStr(fset, is.Init), "c.chainManager.Add(") {
						sawAdd = true
					}
				}
			}
		}
		f.raw("-- chain/momentum_pool.go AddMomentumTransaction: the test of the momentum's previous, and whether chainManager.Add precedes it\n")
		f.strList("nrAddMomentumPrevTests", prevTests)
		f.raw("def nrAddMomentumCommitsBeforePrevTest : Bool := %v\n", addBefore)
		return f, nil
	})
}
