package main

// Streams `frame-model` and `disc-model` (C15): the REAL rlpxFrameRW.ReadMsg / WriteMsg, readProtocolHandshake,
// discover.decodePacket / handlePacket / expired / encodePacket on raw bytes, one line per case, replayed through
// ZenonVerif/Model/Frame.lean by lean/Driver/Frame.lean. The cryptography is a parameter of the model: each line carries
// the answers of the real primitives with the real keys —
//
//	frames:  the AES-CTR key stream, and the trace of the connection's MAC hash RECORDED from the real run (a wrapper around
//	         the hash.Hash handed to the frame reader): the sum (and its AES block under the MAC key) after every Write, and
//	         length + FNV-1a of everything written. The model must write the same bytes in the same order, or it is out of step;
//	packets: Keccak-256 of buf[32:] and of buf[97:], the public key recovered from the signature, the RLP decoding of the body.
//
//	fr <k> <wire> <keystream> <sums> <writes> | m:<code>:<size>:<len>:<fnv>,…,<need|rej:hmac|rej:fmac|rej:code|panic|end>
//	fw <code> <size> <payload> <keystream> <sums> <writes> | ok:<len>:<fnv> | err | panic
//	fh <header> <keystream16> <sums> <writes> | consumed:<n>            (frames too large for a line: bytes taken from the connection)
//	hs <code> <size> | too-big | disc | not-handshake | decode
//	dd <buf> <h1> <h2> <recovered> <body> | ok <type> <from> | too-small | bad-hash | bad-sig | unknown-type | bad-body | panic
//	dh <nowSec> <buf> <h1> <h2> <recovered> <body> | (the above) | expired | bad-version | handled
//	dx <ts> <nowSec> | true | false
//	dn <n> <ipLen> <ipByte> <udp> <tcp> <exp> | <length of the datagram>
//
// Model-free monitors: no panic; a frame / packet the generator corrupted is not delivered; a neighbors datagram of
// maxNeighbors maximal nodes is below 1280 bytes.

import (
	"bytes"
	"crypto/aes"
	"crypto/cipher"
	"crypto/ecdsa"
	"errors"
	"fmt"
	"hash"
	"io"
	"net"
	"strings"
	"time"

	"github.com/ethereum/go-ethereum/crypto"
	"github.com/ethereum/go-ethereum/crypto/secp256k1"
	"github.com/ethereum/go-ethereum/rlp"
	"golang.org/x/crypto/sha3"

	"github.com/zenon-network/go-zenon/p2p"
	"github.com/zenon-network/go-zenon/p2p/discover"
)

func frFnv64(b []byte) uint64 {
	h := uint64(14695981039346656037)
	for _, x := range b {
		h ^= uint64(x)
		h *= 1099511628211
	}
	return h
}

func frHex(b []byte) string {
	if len(b) == 0 {
		return "-"
	}
	return fmt.Sprintf("%x", b)
}

// recHash records what the frame code does with its MAC hash.
type recHash struct {
	hash.Hash
	sums   [][]byte
	writes []string
}

func newRecHash(h hash.Hash) *recHash { return &recHash{Hash: h, sums: [][]byte{h.Sum(nil)}} }

func (r *recHash) Write(p []byte) (int, error) {
	n, err := r.Hash.Write(p)
	if len(p) > 0 {
		r.writes = append(r.writes, fmt.Sprintf("%d:%d", len(p), frFnv64(p)))
		r.sums = append(r.sums, r.Hash.Sum(nil))
	}
	return n, err
}

func (r *recHash) oracle(macKey []byte) (string, string) {
	blk, err := aes.NewCipher(macKey)
	if err != nil {
		panic(err)
	}
	var ss []string
	for _, s := range r.sums {
		out := make([]byte, 16)
		blk.Encrypt(out, s)
		ss = append(ss, fmt.Sprintf("%x:%x", s, out))
	}
	w := "-"
	if len(r.writes) > 0 {
		w = strings.Join(r.writes, ";")
	}
	return strings.Join(ss, ";"), w
}

func frKeys(seed []byte) (aesKey, macKey, macSeed []byte) {
	return crypto.Keccak256(seed, []byte("aes")), crypto.Keccak256(seed, []byte("mac")), crypto.Keccak256(seed, []byte("seed"))
}

func frKeystream(aesKey []byte, n int) []byte {
	c, err := aes.NewCipher(aesKey)
	if err != nil {
		panic(err)
	}
	ks := make([]byte, n)
	cipher.NewCTR(c, make([]byte, c.BlockSize())).XORKeyStream(ks, ks)
	return ks
}

var errWireExhausted = errors.New("zvh: no more bytes on the connection")

// exhaustReader: a connection that holds exactly these bytes and then has nothing (the real one would block).
type exhaustReader struct {
	b []byte
	n int
}

func (e *exhaustReader) Read(p []byte) (int, error) {
	if e.n >= len(e.b) {
		return 0, errWireExhausted
	}
	n := copy(p, e.b[e.n:])
	e.n += n
	return n, nil
}

type frOutcome struct {
	parts     []string
	delivered int
	consumed  int
	panicked  bool
	lastSize  uint32
}

// frRead runs the real reader k times (or until it fails) over wire and returns the observation and the oracle.
func frRead(seed, wire []byte, k int) (frOutcome, string, string) {
	aesKey, macKey, macSeed := frKeys(seed)
	in := sha3.NewLegacyKeccak256()
	in.Write(macSeed)
	rec := newRecHash(in)
	conn := &exhaustReader{b: wire}
	r := p2p.NewFrameRWVerif(rwPair{Reader: conn, Writer: io.Discard}, aesKey, macKey, sha3.NewLegacyKeccak256(), rec)
	var o frOutcome
	final := "end"
	for i := 0; i < k; i++ {
		var m p2p.Msg
		var err error
		var pn interface{}
		func() {
			defer func() { pn = recover() }()
			m, err = r.ReadMsg()
		}()
		if pn != nil {
			final, o.panicked = "panic", true
			break
		}
		if err != nil {
			switch {
			case errors.Is(err, errWireExhausted):
				final = "need"
			case err.Error() == "bad header MAC":
				final = "rej:hmac"
			case err.Error() == "bad frame MAC":
				final = "rej:fmac"
			default:
				final = "rej:code"
			}
			break
		}
		pay, _ := io.ReadAll(m.Payload)
		o.parts = append(o.parts, fmt.Sprintf("m:%d:%d:%d:%d", m.Code, m.Size, len(pay), frFnv64(pay)))
		o.delivered++
		o.lastSize = m.Size
	}
	o.parts = append(o.parts, final)
	o.consumed = conn.n
	sums, writes := rec.oracle(macKey)
	return o, sums, writes
}

func frEmit(c *Ctx, label string, seed, wire []byte, k int, mustStopBefore int) {
	o, sums, writes := frRead(seed, wire, k)
	aesKey, _, _ := frKeys(seed)
	c.Hit("fr-" + label)
	c.Hit("fr-final-" + o.parts[len(o.parts)-1])
	if o.panicked {
		c.Fail("C15 frame-model class=panic ReadMsg panicked on a %s stream of %d bytes, seed %x", label, len(wire), seed)
	}
	if mustStopBefore >= 0 && o.delivered > mustStopBefore {
		c.Fail("C15 frame-model class=delivered %d messages were delivered from a %s stream whose frame %d is corrupt (seed %x, wire %x)",
			o.delivered, label, mustStopBefore, seed, wire)
	}
	c.Emit("fr %d %s %s %s %s | %s", k, frHex(wire), frHex(frKeystream(aesKey, len(wire))), sums, writes, strings.Join(o.parts, ","))
}

// frWrite runs the real writer on one message with a declared size and a payload.
func frWriteCase(c *Ctx, seed []byte, code uint64, size uint32, payload []byte) {
	aesKey, macKey, macSeed := frKeys(seed)
	eg := sha3.NewLegacyKeccak256()
	eg.Write(macSeed)
	rec := newRecHash(eg)
	var buf bytes.Buffer
	w := p2p.NewFrameRWVerif(rwPair{Reader: bytes.NewReader(nil), Writer: &buf}, aesKey, macKey, rec, sha3.NewLegacyKeccak256())
	obs := ""
	func() {
		defer func() {
			if p := recover(); p != nil {
				obs = "panic"
				c.Fail("C15 frame-model class=panic WriteMsg panicked (%v) code %d size %d", p, code, size)
			}
		}()
		if err := w.WriteMsg(p2p.Msg{Code: code, Size: size, Payload: bytes.NewReader(payload)}); err != nil {
			obs = "err"
		} else {
			obs = fmt.Sprintf("ok:%d:%d", buf.Len(), frFnv64(buf.Bytes()))
		}
	}()
	if obs != "err" && obs != "panic" && uint64(size) == uint64(len(payload)) && buf.Len() > 32+(1<<24)+16 {
		c.Fail("C15 frame-model class=oversize WriteMsg wrote a frame of %d bytes (code %d size %d)", buf.Len(), code, size)
	}
	c.Hit("fw-" + strings.SplitN(obs, ":", 2)[0])
	sums, writes := rec.oracle(macKey)
	c.Emit("fw %d %d %s %s %s %s | %s", code, size, frHex(payload), frHex(frKeystream(aesKey, 32+len(payload)+48)), sums, writes, obs)
}

type fixedMsgReader struct{ m p2p.Msg }

func (f *fixedMsgReader) ReadMsg() (p2p.Msg, error) { return f.m, nil }

func frBoundaries(ends []int, sizes []int) []int {
	var out []int
	start := 0
	for i, e := range ends {
		rs := sizes[i]
		if rs%16 != 0 {
			rs += 16 - rs%16
		}
		for _, d := range []int{0, 1, 2, 3, 15, 16, 17, 31, 32, 33, 32 + sizes[i] - 1, 32 + sizes[i], 32 + rs - 1, 32 + rs, 32 + rs + 1, 32 + rs + 15} {
			if start+d < e && d >= 0 {
				out = append(out, start+d)
			}
		}
		out = append(out, e-1)
		start = e
	}
	return out
}

func init() {
	register("frame-model", func(c *Ctx) {
		muteStdout()
		// ---- directed, on every run ---------------------------------------------------------------------------------------
		{
			seed := []byte("zvh-frame-model")
			pays := [][]byte{[]byte("0123456789abcdef0123"), {}, []byte("x")}
			codes := []uint64{5, 300, 16}
			msgs := [][2]interface{}{}
			var sizes []int
			for i := range pays {
				msgs = append(msgs, [2]interface{}{codes[i], pays[i]})
				sizes = append(sizes, len(mustRlp(codes[i]))+len(pays[i]))
			}
			wire, ends := encodeFrames(seed, msgs)
			frEmit(c, "valid", seed, wire, 3, -1)
			frEmit(c, "valid-asks-more", seed, wire, 4, -1)
			frameOf := func(pos int) int {
				for j, e := range ends {
					if pos < e {
						return j
					}
				}
				return len(ends)
			}
			// truncation at every boundary of header / header MAC / body / padding / frame MAC
			for _, cut := range frBoundaries(ends, sizes) {
				frEmit(c, "dir-truncate", seed, wire[:cut], 3, frameOf(cut))
			}
			frEmit(c, "dir-empty", seed, nil, 1, 0)
			// a flipped bit in every byte of the first two frames and of the last frame's tail
			for pos := 0; pos < len(wire); pos++ {
				mut := append([]byte{}, wire...)
				mut[pos] ^= 1 << uint(pos%8)
				frEmit(c, "dir-flip", seed, mut, 3, frameOf(pos))
			}
			// re-ordered and replayed frames
			a, b, d := wire[:ends[0]], wire[ends[0]:ends[1]], wire[ends[1]:]
			cat := func(xs ...[]byte) []byte { return bytes.Join(xs, nil) }
			frEmit(c, "dir-reorder", seed, cat(b, a, d), 3, 0)
			frEmit(c, "dir-reorder", seed, cat(a, d, b), 3, 1)
			frEmit(c, "dir-reorder", seed, cat(d, b, a), 3, 0)
			frEmit(c, "dir-replay", seed, cat(a, a, b, d), 4, 1)
			frEmit(c, "dir-replay", seed, cat(a, b, b, d), 4, 2)
			frEmit(c, "dir-replay", seed, cat(a, b, d, a), 4, 3)
			frEmit(c, "dir-drop", seed, cat(a, d), 3, 1)
			// sealed frames (both MACs right) around every shape of content: bad codes are rejected behind the MACs
			for _, sc := range frameSweepContents() {
				fs := newFrameSealer(seed)
				fs.frame(sc.payload, nil, 0)
				fs.frame(append(mustRlp(uint64(7)), []byte("ordinary")...), nil, 0)
				frEmit(c, "sealed-"+sc.label, seed, fs.buf.Bytes(), 2, -1)
			}
			// declared size larger than what follows / smaller than what follows (sealed header, body of another length)
			for _, decl := range []int{1, 15, 16, 17, 100, 65535, 1<<24 - 1} {
				fs := newFrameSealer(seed)
				fs.frame(append(mustRlp(uint64(9)), make([]byte, 40)...), nil, 0)
				full := append([]byte{}, fs.buf.Bytes()...)
				fs2 := newFrameSealer(seed)
				head := make([]byte, 16)
				head[0], head[1], head[2] = byte(decl>>16), byte(decl>>8), byte(decl)
				copy(head[3:], []byte{0xC2, 0x80, 0x80})
				fs2.enc.XORKeyStream(head, head)
				mac := sealUpdateMAC(fs2.egress, fs2.macCipher, head)
				mut := append(append(append([]byte{}, head...), mac...), full[32:]...)
				frEmit(c, "dir-declared-size", seed, mut, 2, 0)
			}
			// frame sizes around the padding and the 16-bit boundaries
			for _, n := range []int{0, 1, 14, 15, 16, 17, 30, 31, 32, 33, 255, 256, 65534, 65535, 65536, 65537} {
				pay := make([]byte, n)
				for i := range pay {
					pay[i] = byte(i * 7)
				}
				w, _ := encodeFrames(seed, [][2]interface{}{{uint64(3), pay}, {uint64(1 << 40), []byte("next")}})
				frEmit(c, "dir-size", seed, w, 2, -1)
				if n >= 255 {
					frEmit(c, "dir-size-truncated", seed, w[:len(w)-1-len("next")-16-32-16], 2, 0)
				}
			}
			// the writer: size gate of the 24-bit field (declared sizes; the payload is not read before the test)
			for _, cs := range [][2]uint64{{1, 1<<24 - 3}, {1, 1<<24 - 2}, {1, 1<<24 - 1}, {1, 1 << 24}, {300, 1<<24 - 4}, {300, 1<<24 - 3}, {1 << 63, 1<<24 - 10},
				{1 << 63, 1<<24 - 9}, {1, 1<<32 - 1}, {1, 1<<32 - 2}, {300, 1<<32 - 3}, {300, 1<<32 - 4}, {0, 1<<31 + 5}} {
				if cs[1] > 1<<24 {
					frWriteCase(c, seed, cs[0], uint32(cs[1]), []byte("declared-only"))
					continue
				}
				// below the gate the payload is written out: only the refusals are asked with a short payload
				if uint64(len(mustRlp(cs[0])))+cs[1] > 1<<24-1 {
					frWriteCase(c, seed, cs[0], uint32(cs[1]), []byte("declared-only"))
				}
			}
			for _, n := range []int{0, 1, 14, 15, 16, 17, 31, 32, 33, 1000} {
				for _, code := range []uint64{0, 1, 127, 128, 255, 256, 1 << 32, 1<<64 - 1} {
					frWriteCase(c, seed, code, uint32(n), make([]byte, n))
				}
			}
			// frames too large for a line: the largest frame the writer accepts, one below, and a message one byte over 10 MiB
			for _, total := range []int{1<<24 - 1, 1<<24 - 2, 1<<24 - 16, 1<<24 - 17, 10*1024*1024 + 1 + 1, 10*1024*1024 + 1} {
				pay := make([]byte, total-1)
				w, _ := encodeFrames(seed, [][2]interface{}{{uint64(17), pay}})
				o, sums, writes := frRead(seed, w, 1)
				if o.delivered != 1 || int(o.lastSize) != total-1 {
					c.Fail("C15 frame-model: a valid frame of %d bytes is not read back (%v)", total, o.parts)
				}
				if o.consumed > 32+(1<<24)+16 {
					c.Fail("C15 frame-model class=alloc %d bytes taken from the connection for one frame", o.consumed)
				}
				aesKey, _, _ := frKeys(seed)
				ss := strings.Split(sums, ";")
				ws := strings.Split(writes, ";")
				c.Hit("fh-big")
				c.Emit("fh %x %x %s %s | consumed:%d", w[:32], frKeystream(aesKey, 16), strings.Join(ss[:2], ";"), ws[0], o.consumed)
				// and cut one byte short: the reader waits
				o2, _, _ := frRead(seed, w[:len(w)-1], 1)
				if o2.delivered != 0 || o2.parts[0] != "need" {
					c.Fail("C15 frame-model class=delivered a frame of %d bytes cut one byte short: %v", total, o2.parts)
				}
			}
			// readProtocolHandshake: the size gate in front of the tests on the code
			for _, code := range []uint64{0, 1, 2, 16, 1 << 40} {
				for _, size := range []uint32{0, 1, 2047, 2048, 2049, 1 << 20, 1<<24 - 1, 1<<32 - 1} {
					err := p2p.ReadProtocolHandshakeVerif(&fixedMsgReader{p2p.Msg{Code: code, Size: size, Payload: bytes.NewReader(nil)}}, 4)
					cl := "decode"
					var dr p2p.DiscReason
					switch {
					case err != nil && err.Error() == "message too big":
						cl = "too-big"
					case errors.As(err, &dr):
						cl = "disc"
					case err != nil && strings.HasPrefix(err.Error(), "expected handshake"):
						cl = "not-handshake"
					}
					if size > 2048 && cl != "too-big" {
						c.Fail("C15 frame-model class=handshake-size a first message of %d bytes (code %d) got past the size test: %s", size, code, cl)
					}
					c.Hit("hs-" + cl)
					c.Emit("hs %d %d | %s", code, size, cl)
				}
			}
		}
		// ---- random ----------------------------------------------------------------------------------------------------------
		for i := 0; i < c.N; i++ {
			seed := make([]byte, 16)
			c.R.Read(seed)
			nm := 1 + c.R.Intn(3)
			var msgs [][2]interface{}
			var sizes []int
			for j := 0; j < nm; j++ {
				ns := []int{0, 1, 13, 14, 15, 16, 17, 31, 32, 100, 300, 1000}
				pay := make([]byte, ns[c.R.Intn(len(ns))])
				c.R.Read(pay)
				code := []uint64{0, 1, 8, 16, 127, 128, 255, 256, 1 << 20, 1<<63 + 5, 1<<64 - 1}[c.R.Intn(11)]
				msgs = append(msgs, [2]interface{}{code, pay})
				sizes = append(sizes, len(mustRlp(code))+len(pay))
			}
			wire, ends := encodeFrames(seed, msgs)
			frameOf := func(pos int) int {
				for j, e := range ends {
					if pos < e {
						return j
					}
				}
				return len(ends)
			}
			switch k := c.R.Intn(100); {
			case k < 10:
				frEmit(c, "valid", seed, wire, nm+c.R.Intn(2), -1)
			case k < 45:
				pos := c.R.Intn(len(wire))
				mut := append([]byte{}, wire...)
				mut[pos] ^= 1 << uint(c.R.Intn(8))
				frEmit(c, "flip", seed, mut, nm, frameOf(pos))
			case k < 60:
				bs := frBoundaries(ends, sizes)
				cut := bs[c.R.Intn(len(bs))]
				if c.R.Intn(2) == 0 {
					cut = c.R.Intn(len(wire))
				}
				frEmit(c, "truncate", seed, wire[:cut], nm, frameOf(cut))
			case k < 70 && nm >= 2:
				a, b := wire[:ends[0]], wire[ends[0]:ends[1]]
				if bytes.Equal(a, b) {
					continue
				}
				frEmit(c, "reorder", seed, bytes.Join([][]byte{b, a, wire[ends[1]:]}, nil), nm, 0)
			case k < 80:
				j := c.R.Intn(nm)
				st := 0
				if j > 0 {
					st = ends[j-1]
				}
				mut := bytes.Join([][]byte{wire[:ends[j]], wire[st:ends[j]], wire[ends[j]:]}, nil)
				frEmit(c, "replay", seed, mut, nm+1, j+1)
			case k < 87:
				mut := make([]byte, c.R.Intn(140))
				c.R.Read(mut)
				frEmit(c, "garbage", seed, mut, 1, 0)
			case k < 94:
				pos := c.R.Intn(len(wire))
				mut := bytes.Join([][]byte{wire[:pos], {byte(c.R.Intn(256))}, wire[pos:]}, nil)
				frEmit(c, "insert", seed, mut, nm, frameOf(pos))
			default:
				code := []uint64{0, 5, 200, 70000, 1 << 50}[c.R.Intn(5)]
				n := c.R.Intn(70)
				pay := make([]byte, n)
				c.R.Read(pay)
				size := uint32(n)
				if c.R.Intn(3) == 0 {
					size = []uint32{0, uint32(n) + 1, 1<<24 - 1, 1 << 24, 1<<32 - 1, uint32(1<<32 - len(mustRlp(code)))}[c.R.Intn(6)]
				}
				frWriteCase(c, seed, code, size, pay)
			}
		}
	})

	register("disc-model", func(c *Ctx) {
		muteStdout()
		formatLogs()
		var keys []*ecdsa.PrivateKey
		for i := 0; i < 3; i++ {
			k, err := crypto.GenerateKey()
			if err != nil {
				panic(err)
			}
			keys = append(keys, k)
		}
		live, lerr := newDiscLive()
		if lerr != nil {
			live = nil
			c.Hit("live-node-unavailable")
		} else {
			defer live.close()
			c.Hit("live-node-up")
		}
		from := &net.UDPAddr{IP: net.IPv4(127, 0, 0, 1), Port: 9}
		if live != nil {
			from = live.sock.LocalAddr().(*net.UDPAddr)
		}
		classOf := func(err error, kind byte) string {
			switch {
			case err == nil:
				return "ok"
			case err.Error() == "too small":
				return "too-small"
			case err.Error() == "bad hash":
				return "bad-hash"
			case strings.HasPrefix(err.Error(), "unknown type"):
				return "unknown-type"
			case err.Error() == "expired":
				return "expired"
			case err.Error() == "version mismatch":
				return "bad-version"
			case err.Error() == "unsolicited reply", err.Error() == "unknown node":
				return "handled"
			}
			return "other"
		}
		// the oracle answers for one datagram
		oracle := func(buf []byte) (h1, h2, rec, body string) {
			h1, h2, rec, body = "-", "-", "-", "-"
			if len(buf) >= 32 {
				h1 = fmt.Sprintf("%x", crypto.Keccak256(buf[32:]))
			}
			if len(buf) >= 97 {
				hh := crypto.Keccak256(buf[97:])
				h2 = fmt.Sprintf("%x", hh)
				rec = "x"
				if pk, err := secp256k1.RecoverPubkey(hh, buf[32:97]); err == nil && len(pk) == 65 {
					rec = fmt.Sprintf("%x", pk[1:])
				}
			}
			if len(buf) >= 98 {
				body = "x"
				switch buf[97] {
				case 1:
					var v dPing
					if rlp.DecodeBytes(buf[98:], &v) == nil {
						body = fmt.Sprintf("e%dv%d", v.Expiration, v.Version)
					}
				case 2:
					var v dPong
					if rlp.DecodeBytes(buf[98:], &v) == nil {
						body = fmt.Sprintf("e%dv0", v.Expiration)
					}
				case 3:
					var v dFindnode
					if rlp.DecodeBytes(buf[98:], &v) == nil {
						body = fmt.Sprintf("e%dv0", v.Expiration)
					}
				case 4:
					var v dNeighbors
					if rlp.DecodeBytes(buf[98:], &v) == nil {
						body = fmt.Sprintf("e%dv0", v.Expiration)
					}
				}
			}
			return
		}
		emit := func(label string, buf []byte, corrupted bool, nearNow bool) {
			h1, h2, rec, body := oracle(buf)
			var kind byte
			var id discover.NodeID
			var err error
			var pn interface{}
			func() {
				defer func() { pn = recover() }()
				kind, id, _, err = discover.DecodePacketVerif(buf)
			}()
			obs := ""
			switch {
			case pn != nil:
				obs = "panic"
				c.Fail("C15 disc-model class=panic decodePacket panicked (%s) on a %s datagram of %d bytes: %x", firstLine(fmt.Sprint(pn)), label, len(buf), buf)
			case err == nil:
				obs = fmt.Sprintf("ok %d %x", kind, id[:])
				if corrupted {
					c.Fail("C15 disc-model class=accepted a %s datagram was accepted (kind %d): %x", label, kind, buf)
				}
			default:
				obs = classOf(err, kind)
				if obs == "other" {
					if kind != 0 {
						obs = "bad-body"
					} else {
						obs = "bad-sig"
					}
				}
			}
			c.Hit("dd-" + label)
			c.Hit("dd-obs-" + strings.SplitN(obs, " ", 2)[0])
			c.Emit("dd %s %s %s %s %s | %s", frHex(buf), h1, h2, rec, body, obs)
			if live == nil || nearNow {
				return
			}
			// the same datagram through handlePacket of a listening node
			now := time.Now().Unix()
			var herr error
			pn = nil
			func() {
				defer func() { pn = recover() }()
				herr = discover.HandlePacketVerif(live.tab, from, buf)
			}()
			if time.Now().Unix() != now {
				c.Hit("dh-second-changed")
				return
			}
			hobs := ""
			switch {
			case pn != nil:
				hobs = "panic"
				c.Fail("C15 disc-model class=panic handlePacket panicked (%s) on a %s datagram: %x", firstLine(fmt.Sprint(pn)), label, buf)
			case herr == nil:
				hobs = "handled"
			default:
				hobs = classOf(herr, kind)
				if hobs == "other" {
					if kind != 0 {
						hobs = "bad-body"
					} else {
						hobs = "bad-sig"
					}
				}
			}
			if corrupted && hobs == "handled" {
				c.Fail("C15 disc-model class=handled a %s datagram was handled: %x", label, buf)
			}
			c.Hit("dh-obs-" + hobs)
			c.Emit("dh %d %s %s %s %s %s | %s", now, frHex(buf), h1, h2, rec, body, hobs)
		}
		now := uint64(time.Now().Unix())
		future := now + 3600
		exps := []uint64{future, now + 300, now - 300, 0, 1, 1<<31 - 1, 1 << 31, 1<<32 + 5, 1<<62 - 1, 1<<63 - 62135596801, 1<<63 - 62135596800,
			1<<63 - 62135596799, 1<<63 - 1, 1 << 63, 1<<63 + 1, 1<<64 - 62135596801, 1<<64 - 1}
		// ---- directed ------------------------------------------------------------------------------------------------------
		{
			priv := keys[0]
			id := discover.PubkeyID(&priv.PublicKey)
			pkt, err := discover.EncodePacketVerif(priv, 1, future, 0)
			if err != nil {
				panic(err)
			}
			// every length 0 .. headSize+2 of a valid packet, of zeros, and of a correctly hashed prefix
			for n := 0; n <= discover.HeadSizeVerif+2; n++ {
				emit("len-prefix", pkt[:n], true, false)
				emit("len-zeros", make([]byte, n), true, false)
				if n >= 32 {
					b := append([]byte{}, pkt[:n]...)
					copy(b, crypto.Keccak256(b[32:]))
					emit("len-rehashed", b, n < len(pkt), false)
				}
			}
			// sealed payloads of length 0, 1 (type byte only, every value), 2
			emit("sealed-len0", sealPacket(priv, nil), true, false)
			for t := 0; t < 256; t++ {
				emit("sealed-type-only", sealPacket(priv, []byte{byte(t)}), true, false)
			}
			// every packet type (and unknown ones) x every expiration
			for kind := byte(0); kind <= 6; kind++ {
				for _, exp := range exps {
					k := kind
					if k == 0 || k > 4 {
						k = 1 + kind%4
					}
					body := mustRlp(discBodyFields(k, id, exp, 2))
					emit(fmt.Sprintf("type-%d", kind), sealPacket(priv, append([]byte{kind}, body...)), kind == 0 || kind > 4, exp-now+3 < 6)
				}
			}
			// ping with other versions
			for _, v := range []uint{0, 3, 4, 5, 1 << 20} {
				ep := dEndpoint{IP: net.IPv4(127, 0, 0, 1).To4(), UDP: 30303, TCP: 30303}
				emit("ping-version", sealPacket(priv, append([]byte{1}, mustRlp([]interface{}{v, ep, ep, future})...)), false, false)
			}
			// one flipped bit in every byte of a valid packet of each type
			for kind := byte(1); kind <= 4; kind++ {
				p, err := discover.EncodePacketVerif(priv, kind, future, 2)
				if err != nil {
					panic(err)
				}
				emit("valid", p, false, false)
				for pos := 0; pos < len(p); pos++ {
					m := append([]byte{}, p...)
					m[pos] ^= 1 << uint(pos%8)
					emit("flip", m, true, false)
				}
				// the same with the hash recomputed (the hash protects nothing: the signature must)
				for pos := 32; pos < len(p); pos += 3 {
					m := append([]byte{}, p...)
					m[pos] ^= 1 << uint(pos%8)
					copy(m, crypto.Keccak256(m[32:]))
					_, id2, _, err := discover.DecodePacketVerif(m)
					emit("flip-rehashed", m, err == nil && id2 == id, false)
				}
				emit("extended", append(append([]byte{}, p...), 0), true, false)
				emit("oversized", append(append([]byte{}, p...), make([]byte, 1281-len(p))...), true, false)
			}
			// the expiry test on its own
			for _, ts := range exps {
				if ts-now+3 < 6 {
					continue
				}
				n0 := time.Now().Unix()
				r := discover.ExpiredVerif(ts)
				if time.Now().Unix() != n0 {
					continue
				}
				c.Hit("dx")
				c.Emit("dx %d %d | %v", ts, n0, r)
			}
			// the size of neighbors datagrams
			mx := discover.MaxNeighborsVerif()
			for _, n := range []int{0, 1, 2, mx - 1, mx, mx + 1} {
				for _, ip := range [][2]int{{4, 10}, {16, 0}, {16, 255}, {1, 5}, {1, 200}, {0, 0}} {
					for _, port := range []uint16{0, 1, 127, 128, 255, 256, 65535} {
						for _, exp := range []uint64{0, 127, 128, future, 1<<64 - 1} {
							p, err := discover.EncodeNeighborsVerif(priv, n, ip[0], byte(ip[1]), port, port/2, exp)
							if err != nil {
								panic(err)
							}
							if n <= mx && ip[0] <= 16 && len(p) >= 1280 {
								c.Fail("C15 disc-model class=reply-size a neighbors datagram of %d nodes (maxNeighbors %d) is %d bytes long", n, mx, len(p))
							}
							c.Hit("dn")
							c.Emit("dn %d %d %d %d %d %d | %d", n, ip[0], ip[1], port, port/2, exp, len(p))
						}
					}
				}
			}
		}
		// ---- random ----------------------------------------------------------------------------------------------------------
		for i := 0; i < c.N; i++ {
			priv := keys[c.R.Intn(len(keys))]
			id := discover.PubkeyID(&priv.PublicKey)
			kind := byte(1 + c.R.Intn(4))
			exp := exps[c.R.Intn(len(exps))]
			near := exp-now+3 < 6
			pkt := sealPacket(priv, append([]byte{kind}, mustRlp(discBodyFields(kind, id, exp, c.R.Intn(14)))...))
			switch k := c.R.Intn(100); {
			case k < 15:
				emit("r-valid", pkt, false, near)
			case k < 45:
				pos := c.R.Intn(len(pkt))
				m := append([]byte{}, pkt...)
				m[pos] ^= 1 << uint(c.R.Intn(8))
				emit("r-flip", m, true, near)
			case k < 60:
				emit("r-truncate", pkt[:c.R.Intn(len(pkt))], true, near)
			case k < 70:
				m := make([]byte, c.R.Intn(200))
				c.R.Read(m)
				emit("r-garbage", m, true, near)
			case k < 85:
				m := append([]byte{}, pkt...)
				pos := discover.HeadSizeVerif + c.R.Intn(len(m)-discover.HeadSizeVerif)
				m[pos] ^= 1 << uint(c.R.Intn(8))
				copy(m, crypto.Keccak256(m[32:]))
				_, id2, _, err := discover.DecodePacketVerif(m)
				emit("r-flip-rehashed", m, err == nil && id2 == id, near)
			default:
				sc := discRandomSealed(c, id, future)
				emit("r-sealed", sealPacket(priv, sc.payload), false, false)
			}
		}
	})
}
